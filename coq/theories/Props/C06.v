(** C06 -- federation is transparent: the gateway answers like one combined server.

    Model: Federation/Normalize.v (flattenFragments, mergeSameAlias as repaired and as it was, flatten),
    Federation/Planner.v (selectService, planObject, planUnion, key selections, paths),
    Federation/Executor.v (extractKeys as repaired and as it was, the sub-query a service answers, stitching
    result i into target i, deleteKey; [fed_exec] = the whole gateway; [eval_ref] = GraphQL's reference
    semantics on one combined server; [eval_ref .. true] = the same with __typename reported on every object
    reached through a union-typed field, which the gateway's answer always carries).  On every run the
    model's normalised query, plan and answer are compared with the gateway's, [eval_ref] with the harness'
    reference evaluator, and the premises below are evaluated (Federation/Check06.v).

    MAIN THEOREM ([federation_transparent], proved): for every world of data [w] (every resolver a function of
    object, field and arguments), every federation [g] (partition of the fields over services, federated keys,
    ServiceSelector), every resolution [pick] of the "some service that has the field" choice, every query [q]:
    under the premises, the gateway answers, the reference semantics answers, and the two answers are equal as
    JSON maps ([jeq]: objects compared by key, arrays in order); [choice_independent]: any two resolutions of
    the choice give the same answer.  It composes, through the whole plan tree and through union expansion,
      (P) planner + executor on a normalised query = the combined server on that query (FedPlanSem.root_sem:
          induction over the planner's recursion; per object: local selections and their lifted sub-plans,
          the _federation key selection, one sub-plan per other service run for the keys extracted from the
          batch and merged back object by object (FedBase.exec_batch), union members by __typename);
      (N) the combined server on the normalised query = the reference semantics on the query as written
          (NormSem.norm_sem: flattenFragments = CollectFields, mergeSameAlias = grouping by response key,
          flatten's recursion in lock-step with the reference evaluator's, member by member on unions).
    Premises -- all decidable, all evaluated on the generated cases ([Premises.premises], component 6 of the
    correspondence check; every model-evaluated case of a run satisfies them, the harness reports the count):
      [fed_ok0 g]               nothing returns Query, Query is no union member, no service is called like the
                                coordinator;
      [plain_ok g]              the plain (non-federated) object Leaf -- registered without key and without
                                _federation by every service whose fields return it -- has scalar fields only, is
                                no union member, is not subject to the ServiceSelector, and whoever serves a field
                                returning it serves all of its fields (so the planner never hops below it);
      [fed_ok2 g]               every service that serves a field of a federated object can re-fetch it by id;
                                id/org are scalars; results of Query carry no __key;
      [sel_ok g]                every field has an owner, a ServiceSelector entry names an owner (the two ways
                                selectService can fail);
      [calls_ok g calls]        the data is well typed: object-typed fields yield (lists of) objects of that type
                                (ALeaf for Leaf), union-typed fields members of the union, scalar-typed fields scalars;
      [forallb qwf q]           the query is shaped as the parser delivers it (a selection without a selection set
                                has no sub-selections); @skip/@include are unrestricted: on field selections
                                (__typename, repeated aliases included), on fragments, both on one node;
      [flat_ok g "Query" flat]  the normalised query selects known fields, uses no reserved alias
                                (_federation, __key; __typename only for __typename), keeps no selection its
                                directives exclude (true by construction of the repaired flattener, patches/C06-fix-4),
                                and every union selection has at least one (non-empty) fragment on a member -- it
                                need not cover every member: an object of a member without a fragment is rendered
                                with the union-level __typename alone, by the gateway and by the reference alike.
    That the planner succeeds is NOT a premise: [planner_total] / [planner_total_on_normal_forms].
    [fed_ok g] (who has _federation on what, who serves the federated keys) is not needed for the equality of
    answers -- the model's services answer any selection -- but for the plans to be executable by real services:
    [subquery_closed], evaluated on every case in which each service has a federated object.
    Outside these premises: mutations are not modelled (the model's root is Query; 12 % of the generated cases)
    and lists of hundreds of objects are too large for the evaluation; the harness' oracle covers those cases end
    to end.  The flattener as it was
    (selections excluded by their own directives took part in the grouping by alias, [fed_exec_gen false])
    violated the property: [gateway_merges_excluded_selection_refuted].
    Schema refreshes: see [request_uses_one_snapshot] and the theorems after it (Federation/Refresh.v).
    NOT proved: the relation between [eval_ref .. true] and [eval_ref .. false] (removing the __typename entries
    the query did not ask for), which the harness' comparison implements. *)
From Coq Require Import List String Bool ZArith Permutation.
From Thunder Require Import Lib.Json Federation.Merge Federation.Normalize Federation.Planner Federation.Executor
  Federation.NormalizeProofs Federation.PlannerProofs Federation.ExecutorProofs Federation.FedWitness
  Federation.FedBase Federation.FedSem Federation.FedPlanSem Federation.Premises Federation.NormSem
  Federation.Transparency Federation.PlannerTotal Federation.Check06
  Federation.StitchProofs Federation.Refresh Federation.RefreshProofs Federation.MergeProofsKeys Federation.Compose Federation.RefreshPoll.
Import ListNotations.
Open Scope string_scope.

(** MAIN: the gateway and the reference semantics both answer, with the same JSON map.  That the planner
    succeeds is no longer a premise: it is [planner_total] below. *)
Theorem federation_transparent :
  forall w g pick q flat,
    (forall l s, pick l = Some s -> In s l) -> (forall l, l <> [] -> exists s, pick l = Some s) ->
    fed_ok0 g = true -> plain_ok g = true -> fed_ok2 g = true -> sel_ok g = true ->
    world_ok w g -> (forall ty id f ak, scalars_ok (w_value w ty id f ak)) ->
    (forall ty id f ak owners, find_gfield g ty f = Some (RScalar, owners) -> sval (w_value w ty id f ak)) ->
    forallb qwf q = true ->
    flatten (2 * depth_list q + 4) false g (RObj "Query") (Some q) = Some (Some flat) ->
    flat_ok g "Query" flat = true ->
    exists a r, fed_exec w g pick false true q = Some a /\
                eval_ref w g true (2 * depth_list q + 4) "Query" 0%Z q = Some r /\ jeq a r.
Proof. exact Transparency.fed_transparent. Qed.
Print Assumptions federation_transparent.

(** ... with all premises as the one boolean the correspondence check evaluates on every generated case
    (there: [pick = first_owner], the table of resolver results of the case as the world). *)
Theorem federation_transparent_on_case :
  forall g calls orgs q,
    premises g calls first_owner q = true ->
    exists a r, fed_exec (world_of calls orgs) g first_owner false true q = Some a /\
                eval_ref (world_of calls orgs) g true (2 * depth_list q + 4) "Query" 0%Z q = Some r /\ jeq a r.
Proof. exact (fun g calls orgs q => Transparency.fed_transparent_on_case g calls orgs first_owner q first_owner_sound first_owner_total). Qed.
Print Assumptions federation_transparent_on_case.

(** ... and the answer does not depend on which of several services that serve a field is chosen. *)
Theorem choice_independent :
  forall w g pick1 pick2 q flat,
    (forall l s, pick1 l = Some s -> In s l) -> (forall l s, pick2 l = Some s -> In s l) ->
    (forall l, l <> [] -> exists s, pick1 l = Some s) -> (forall l, l <> [] -> exists s, pick2 l = Some s) ->
    fed_ok0 g = true -> plain_ok g = true -> fed_ok2 g = true -> sel_ok g = true ->
    world_ok w g -> (forall ty id f ak, scalars_ok (w_value w ty id f ak)) ->
    (forall ty id f ak owners, find_gfield g ty f = Some (RScalar, owners) -> sval (w_value w ty id f ak)) ->
    forallb qwf q = true ->
    flatten (2 * depth_list q + 4) false g (RObj "Query") (Some q) = Some (Some flat) ->
    flat_ok g "Query" flat = true ->
    exists a1 a2, fed_exec w g pick1 false true q = Some a1 /\ fed_exec w g pick2 false true q = Some a2 /\ jeq a1 a2.
Proof. exact Transparency.fed_choice_independent. Qed.
Print Assumptions choice_independent.

(** PLANNER TOTALITY: on a well-formed normalised selection set, over a federation in which every field has an
    owner and every ServiceSelector entry names an owner ([sel_ok], decidable -- the two ways selectService can
    fail), for every resolution [pick] of the free choice that answers on non-empty owner lists, planRoot
    (planObject / planUnion / selectService, at every depth, including the re-planning of the selections sent
    to another service) never fails, given fuel [pdl flat + 2] ([pdl]: two units per field level, one per
    union-member fragment); ... *)
Theorem planner_total :
  forall g pick,
    (forall l s, pick l = Some s -> In s l) -> (forall l, l <> [] -> exists s, pick l = Some s) ->
    sel_ok g = true -> forall fuel flat, flat_ok g "Query" flat = true -> pdl flat + 2 <= fuel ->
    exists p, plan_root g pick fuel flat = Some p.
Proof. exact PlannerTotal.plan_root_total. Qed.
Print Assumptions planner_total.

(** ... and the fuel [fed_exec] hands the planner (twice the normaliser's, plus two) is enough for the normal
    form of every query, whatever the flattener variant: fuel is a device of the model, never the reason for a
    failure of the modelled gateway. *)
Theorem planner_total_on_normal_forms :
  forall g pick prune dedupe fuel q flat,
    (forall l s, pick l = Some s -> In s l) -> (forall l, l <> [] -> exists s, pick l = Some s) ->
    sel_ok g = true ->
    flatten_gen prune fuel dedupe g (RObj "Query") (Some q) = Some (Some flat) -> flat_ok g "Query" flat = true ->
    exists p, plan_root g pick (2 * fuel + 2) flat = Some p.
Proof. exact PlannerTotal.plan_root_total_flatten. Qed.
Print Assumptions planner_total_on_normal_forms.

(** Kinds of sub-queries: whatever the request (query or mutation), every step of the plan that is not directly
    below the root -- every hop -- is sent to its service as a query (the harness checks the kind every
    service receives on every run, mutations included). *)
Theorem hop_subqueries_are_queries :
  forall root_kind p d svc k, In (d, svc, k) (step_kinds root_kind 0 p) -> d <> 1 -> k = "query".
Proof. intros root_kind p d svc k. exact (FedBase.hops_are_queries root_kind p 0 d svc k). Qed.
Print Assumptions hop_subqueries_are_queries.

(** The two halves of the main theorem.  (P): planner + executor on a normalised query answer like the
    combined server asked that query with __typename on every union selection ([simv]: equal as maps once the
    _federation keys are deleted). *)
Theorem plan_and_stitch_is_combined_server :
  forall w g pick,
    (forall l s, pick l = Some s -> In s l) -> fed_ok0 g = true -> plain_ok g = true -> fed_ok2 g = true ->
    world_ok w g -> (forall ty id f ak, scalars_ok (w_value w ty id f ak)) ->
    forall fuel flat p,
      plan_root g pick fuel flat = Some p -> flat_ok g "Query" flat = true ->
      exists L, exec_plan w g true p None = Some [JObj L] /\
                simv (JObj L) (eval_obj w (keyed g) "Query" 0%Z (map annot flat)).
Proof. exact FedPlanSem.root_sem. Qed.
Print Assumptions plan_and_stitch_is_combined_server.

(** (N): normalisation preserves the meaning of the query, at every object type and depth. *)
Theorem normalisation_preserves_meaning :
  forall w g,
    world_ok w g ->
    (forall ty id f ak owners, find_gfield g ty f = Some (RScalar, owners) -> sval (w_value w ty id f ak)) ->
    forall fuel ty id sels flat,
      flatten fuel false g (RObj ty) (Some sels) = Some (Some flat) -> Forall qwfP sels -> flat_ok g ty flat = true ->
      exists r, eval_ref w g true fuel ty id sels = Some r /\ jeq (eval_obj w (keyed g) ty id (map annot flat)) r.
Proof. exact NormSem.norm_sem. Qed.
Print Assumptions normalisation_preserves_meaning.

(** (1) Each sub-query sent to a service only uses fields that service exposes.
    [fed_ok g] is decidable and evaluated on every generated federation: a service serving a field of a type
    has _federation on that type and on the objects the field returns; whoever has _federation on a type
    serves the fields other services use as its federated keys (what validateFederatedObjects /
    validateFederationKeys enforce); the plain object Leaf has no _federation: [plain_ok g] says that a service
    that serves a field returning it serves all of it, and then every selection on it stays with that service.
    Arguments are not part of the model's schema; the harness checks them on every recorded sub-request. *)
Theorem subquery_closed :
  forall g pick fuel flat p,
    fed_ok g = true -> plain_ok g = true -> (forall l s, pick l = Some s -> In s l) ->
    forallb not_fed flat = true ->
    plan_root g pick fuel flat = Some p -> forallb (plan_closed g) (p_after p) = true.
Proof. exact PlannerProofs.subquery_closed. Qed.
Print Assumptions subquery_closed.

(** (2) Normalisation keeps every selection, one level of [flatten]
    ([normalisation_preserves_meaning] is the statement for whole queries).
    a: flattenFragments (as repaired) is exactly CollectFields, directives honoured;
    b: mergeSameAlias (as repaired) gives each alias exactly the sub-selections the query gave it, in order. *)
Theorem normalisation_keeps_every_selection :
  (forall g obj l flat, flatten_frags g obj l = Some flat -> flat = collect_all g obj l) /\
  (forall l r, Forall hs_ok l -> merge_same_alias false l = Some r -> forall a, subs_of a r = subs_of a l).
Proof. split; [exact NormalizeProofs.flatten_frags_collects | exact NormalizeProofs.merge_same_alias_keeps_subs]. Qed.
Print Assumptions normalisation_keeps_every_selection.

(** ... which the code before the repair violated (DESIGN F15). *)
Theorem merge_same_alias_original_refuted :
  exists l r a, Forall hs_ok l /\ merge_same_alias true l = Some r /\ subs_of a r <> subs_of a l.
Proof. exact NormalizeProofs.merge_same_alias_original_loses. Qed.
Print Assumptions merge_same_alias_original_refuted.

(** (3) Stitching: [graft] walks the result exactly as extractKeys does and consumes, from the front, exactly
    as many sub-results as extractKeys returned keys -- result i goes to target i. *)
Theorem stitching_consumes_in_order :
  forall path node ks rs extra node' rest,
    extract_keys true path node = Some ks -> List.length rs = List.length ks ->
    graft path node (rs ++ extra) = Some (node', rest) -> rest = extra.
Proof. exact ExecutorProofs.graft_consumes. Qed.
Print Assumptions stitching_consumes_in_order.

(** End to end on a concrete two-service federation: the gateway as repaired agrees with the reference
    semantics where the code as it was did not.  F15: { self{p} self{ self{p} self{q} } } lost q. *)
Theorem gateway_loses_repeated_alias_refuted :
  exists w g pick q,
    option_map norm (fed_exec w g pick true true q) <> option_map norm (eval_ref w g false 9 "Query" 0%Z q) /\
    option_map norm (fed_exec w g pick false true q) = option_map norm (eval_ref w g false 9 "Query" 0%Z q).
Proof.
  exists ww, wg, pick1, q15. destruct f15_repaired as [H1 H2]. split.
  - rewrite f15_original, H2. intros H. discriminate.
  - rewrite H1, H2. reflexivity.
Qed.
Print Assumptions gateway_loses_repeated_alias_refuted.

(** F16: a null element at a service hop made extractKeys fail the whole request. *)
Theorem gateway_fails_on_null_at_hop_refuted :
  exists w g pick q r,
    fed_exec w g pick false false q = None /\
    option_map norm (eval_ref w g false 9 "Query" 0%Z q) = Some r /\
    option_map norm (fed_exec w g pick false true q) = Some r.
Proof.
  exists ww, wg, pick1, q16, ans16. destruct f16_repaired as [H1 H2].
  split; [exact f16_original | split; [exact H2 | exact H1]].
Qed.
Print Assumptions gateway_fails_on_null_at_hop_refuted.

(** patches/C06-fix-4: a selection excluded by its own directives was merged with a kept one of the same alias (the group took
    the first one's directives, and planObject dropped it): { self @skip(if: true) { p } self { q } } lost self. *)
Theorem gateway_merges_excluded_selection_refuted :
  exists w g pick q,
    option_map norm (fed_exec_gen false w g pick false true q) <> option_map norm (eval_ref w g false 9 "Query" 0%Z q) /\
    option_map norm (fed_exec w g pick false true q) = option_map norm (eval_ref w g false 9 "Query" 0%Z q).
Proof.
  exists ww, wg, pick1, q_excl. destruct excl_repaired as [H1 H2]. split.
  - rewrite excl_original, H2. intros H. discriminate.
  - rewrite H1, H2. reflexivity.
Qed.
Print Assumptions gateway_merges_excluded_selection_refuted.

(** Non-vacuity of (1): the witness federation satisfies [fed_ok], the F15 query normalises and plans, and
    its plan has a hop (a sub-plan under the sub-plan of s1). *)
Example subquery_closed_nonvacuous :
  fed_ok wg = true /\
  exists flat p, flatten 10 false wg (RObj "Query") (Some q16) = Some (Some flat) /\
                 forallb not_fed flat = true /\
                 plan_root wg pick1 10 flat = Some p /\
                 match p_after p with [s1] => List.length (p_after s1) = 1 | _ => False end.
Proof.
  split; [vm_compute; reflexivity|].
  eexists. eexists. split; [vm_compute; reflexivity|]. split; [vm_compute; reflexivity|].
  split; [vm_compute; reflexivity|]. vm_compute. reflexivity.
Qed.

(** Non-vacuity of the main theorem: a federation with a union of keyed objects, a finite table of resolver
    results with nulls, a query with repeated fragments and @skip/@include on fields (one carrying both, one on an alias used elsewhere) and on a fragment satisfies all premises; both
    sides answer (the same map), and the plan hops to a second service below each union member. *)
Example federation_transparent_nonvacuous :
  premises wg2 calls2 pick1 q2 = true /\
  option_map norm (fed_exec (world_of calls2 []) wg2 pick1 false true q2) = Some ans2 /\
  option_map norm (eval_ref (world_of calls2 []) wg2 true (2 * depth_list q2 + 4) "Query" 0%Z q2) = Some ans2 /\
  match flatten (2 * depth_list q2 + 4) false wg2 (RObj "Query") (Some q2) with
  | Some (Some flat) =>
      match plan_root wg2 pick1 (2 * (2 * depth_list q2 + 4) + 2) flat with
      | Some (Plan _ _ _ _ [Plan _ "s1" _ _ subs]) => List.length subs = 2
      | _ => False
      end
  | _ => False
  end.
Proof. exact witness2. Qed.

(** ... and with the plain object: Leaf values at the root and, in a list with a null, below a hop; repeated
    aliases, a fragment and a skipped selection on it; all premises hold (also those of [subquery_closed]), both
    sides answer the same map, and the sub-plan sent to s2 carries the selections on the Leaf objects. *)
Example federation_transparent_leaf_nonvacuous :
  premises wg3 calls3 pick1 q3 = true /\ fed_ok wg3 = true /\ plain_ok wg3 = true /\
  option_map norm (fed_exec (world_of calls3 []) wg3 pick1 false true q3) = Some ans3 /\
  option_map norm (eval_ref (world_of calls3 []) wg3 true (2 * depth_list q3 + 4) "Query" 0%Z q3) = Some ans3 /\
  match flatten (2 * depth_list q3 + 4) false wg3 (RObj "Query") (Some q3) with
  | Some (Some flat) =>
      match plan_root wg3 pick1 (2 * (2 * depth_list q3 + 4) + 2) flat with
      | Some (Plan _ _ _ _ [Plan _ "s1" _ _ [Plan _ "s2" "A" [NField "l" "l" _ _ _ true [_; _]] []]]) => True
      | _ => False
      end
  | _ => False
  end.
Proof. exact witness3. Qed.

(** Non-vacuity of [planner_total]: the witness federation has an owner for every field and a valid selector;
    the normal form of the witness query is well-formed, needs 7 units of planner fuel, gets 22, and its plan
    hops (see above). *)
Example planner_total_nonvacuous :
  sel_ok wg2 = true /\
  match flatten (2 * depth_list q2 + 4) false wg2 (RObj "Query") (Some q2) with
  | Some (Some flat) => flat_ok wg2 "Query" flat = true /\ pdl flat + 2 = 7 /\ 2 * (2 * depth_list q2 + 4) + 2 = 22
  | _ => False
  end.
Proof. vm_compute. repeat split; reflexivity. Qed.

(* ---------------------------------------------------------------------------------------------------------- *)
(** OBJECTS REACHED THROUGH A SERVICE HOP ARE MATCHED BACK TO THE RIGHT PARENT (Federation/StitchProofs.v).
    [targets path node]: the objects at the end of [path] in the order of extractKeys' walk (depth first, left to
    right through arrays and arrays of arrays; nulls and objects of other union members skipped).  All paths, all
    result trees. *)

(** the keys extractKeys returns are the _federation entries of the targets, in that order *)
Theorem hop_keys_are_the_targets_keys :
  forall path node,
    extract_keys true path node =
    if walk_ok true path node then mapo fed_key (targets path node) else None.
Proof. exact StitchProofs.extract_keys_is_targets. Qed.
Print Assumptions hop_keys_are_the_targets_keys.

(** grafting = merging result i into target i, from the front: an equation that says when it succeeds, what the
    targets become and which results are left *)
Theorem stitching_is_pointwise_merge :
  forall path node rs,
    on_targets path (graft path node rs) =
    if walk_ok false path node then merge_each (targets path node) rs else None.
Proof. exact StitchProofs.graft_is_merge_each. Qed.
Print Assumptions stitching_is_pointwise_merge.

(** with as many results as keys: target i (whose key is key i) is merged with result i, nothing is left *)
Theorem hop_results_matched_by_position :
  forall path node ks rs node' rest,
    extract_keys true path node = Some ks -> List.length rs = List.length ks ->
    graft path node rs = Some (node', rest) ->
    rest = [] /\
    List.length (targets path node') = List.length ks /\
    forall i t r, nth_error (targets path node) i = Some t -> nth_error rs i = Some r ->
      exists t' k, nth_error (targets path node') i = Some t' /\ merge_pair t r = Some t' /\
                   nth_error ks i = Some k /\ fed_key t = Some k.
Proof. exact StitchProofs.positional_matching. Qed.
Print Assumptions hop_results_matched_by_position.

(** nothing but the targets changes (the tree with the content of the targets erased stays the same) *)
Theorem stitching_changes_only_the_targets :
  forall path node rs node' rest,
    graft path node rs = Some (node', rest) -> skeleton path node' = skeleton path node.
Proof. exact StitchProofs.graft_skeleton. Qed.
Print Assumptions stitching_changes_only_the_targets.

(** duplicate keys: matching is by position (above); a service that answers as a function of the key gives
    the copies equal results *)
Theorem duplicate_keys_get_their_own_equal_results :
  forall (f : json -> json) path node ks node' rest i j ti tj,
    extract_keys true path node = Some ks ->
    graft path node (map f ks) = Some (node', rest) ->
    nth_error (targets path node) i = Some ti -> nth_error (targets path node) j = Some tj ->
    fed_key ti = fed_key tj ->
    exists k, fed_key ti = Some k /\
              nth_error (targets path node') i = merge_pair ti (f k) /\
              nth_error (targets path node') j = merge_pair tj (f k).
Proof. exact StitchProofs.equal_keys_equal_results. Qed.
Print Assumptions duplicate_keys_get_their_own_equal_results.

(** nulls in lists: two trees that differ only by null elements of the arrays on the way have the same targets,
    the same keys, and graft alike *)
Theorem nulls_in_lists_shift_nothing :
  forall path a b,
    strip_nulls path a = strip_nulls path b ->
    targets path a = targets path b /\
    extract_keys true path a = extract_keys true path b /\
    forall rs, strip_res path (graft path a rs) = strip_res path (graft path b rs).
Proof. exact StitchProofs.nulls_shift_nothing. Qed.
Print Assumptions nulls_in_lists_shift_nothing.

Theorem stitching_commutes_with_removing_nulls :
  forall path node rs, graft path (strip_nulls path node) rs = strip_res path (graft path node rs).
Proof. exact StitchProofs.graft_strip_nulls. Qed.
Print Assumptions stitching_commutes_with_removing_nulls.

(** lists of lists: only the depth-first order of the leaves matters *)
Theorem lists_of_lists_are_walked_depth_first :
  forall path node,
    targets path node = flat_map (targets path) (leaves node) /\
    (forall rep, extract_keys rep path node = concat_opt (map (extract_keys rep path) (leaves node))) /\
    (forall rs node' rest, graft path node rs = Some (node', rest) ->
                           graft_list (graft path) (leaves node) rs = Some (leaves node', rest)).
Proof.
  exact (fun path node => conj (StitchProofs.targets_leaves path node)
                               (conj (fun rep => StitchProofs.extract_keys_leaves rep path node)
                                     (StitchProofs.graft_leaves path node))).
Qed.
Print Assumptions lists_of_lists_are_walked_depth_first.

(** the length guard, and the only other way a stitch can fail once extractKeys has succeeded *)
Theorem stitch_rejects_wrong_number_of_results :
  forall run path cur ks rs,
    extract_keys true path (JArr cur) = Some ks -> run (Some ks) = Some rs ->
    List.length rs <> List.length ks -> stitch true run false path cur = None.
Proof. exact StitchProofs.stitch_length_guard. Qed.
Print Assumptions stitch_rejects_wrong_number_of_results.

Theorem stitch_fails_only_on_a_clashing_result :
  forall run path cur ks rs,
    extract_keys true path (JArr cur) = Some ks -> run (Some ks) = Some rs ->
    List.length rs = List.length ks ->
    (stitch true run false path cur = None <->
     exists i t r, nth_error (targets path (JArr cur)) i = Some t /\ nth_error rs i = Some r /\ merge_pair t r = None).
Proof. exact StitchProofs.stitch_fails_iff. Qed.
Print Assumptions stitch_fails_only_on_a_clashing_result.

(* ---------------------------------------------------------------------------------------------------------- *)
(** SCHEMA REFRESHES AS LABELS (Federation/Refresh.v, RefreshProofs.v).  All label lists: any number of
    requests, any number of refreshes, any interleaving. *)

(** a request that is answered is answered with [fed_exec] of the snapshot installed at ITS begin *)
Theorem request_uses_one_snapshot :
  forall w pick g0 ls1 rid q ls2 ans,
    fresh rid ls1 = true ->
    delivered rid (gw_run w pick false (ls1 ++ LBegin rid q :: ls2) (gw_init g0)) = Some ans ->
    ans = fed_exec w (installed g0 ls1) pick false true q.
Proof. exact RefreshProofs.request_uses_one_snapshot. Qed.
Print Assumptions request_uses_one_snapshot.

(** ... and it is answered once it has been stepped often enough and ended *)
Theorem request_is_answered :
  forall w pick g0 ls1 rid q ls2 k more,
    fresh rid ls1 = true ->
    proj rid ls2 = (repeat (LStep rid) k ++ LEnd rid :: more)%list ->
    steps_needed w pick (installed g0 ls1) q <= k ->
    delivered rid (gw_run w pick false (ls1 ++ LBegin rid q :: ls2) (gw_init g0)) =
    Some (fed_exec w (installed g0 ls1) pick false true q).
Proof. exact RefreshProofs.request_completes. Qed.
Print Assumptions request_is_answered.

(** the answer is a function of the snapshot at the begin and of the request's own labels: refreshes after the
    begin and the labels of other requests do not matter *)
Theorem requests_do_not_interfere :
  forall w pick g0 g0' ls1 ls1' rid q ls2 ls2',
    fresh rid ls1 = true -> fresh rid ls1' = true ->
    installed g0 ls1 = installed g0' ls1' ->
    proj rid ls2 = proj rid ls2' ->
    delivered rid (gw_run w pick false (ls1 ++ LBegin rid q :: ls2) (gw_init g0)) =
    delivered rid (gw_run w pick false (ls1' ++ LBegin rid q :: ls2') (gw_init g0')).
Proof. exact RefreshProofs.answer_depends_on_snapshot_and_own_labels. Qed.
Print Assumptions requests_do_not_interfere.

Theorem refresh_between_steps_is_invisible :
  forall w pick g0 ls1 rid q ls2 ls2',
    fresh rid ls1 = true ->
    without_refreshes ls2 = without_refreshes ls2' ->
    delivered rid (gw_run w pick false (ls1 ++ LBegin rid q :: ls2) (gw_init g0)) =
    delivered rid (gw_run w pick false (ls1 ++ LBegin rid q :: ls2') (gw_init g0)).
Proof. exact RefreshProofs.refresh_between_steps_is_invisible. Qed.
Print Assumptions refresh_between_steps_is_invisible.

(** only the begin of a request reads the installed planner *)
Theorem only_begin_reads_installed_planner :
  forall w pick c c' reqs out l,
    (forall r q, l <> LBegin r q) -> (forall g', l <> LRefresh g') ->
    gw_reqs (gw_step w pick false (mk_gateway c reqs out) l) = gw_reqs (gw_step w pick false (mk_gateway c' reqs out) l) /\
    gw_out (gw_step w pick false (mk_gateway c reqs out) l) = gw_out (gw_step w pick false (mk_gateway c' reqs out) l).
Proof. exact RefreshProofs.only_begin_reads_installed. Qed.
Print Assumptions only_begin_reads_installed_planner.

(** the variant that re-reads the installed planner during execution does NOT have the property *)
Theorem rereading_the_planner_refuted :
  exists w pick g0 ls rid q a,
    ls = LBegin rid q :: tl ls /\
    delivered rid (gw_run w pick true ls (gw_init g0)) = Some a /\
    a <> fed_exec w g0 pick false true q /\
    delivered rid (gw_run w pick false ls (gw_init g0)) = Some (fed_exec w g0 pick false true q).
Proof. exact RefreshProofs.reread_refuted. Qed.
Print Assumptions rereading_the_planner_refuted.

(** the trace the harness produces (refresh held inside a request) delivers [fed_exec] at the begin *)
Theorem refresh_trace_delivers_fed_exec :
  forall c,
    steps_needed (rc_world c) rpick (rc_g c) (rc_query c) <= rc_steps c ->
    delivered 0 (gw_run (rc_world c) rpick false (refresh_trace c) (gw_init (rc_g c))) =
    Some (fed_exec (rc_world c) (rc_g c) rpick false true (rc_query c)).
Proof. exact RefreshProofs.refresh_trace_delivers_fed_exec. Qed.
Print Assumptions refresh_trace_delivers_fed_exec.

(** non-vacuity *)
Example stitching_examples :
  extract_keys true [SField "items"] dup_tree = Some [xk 1; xk 1; xk 1] /\
  graft [SField "items"] dup_tree [xr 10; xr 20; xr 30] =
    Some (JArr [JObj [("items", JArr [xo 1 [("x", JNum 10%Z)]; xo 1 [("x", JNum 20%Z)]])];
                JObj [("items", JArr [xo 1 [("x", JNum 30%Z)]])]], []) /\
  targets [SField "f"] nest_tree = [xo 1 []; xo 2 []; xo 3 []] /\
  graft [SField "f"] nest_tree [xr 10; xr 20; xr 30] =
    Some (JObj [("f", JArr [JArr [xo 1 [("x", JNum 10%Z)]; JNull]; JArr [];
                            JArr [xo 2 [("x", JNum 20%Z)]; JArr [xo 3 [("x", JNum 30%Z)]]]])], []) /\
  extract_keys false [SField "f"] nest_tree = None.
Proof. vm_compute. repeat split; reflexivity. Qed.

Example one_snapshot_nonvacuous :
  delivered 1 (gw_run rw rpick false trace_ok (gw_init rg0)) = Some (fed_exec rw rg0 rpick false true rq1) /\
  option_map (option_map norm) (delivered 1 (gw_run rw rpick false trace_ok (gw_init rg0))) =
    Some (Some (JObj [("self", JObj [("p", JNum 17%Z); ("q", JNum 27%Z)])])) /\
  delivered 2 (gw_run rw rpick false trace_ok (gw_init rg0)) = Some (fed_exec rw rg1 rpick false true rq2) /\
  steps_needed rw rpick rg0 rq1 = 1 /\ steps_needed rw rpick rg1 rq2 = 2.
Proof. exact RefreshProofs.one_snapshot_nonvacuous. Qed.

(* ---------------------------------------------------------------------------------------------------------- *)
(** C09 COMPOSED WITH C06 (Federation/Compose.v).  [subquery_closed] assumes [fed_ok g]: who has _federation on
    what, and that whoever has it serves the federated keys.  For the gateway's view [gschema_of per m] computed
    from the per-service schemas [per] (each the intersection of the service's versions) and their union [m] as
    ConvertVersionedSchemas records it -- owners of a field = [Merge.field_services], federated keys of (object,
    service) = the input fields of the argument of Federation.<service>_<Object> -- these clauses are
    CONSEQUENCES of what C09's model of ConvertVersionedSchemas accepts ([fedobjs_ok] = validateFederatedObjects,
    [fedkeys_ok] = validateFederationKeys; both compared with the implementation's verdict on every C09 run), by
    C09's theorems federated_objects_accepted_are_federated_everywhere, federation_keys_accepted_are_exposed and
    union_complete: *)

(** whoever serves a field of an object that some service federates has _federation on that object *)
Theorem accepted_federation_owner_federates :
  forall per m,
    (forall sv, In sv per -> wf_schema (snd sv) = true) -> merge_slice Union (map snd per) = Some m ->
    fedobjs_ok per m = true ->
    forall svc ty f, visible ty = true -> ty <> "Query" -> ty <> "Mutation" ->
      owns (gschema_of per m) svc ty f = true -> federated_somewhere per ty = true ->
      owns (gschema_of per m) svc ty federation_field = true.
Proof. exact Compose.accepted_owner_federates. Qed.
Print Assumptions accepted_federation_owner_federates.

(** whoever has _federation on an object serves every field any service uses as a federated key of it: the
    key selection planObject adds, and the key runOnService sends, only use fields the receiver exposes *)
Theorem accepted_federation_keys_are_served :
  forall per m,
    (forall sv, In sv per -> wf_schema (snd sv) = true) -> merge_slice Union (map snd per) = Some m ->
    fedkeys_ok per m = true ->
    forall ty asker ks svc, visible ty = true -> In (ty, asker, ks) (g_fkeys (gschema_of per m)) ->
      owns (gschema_of per m) svc ty federation_field = true ->
      forall k, In k ks -> owns (gschema_of per m) svc ty k = true.
Proof. exact Compose.accepted_keys_served. Qed.
Print Assumptions accepted_federation_keys_are_served.

(** a field a service owns in the gateway's view is a field of that service's own version-intersected schema --
    the schema of which C09's intersection_sound says: what validates against it validates against every live
    version of the service.  With [subquery_closed]: every sub-query is accepted by every live version. *)
Theorem owned_field_is_in_the_service_schema :
  forall per m svc ty f,
    owns (gschema_of per m) svc ty f = true -> exists s, In (svc, s) per /\ has_field s ty f = true.
Proof. exact Compose.owned_field_is_in_the_service_schema. Qed.
Print Assumptions owned_field_is_in_the_service_schema.

(** Non-vacuity: two services that both federate A and ask for its id; s1 serves Query.a and A.x, s2 serves A.y;
    the model of ConvertVersionedSchemas accepts, and the gateway's view computed from it satisfies all of [fed_ok]. *)
Example accepted_federation_nonvacuous :
  exists m, merge_slice Union (map snd cw_per) = Some m /\
    wf_schema cw_s1 = true /\ wf_schema cw_s2 = true /\ fedobjs_ok cw_per m = true /\ fedkeys_ok cw_per m = true /\
    federated_somewhere cw_per "A" = true /\
    owns (gschema_of cw_per m) "s2" "A" "y" = true /\ owns (gschema_of cw_per m) "s1" "A" "y" = false /\
    owns (gschema_of cw_per m) "s2" "A" federation_field = true /\
    g_fkeys (gschema_of cw_per m) = [("A", "s1", ["id"]); ("A", "s2", ["id"])] /\
    fed_ok (gschema_of cw_per m) = true.
Proof. exact Compose.compose_witness. Qed.

(* ---------------------------------------------------------------------------------------------------------- *)
(** PERIODIC REFRESHES (Federation/RefreshPoll.v): the poller as a transition system -- deployments, a fetch reads
    the schema deployed when it starts and installs it when it completes.  The code as it is fetches and installs
    inside one loop iteration (a fetch starts only when none is pending): along every label list the installed
    planner never goes back to an older schema.  The harness runs the poller's own loop against a SchemaSyncer
    whose slow fetch is held until a later one has completed and then asks for the newly deployed field. *)
Theorem installed_planner_never_older :
  forall ls s s', pinv s -> prun false s ls = Some s' -> pinv s' /\ ps_installed s <= ps_installed s'.
Proof. exact RefreshPoll.installed_never_older. Qed.
Print Assumptions installed_planner_never_older.

(** ... which a poller that starts every tick's fetch in its own goroutine violates. *)
Theorem concurrent_poller_refuted :
  let tr := [PFetchStart; PDeploy; PFetchStart; PInstall 1; PInstall 0] in
  installs true pinit tr = [2; 1] /\
  option_map ps_installed (prun true pinit tr) = Some 1 /\
  prun false pinit tr = None.
Proof. exact RefreshPoll.concurrent_poller_refuted. Qed.
Print Assumptions concurrent_poller_refuted.

Example sequential_poller_nonvacuous :
  pinv pinit /\
  let tr := [PFetchStart; PDeploy; PInstall 0; PFetchStart; PDeploy; PInstall 0; PFetchStart; PInstall 0] in
  installs false pinit tr = [1; 2; 3] /\ option_map ps_installed (prun false pinit tr) = Some 3.
Proof. split; [exact RefreshPoll.pinit_inv | exact RefreshPoll.sequential_poller_nonvacuous]. Qed.
