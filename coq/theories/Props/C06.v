From Thunder Require Import Lib.Json.
Theorem placeholder : True. Proof. exact I. Qed.
Print Assumptions placeholder.
