(** C16: a failing resolver fails the whole query; clients only see sanitised errors.
    Statements only; proofs are in Gql/ProofsSched.v, Gql/ProofsErr.v. *)
From Coq Require Import List String Bool Arith Permutation ZArith.
From Thunder Require Import Lib.Json Gql.Types Gql.Value Gql.Query Gql.Ref Gql.Exec Gql.Check Gql.Envelope Gql.Socket
  Gql.ProofsSched Gql.ProofsErr Gql.ProofsRef Gql.ProofsMain Gql.ProofsEnt Gql.ProofsTop Gql.ProofsFail Gql.ProofsFailMain
  Gql.ProofsSocket Gql.Witness Gql.ProofsBatchFail.
Import ListNotations.
Open Scope string_scope.
Open Scope list_scope.

(** (i) For every schema (execution modes included), query, data and schedule: if some needed resolver
    fails - the reference evaluation reports failures, none of them a defect of the model's inputs
    ([good]: the query fits the schema, the data has a result for every selected field, the fuel
    suffices) - then Execute returns an error and no data: either at once (a malformed directive at the
    top level) or, once no unit is pending, the failure the error recorder holds.  That error is one of
    the needed failures ([perr_sim]): the same error value; no response path if it is client-safe,
    otherwise the response path of the failing field, aliases and list positions, where the list indices
    are those of the first destination of the work unit when a batch resolver fails as a whole. *)
Theorem failing_resolver_fails_query : forall S fuel rf q root sched,
  needed_failures S fuel q root <> [] -> good (needed_failures S fuel q root) ->
  (exists e f, init fixed S q root = inr e /\ In f (needed_failures S fuel q root) /\ perr_sim e f = true) \/
  (exists st0, init fixed S q root = inl st0 /\
     (complete (run_sched fixed S fuel sched st0) = true ->
      exists e f, finish rf (run_sched fixed S fuel sched st0) = Some (RErr e) /\
                  In f (needed_failures S fuel q root) /\ perr_sim e f = true)).
Proof. exact ProofsFailMain.failing_resolver_fails_query. Qed.
Print Assumptions failing_resolver_fails_query.

(** (i) with the path clause EXACT.  For every schema none of whose fields is run as a batch (plain,
    Expensive, the fallback of a batch field, NumParallelInvocations: all allowed), every query, data and
    schedule: the error Execute returns IS one of the needed failures - the same error value and the
    same response path, aliases and list indices. *)
Theorem failing_resolver_fails_query_exact : forall S fuel rf q root sched,
  no_batch_fields S = true ->
  needed_failures S fuel q root <> [] -> good (needed_failures S fuel q root) ->
  (exists e, init fixed S q root = inr e /\ In e (needed_failures S fuel q root)) \/
  (exists st0, init fixed S q root = inl st0 /\
     (complete (run_sched fixed S fuel sched st0) = true ->
      exists e, finish rf (run_sched fixed S fuel sched st0) = Some (RErr e) /\
                In e (needed_failures S fuel q root))).
Proof. exact ProofsFailMain.failing_resolver_fails_query_exact. Qed.
Print Assumptions failing_resolver_fails_query_exact.

(** A field run as a batch: its resolver returns one error for all of its sources, every destination
    of the unit is failed with it, and the recorder keeps the first - the error is reported at the
    unit's FIRST destination, whichever source the resolver stumbled over. *)
Theorem whole_batch_failure_at_first_destination : forall S fuel u it0 rest e p,
  f_batch (u_field u) && u_batch u = true ->
  u_items u = it0 :: rest ->
  first_failure (map (fun it : value * path => (outcome_of u (fst it), snd it)) (u_items u)) = Some (e, p) ->
  exec_unit fixed S (Datatypes.S fuel) u = mk_xres [] [] (map (fun it : value * path => nest (snd it) e) (u_items u)) /\
  record None (x_errs (exec_unit fixed S (Datatypes.S fuel) u)) = Some (nest (snd it0) e).
Proof. exact ProofsBatchFail.whole_batch_failure_at_first_destination. Qed.
Print Assumptions whole_batch_failure_at_first_destination.

(** Hence the exact clause cannot hold of batch fields, and does not: `as { x }` over three objects, the
    batch resolver of x failing at the second: Execute reports as.0.x, the failing source is as.1.x; with
    x run one object at a time Execute reports as.1.x.  Replayed on the code by
    corpus/C16/batch-failure-at-first-destination.json (the harness counts such reports). *)
Theorem exact_path_refuted_for_whole_batch_failure :
  exists ss,
    parse [] bf_q = Some ss /\
    needed_failures (bf_schema true) 40 ss bf_root = [nest [PKey "as"; PIdx 1; PKey "x"] (mk_err EPlain "boom")] /\
    exec_fifo fixed (bf_schema true) [] bf_q bf_root = Some (RErr (nest [PKey "as"; PIdx 0; PKey "x"] (mk_err EPlain "boom"))) /\
    exec_fifo fixed (bf_schema false) [] bf_q bf_root = Some (RErr (nest [PKey "as"; PIdx 1; PKey "x"] (mk_err EPlain "boom"))).
Proof. exact ProofsBatchFail.exact_path_refuted_for_whole_batch_failure. Qed.
Print Assumptions exact_path_refuted_for_whole_batch_failure.

(** Behind it: a work unit, whatever its mode, raises only needed failures of its sources, and raises
    one whenever there is one. *)
Theorem units_fail_like_reference : forall S fuel fr, GR false S fuel fr /\ GU false S fuel fr.
Proof. exact ProofsFailMain.units_fail_like_reference_sim. Qed.
Print Assumptions units_fail_like_reference.

(** (ii), in full: if no needed resolver fails (the reference evaluation raises nothing), every
    completed run, under every schedule and every execution-mode assignment, returns the reference data. *)
Theorem no_needed_failure_returns_reference : forall S fuel rf q root sched,
  needed_failures S fuel q root = [] ->
  json_keys_unique (fst (eval_ref S fuel q root)) = true ->
  jdepth (fst (eval_ref S fuel q root)) <= Datatypes.S rf ->
  exists st0, init fixed S q root = inl st0 /\
    (complete (run_sched fixed S fuel sched st0) = true ->
     finish rf (run_sched fixed S fuel sched st0) = Some (ROk (fst (eval_ref S fuel q root)))).
Proof. exact ProofsTop.execution_equals_reference_k. Qed.
Print Assumptions no_needed_failure_returns_reference.

(** errorRecorder: once a failure is recorded no later step replaces it. *)
Theorem first_failure_is_kept : forall Q S fuel sched st e,
  st_err st = Some e -> st_err (run_sched Q S fuel sched st) = Some e.
Proof. exact ProofsSched.run_err_stable. Qed.
Print Assumptions first_failure_is_kept.

(** (iii) Execute returns data or an error, never both: data only if nothing was recorded. *)
Theorem error_or_data_exclusive : forall rf st r,
  finish rf st = Some r ->
  match r with
  | ROk j => st_err st = None /\ complete st = true
  | RErr e => st_err st = Some e /\ complete st = true
  end.
Proof. exact ProofsErr.finish_exclusive. Qed.
Print Assumptions error_or_data_exclusive.

(** The recorded error carries the response path unless it is client-safe. *)
Theorem path_unless_safe : forall p e,
  nest p e = if safe e then mk_perr e [] else mk_perr e p.
Proof. intros p e. unfold nest. destruct (safe e); reflexivity. Qed.
Print Assumptions path_unless_safe.

(** (iv) Every error envelope the connection writes for a subscription's first computation carries
    the error's text only if it is marked safe, the fixed generic message otherwise. *)
Theorem envelope_message_sanitised : forall id r id' m,
  In (WError id' m) (subscribe_initial id r) ->
  exists e, r = RErr e /\ id' = id /\
            m = if safe (pe_err e) then e_text (pe_err e) else "Internal server error".
Proof. exact ProofsErr.subscribe_initial_messages. Qed.
Print Assumptions envelope_message_sanitised.

(** Only an error that IS a SanitizedError is passed on.  An ordinary error that merely wraps a safe
    one (fmt.Errorf("...: %w", safeErr)) is nested under its response path like any other and reaches
    the client as the fixed generic message. *)
Theorem only_sanitized_errors_are_forwarded : forall e,
  sanitize e <> "Internal server error" -> safe (pe_err e) = true.
Proof. exact ProofsErr.only_sanitized_forwarded. Qed.
Print Assumptions only_sanitized_errors_are_forwarded.

Theorem error_wrapping_a_safe_one_is_not_forwarded : forall p t,
  nest p (mk_err EWrapsSafe t) = mk_perr (mk_err EWrapsSafe t) p /\
  sanitize (nest p (mk_err EWrapsSafe t)) = "Internal server error".
Proof. exact ProofsErr.wraps_safe_not_forwarded. Qed.
Print Assumptions error_wrapping_a_safe_one_is_not_forwarded.

(** A user-defined SanitizedError (its SanitizedError() text, [e_text], need not be its Error() text) is
    handed on without a path; the envelope carries the SanitizedError() text. *)
Theorem custom_sanitized_error_forwards_its_sanitized_text : forall p t,
  nest p (mk_err ECustom t) = mk_perr (mk_err ECustom t) [] /\ sanitize (nest p (mk_err ECustom t)) = t.
Proof. exact ProofsErr.custom_sanitized_forwarded. Qed.
Print Assumptions custom_sanitized_error_forwards_its_sanitized_text.

(** An initially failing subscription yields exactly one error envelope, then its closure. *)
Theorem failing_subscription_reported_once_then_closed : forall id e,
  subscribe_initial id (RErr e) = [WError id (sanitize e); WClosed id].
Proof. exact ProofsErr.subscribe_initial_error. Qed.
Print Assumptions failing_subscription_reported_once_then_closed.

(** * The websocket connection as a whole (Gql/Socket.v: handle, handleSubscribe, handleMutate,
    closeSubscription, the serve loop's error envelope; one inbound envelope = one step).

    (iv) over every script of inbound envelopes, from every connection state: a text other than the
    generic message and thunder's own client messages appears in an error envelope only if it is the
    SanitizedError() text of an error of the script that IS a SanitizedError - whether the error came
    out of Parse / PrepareQuery or out of a subscription's or a mutation's computation. *)
Theorem only_sanitized_texts_reach_the_socket : forall ms c id s,
  In (CError id (EText s)) (snd (serve_all c ms)) ->
  exists e, In e (flat_map msg_errs ms) /\ safe e = true /\ e_text e = s.
Proof. exact ProofsSocket.only_sanitized_texts_reach_the_socket. Qed.
Print Assumptions only_sanitized_texts_reach_the_socket.

(** ... and an error that is not a SanitizedError goes out as the generic message, for a subscription
    and for a mutation alike. *)
Theorem unsafe_error_is_sent_as_generic : forall c id e,
  safe (pe_err e) = false -> live c id = false ->
  (List.length (c_subs c) < c_max c ->
   snd (serve c (MSubscribe id (FRuns (RErr e)))) = [CSub id; CError id EGeneric; CUnsub id]) /\
  snd (serve c (MMutate id (FRuns (RErr e)))) = [CSub id; CError id EGeneric; CUnsub id].
Proof. exact ProofsSocket.unsafe_error_is_sent_as_generic. Qed.
Print Assumptions unsafe_error_is_sent_as_generic.

(** An initially failing subscription, in any connection state that accepts it: announced to the
    logger, exactly one error envelope, its end logged - and the connection is what it was before, so
    the subscription is gone and its id is free again. *)
Theorem failing_subscription_once_then_closed : forall c id e,
  live c id = false -> List.length (c_subs c) < c_max c ->
  serve c (MSubscribe id (FRuns (RErr e))) = (c, [CSub id; CError id (san e); CUnsub id]).
Proof. exact ProofsSocket.failing_subscription_once_then_closed. Qed.
Print Assumptions failing_subscription_once_then_closed.

(** (i) and (iv) composed, executor and connection: a subscription to a query some needed resolver of
    which fails, executed under any schedule and any assignment of execution modes, is answered by one
    error envelope whose message is the sanitised message of one of the needed failures - the generic
    message if that failure is not client-safe - and is closed. *)
Theorem failing_query_over_the_socket : forall S fuel rf q root sched r c id,
  needed_failures S fuel q root <> [] -> good (needed_failures S fuel q root) ->
  executes S fuel rf sched q root r ->
  live c id = false -> List.length (c_subs c) < c_max c ->
  exists f, In f (needed_failures S fuel q root) /\
    serve c (MSubscribe id (FRuns r)) = (c, [CSub id; CError id (san f); CUnsub id]) /\
    (safe (pe_err f) = false -> san f = EGeneric).
Proof. exact ProofsSocket.failing_query_over_the_socket. Qed.
Print Assumptions failing_query_over_the_socket.

(** What handle refuses (malformed message, duplicate id, too many subscriptions, a query Parse or
    PrepareQuery rejects, an unknown type) leaves the connection as it was and is not announced to the
    SubscriptionLogger; the serve loop answers it with one error envelope. *)
Theorem refusal_changes_nothing : forall c m c' evs h,
  handle c m = (c', evs, Some h) -> c' = c /\ evs = [].
Proof. exact ProofsSocket.handle_refusal_changes_nothing. Qed.
Print Assumptions refusal_changes_nothing.

(** Over every script: never more live subscriptions than WithMaxSubscriptions allows, no id twice. *)
Theorem live_subscriptions_bounded : forall ms c,
  conn_wf c -> conn_wf (fst (serve_all c ms)) /\ c_max (fst (serve_all c ms)) = c_max c.
Proof. exact ProofsSocket.live_subscriptions_bounded. Qed.
Print Assumptions live_subscriptions_bounded.

(** Over every script on a fresh connection, closed at the end: for every id the SubscriptionLogger
    hears as many Unsubscribe as Subscribe calls ("reported ... and then closed" for every way a
    subscription can end: its own failure, a mutation's completion, unsubscribe, the socket's end). *)
Theorem every_subscription_ends_in_the_log : forall ms c id,
  c_subs c = [] ->
  let r := serve_all c ms in
  count_ev (is_sub id) (snd r) = count_ev (is_unsub id) (snd r ++ snd (close_all (fst r))).
Proof. exact ProofsSocket.every_subscription_ends_in_the_log. Qed.
Print Assumptions every_subscription_ends_in_the_log.

(** A script that exercises the branches: a failing subscription (unsafe, then safe), the same id
    reused by a live one, a duplicate, one too many, a failing mutation, an unsubscribe. *)
Example socket_script_non_trivial :
  let unsafe := RErr (nest [PKey "a"; PIdx 1] (mk_err EPlain "secret")) in
  let safe_ := RErr (nest [PKey "a"] (mk_err EWrapped "shown")) in
  serve_all (mk_conn [] 1)
    [MSubscribe "s" (FRuns unsafe); MSubscribe "s" (FRuns safe_); MSubscribe "s" (FRuns (ROk JNull));
     MSubscribe "s" (FRuns (ROk JNull)); MSubscribe "t" (FRuns (ROk JNull)); MMutate "m" (FRuns unsafe);
     MSubscribe "u" (FRejected (mk_err EClient "unknown field")); MUnsubscribe "s"; MUnknown "x"]
  = (mk_conn [] 1,
     [CSub "s"; CError "s" EGeneric; CUnsub "s";
      CSub "s"; CError "s" (EText "shown"); CUnsub "s";
      CSub "s"; CUpdate "s";
      CError "s" EOwn; CError "t" EOwn;
      CSub "m"; CError "m" EGeneric; CUnsub "m";
      CError "u" EOwn; CUnsub "s"; CError "x" EOwn]).
Proof. vm_compute. reflexivity. Qed.

Definition ex16_schema : schema :=
  mk_schema
    [mk_object "Query" [mk_field "as" (TList (TObject "A")) false false true false None] None;
     mk_object "A" [mk_field "x" (TScalar "int64") true false true true (Some [2; 2; 2; 2]);
                    mk_field "y" (TScalar "int64") false true true false None] None]
    [] "Query".
Definition ex16_a (x : outcome value) := VObj "A" [("x", x); ("y", OFail (mk_err ESafe "visible"))].
Definition ex16_root := VObj "Query" [("as", OOk (VList [ex16_a (OOk (VLeaf (LNum 1%Z))); ex16_a (OFail (mk_err EPlain "hidden"))]))].
Definition ex16_q : selset :=
  SelSet 1 [(mk_selh "as" "as" "as" [], Some (SelSet 2 [(mk_selh "x" "x" "x" [], None); (mk_selh "y" "y" "y" [], None)] []))] [].

Example failing_hypotheses_satisfiable :
  List.length (needed_failures ex16_schema 10 ex16_q ex16_root) = 3 /\
  (forall f, In f (needed_failures ex16_schema 10 ex16_q ex16_root) -> model_err (pe_err f) = false).
Proof.
  split; [vm_compute; reflexivity|]. vm_compute. intros f [<-|[<-|[<-|[]]]]; reflexivity.
Qed.

(** The exact theorem's premise holds of a schema with an Expensive field, a fallback field that is not
    batched and a split one, with two failures needed. *)
Definition ex16_schema_nb : schema :=
  mk_schema
    [mk_object "Query" [mk_field "as" (TList (TObject "A")) false false true false None] None;
     mk_object "A" [mk_field "x" (TScalar "int64") true false true false (Some [2; 2; 2; 2]);
                    mk_field "y" (TScalar "int64") false true true false None] None]
    [] "Query".
Example exact_hypotheses_satisfiable :
  no_batch_fields ex16_schema_nb = true /\
  List.length (needed_failures ex16_schema_nb 10 ex16_q ex16_root) = 3 /\
  no_batch_fields ex16_schema = false.
Proof. repeat split; vm_compute; reflexivity. Qed.

Example hypotheses_satisfiable :
  sanitize (nest [PKey "a"; PIdx 1] (mk_err EPlain "secret")) = "Internal server error" /\
  sanitize (nest [PKey "a"; PIdx 1] (mk_err EWrapped "shown")) = "shown" /\
  pe_path (nest [PKey "a"; PIdx 1] (mk_err EPanic "boom")) = [PKey "a"; PIdx 1].
Proof. repeat split. Qed.
