From Thunder Require Import Lib.Json Gql.Types Gql.Value Gql.Query Gql.Ref Gql.Exec Gql.Envelope.
Theorem placeholder : True. Proof. exact I. Qed.
Print Assumptions placeholder.
