(** C16: a failing resolver fails the whole query; clients only see sanitised errors.
    Statements only; proofs are in Gql/ProofsSched.v, Gql/ProofsErr.v. *)
From Coq Require Import List String Bool Arith Permutation.
From Thunder Require Import Lib.Json Gql.Types Gql.Value Gql.Query Gql.Ref Gql.Exec Gql.Check Gql.Envelope
  Gql.ProofsSched Gql.ProofsErr Gql.ProofsRef Gql.ProofsMain Gql.ProofsEnt Gql.ProofsTop.
Import ListNotations.
Open Scope string_scope.
Open Scope list_scope.

(** (i)+(ii), relative to the forest of work units: for every schedule, if some unit of the forest
    under the initial units raises a failure, the completed run returns an error, one of those raised
    (first in schedule order); if none does, it returns data.

    FULL STATEMENT of (i), of which this is the part proved:
      needed_failures S fuel q root <> [] ->
        exists f, In f (needed_failures S fuel q root) /\ run fixed S fuel sched q root = Some (RErr f')
        with f' = f up to the list indices of a failing batch unit's first destination
    Missing for (i): the failures the forest raises are (up to that index rule) needed failures of
    eval_ref, and the forest is finite also when resolvers fail; the lemma [units_compute_reference]
    (C01) covers the failure-free case only, which gives (ii) below in full.  The executable model is
    tested against the full statement on every run (Gql/Check.v: obs_matches_run / obs_matches_ref). *)
Theorem failing_unit_fails_query_partial : forall Q S fuel rf st0 rs,
  Forall2 (P Q S fuel) (st_pending st0) rs -> st_err st0 = None ->
  NoDup (map fst (st_heap st0 ++ heaps rs)) ->
  forall sched, complete (run_sched Q S fuel sched st0) = true ->
    match errs rs with
    | [] => exists j, finish rf (run_sched Q S fuel sched st0) = Some (ROk j)
    | _ => exists e, In e (errs rs) /\ finish rf (run_sched Q S fuel sched st0) = Some (RErr e)
    end.
Proof.
  intros Q S fuel rf st0 rs HF He Hnd sched Hc.
  pose proof (ProofsSched.result_independent_of_schedule Q S fuel rf st0 rs HF He Hnd sched Hc) as H.
  destruct (errs rs); [eexists; exact H | exact H].
Qed.
Print Assumptions failing_unit_fails_query_partial.

(** (ii), in full: if no needed resolver fails (the reference evaluation raises nothing), every
    completed run, under every schedule and every execution-mode assignment, returns the reference data. *)
Theorem no_needed_failure_returns_reference : forall S fuel rf q root sched,
  needed_failures S fuel q root = [] ->
  json_keys_unique (fst (eval_ref S fuel q root)) = true ->
  jdepth (fst (eval_ref S fuel q root)) <= Datatypes.S rf ->
  exists st0, init fixed S q root = inl st0 /\
    (complete (run_sched fixed S fuel sched st0) = true ->
     finish rf (run_sched fixed S fuel sched st0) = Some (ROk (fst (eval_ref S fuel q root)))).
Proof. exact ProofsTop.execution_equals_reference_k. Qed.
Print Assumptions no_needed_failure_returns_reference.

(** errorRecorder: once a failure is recorded no later step replaces it. *)
Theorem first_failure_is_kept : forall Q S fuel sched st e,
  st_err st = Some e -> st_err (run_sched Q S fuel sched st) = Some e.
Proof. exact ProofsSched.run_err_stable. Qed.
Print Assumptions first_failure_is_kept.

(** (iii) Execute returns data or an error, never both: data only if nothing was recorded. *)
Theorem error_or_data_exclusive : forall rf st r,
  finish rf st = Some r ->
  match r with
  | ROk j => st_err st = None /\ complete st = true
  | RErr e => st_err st = Some e /\ complete st = true
  end.
Proof. exact ProofsErr.finish_exclusive. Qed.
Print Assumptions error_or_data_exclusive.

(** The recorded error carries the response path unless it is client-safe. *)
Theorem path_unless_safe : forall p e,
  nest p e = if safe e then mk_perr e [] else mk_perr e p.
Proof. intros p e. unfold nest. destruct (safe e); reflexivity. Qed.
Print Assumptions path_unless_safe.

(** (iv) Every error envelope the connection writes for a subscription's first computation carries
    the error's text only if it is marked safe, the fixed generic message otherwise. *)
Theorem envelope_message_sanitised : forall id r id' m,
  In (WError id' m) (subscribe_initial id r) ->
  exists e, r = RErr e /\ id' = id /\
            m = if safe (pe_err e) then e_text (pe_err e) else "Internal server error".
Proof. exact ProofsErr.subscribe_initial_messages. Qed.
Print Assumptions envelope_message_sanitised.

(** An initially failing subscription yields exactly one error envelope, then its closure. *)
Theorem failing_subscription_reported_once_then_closed : forall id e,
  subscribe_initial id (RErr e) = [WError id (sanitize e); WClosed id].
Proof. exact ProofsErr.subscribe_initial_error. Qed.
Print Assumptions failing_subscription_reported_once_then_closed.

Example hypotheses_satisfiable :
  sanitize (nest [PKey "a"; PIdx 1] (mk_err EPlain "secret")) = "Internal server error" /\
  sanitize (nest [PKey "a"; PIdx 1] (mk_err EWrapped "shown")) = "shown" /\
  pe_path (nest [PKey "a"; PIdx 1] (mk_err EPanic "boom")) = [PKey "a"; PIdx 1].
Proof. repeat split. Qed.
