(** C08 — the reactive cache never serves superseded values and releases every resource.

    Model: Reactive/Graph.v, Reactive/Rerunner.v (see Props/C04.v).  [n_cln (getN s n)] counts how many times the
    afterRelease callback of node n (the Cleanup callback of a Resource, or the timer.Stop of InvalidateAfter)
    has run; [n_had]: node n was the dependency of at least one addOut call; [n_hrel]: the registered callback. *)
From Coq Require Import List.
From Thunder Require Import Reactive.Graph Reactive.Rerunner Reactive.ProofsBase Reactive.ProofsMutex
  Reactive.ProofsRefcount Reactive.ProofsArmed Reactive.ProofsStale Reactive.ProofsOut Reactive.Drive.
Import ListNotations.

(** The value of a computation is the list of (slot, version) pairs it read, with the values of the cached
    children it adopted appended (reactive.Cache returns child.value whether the child was just computed or
    found in the cache).  At quiescence no valid computation — published, or memoised in a cache — holds a
    superseded version: a cache entry that would serve one is invalidated, and cleanInvalidated / addOut's
    shouldInvalidate keep it from being served without a re-run. *)
Theorem valid_computation_holds_current_versions :
  forall k progs s c sl v, reachable (init k progs) s -> quiescent s ->
  n_inv (getN s c) = false -> In (sl, v) (n_val (getN s c)) -> v = slot_ver s sl.
Proof. exact quiescent_valid_current. Qed.
Print Assumptions valid_computation_holds_current_versions.

(** ... in particular the final output of every rerunner that was neither stopped nor has failed contains no
    value computed from a superseded version, read directly or through cached children. *)
Theorem final_output_has_no_superseded_version :
  forall k progs s r, reachable (init k progs) s -> quiescent s -> r < length (s_rrs s) ->
  r_cancel (getr s r) = false -> r_failed (getr s r) = false ->
  exists c, r_comp (getr s r) = Some c /\
    forall sl v, In (sl, v) (n_val (getN s c)) -> v = slot_ver s sl.
Proof. exact no_lost_invalidation_lemma. Qed.
Print Assumptions final_output_has_no_superseded_version.

(** the same about the published value [r_out] itself (a prefix of the current computation's value) *)
Theorem published_output_has_no_superseded_version :
  forall k progs s r, reachable (init k progs) s -> quiescent s -> r < length (s_rrs s) ->
  r_cancel (getr s r) = false -> r_failed (getr s r) = false ->
  exists out, r_out (getr s r) = Some out /\ forall sl v, In (sl, v) out -> v = slot_ver s sl.
Proof.
  intros k progs s r R Q Hr X1 X2.
  destruct (no_lost_invalidation_lemma _ _ _ _ R Q Hr X1 X2) as [c [E1 E2]].
  destruct (reachable_out _ _ _ R r c E1) as [v [ext [O1 O2]]].
  exists v. split; [exact O1|]. intros sl x Hin. apply E2. unfold getN. rewrite O2. apply in_app_iff. left. exact Hin.
Qed.
Print Assumptions published_output_has_no_superseded_version.

(** Under every schedule a cleanup callback runs at most once ... *)
Theorem cleanup_at_most_once :
  forall k progs s n, reachable (init k progs) s -> n_cln (getN s n) <= 1.
Proof. exact cleanup_at_most_once_lemma. Qed.
Print Assumptions cleanup_at_most_once.

(** ... and only once the node has been released. *)
Theorem cleanup_only_after_release :
  forall k progs s n, reachable (init k progs) s -> n_cln (getN s n) = 1 -> n_rel (getN s n) = true.
Proof. exact cleanup_only_released_lemma. Qed.
Print Assumptions cleanup_only_after_release.

(** "... after the last computation depending on it is superseded or stopped".  In the model a release is only
    ever started by the two critical sections that compute [shouldRelease] (release's loop over in-edges,
    graph.go:127-130, and addOut, graph.go:163), and both decide it only when the node has no dependant left:
    a computation that is linked below a resource and has not been released itself (released = superseded,
    stopped or failed) keeps the resource's [out] non-empty, so neither section can decide its release; with
    [cleanup_only_after_release] the callback cannot run before that.  A computation may still register on a
    node whose release has already been decided (re-adoption of a cached child, or a resource, in the window
    before [released] is set): it is linked, and invalidated at once (Edge/Stale invariants).
    On the implementation the same is an oracle clause, evaluated at the moment the code under test decides a
    release (resource-released-while-current-computation-depends-on-it): no computation that registered the
    resource before that moment - directly or through cached children - may still be running, or be the
    published computation of a rerunner that was not stopped.  A tree that decides otherwise also disagrees
    with the replay (the recorded shouldRelease differs, component 3). *)
Theorem release_decided_only_without_dependants :
  (forall g from n g', g_rel_dep g from n = (g', true) -> n_out (getn g' from) = []) /\
  (forall g n to g' linked shinv, g_add_out g n to = (g', (linked, shinv, true)) -> n <> to -> n_out (getn g' n) = []).
Proof. exact release_decided_only_when_no_dependant. Qed.
Print Assumptions release_decided_only_without_dependants.

(** At quiescence every resource that received at least one addOut and has no dependant left (its [out] is
    empty: every computation that depended on it was superseded, failed or stopped and has been released) is
    released and its callback ran exactly once. *)
Theorem cleanup_exactly_once_at_quiescence :
  forall k progs s n, reachable (init k progs) s -> quiescent s ->
  n_had (getN s n) = true -> n_out (getN s n) = [] -> n_hrel (getN s n) <> None ->
  n_rel (getN s n) = true /\ n_cln (getN s n) = 1.
Proof. exact cleanup_exactly_once_lemma. Qed.
Print Assumptions cleanup_exactly_once_at_quiescence.

From Thunder Require Import Reactive.ProofsLink.

(** The two halves of an edge agree, in every reachable state: a dependant listed in [out] has the dependency
    in its [in] list (addOut writes both under both locks, graph.go:144-166), and a dependant that has been
    released is on its way out of the [out] set — the goroutine that released it still has the dependency in
    the list of in-edges it walks (graph.go:124-135). *)
Theorem edge_halves_agree :
  forall k progs s n m, reachable (init k progs) s -> In m (n_out (getN s n)) ->
  In n (n_ins (getN s m)) /\
  (n_rel (getN s m) = true -> exists froms, In (FRelDeps m froms) (all_frames s) /\ In n froms).
Proof.
  intros k progs s n m R Hin. destruct (reachable_link k progs s R) as [A B].
  split; [exact (A n m Hin) | exact (B n m Hin)].
Qed.
Print Assumptions edge_halves_agree.

(** ... so at quiescence the dependants of a node are exactly computations that registered it and have not been
    released. *)
Theorem dependants_are_unreleased_registrants_at_quiescence :
  forall k progs s n m, reachable (init k progs) s -> quiescent s ->
  In m (n_out (getN s n)) -> In n (n_ins (getN s m)) /\ n_rel (getN s m) = false.
Proof. exact quiescent_out_registered. Qed.
Print Assumptions dependants_are_unreleased_registrants_at_quiescence.

(** "... has its cleanup callback run exactly once after the last computation depending on it is superseded or
    stopped", with the premise about the computations rather than about the reference count: at quiescence a
    resource that received an addOut, and every registrant of which (every node m that has it in m.in: the
    computations whose AddDependency, or whose adoption of a cached child, linked them below it) has been
    released — superseded, stopped or failed —, has no dependant left, is released, and its callback ran exactly
    once.  (With [release_decided_only_without_dependants] and [cleanup_only_after_release]: not before.) *)
Theorem cleanup_exactly_once_after_last_registrant_released :
  forall k progs s n, reachable (init k progs) s -> quiescent s ->
  n_had (getN s n) = true -> n_hrel (getN s n) <> None ->
  (forall m, In n (n_ins (getN s m)) -> n_rel (getN s m) = true) ->
  n_out (getN s n) = [] /\ n_rel (getN s n) = true /\ n_cln (getN s n) = 1.
Proof. exact cleanup_after_last_registrant_lemma. Qed.
Print Assumptions cleanup_exactly_once_after_last_registrant_released.

From Thunder Require Import Reactive.ProofsReach Reactive.ProofsClosed Reactive.ProofsSeg Reactive.ProofsRun Reactive.ProofsOwnership.

(** WHO HOLDS WHAT.  [progs_ok k progs]: the compute functions only read slots that exist.
    The dependency graph is ranked, hence acyclic, in every reachable state: addOut attaches a dependency only
    to a computation that is still being worked for, and such a computation has no dependant yet — it is in no
    cache and nobody is about to link it below a parent (Reactive/ProofsRun.v). *)
Theorem dependency_graph_is_ranked :
  forall k progs s, progs_ok k progs -> reachable (init k progs) s ->
  exists rk : nat -> nat, forall n m, In m (n_out (getN s n)) -> rk n < rk m.
Proof. intros k progs s Pk R. exact (proj2 (proj2 (reachable_graph k progs s Pk R))). Qed.
Print Assumptions dependency_graph_is_ranked.

(** Ownership, in every reachable state: a computation node (no release handler, no timer) that has not been
    released and was never used as a dependency is the current computation of a rerunner, or a goroutine is about
    to publish it (FRunEnd), store it in the cache (FCacheSet), link it below its parent (FCacheLink) or release
    it (FRelEnter / FRelMark).  (A node that was used as a dependency is covered by the Refcount invariant.) *)
Theorem unreleased_computation_has_a_holder :
  forall k progs s c, reachable (init k progs) s ->
  c < length (s_nodes s) -> n_hrel (getN s c) = None -> n_timer (getN s c) = 0 ->
  n_rel (getN s c) = false -> n_had (getN s c) = false ->
  (exists r, r < length (s_rrs s) /\ r_comp (getr s r) = Some c) \/ (exists f, In f (all_frames s) /\ holds c f).
Proof. intros k progs s c R. exact (reachable_own k progs s R c). Qed.
Print Assumptions unreleased_computation_has_a_holder.

(** At quiescence every node that has not been released — a computation, or anything that was used as a
    dependency — is, through a chain of dependants, a dependency of the current computation of a rerunner that
    has not been stopped. *)
Theorem every_unreleased_node_is_held_by_a_live_rerunner :
  forall k progs s, progs_ok k progs -> reachable (init k progs) s -> quiescent s ->
  forall x, x < length (s_nodes s) -> n_rel (getN s x) = false ->
    n_had (getN s x) = true \/ (n_hrel (getN s x) = None /\ n_timer (getN s x) = 0) ->
    exists r top, r < length (s_rrs s) /\ r_stop (getr s r) = false /\ r_comp (getr s r) = Some top /\ reach (s_nodes s) x top.
Proof. exact held_by_live_lemma. Qed.
Print Assumptions every_unreleased_node_is_held_by_a_live_rerunner.

(** A STOPPED RERUNNER HOLDS NOTHING AT QUIESCENCE.  It has no computation (Stop handed it to release()); every
    node that is still unreleased is held by the current computation of ANOTHER rerunner, one that has not been
    stopped; every resource that was depended upon is released with exactly one Cleanup call, or is a dependency
    of such a computation.  So whatever only the stopped rerunner's computations (current, superseded, cached)
    depended on has been released, and its Cleanup callback — the timer.Stop of InvalidateAfter included — ran
    exactly once. *)
Theorem stopped_rerunner_holds_nothing_at_quiescence :
  forall k progs s r0, progs_ok k progs -> reachable (init k progs) s -> quiescent s -> r_stop (getr s r0) = true ->
  r_comp (getr s r0) = None /\
  (forall x, x < length (s_nodes s) -> n_rel (getN s x) = false ->
     n_had (getN s x) = true \/ (n_hrel (getN s x) = None /\ n_timer (getN s x) = 0) ->
     exists r top, r <> r0 /\ r_stop (getr s r) = false /\ r_comp (getr s r) = Some top /\ reach (s_nodes s) x top) /\
  (forall n, n_had (getN s n) = true -> n_hrel (getN s n) <> None ->
     (n_rel (getN s n) = true /\ n_cln (getN s n) = 1) \/
     exists r top, r <> r0 /\ r_stop (getr s r) = false /\ r_comp (getr s r) = Some top /\ reach (s_nodes s) n top).
Proof. exact stopped_holds_nothing_lemma. Qed.
Print Assumptions stopped_rerunner_holds_nothing_at_quiescence.

(** ... and when every rerunner has been stopped, every computation and every node that was depended upon is
    released, each Cleanup callback having run exactly once. *)
Theorem all_stopped_everything_released :
  forall k progs s, progs_ok k progs -> reachable (init k progs) s -> quiescent s ->
  (forall r, r < length (s_rrs s) -> r_stop (getr s r) = true) ->
  forall n, n < length (s_nodes s) ->
    (n_had (getN s n) = true \/ (n_hrel (getN s n) = None /\ n_timer (getN s n) = 0)) ->
    n_rel (getN s n) = true /\ (n_hrel (getN s n) <> None -> n_cln (getN s n) = 1).
Proof. exact all_stopped_all_released_lemma. Qed.
Print Assumptions all_stopped_everything_released.

From Thunder Require Import Reactive.Measure Reactive.ProofsCacheKeys.

(** The cache of a rerunner (cache.computations, rerunner.go:72-76) holds at most one memoised computation per
    key — cache.set stores only when the key is free (rerunner.go:90-92), cleanInvalidated and PurgeCache only
    remove — and only under keys of reactive.Cache calls of the rerunner's compute function ([prog_keyl]), in
    every reachable state: its size is bounded by the number of Cache calls of the function, whatever the
    interleaving of lookups, insertions (also from goroutines inside the function), cleanInvalidated, PurgeCache
    and the retry path's purge. *)
Theorem cache_one_entry_per_key :
  forall k progs s r, reachable (init k progs) s ->
  NoDup (map fst (r_cache (getr s r))) /\
  incl (map fst (r_cache (getr s r))) (prog_keyl (r_prog (getr s r))) /\
  length (r_cache (getr s r)) <= prog_keys (r_prog (getr s r)).
Proof. exact cache_one_entry_per_key_lemma. Qed.
Print Assumptions cache_one_entry_per_key.

(** non-vacuity: one rerunner reading slot 0 through a cached child and directly; run to quiescence,
    Invalidate the slot, run to quiescence again: the superseded resource (node 0) has had an addOut, has no
    dependant left and was cleaned up once; the published output carries the new version twice. *)
Definition ex_prog : list op := [OCache 0 [ODep 0]; ODep 0].
Definition ex_s1 : state := run_to_quiet 200 (init 1 [(ex_prog, true)]).
Definition ex_s2 : state :=
  match step ex_s1 (LInvalidate 0) with Some s => run_to_quiet 400 s | None => ex_s1 end.

Example ex_reachable : reachable (init 1 [(ex_prog, true)]) ex_s2.
Proof.
  assert (R1 : reachable (init 1 [(ex_prog, true)]) ex_s1).
  { unfold ex_s1, run_to_quiet. destruct (run (init 1 [(ex_prog, true)]) (drive 200 (init 1 [(ex_prog, true)]))) eqn:E.
    - eapply run_reachable; [apply reach_init | exact E].
    - apply reach_init. }
  unfold ex_s2. destruct (step ex_s1 (LInvalidate 0)) eqn:E; [|exact R1].
  unfold run_to_quiet. destruct (run s (drive 400 s)) eqn:E2.
  - eapply run_reachable; [eapply reach_step; [exact R1 | exact E] | exact E2].
  - eapply reach_step; [exact R1 | exact E].
Qed.

Example ex_quiescent_and_cleaned :
  quiescent ex_s2 /\ n_had (getN ex_s2 0) = true /\ n_out (getN ex_s2 0) = [] /\ n_hrel (getN ex_s2 0) <> None /\
  n_cln (getN ex_s2 0) = 1 /\ slot_ver ex_s2 0 = 1 /\ r_out (getr ex_s2 0) = Some [(0, 1); (0, 1)].
Proof. vm_compute. repeat split; discriminate. Qed.

Example ex_cache_entry : map fst (r_cache (getr ex_s2 0)) = [0] /\ prog_keyl ex_prog = [0].
Proof. vm_compute. split; reflexivity. Qed.

(** non-vacuity of the registrant form: in [ex_s2] the superseded resource (node 0) was registered by the first
    run's cached child (node 2) and by the first root computation (node 1); both have been released; the current
    resource (node 3) has the live cached child and root computation as dependants, both unreleased. *)
Example ex_registrants :
  (forall m, In m [1; 2] -> In 0 (n_ins (getN ex_s2 m)) /\ n_rel (getN ex_s2 m) = true) /\
  n_out (getN ex_s2 (slot_res ex_s2 0)) <> [] /\
  (forall m, In m (n_out (getN ex_s2 (slot_res ex_s2 0))) -> n_rel (getN ex_s2 m) = false).
Proof.
  split; [|split].
  - intros m [<-|[<-|[]]]; vm_compute; split; auto.
  - vm_compute. discriminate.
  - vm_compute. intros m H. repeat (destruct H as [<-|H]; [reflexivity|]). contradiction.
Qed.


(** non-vacuity of the ownership theorems.  Rerunner 0 reads slot 0 through a cached child and slot 1 directly,
    rerunner 1 reads slot 0.  After Stop of rerunner 0, at quiescence: it holds no computation; its computation
    (node 2), its cached child (node 3) and the resource only it used (node 1, slot 1) are released, node 1 with
    exactly one Cleanup; the resource of slot 0 (node 0) is still held: its dependant is node 4, the current
    computation of rerunner 1.  After Stop of rerunner 1 as well, node 0 and node 4 are released too. *)
Definition ex_own_progs : list (list op * bool) := [([OCache 0 [ODep 0]; ODep 1], true); ([ODep 0], true)].
Definition ex_own1 : state := run_to_quiet 400 (init 2 ex_own_progs).
Definition ex_own2 : state := match step ex_own1 (LStop 0) with Some s => run_to_quiet 400 s | None => ex_own1 end.
Definition ex_own3 : state := match step ex_own2 (LStop 1) with Some s => run_to_quiet 400 s | None => ex_own2 end.
Example ex_stopped_holds_nothing :
  quiescent ex_own2 /\ r_stop (getr ex_own2 0) = true /\ r_comp (getr ex_own2 0) = None /\
  map (fun x => n_rel x) (s_nodes ex_own2) = [false; true; true; true; false; false] /\ n_cln (getN ex_own2 1) = 1 /\
  n_out (getN ex_own2 0) = [4] /\ r_comp (getr ex_own2 1) = Some 4 /\ r_stop (getr ex_own2 1) = false /\
  quiescent ex_own3 /\ map (fun x => n_rel x) (s_nodes ex_own3) = [true; true; true; true; true; false; false] /\ n_cln (getN ex_own3 0) = 1.
Proof. vm_compute. repeat split. Qed.
Example ex_own_progs_ok : progs_ok 2 ex_own_progs.
Proof. intros p [<-|[<-|[]]]; reflexivity. Qed.
