(** C08 — the reactive cache never serves superseded values and releases every resource.

    Model: Reactive/Graph.v, Reactive/Rerunner.v (see Props/C04.v).  [n_cln (getN s n)] counts how many times the
    afterRelease callback of node n (the Cleanup callback of a Resource, or the timer.Stop of InvalidateAfter)
    has run; [n_had]: node n was the dependency of at least one addOut call; [n_hrel]: the registered callback. *)
From Coq Require Import List.
From Thunder Require Import Reactive.Graph Reactive.Rerunner Reactive.ProofsBase Reactive.ProofsMutex
  Reactive.ProofsRefcount Reactive.ProofsArmed Reactive.ProofsStale Reactive.ProofsOut Reactive.Drive.
Import ListNotations.

(** The value of a computation is the list of (slot, version) pairs it read, with the values of the cached
    children it adopted appended (reactive.Cache returns child.value whether the child was just computed or
    found in the cache).  At quiescence no valid computation — published, or memoised in a cache — holds a
    superseded version: a cache entry that would serve one is invalidated, and cleanInvalidated / addOut's
    shouldInvalidate keep it from being served without a re-run. *)
Theorem valid_computation_holds_current_versions :
  forall k progs s c sl v, reachable (init k progs) s -> quiescent s ->
  n_inv (getN s c) = false -> In (sl, v) (n_val (getN s c)) -> v = slot_ver s sl.
Proof. exact quiescent_valid_current. Qed.
Print Assumptions valid_computation_holds_current_versions.

(** ... in particular the final output of every rerunner that was neither stopped nor has failed contains no
    value computed from a superseded version, read directly or through cached children. *)
Theorem final_output_has_no_superseded_version :
  forall k progs s r, reachable (init k progs) s -> quiescent s -> r < length (s_rrs s) ->
  r_cancel (getr s r) = false -> r_failed (getr s r) = false ->
  exists c, r_comp (getr s r) = Some c /\
    forall sl v, In (sl, v) (n_val (getN s c)) -> v = slot_ver s sl.
Proof. exact no_lost_invalidation_lemma. Qed.
Print Assumptions final_output_has_no_superseded_version.

(** the same about the published value [r_out] itself (a prefix of the current computation's value) *)
Theorem published_output_has_no_superseded_version :
  forall k progs s r, reachable (init k progs) s -> quiescent s -> r < length (s_rrs s) ->
  r_cancel (getr s r) = false -> r_failed (getr s r) = false ->
  exists out, r_out (getr s r) = Some out /\ forall sl v, In (sl, v) out -> v = slot_ver s sl.
Proof.
  intros k progs s r R Q Hr X1 X2.
  destruct (no_lost_invalidation_lemma _ _ _ _ R Q Hr X1 X2) as [c [E1 E2]].
  destruct (reachable_out _ _ _ R r c E1) as [v [ext [O1 O2]]].
  exists v. split; [exact O1|]. intros sl x Hin. apply E2. unfold getN. rewrite O2. apply in_app_iff. left. exact Hin.
Qed.
Print Assumptions published_output_has_no_superseded_version.

(** Under every schedule a cleanup callback runs at most once ... *)
Theorem cleanup_at_most_once :
  forall k progs s n, reachable (init k progs) s -> n_cln (getN s n) <= 1.
Proof. exact cleanup_at_most_once_lemma. Qed.
Print Assumptions cleanup_at_most_once.

(** ... and only once the node has been released. *)
Theorem cleanup_only_after_release :
  forall k progs s n, reachable (init k progs) s -> n_cln (getN s n) = 1 -> n_rel (getN s n) = true.
Proof. exact cleanup_only_released_lemma. Qed.
Print Assumptions cleanup_only_after_release.

(** "... after the last computation depending on it is superseded or stopped".  In the model a release is only
    ever started by the two critical sections that compute [shouldRelease] (release's loop over in-edges,
    graph.go:127-130, and addOut, graph.go:163), and both decide it only when the node has no dependant left:
    a computation that is linked below a resource and has not been released itself (released = superseded,
    stopped or failed) keeps the resource's [out] non-empty, so neither section can decide its release; with
    [cleanup_only_after_release] the callback cannot run before that.  A computation may still register on a
    node whose release has already been decided (re-adoption of a cached child, or a resource, in the window
    before [released] is set): it is linked, and invalidated at once (Edge/Stale invariants).
    On the implementation the same is an oracle clause, evaluated at the moment the code under test decides a
    release (resource-released-while-current-computation-depends-on-it): no computation that registered the
    resource before that moment - directly or through cached children - may still be running, or be the
    published computation of a rerunner that was not stopped.  A tree that decides otherwise also disagrees
    with the replay (the recorded shouldRelease differs, component 3). *)
Theorem release_decided_only_without_dependants :
  (forall g from n g', g_rel_dep g from n = (g', true) -> n_out (getn g' from) = []) /\
  (forall g n to g' linked shinv, g_add_out g n to = (g', (linked, shinv, true)) -> n <> to -> n_out (getn g' n) = []).
Proof. exact release_decided_only_when_no_dependant. Qed.
Print Assumptions release_decided_only_without_dependants.

(** At quiescence every resource that received at least one addOut and has no dependant left (its [out] is
    empty: every computation that depended on it was superseded, failed or stopped and has been released) is
    released and its callback ran exactly once. *)
Theorem cleanup_exactly_once_at_quiescence :
  forall k progs s n, reachable (init k progs) s -> quiescent s ->
  n_had (getN s n) = true -> n_out (getN s n) = [] -> n_hrel (getN s n) <> None ->
  n_rel (getN s n) = true /\ n_cln (getN s n) = 1.
Proof. exact cleanup_exactly_once_lemma. Qed.
Print Assumptions cleanup_exactly_once_at_quiescence.

From Thunder Require Import Reactive.ProofsLink.

(** The two halves of an edge agree, in every reachable state: a dependant listed in [out] has the dependency
    in its [in] list (addOut writes both under both locks, graph.go:144-166), and a dependant that has been
    released is on its way out of the [out] set — the goroutine that released it still has the dependency in
    the list of in-edges it walks (graph.go:124-135). *)
Theorem edge_halves_agree :
  forall k progs s n m, reachable (init k progs) s -> In m (n_out (getN s n)) ->
  In n (n_ins (getN s m)) /\
  (n_rel (getN s m) = true -> exists froms, In (FRelDeps m froms) (all_frames s) /\ In n froms).
Proof.
  intros k progs s n m R Hin. destruct (reachable_link k progs s R) as [A B].
  split; [exact (A n m Hin) | exact (B n m Hin)].
Qed.
Print Assumptions edge_halves_agree.

(** ... so at quiescence the dependants of a node are exactly computations that registered it and have not been
    released. *)
Theorem dependants_are_unreleased_registrants_at_quiescence :
  forall k progs s n m, reachable (init k progs) s -> quiescent s ->
  In m (n_out (getN s n)) -> In n (n_ins (getN s m)) /\ n_rel (getN s m) = false.
Proof. exact quiescent_out_registered. Qed.
Print Assumptions dependants_are_unreleased_registrants_at_quiescence.

(** "... has its cleanup callback run exactly once after the last computation depending on it is superseded or
    stopped", with the premise about the computations rather than about the reference count: at quiescence a
    resource that received an addOut, and every registrant of which (every node m that has it in m.in: the
    computations whose AddDependency, or whose adoption of a cached child, linked them below it) has been
    released — superseded, stopped or failed —, has no dependant left, is released, and its callback ran exactly
    once.  (With [release_decided_only_without_dependants] and [cleanup_only_after_release]: not before.) *)
Theorem cleanup_exactly_once_after_last_registrant_released :
  forall k progs s n, reachable (init k progs) s -> quiescent s ->
  n_had (getN s n) = true -> n_hrel (getN s n) <> None ->
  (forall m, In n (n_ins (getN s m)) -> n_rel (getN s m) = true) ->
  n_out (getN s n) = [] /\ n_rel (getN s n) = true /\ n_cln (getN s n) = 1.
Proof. exact cleanup_after_last_registrant_lemma. Qed.
Print Assumptions cleanup_exactly_once_after_last_registrant_released.

From Thunder Require Import Reactive.Measure Reactive.ProofsCacheKeys.

(** The cache of a rerunner (cache.computations, rerunner.go:72-76) holds at most one memoised computation per
    key — cache.set stores only when the key is free (rerunner.go:90-92), cleanInvalidated and PurgeCache only
    remove — and only under keys of reactive.Cache calls of the rerunner's compute function ([prog_keyl]), in
    every reachable state: its size is bounded by the number of Cache calls of the function, whatever the
    interleaving of lookups, insertions (also from goroutines inside the function), cleanInvalidated, PurgeCache
    and the retry path's purge. *)
Theorem cache_one_entry_per_key :
  forall k progs s r, reachable (init k progs) s ->
  NoDup (map fst (r_cache (getr s r))) /\
  incl (map fst (r_cache (getr s r))) (prog_keyl (r_prog (getr s r))) /\
  length (r_cache (getr s r)) <= prog_keys (r_prog (getr s r)).
Proof. exact cache_one_entry_per_key_lemma. Qed.
Print Assumptions cache_one_entry_per_key.

(** non-vacuity: one rerunner reading slot 0 through a cached child and directly; run to quiescence,
    Invalidate the slot, run to quiescence again: the superseded resource (node 0) has had an addOut, has no
    dependant left and was cleaned up once; the published output carries the new version twice. *)
Definition ex_prog : list op := [OCache 0 [ODep 0]; ODep 0].
Definition ex_s1 : state := run_to_quiet 200 (init 1 [(ex_prog, true)]).
Definition ex_s2 : state :=
  match step ex_s1 (LInvalidate 0) with Some s => run_to_quiet 400 s | None => ex_s1 end.

Example ex_reachable : reachable (init 1 [(ex_prog, true)]) ex_s2.
Proof.
  assert (R1 : reachable (init 1 [(ex_prog, true)]) ex_s1).
  { unfold ex_s1, run_to_quiet. destruct (run (init 1 [(ex_prog, true)]) (drive 200 (init 1 [(ex_prog, true)]))) eqn:E.
    - eapply run_reachable; [apply reach_init | exact E].
    - apply reach_init. }
  unfold ex_s2. destruct (step ex_s1 (LInvalidate 0)) eqn:E; [|exact R1].
  unfold run_to_quiet. destruct (run s (drive 400 s)) eqn:E2.
  - eapply run_reachable; [eapply reach_step; [exact R1 | exact E] | exact E2].
  - eapply reach_step; [exact R1 | exact E].
Qed.

Example ex_quiescent_and_cleaned :
  quiescent ex_s2 /\ n_had (getN ex_s2 0) = true /\ n_out (getN ex_s2 0) = [] /\ n_hrel (getN ex_s2 0) <> None /\
  n_cln (getN ex_s2 0) = 1 /\ slot_ver ex_s2 0 = 1 /\ r_out (getr ex_s2 0) = Some [(0, 1); (0, 1)].
Proof. vm_compute. repeat split; discriminate. Qed.

Example ex_cache_entry : map fst (r_cache (getr ex_s2 0)) = [0] /\ prog_keyl ex_prog = [0].
Proof. vm_compute. split; reflexivity. Qed.

(** non-vacuity of the registrant form: in [ex_s2] the superseded resource (node 0) was registered by the first
    run's cached child (node 2) and by the first root computation (node 1); both have been released; the current
    resource (node 3) has the live cached child and root computation as dependants, both unreleased. *)
Example ex_registrants :
  (forall m, In m [1; 2] -> In 0 (n_ins (getN ex_s2 m)) /\ n_rel (getN ex_s2 m) = true) /\
  n_out (getN ex_s2 (slot_res ex_s2 0)) <> [] /\
  (forall m, In m (n_out (getN ex_s2 (slot_res ex_s2 0))) -> n_rel (getN ex_s2 m) = false).
Proof.
  split; [|split].
  - intros m [<-|[<-|[]]]; vm_compute; split; auto.
  - vm_compute. discriminate.
  - vm_compute. intros m H. repeat (destruct H as [<-|H]; [reflexivity|]). contradiction.
Qed.
