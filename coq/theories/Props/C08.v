(** C08 — reactive cache never serves superseded values and releases every resource (first increment: pipeline). *)
From Coq Require Import List.
From Thunder Require Import Reactive.Graph Reactive.Rerunner.
Import ListNotations.

(* every run of the model starts with one waiting run task per rerunner: the initial state is not quiescent *)
Theorem init_not_quiescent_partial :
  forall nslots p ps, ~ quiescent (init nslots (p :: ps)).
Proof. intros nslots p ps H. unfold quiescent, init in H. simpl in H. discriminate H. Qed.
Print Assumptions init_not_quiescent_partial.
