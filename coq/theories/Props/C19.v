(** C19: @skip/@include behave as textual deletion.  Statements only; proofs are in Gql/Proofs*.v. *)
From Coq Require Import List String Bool.
From Thunder Require Import Lib.Json Gql.Types Gql.Value Gql.Query Gql.Ref Gql.Exec Gql.ProofsDirective.
Import ListNotations.
Open Scope string_scope.

(** A node is kept by ShouldIncludeNode (as repaired) exactly when every directive on it allows it:
    with both directives, iff @skip does not exclude it and @include does not exclude it; conditions
    literal or from variables. *)
Theorem node_included_iff_every_directive_allows : forall vs ds,
  dirs_wf vs ds = true -> should_include fixed (parse_dirs vs ds) = Ok (allowed vs ds).
Proof. exact should_include_textual. Qed.
Print Assumptions node_included_iff_every_directive_allows.

(** The code before the repair (F6) kept a node with @skip(if:false) @include(if:false). *)
Theorem node_included_original_refuted :
  exists vs ds, dirs_wf vs ds = true /\ should_include original (parse_dirs vs ds) <> Ok (allowed vs ds).
Proof. exact should_include_original_refuted. Qed.
Print Assumptions node_included_original_refuted.

Example hypotheses_satisfiable :
  dirs_wf [("v", JBool true)] [SDir "include" (CVar "v"); SDir "skip" (CLit (JBool false))] = true.
Proof. reflexivity. Qed.
