(** C19: @skip/@include behave as textual deletion.  Statements only; proofs are in Gql/Proofs*.v. *)
From Coq Require Import List String Bool.
From Thunder Require Import Lib.Json Gql.Types Gql.Value Gql.Query Gql.Ref Gql.Exec Gql.ProofsDirective Gql.Witness Gql.ProofsWitness.
Import ListNotations.
Open Scope string_scope.

(** A node is kept by ShouldIncludeNode (as repaired) exactly when every directive on it allows it:
    with both directives, iff @skip does not exclude it and @include does not exclude it; conditions
    literal or from variables. *)
Theorem node_included_iff_every_directive_allows : forall vs ds,
  dirs_wf vs ds = true -> should_include fixed (parse_dirs vs ds) = Ok (allowed vs ds).
Proof. exact should_include_textual. Qed.
Print Assumptions node_included_iff_every_directive_allows.

(** The code before the repair (F6) kept a node with @skip(if:false) @include(if:false). *)
Theorem node_included_original_refuted :
  exists vs ds, dirs_wf vs ds = true /\ should_include original (parse_dirs vs ds) <> Ok (allowed vs ds).
Proof. exact should_include_original_refuted. Qed.
Print Assumptions node_included_original_refuted.

(** The code before the repairs, as a model variant ([original]), breaks "annotated = pruned" under an
    object parent with two selections of one alias (F9), under a union parent (F8), and through a
    decorated spread of a shared fragment (F7); each witness is replayed on the real code by
    corpus/C19/f9-*.json, f8-*.json, f7-*.json. *)
Theorem prune_equivalence_original_refuted_same_alias :
  exists S vs q root, directives_wellformed vs q = true /\
    norm_result (exec_fifo original S vs q root) <> norm_result (exec_fifo original S vs (prune vs q) root).
Proof. exists w_schema, [], w_f9, w_root. exact f9_witness. Qed.
Print Assumptions prune_equivalence_original_refuted_same_alias.

Theorem prune_equivalence_original_refuted_union_parent :
  exists S vs q root, directives_wellformed vs q = true /\
    norm_result (exec_fifo original S vs q root) <> norm_result (exec_fifo original S vs (prune vs q) root).
Proof. exists w_schema, [], w_f8, w_root. exact f8_witness. Qed.
Print Assumptions prune_equivalence_original_refuted_union_parent.

(** Spread independence on the original code: negating the condition of the spread under "a" changes
    what the other spread of the same fragment returns under "b"; not so on the repaired model. *)
Theorem spread_independence_original_refuted :
  result_field "b" (exec_fifo original w_schema [] w_f7 w_root) <> result_field "b" (exec_fifo original w_schema [] w_f7' w_root)
  /\ result_field "b" (exec_fifo fixed w_schema [] w_f7 w_root) = result_field "b" (exec_fifo fixed w_schema [] w_f7' w_root).
Proof. exact f7_independence_witness. Qed.
Print Assumptions spread_independence_original_refuted.

Example hypotheses_satisfiable :
  dirs_wf [("v", JBool true)] [SDir "include" (CVar "v"); SDir "skip" (CLit (JBool false))] = true.
Proof. reflexivity. Qed.
