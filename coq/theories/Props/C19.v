(** C19: @skip/@include behave as textual deletion.  Statements only; proofs are in Gql/Proofs*.v. *)
From Coq Require Import List String Bool ZArith.
From Thunder Require Import Lib.Json Gql.Types Gql.Value Gql.Query Gql.Ref Gql.Exec Gql.ProofsDirective
  Gql.ProofsRef Gql.ProofsMain Gql.ProofsEnt Gql.ProofsTop Gql.ProofsPrune Gql.ProofsParsePrune Gql.Witness Gql.ProofsWitness.
From Thunder Require Federation.Normalize Federation.Executor Federation.FedWitness Gql.FedPrune Gql.FedPruneTie.
Import ListNotations.
Open Scope string_scope.

(** THE PROPERTY.  For every schema, data graph, variable binding and query whose directives are well
    formed (boolean conditions, literal or from variables; no directive twice on a node): the query and
    its textually pruned form (every node excluded by its directives deleted, the directives dropped from
    the rest) are both accepted by the parser and, under every pair of schedules, Execute returns the
    same data for both - the reference result.  Object and union parents, fields, inline fragments and
    fragment spreads alike.  [ids_wf]: the identities of the parser's *SelectionSet objects are distinct
    (a fact about pointers, checked on every generated case).  The last three hypotheses are those of
    C01's theorem: the reference evaluation raises nothing, no object of its result carries a key twice,
    and the result fits the rendering fuel. *)
Theorem prune_preserves_execution : forall S vs q fuel rf root s sched sched',
  directives_wellformed vs q = true -> ids_wf q = true ->
  parse vs q = Some s ->
  snd (eval_ref S fuel s root) = [] ->
  json_keys_unique (fst (eval_ref S fuel s root)) = true ->
  jdepth (fst (eval_ref S fuel s root)) <= Datatypes.S rf ->
  exists s' st0 st0',
    parse vs (prune vs q) = Some s' /\
    init fixed S s root = inl st0 /\ init fixed S s' root = inl st0' /\
    (complete (run_sched fixed S fuel sched st0) = true ->
     complete (run_sched fixed S fuel sched' st0') = true ->
     finish rf (run_sched fixed S fuel sched st0) = finish rf (run_sched fixed S fuel sched' st0') /\
     finish rf (run_sched fixed S fuel sched st0) = Some (ROk (fst (eval_ref S fuel s root)))).
Proof. exact ProofsTop.prune_preserves_execution_k. Qed.
Print Assumptions prune_preserves_execution.

(** The same for the reference semantics alone, without side conditions on the result (failing
    resolvers included: the data and the list of needed failures coincide). *)
Theorem prune_preserves_reference : forall S vs q fuel root s,
  directives_wellformed vs q = true -> ids_wf q = true ->
  parse vs q = Some s ->
  exists s', parse vs (prune vs q) = Some s' /\ eval_ref S fuel s root = eval_ref S fuel s' root.
Proof. exact ProofsParsePrune.prune_preserves_reference. Qed.
Print Assumptions prune_preserves_reference.

(** Spread independence: two queries with the same pruned form have the same result - the directives
    on one spread of a fragment matter only through that spread's own verdict, never for another spread
    of the same fragment. *)
Theorem spread_independence : forall S vs q q' fuel root s s',
  directives_wellformed vs q = true -> ids_wf q = true ->
  directives_wellformed vs q' = true -> ids_wf q' = true ->
  prune vs q = prune vs q' ->
  parse vs q = Some s -> parse vs q' = Some s' ->
  eval_ref S fuel s root = eval_ref S fuel s' root.
Proof. exact ProofsParsePrune.same_pruned_form_same_reference. Qed.
Print Assumptions spread_independence.

(** A node is kept by ShouldIncludeNode (as repaired) exactly when every directive on it allows it:
    with both directives, iff @skip does not exclude it and @include does not exclude it; conditions
    literal or from variables. *)
Theorem node_included_iff_every_directive_allows : forall vs ds,
  dirs_wf vs ds = true -> should_include fixed (parse_dirs vs ds) = Ok (allowed vs ds).
Proof. exact should_include_textual. Qed.
Print Assumptions node_included_iff_every_directive_allows.

(** The code before the repair (F6) kept a node with @skip(if:false) @include(if:false). *)
Theorem node_included_original_refuted :
  exists vs ds, dirs_wf vs ds = true /\ should_include original (parse_dirs vs ds) <> Ok (allowed vs ds).
Proof. exact should_include_original_refuted. Qed.
Print Assumptions node_included_original_refuted.

(** The code before the repairs, as a model variant ([original]), breaks "annotated = pruned" under an
    object parent with two selections of one alias (F9), under a union parent (F8), and through a
    decorated spread of a shared fragment (F7); each witness is replayed on the real code by
    corpus/C19/f9-*.json, f8-*.json, f7-*.json. *)
Theorem prune_equivalence_original_refuted_same_alias :
  exists S vs q root, directives_wellformed vs q = true /\
    norm_result (exec_fifo original S vs q root) <> norm_result (exec_fifo original S vs (prune vs q) root).
Proof. exists w_schema, [], w_f9, w_root. exact f9_witness. Qed.
Print Assumptions prune_equivalence_original_refuted_same_alias.

Theorem prune_equivalence_original_refuted_union_parent :
  exists S vs q root, directives_wellformed vs q = true /\
    norm_result (exec_fifo original S vs q root) <> norm_result (exec_fifo original S vs (prune vs q) root).
Proof. exists w_schema, [], w_f8, w_root. exact f8_witness. Qed.
Print Assumptions prune_equivalence_original_refuted_union_parent.

(** Spread independence on the original code: negating the condition of the spread under "a" changes
    what the other spread of the same fragment returns under "b"; not so on the repaired model. *)
Theorem spread_independence_original_refuted :
  result_field "b" (exec_fifo original w_schema [] w_f7 w_root) <> result_field "b" (exec_fifo original w_schema [] w_f7' w_root)
  /\ result_field "b" (exec_fifo fixed w_schema [] w_f7 w_root) = result_field "b" (exec_fifo fixed w_schema [] w_f7' w_root).
Proof. exact f7_independence_witness. Qed.
Print Assumptions spread_independence_original_refuted.

(** * Through the federation gateway.
    The gateway's reading of a query is the federation model's (Federation/Normalize.v: field selections
    and fragments with their evaluated directives, spreads inlined); [fprune] is the textual deletion on
    that reading, and it IS C19's [prune] seen through [to_fed] (the way graphql.Parse hands the query
    to the gateway). *)
Theorem gateway_reading_commutes_with_prune : forall vs q,
  directives_wellformed vs q = true ->
  FedPruneTie.to_fed vs (prune vs q) = FedPrune.fprune (FedPruneTie.to_fed vs q).
Proof. exact FedPruneTie.to_fed_prune. Qed.
Print Assumptions gateway_reading_commutes_with_prune.

(** The combined server's reference semantics (Federation/Executor.v [eval_ref]: CollectFields and
    ExecuteSelectionSet with @skip/@include honoured; object, union and list results; any world of data,
    any type, object and fuel) gives the annotated and the pruned query the same answer. *)
Theorem gateway_reference_prune : forall w g tn fuel ty id sels,
  FedPrune.fwf sels = true ->
  Executor.eval_ref w g tn fuel ty id (FedPrune.fprune sels) = Executor.eval_ref w g tn fuel ty id sels.
Proof. exact FedPrune.eval_ref_prune. Qed.
Print Assumptions gateway_reference_prune.

(** Hence through the gateway.  [transparent_on w g pick q] is, verbatim, the conclusion of C06's
    [federation_transparent] for the query q (the gateway answers, the combined server answers, equal
    as JSON maps); C06 proves it under its premises on the federation, the data and the normal form.
    Whenever the gateway is transparent on the annotated query and on the pruned query, it answers both
    and both answers equal, as JSON maps, the combined server's answer to the annotated query - for
    every world of data, federation, service choice and well-formed query. *)
Theorem gateway_prune : forall w g pick q,
  FedPrune.fwf q = true ->
  FedPrune.transparent_on w g pick q -> FedPrune.transparent_on w g pick (FedPrune.fprune q) ->
  exists a a', Executor.fed_exec w g pick false true q = Some a /\
               Executor.fed_exec w g pick false true (FedPrune.fprune q) = Some a' /\
               (forall r, Executor.eval_ref w g true (2 * Normalize.depth_list q + 4) "Query" 0%Z q = Some r -> jeq a r /\ jeq a' r).
Proof. exact FedPrune.gateway_prune. Qed.
Print Assumptions gateway_prune.

(** ... and the same stated on the query as the client wrote it. *)
Theorem gateway_prune_source : forall w g pick vs q,
  directives_wellformed vs q = true ->
  FedPrune.transparent_on w g pick (FedPruneTie.to_fed vs q) ->
  FedPrune.transparent_on w g pick (FedPruneTie.to_fed vs (prune vs q)) ->
  exists a a', Executor.fed_exec w g pick false true (FedPruneTie.to_fed vs q) = Some a /\
               Executor.fed_exec w g pick false true (FedPruneTie.to_fed vs (prune vs q)) = Some a' /\
               (forall r, Executor.eval_ref w g true (2 * Normalize.depth_list (FedPruneTie.to_fed vs q) + 4) "Query" 0%Z (FedPruneTie.to_fed vs q) = Some r ->
                          jeq a r /\ jeq a' r).
Proof. exact FedPruneTie.gateway_prune_source. Qed.
Print Assumptions gateway_prune_source.

(** On the gateway model, ShouldIncludeNode is the textual rule too. *)
Theorem gateway_node_included_iff_every_directive_allows : forall ds,
  nodup_keys (map fst ds) = true -> Normalize.should_include ds = FedPrune.fallowed ds.
Proof. exact FedPrune.should_include_textual. Qed.
Print Assumptions gateway_node_included_iff_every_directive_allows.

(** Non-vacuity: a two-service federation, `self @skip(if:true) { p }  self { q }` (q on the second
    service): the query is well formed, pruning changes it, the gateway answers both, alike. *)
Example gateway_hypotheses_satisfiable :
  FedPrune.fwf FedWitness.q_excl = true /\
  FedPrune.fprune FedWitness.q_excl <> FedWitness.q_excl /\
  Executor.fed_exec FedWitness.ww FedWitness.wg FedWitness.pick1 false true FedWitness.q_excl <> None /\
  option_map norm (Executor.fed_exec FedWitness.ww FedWitness.wg FedWitness.pick1 false true FedWitness.q_excl)
  = option_map norm (Executor.fed_exec FedWitness.ww FedWitness.wg FedWitness.pick1 false true (FedPrune.fprune FedWitness.q_excl)).
Proof.
  split; [vm_compute; reflexivity|]. split; [vm_compute; discriminate|]. split; [vm_compute; discriminate|vm_compute; reflexivity].
Qed.

(** ... and a source query with a decorated spread reads, pruned, as the pruned reading. *)
Example gateway_reading_example :
  FedPruneTie.to_fed [] (prune [] w_f7) = FedPrune.fprune (FedPruneTie.to_fed [] w_f7) /\
  List.length (FedPruneTie.to_fed [] w_f7) = 2.
Proof. split; vm_compute; reflexivity. Qed.

Example theorem_hypotheses_satisfiable :
  directives_wellformed [] w_f7 = true /\ ids_wf w_f7 = true /\ wt_of w_f7 = [(10, 4)] /\
  (exists s, parse [] w_f7 = Some s /\ snd (eval_ref w_schema 40 s w_root) = []) /\
  prune [] w_f7 <> w_f7.
Proof.
  split; [reflexivity|]. split; [reflexivity|]. split; [reflexivity|].
  split; [eexists; split; [vm_compute; reflexivity|vm_compute; reflexivity]|]. discriminate.
Qed.

(** Inline fragments without a type condition are in the grammar: where such a query is accepted (the
    model's [parse] accepts it; /repo rejects it at Parse), the theorems above apply to it as to any other. *)
Example untyped_inline_fragment_covered :
  directives_wellformed [] w_untyped = true /\ ids_wf w_untyped = true /\
  (exists s, parse [] w_untyped = Some s) /\
  norm_result (exec_fifo fixed w_schema [] w_untyped w_root)
  = Some (ROk (JObj [("r1", JObj [("s0", JNum 20%Z)])])).
Proof.
  split; [vm_compute; reflexivity|]. split; [vm_compute; reflexivity|].
  split; [eexists; vm_compute; reflexivity|vm_compute; reflexivity].
Qed.

Example hypotheses_satisfiable :
  dirs_wf [("v", JBool true)] [SDir "include" (CVar "v"); SDir "skip" (CLit (JBool false))] = true.
Proof. reflexivity. Qed.
