(** C18 - arguments reach resolvers exactly as sent, by literal or by variable. *)
From Coq Require Import List ZArith String.
From Thunder Require Import Lib.Json Args.Model Args.Proofs.
Import ListNotations.

(** Rejections happen in the prepare phase: in every run of the two-phase machine (any number of
    resolver steps in any order), a request whose preparation fails - a literal that does not convert,
    a default on a required variable, an argument that does not parse - sees no resolver call at all,
    and every resolver call that does happen receives exactly the value [prepare] computed. *)
Theorem no_resolver_before_args :
  forall b64 tdec xdec (rq : request) (ls : list label) (st : mstate),
    run b64 tdec xdec rq MInit ls = Some st ->
    (forall e, prepare b64 tdec xdec rq = Err e -> calls_of st = []) /\
    (forall i a, In (i, a) (calls_of st) ->
       exists args, prepare b64 tdec xdec rq = Ok args /\ nth_error args i = Some a).
Proof. exact Proofs.no_resolver_before_args. Qed.
Print Assumptions no_resolver_before_args.
