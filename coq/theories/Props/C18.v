(** C18 - arguments reach resolvers exactly as sent, by literal or by variable.

    Model: Args/Model.v ([vtj] = valueToJson, [apply_defaults], [parse] = the argParsers of
    schemabuilder/input.go, [prepare]/[step] = Parse + PrepareQuery before Execute).
    Vocabulary of the statements: Args/Spec.v ([wf_ty], [sendable], [json_of], [lit_of], [renders],
    [mismatch], [required]).  The third-party decoders (base64, time.Parse, UnmarshalText) are
    universally quantified functions; their encoders only have to satisfy the round-trip hypotheses
    written in each statement (instantiated at the end of the file). *)
From Coq Require Import List ZArith String Lia.
From Thunder Require Import Lib.Json Args.Model Args.Spec Args.Codec Args.Proofs Args.ProofsReject Args.ProofsInst Args.ProofsSubst Args.ProofsTotal Args.ProofsDoc Args.ProofsPaginated Gen.ArgParsers Args.Table Args.ModelBuilder Args.ProofsBuilder Args.ProofsRange Args.ProofsEnum.
Import ListNotations.
Local Open Scope Z_scope.

(** Literal transport: for every well-formed argument type and every value in range (integers within
    their width and |z| <= 2^53, float32 with a 24-bit significand), the literal written into the
    query text converts (valueToJson) and the argument parser returns exactly the value sent. *)
Theorem literal_transport :
  forall (b64 : string -> option (list Z)) (tdec : string -> option tval) (xdec : string -> option string)
         (b64e : list Z -> string) (tenc : tval -> string) (xenc : string -> string)
         (time_ok : tval -> Prop) (text_ok : string -> Prop),
    (forall b, bytes_ok b -> b64 (b64e b) = Some b) ->
    (forall x, time_ok x -> tdec (tenc x) = Some x) ->
    (forall s, text_ok s -> xdec (xenc s) = Some s) ->
    forall (nullvar : string) (vars : list (string * jv)),
      lookup nullvar vars = None \/ lookup nullvar vars = Some VNull ->
      forall (t : ty) (v : gv),
        wf_ty t -> sendable time_ok text_ok t v ->
        exists j, vtj vars (lit_of b64e tenc xenc nullvar t v) = Ok j /\ parse b64 tdec xdec t j = Ok v.
Proof. exact Proofs.literal_roundtrip. Qed.
Print Assumptions literal_transport.

(** Variable transport: the same value supplied as JSON through a variable parses to the value sent ... *)
Theorem variable_transport :
  forall (b64 : string -> option (list Z)) (tdec : string -> option tval) (xdec : string -> option string)
         (b64e : list Z -> string) (tenc : tval -> string) (xenc : string -> string)
         (time_ok : tval -> Prop) (text_ok : string -> Prop),
    (forall b, bytes_ok b -> b64 (b64e b) = Some b) ->
    (forall x, time_ok x -> tdec (tenc x) = Some x) ->
    (forall s, text_ok s -> xdec (xenc s) = Some s) ->
    forall (t : ty) (v : gv),
      wf_ty t -> sendable time_ok text_ok t v ->
      parse b64 tdec xdec t (json_of b64e tenc xenc t v) = Ok v.
Proof. exact Proofs.variable_roundtrip. Qed.
Print Assumptions variable_transport.

(** ... and more generally every rendering of a value - members in any order, null members written or
    left out, unknown members present, any representation of a number whose integer part is the value -
    parses to that value (no hypothesis on the type or on the decoders). *)
Theorem every_rendering_parses :
  forall b64 tdec xdec (t : ty) (v : gv) (j : jv),
    renders b64 tdec xdec t v j -> parse b64 tdec xdec t j = Ok v.
Proof. exact Proofs.renders_parse. Qed.
Print Assumptions every_rendering_parses.

(** Literal = variable on every input, well formed or not: replacing any sub-literals that convert by
    variables bound to the JSON they convert to ([lsub]) leaves valueToJson's result unchanged, hence
    whatever the argument parser does with it - accept, truncate an out-of-range number, reject - it does
    for both.  (A literal that does not convert - an integer token beyond int64 - has no JSON to bind.) *)
Theorem literal_equals_variable_everywhere :
  forall vars l l', lsub vars l l' -> vtj vars l' = vtj vars l.
Proof. exact ProofsSubst.lsub_vtj. Qed.
Print Assumptions literal_equals_variable_everywhere.

Theorem transport_equivalence :
  forall b64 tdec xdec t defs vars vars' args args',
    apply_defaults defs vars vars = Ok vars' ->
    lsub vars' (LObj args) (LObj args') ->
    run_args b64 tdec xdec t defs vars args' = run_args b64 tdec xdec t defs vars args.
Proof. exact ProofsSubst.transport_equivalence. Qed.
Print Assumptions transport_equivalence.

(** Parse's order (parser.go 382-452): the variable definitions and defaults are processed first, then the
    bodies of the named fragments, then the operation - both with the defaulted variable map.  Hence every
    field occurrence the operation reaches, directly or through inline and named fragments at any depth,
    carries the arguments [args_to_json] computes from its literals under the *defaulted* variables ... *)
Theorem arguments_independent_of_place :
  forall vars vars' (d : doc) (p : pdoc) (fuel : nat),
    apply_defaults (d_defs d) vars vars = Ok vars' -> parse_doc vars d = Ok p ->
    Forall2 (occ_rel vars') (flat_map (sfields fuel (d_frags d)) (d_body d)) (doc_fields fuel p).
Proof. exact ProofsDoc.arguments_independent_of_place. Qed.
Print Assumptions arguments_independent_of_place.

(** ... and a request with the field in the operation body, in a named fragment or in an inline fragment
    is the same request (all the theorems about [run_args] apply to the three places). *)
Theorem place_does_not_matter :
  forall b64 tdec xdec t defs vars args (pl : place),
    run_doc b64 tdec xdec t vars (doc_at pl defs "f"%string args) = run_args b64 tdec xdec t defs vars args.
Proof. exact ProofsDoc.run_doc_place. Qed.
Print Assumptions place_does_not_matter.

(** Selections are independent: a request that selects the field any number of times (aliases, inline and
    named fragments) is accepted exactly when every occurrence, taken on its own with its own arguments, is
    accepted - each resolver then receives the value of its own arguments -, and one occurrence whose own
    arguments are refused makes the request fail with the argument error, wherever it stands and whatever
    the other occurrences look like. *)
Theorem selections_independent :
  forall b64 tdec xdec t vars vars' (d : doc) (p : pdoc) (fuel : nat),
    apply_defaults (d_defs d) vars vars = Ok vars' -> parse_doc vars d = Ok p ->
    let occs := flat_map (sfields fuel (d_frags d)) (d_body d) in
    (forall vs, parse_all b64 tdec xdec t (doc_fields fuel p) = Ok vs <->
                Forall2 (fun sf v => own_outcome b64 tdec xdec t vars' sf (Ok v)) occs vs) /\
    (forall sf e, In sf occs -> own_outcome b64 tdec xdec t vars' sf (Err e) ->
                  parse_all b64 tdec xdec t (doc_fields fuel p) = Err EArgs).
Proof. exact ProofsDoc.selections_independent. Qed.
Print Assumptions selections_independent.

(** Paginated fields (pagination.go buildPaginatedArgParser): once the connection arguments (first, last,
    after, ...) parse, the resolver's own argument struct is parsed exactly as on an ordinary field - all the
    theorems above apply, in particular a missing required argument is refused and optional ones arrive
    nil / zero even when no own argument was sent - provided no own argument is named like a connection
    argument; a connection argument that does not parse is the request's error. *)
Theorem paginated_is_struct_parser :
  forall b64 tdec xdec fs o c,
    (forall n, In n (map fst fs) -> mem_str n conn_names = false) ->
    parse b64 tdec xdec conn_ty (VObj o) = Ok c ->
    parse_paginated b64 tdec xdec (TStruct fs) (VObj o) = parse b64 tdec xdec (TStruct fs) (VObj o).
Proof. exact ProofsPaginated.paginated_is_struct_parser. Qed.
Print Assumptions paginated_is_struct_parser.

Theorem paginated_bad_connection_arg :
  forall b64 tdec xdec t o e,
    parse b64 tdec xdec conn_ty (VObj o) = Err e -> parse_paginated b64 tdec xdec t (VObj o) = Err e.
Proof. exact ProofsPaginated.paginated_bad_connection_arg. Qed.
Print Assumptions paginated_bad_connection_arg.

(** End to end for one field: Parse (defaults, argsToJson) followed by the ParseArguments call of
    PrepareQuery hands the resolver exactly the struct that was written as literals ... *)
Theorem literal_request_echoes :
  forall (b64 : string -> option (list Z)) (tdec : string -> option tval) (xdec : string -> option string)
         (b64e : list Z -> string) (tenc : tval -> string) (xenc : string -> string)
         (time_ok : tval -> Prop) (text_ok : string -> Prop),
    (forall b, bytes_ok b -> b64 (b64e b) = Some b) ->
    (forall x, time_ok x -> tdec (tenc x) = Some x) ->
    (forall s, text_ok s -> xdec (xenc s) = Some s) ->
    forall nullvar fs vs args defs vars vars',
      wf_ty (TStruct fs) -> sendable time_ok text_ok (TStruct fs) (GStruct vs) ->
      lit_of b64e tenc xenc nullvar (TStruct fs) (GStruct vs) = LObj args ->
      apply_defaults defs vars vars = Ok vars' ->
      (lookup nullvar vars' = None \/ lookup nullvar vars' = Some VNull) ->
      run_args b64 tdec xdec (TStruct fs) defs vars args = Ok (GStruct vs).
Proof. exact ProofsReject.run_args_literal. Qed.
Print Assumptions literal_request_echoes.

(** ... and so does any request - whatever mix of literals, variables and defaults - whose argument
    list converts to a rendering of the value. *)
Theorem rendering_request_echoes :
  forall b64 tdec xdec t defs vars vars' args j v,
    apply_defaults defs vars vars = Ok vars' ->
    args_to_json vars' args = Ok j -> renders b64 tdec xdec t v j ->
    run_args b64 tdec xdec t defs vars args = Ok v.
Proof. exact ProofsReject.run_args_rendering. Qed.
Print Assumptions rendering_request_echoes.

(** Default rule (parser.go 382-422): with distinct variable names, a variable's default is what the
    selection set sees exactly when the client supplied no non-null value for it; a supplied non-null
    value is kept; variables without a default are untouched; a default can only sit on a nullable
    variable. *)
Theorem default_rule :
  forall defs vars vars',
    NoDup (map vd_name defs) -> apply_defaults defs vars vars = Ok vars' ->
    (forall d l, In d defs -> vd_default d = Some l ->
       vd_nonnull d = false /\
       (non_null (lookup (vd_name d) vars) = true -> lookup (vd_name d) vars' = lookup (vd_name d) vars) /\
       (non_null (lookup (vd_name d) vars) = false ->
          exists v, vtj [] l = Ok v /\ lookup (vd_name d) vars' = Some v)) /\
    (forall x, (forall d, In d defs -> vd_name d = x -> vd_default d = None) -> lookup x vars' = lookup x vars).
Proof. exact ProofsReject.default_rule. Qed.
Print Assumptions default_rule.

(** ... at every depth: the defaulted variable is bound to the JSON of its default, and a variable bound to
    the JSON of a sub-literal can stand for it anywhere inside the argument literal ([lsub]: inside object
    literals, lists inside objects, objects inside lists) without changing valueToJson's result. *)
Theorem default_reaches_every_depth :
  forall defs vars vars' d l0,
    NoDup (map vd_name defs) -> apply_defaults defs vars vars = Ok vars' ->
    In d defs -> vd_default d = Some l0 -> non_null (lookup (vd_name d) vars) = false ->
    exists j, vtj [] l0 = Ok j /\ lookup (vd_name d) vars' = Some j /\
      forall l l', lsub vars' l l' -> vtj vars' l' = vtj vars' l.
Proof. exact ProofsDoc.default_reaches_every_depth. Qed.
Print Assumptions default_reaches_every_depth.

(** The rule as coded: a default on a required variable is a client error raised by Parse. *)
Theorem default_on_required_rejected :
  forall defs orig acc d l,
    In d defs -> vd_nonnull d = true -> vd_default d = Some l ->
    apply_defaults defs orig acc = Err EParse.
Proof. exact ProofsReject.default_on_required_rejected. Qed.
Print Assumptions default_on_required_rejected.

(** Every kind mismatch - at the top or at any position inside lists and input objects, including null
    or a missing member where the type is not a pointer / optional - is refused by PrepareQuery. *)
Theorem kind_mismatch_rejected :
  forall b64 tdec xdec (t : ty) (j : jv), mismatch t j = true -> parse b64 tdec xdec t j = Err EArgs.
Proof. exact ProofsReject.mismatch_rejected. Qed.
Print Assumptions kind_mismatch_rejected.

(** Conversely nothing else is refused: the argument parsers fail exactly on [rejects] - a kind mismatch
    at some position, a string its decoder refuses (base64, RFC 3339, UnmarshalText) or a name the enum
    does not have - and accept every other input (numbers of any magnitude included: they are converted
    as [conv] says, which is why the transport theorems carry range hypotheses). *)
Theorem rejected_exactly_when :
  forall b64 tdec xdec t j, parse b64 tdec xdec t j = Err EArgs <-> rejects b64 tdec xdec t j = true.
Proof. exact ProofsTotal.rejected_iff. Qed.
Print Assumptions rejected_exactly_when.

Theorem accepted_exactly_when :
  forall b64 tdec xdec t j, (exists v, parse b64 tdec xdec t j = Ok v) <-> rejects b64 tdec xdec t j = false.
Proof. exact ProofsTotal.accepted_iff. Qed.
Print Assumptions accepted_exactly_when.

Theorem missing_required_rejected :
  forall b64 tdec xdec fs o n t',
    In (n, t') fs -> required t' = true ->
    (lookup n o = None \/ lookup n o = Some VNull) ->
    parse b64 tdec xdec (TStruct fs) (VObj o) = Err EArgs.
Proof. exact ProofsReject.missing_required_rejected. Qed.
Print Assumptions missing_required_rejected.

Theorem null_in_list_rejected :
  forall b64 tdec xdec t' l,
    required t' = true -> In VNull l -> parse b64 tdec xdec (TList t') (VArr l) = Err EArgs.
Proof. exact ProofsReject.null_in_list_rejected. Qed.
Print Assumptions null_in_list_rejected.

(** Optional arguments left out (or sent as null) arrive as nil (pointer) or as the zero value
    (`graphql:",optional"`), whatever else the argument list holds. *)
Theorem missing_optional_nil_or_zero :
  forall b64 tdec xdec fs o v n t',
    NoDup (map fst fs) -> parse b64 tdec xdec (TStruct fs) (VObj o) = Ok v -> In (n, t') fs ->
    (lookup n o = None \/ lookup n o = Some VNull) ->
    exists vs, v = GStruct vs /\
      (forall t2, t' = TPtr t2 -> lookup n vs = Some GNil) /\
      (forall t2, t' = TOpt t2 -> lookup n vs = Some (zero t2)).
Proof. exact ProofsReject.missing_optional_nil_or_zero. Qed.
Print Assumptions missing_optional_nil_or_zero.

(** The argument parsers fail with one error class only (the client error PrepareQuery wraps). *)
Theorem parse_errors_are_client_errors :
  forall b64 tdec xdec t j e, parse b64 tdec xdec t j = Err e -> e = EArgs.
Proof. exact ProofsReject.parse_err_args. Qed.
Print Assumptions parse_errors_are_client_errors.

(** Rejections happen in the prepare phase: in every run of the two-phase machine (any number of
    resolver steps in any order), a request whose preparation fails - a literal that does not convert,
    a default on a required variable, an argument that does not parse - sees no resolver call at all,
    and every resolver call that does happen receives exactly the value [prepare] computed. *)
Theorem no_resolver_before_args :
  forall b64 tdec xdec (rq : request) (ls : list label) (st : mstate),
    run b64 tdec xdec rq MInit ls = Some st ->
    (forall e, prepare b64 tdec xdec rq = Err e -> calls_of st = []) /\
    (forall i a, In (i, a) (calls_of st) ->
       exists args, prepare b64 tdec xdec rq = Ok args /\ nth_error args i = Some a).
Proof. exact Proofs.no_resolver_before_args. Qed.
Print Assumptions no_resolver_before_args.

(** The scalar cases of the model against the source's scalarArgParsers table ([arg_parsers], regenerated
    from input.go by tools/gentables on every run): the table holds exactly one entry per scalar type
    constructor of the model, with the JSON type the model's parser accepts, the conversion the model
    applies and the decoder it calls; and the model's integer conversion for each kind is Go's conversion
    to the type named in that entry followed by Convert to the destination kind (so the uint64 entry
    going through int64 is part of the statement). *)
Theorem scalar_table_covered :
  (forall e, In e arg_parsers <-> In e (map entry_of scalar_tys)) /\
  NoDup (map e_type arg_parsers) /\
  (forall t, table_scalar t -> In t scalar_tys) /\
  (forall k t, exists T, table_conv (go_name k) arg_parsers = Some T /\
                         option_map (wrap (width k) (signed k)) (go_float_conv T t) = Some (conv k t)).
Proof. exact Table.scalar_table_covered. Qed.
Print Assumptions scalar_table_covered.

(** * Enums registered with aliases

    The enum table is a name -> value map and need not be injective (schema.Enum accepts several names for one
    value).  For every table - no hypothesis on it - every registered name, written as a literal or supplied
    through a variable (both reach the parser as the same JSON string), is accepted and arrives as its value; two
    names of one value arrive as the same Go value; a name the table does not have is refused; and so for every
    element of a list.  (Inside input objects and at any depth: [every_rendering_parses], whose [renders]
    allows any registered name.) *)
Theorem every_registered_enum_name_arrives_as_its_value :
  forall b64 tdec xdec vars z names,
    (forall n v, lookup n names = Some v ->
       vtj vars (LEnum n) = Ok (VStr n) /\ parse b64 tdec xdec (TEnum z names) (VStr n) = Ok v) /\
    (forall n1 n2 v, lookup n1 names = Some v -> lookup n2 names = Some v ->
       parse b64 tdec xdec (TEnum z names) (VStr n1) = parse b64 tdec xdec (TEnum z names) (VStr n2)) /\
    (forall n, lookup n names = None -> parse b64 tdec xdec (TEnum z names) (VStr n) = Err EArgs) /\
    (forall ns vs, Forall2 (fun n v => lookup n names = Some v) ns vs ->
       parse b64 tdec xdec (TList (TEnum z names)) (VArr (map VStr ns)) = Ok (GList vs)).
Proof.
  exact (fun b64 tdec xdec vars z names =>
           conj (enum_name_transport b64 tdec xdec vars z names)
             (conj (enum_aliases_same_value b64 tdec xdec z names)
                (conj (enum_unregistered_refused b64 tdec xdec z names)
                      (enum_list_transport b64 tdec xdec z names)))).
Qed.
Print Assumptions every_registered_enum_name_arrives_as_its_value.

(** * "Integers within the float64-exact range": the exact boundary *)

(** Both transports hand the argument parser the float64 nearest to the integer written ([wire_num]:
    valueToJson converts the int64 it read; encoding/json decodes number tokens to float64) ... *)
Theorem integer_literal_is_nearest_float64 :
  forall vars z, int64_ok z = true -> vtj vars (LInt z) = Ok (wire_num z).
Proof. exact ProofsRange.vtj_int. Qed.
Print Assumptions integer_literal_is_nearest_float64.

(** ... and an integer inside the range of its kind (and of int64: there is no larger integer token, and
    the uint64 entry converts through int64) arrives unchanged *exactly when* it is a float64 - at most 53
    significant bits ([f64_exact]); every other integer arrives as a different number. *)
Theorem int_arrives_iff_float64_exact :
  forall b64 tdec xdec k z,
    int_lo k <= z <= int_hi k -> - 2 ^ 63 <= z < 2 ^ 63 ->
    (parse b64 tdec xdec (TInt k) (wire_num z) = Ok (GInt z) <-> f64_exact z).
Proof. exact ProofsRange.int_arrives_iff_float64_exact. Qed.
Print Assumptions int_arrives_iff_float64_exact.

(** 2^53 is the bound of the property's "float64-exact range": every |z| <= 2^53 is a float64, and the
    next integer on either side is not (so it is refuted there: 2^53 + 1 arrives as 2^53, example below). *)
Theorem float64_exact_range_is_tight :
  (forall z, - 2 ^ 53 <= z <= 2 ^ 53 -> f64_exact z) /\
  ~ f64_exact (2 ^ 53 + 1) /\ ~ f64_exact (- (2 ^ 53 + 1)).
Proof. exact ProofsRange.float64_exact_range_tight. Qed.
Print Assumptions float64_exact_range_is_tight.

Theorem beyond_the_float64_exact_range_refuted :
  exists k z, int_lo k <= z <= int_hi k /\ int64_ok z = true /\
    exists j, vtj [] (LInt z) = Ok j /\
              parse b64_dec time_dec text_dec (TInt k) j = Ok (GInt (z - 1)).
Proof.
  exists I64, (2 ^ 53 + 1). split; [vm_compute; split; discriminate|]. split; [reflexivity|].
  exists (wire_num (2 ^ 53 + 1)). split; vm_compute; reflexivity.
Qed.
Print Assumptions beyond_the_float64_exact_range_refuted.

(** * "Every argument type the builder supports": the builder itself

    [gty] is a Go type as the builder sees it through reflect (kind, name, fields with their tag text, and the
    three facts it asks of every type: registered enum, scalarArgParsers entry, TextUnmarshaler); [build] is
    makeArgParser, [build_top] makeStructParser on the argument struct of a field func (Args/ModelBuilder.v).
    The builder supports exactly the types the rules [Builds] derive: in this order a registered enum, an
    entry of the scalar table, a TextUnmarshaler; else a *named* struct whose fields build (embedded fields
    refused, unexported and "-" fields skipped, options only "key" and "optional" and each once, names
    unique, `optional` wraps the field's parser), or a slice of a type that builds; a pointer to any of these
    but not to a pointer. *)
Theorem builder_supports_exactly :
  forall g t, build g = Some t <-> Builds g t.
Proof. exact ProofsBuilder.build_iff. Qed.
Print Assumptions builder_supports_exactly.

Theorem argument_struct_supported_exactly :
  forall g t, build_top g = Some t <->
    exists i name fs l, g = RStruct i name fs /\ t = TStruct l /\ BuildsFields fs [] l.
Proof. exact ProofsBuilder.build_top_iff. Qed.
Print Assumptions argument_struct_supported_exactly.

(** What is refused, on the function: a pointer to a pointer; a kind without parser (map, chan, func,
    interface, array, complex, uintptr) - also as the element of a slice or behind a pointer; an unnamed
    nested struct; a struct with an embedded field or an unexpected tag option, wherever it stands in the
    field list. *)
Theorem unsupported_ingredients_refused :
  (forall g, build (RPtr (RPtr g)) = None) /\
  (forall i, classify i = None -> build (RLeaf i) = None) /\
  (forall i g, classify i = None -> build g = None -> build (RSlice i g) = None) /\
  (forall g, build_inner g = None -> build (RPtr g) = None) /\
  (forall i fs, classify i = None -> build (RStruct i EmptyString fs) = None) /\
  (forall inner m h r seen, fm_anonymous m = true -> struct_fields_with inner ((m, h) :: r) seen = None) /\
  (forall inner m h r seen, field_info m = None -> struct_fields_with inner ((m, h) :: r) seen = None) /\
  (forall inner fs1 fs2 seen, (forall seen', struct_fields_with inner fs2 seen' = None) ->
                              struct_fields_with inner (fs1 ++ fs2) seen = None).
Proof.
  exact (conj pointer_to_pointer_refused (conj unsupported_kind_refused (conj refused_element_refuses_slice
        (conj refused_pointee_refuses_pointer (conj unnamed_nested_struct_refused
        (conj fields_refused_anonymous (conj fields_refused_tag fields_refused_later))))))).
Qed.
Print Assumptions unsupported_ingredients_refused.

(** No input object the builder returns has two fields of one name ("duplicate field" is refused). *)
Theorem built_field_names_unique :
  forall inner fs seen l, struct_fields_with inner fs seen = Some l ->
    NoDup (map fst l) /\ (forall n, In n (map fst l) -> Model.mem_str n seen = false).
Proof. exact ProofsBuilder.fields_names. Qed.
Print Assumptions built_field_names_unique.

(** Every type the builder returns is well formed - the hypothesis [wf_ty] of the transport theorems is a
    fact about the builder, given that the name maps of the registered enums are maps ([enums_ok]) ... *)
Theorem built_types_are_well_formed :
  forall g t, enums_ok g -> (build g = Some t \/ build_top g = Some t) -> wf_ty t.
Proof.
  exact (fun g t He H => match H with
                         | or_introl H1 => built_types_wf g t He H1
                         | or_intror H2 => built_top_wf g t He H2
                         end).
Qed.
Print Assumptions built_types_are_well_formed.

(** ... so both transports carry every value in range for every argument struct the builder accepts. *)
Theorem transport_for_every_supported_argument_struct :
  forall g t v, enums_ok g -> build_top g = Some t -> sendable time_ok (fun _ => True) t v ->
    parse b64_dec time_dec text_dec t (json_of b64_enc time_enc text_enc t v) = Ok v /\
    exists j, vtj [] (lit_of b64_enc time_enc text_enc "nul" t v) = Ok j /\
              parse b64_dec time_dec text_dec t j = Ok v.
Proof.
  exact (fun g t v He Hb Hs => ProofsInst.concrete_transports t v (built_top_wf g t He Hb) Hs).
Qed.
Print Assumptions transport_for_every_supported_argument_struct.

(** A field without argument struct (nilParseArguments) accepts no argument at all - not even a null one. *)
Theorem field_without_arguments_accepts_none :
  forall j, parse_noargs j = Ok tt <-> j = VNull \/ j = VObj [].
Proof. exact ProofsBuilder.parse_noargs_iff. Qed.
Print Assumptions field_without_arguments_accepts_none.

(** * The hypotheses are satisfiable by the decoders the correspondence check runs *)
Theorem base64_roundtrip : forall b, bytes_ok b -> b64_dec (b64_enc b) = Some b.
Proof. exact ProofsInst.b64_roundtrip. Qed.
Print Assumptions base64_roundtrip.

Theorem rfc3339_roundtrip : forall x, time_ok x -> time_dec (time_enc x) = Some x.
Proof. exact ProofsInst.time_roundtrip. Qed.
Print Assumptions rfc3339_roundtrip.

(** Both transports with the concrete codecs: base64 (all byte strings), the catalogue TextUnmarshaler
    (all strings), RFC 3339 (all civil times of years 0-9999 with whole-minute zone offsets). *)
Theorem concrete_transports :
  forall (t : ty) (v : gv),
    wf_ty t -> sendable time_ok (fun _ => True) t v ->
    parse b64_dec time_dec text_dec t (json_of b64_enc time_enc text_enc t v) = Ok v /\
    exists j, vtj [] (lit_of b64_enc time_enc text_enc "nul" t v) = Ok j /\
              parse b64_dec time_dec text_dec t j = Ok v.
Proof. exact ProofsInst.concrete_transports. Qed.
Print Assumptions concrete_transports.

(** A non-trivial argument struct and value meeting [wf_ty] and [sendable]. *)
Definition ex_color : ty := TEnum (GInt 0) [("RED"%string, GInt 1); ("GREEN"%string, GInt 2)].
Definition ex_ty : ty :=
  TStruct [("a"%string, TInt I32); ("b"%string, TPtr TString); ("c"%string, TOpt (TList ex_color));
           ("d"%string, TStruct [("n"%string, TInt U8); ("t"%string, TTime); ("x"%string, TText)]);
           ("e"%string, TBytes); ("f"%string, TList (TPtr TF32)); ("g"%string, TOpt TF64)].
Definition ex_val : gv :=
  GStruct [("a"%string, GInt (-5)); ("b"%string, GNil); ("c"%string, GList [GInt 2; GInt 1]);
           ("d"%string, GStruct [("n"%string, GInt 255); ("t"%string, GTime (mk_tval 2024 2 29 23 59 59 123000000 19800));
                                 ("x"%string, GText "hello"%string)]);
           ("e"%string, GBytes [1; 2; 255]); ("f"%string, GList [GNil; GPtr (GFlt 3 (-1))]);
           ("g"%string, GFlt 0 0)].

Example ex_wf : wf_ty ex_ty.
Proof.
  cbn. repeat split; repeat constructor; cbn; intuition discriminate.
Qed.

Example ex_sendable : sendable time_ok (fun _ => True) ex_ty ex_val.
Proof.
  cbn [sendable ex_ty ex_val ex_color].
  eexists; split; [reflexivity|].
  repeat split.
  - exists (-5). vm_compute. intuition discriminate.
  - left; reflexivity.
  - eexists; split; [reflexivity|]. repeat constructor; eexists; reflexivity.
  - eexists; split; [reflexivity|]. repeat split.
    + exists 255. vm_compute. intuition discriminate.
    + eexists; split; [reflexivity|]. vm_compute. intuition (try discriminate; try reflexivity).
    + eexists; split; [reflexivity | exact I].
  - eexists; split; [reflexivity|]. repeat constructor; lia.
  - eexists; split; [reflexivity|]. constructor; [left; reflexivity|]. constructor; [|constructor].
    right. eexists; split; [reflexivity|]. exists 3, (-1). vm_compute. intuition discriminate.
  - exists 0, 0. split; reflexivity.
Qed.

Example ex_echo :
  parse b64_dec time_dec text_dec ex_ty (json_of b64_enc time_enc text_enc ex_ty ex_val) = Ok ex_val.
Proof. exact (proj1 (concrete_transports ex_ty ex_val ex_wf ex_sendable)). Qed.

(** The same request with one wrong kind inside is refused before any resolver step. *)
Example ex_reject :
  parse b64_dec time_dec text_dec ex_ty
        (VObj [("a"%string, VNum 1 0); ("d"%string, VObj [("n"%string, VStr "5"%string)]); ("e"%string, VStr ""%string);
               ("f"%string, VArr [])]) = Err EArgs.
Proof. apply kind_mismatch_rejected. reflexivity. Qed.

(** A Go argument struct as reflect shows it - an enum that is also a scalar alias (the enum wins), time.Time
    (scalar entry wins over its UnmarshalText), a named struct with a skipped and a default-named field, a
    `[]*T` - the type the builder makes of it, and a neighbour it refuses. *)
Definition ex_color_info : tinfo :=
  mk_tinfo (Some (GInt 0, [("RED"%string, GInt 1); ("GREEN"%string, GInt 2)])) (Some (ScInt I32)) false.
Definition ex_scalar (s : sc) : gty := RLeaf (mk_tinfo None (Some s) false).
Definition ex_gty : gty :=
  RStruct no_info "" [
    (mk_fmeta "A" false false "a", ex_scalar (ScInt I32));
    (mk_fmeta "When" false false ",optional",
       RStruct (mk_tinfo None (Some ScTime) true) "Time" [(mk_fmeta "wall" true false "", RLeaf no_info)]);
    (mk_fmeta "Cs" false false "cs,key", RSlice no_info (RPtr (RLeaf ex_color_info)));
    (mk_fmeta "In" false false "in",
       RPtr (RStruct no_info "Inner" [(mk_fmeta "Skip" false false "-,whatever", RLeaf no_info);
                                      (mk_fmeta "hidden" true false "", RLeaf no_info);
                                      (mk_fmeta "N" false false "", ex_scalar (ScInt U8))]))]%string.

Example ex_build :
  enums_ok ex_gty /\
  build_top ex_gty =
  Some (TStruct [("a", TInt I32); ("when", TOpt TTime); ("cs", TList (TPtr ex_color));
                 ("in", TPtr (TStruct [("n", TInt U8)]))])%string.
Proof.
  split; [|vm_compute; reflexivity].
  cbn. repeat split; try exact I. repeat constructor; cbn; intuition discriminate.
Qed.

Example ex_build_refused :
  build_top (RStruct no_info "" [(mk_fmeta "A" false false "a", ex_scalar ScBool);
                                 (mk_fmeta "M" false false "m,optional", RSlice no_info (RPtr (RPtr (ex_scalar ScString))))]) = None /\
  build_top (RStruct no_info "" [(mk_fmeta "A" false false "a,optional,optional", ex_scalar ScBool)]) = None /\
  build_top (RStruct no_info "" [(mk_fmeta "A" false false "x", ex_scalar ScBool); (mk_fmeta "B" false false "x", ex_scalar ScBool)]) = None.
Proof. vm_compute. repeat split; reflexivity. Qed.

(** 2^53 + 1 written as a literal arrives as 2^53; 2^53 + 2 and -2^63 arrive unchanged. *)
Example ex_range :
  parse b64_dec time_dec text_dec (TInt I64) (wire_num (2 ^ 53 + 1)) = Ok (GInt (2 ^ 53)) /\
  parse b64_dec time_dec text_dec (TInt I64) (wire_num (2 ^ 53 + 2)) = Ok (GInt (2 ^ 53 + 2)) /\
  parse b64_dec time_dec text_dec (TInt I64) (wire_num (- 2 ^ 63)) = Ok (GInt (- 2 ^ 63)).
Proof. vm_compute. repeat split; reflexivity. Qed.

(** an enum with aliases at the start, in the middle and at the end of the alphabet: all seven names arrive *)
Definition ex_shade : ty :=
  TEnum (GInt 0) [("AAA_DARK", GInt 0); ("BLACK", GInt 0); ("GRAY", GInt 1); ("GREY", GInt 1); ("SLATE", GInt 1);
                  ("WHITE", GInt 2); ("ZINC_WHITE", GInt 2)]%string.
Example ex_enum_aliases :
  wf_ty ex_shade /\
  parse b64_dec time_dec text_dec (TStruct [("s", TList ex_shade); ("o", TOpt ex_shade)])%string
    (VObj [("s", VArr (map VStr ["GREY"; "GRAY"; "SLATE"; "BLACK"; "AAA_DARK"; "ZINC_WHITE"; "WHITE"]))])%string
  = Ok (GStruct [("s", GList [GInt 1; GInt 1; GInt 1; GInt 0; GInt 0; GInt 2; GInt 2]); ("o", GInt 0)])%string.
Proof. split; [|vm_compute; reflexivity]. cbn. repeat constructor; cbn; intuition discriminate. Qed.
