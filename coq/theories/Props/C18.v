(** C18 - arguments reach resolvers exactly as sent, by literal or by variable.

    Model: Args/Model.v ([vtj] = valueToJson, [apply_defaults], [parse] = the argParsers of
    schemabuilder/input.go, [prepare]/[step] = Parse + PrepareQuery before Execute).
    Vocabulary of the statements: Args/Spec.v ([wf_ty], [sendable], [json_of], [lit_of], [renders],
    [mismatch], [required]).  The third-party decoders (base64, time.Parse, UnmarshalText) are
    universally quantified functions; their encoders only have to satisfy the round-trip hypotheses
    written in each statement (instantiated at the end of the file). *)
From Coq Require Import List ZArith String.
From Thunder Require Import Lib.Json Args.Model Args.Spec Args.Proofs.
Import ListNotations.
Local Open Scope Z_scope.

(** Literal transport: for every well-formed argument type and every value in range (integers within
    their width and |z| <= 2^53, float32 with a 24-bit significand), the literal written into the
    query text converts (valueToJson) and the argument parser returns exactly the value sent. *)
Theorem literal_transport :
  forall (b64 : string -> option (list Z)) (tdec : string -> option tval) (xdec : string -> option string)
         (b64e : list Z -> string) (tenc : tval -> string) (xenc : string -> string)
         (time_ok : tval -> Prop) (text_ok : string -> Prop),
    (forall b, bytes_ok b -> b64 (b64e b) = Some b) ->
    (forall x, time_ok x -> tdec (tenc x) = Some x) ->
    (forall s, text_ok s -> xdec (xenc s) = Some s) ->
    forall (nullvar : string) (vars : list (string * jv)),
      lookup nullvar vars = None \/ lookup nullvar vars = Some VNull ->
      forall (t : ty) (v : gv),
        wf_ty t -> sendable time_ok text_ok t v ->
        exists j, vtj vars (lit_of b64e tenc xenc nullvar t v) = Ok j /\ parse b64 tdec xdec t j = Ok v.
Proof. exact Proofs.literal_roundtrip. Qed.
Print Assumptions literal_transport.

(** Variable transport: the same value supplied as JSON through a variable parses to the value sent ... *)
Theorem variable_transport :
  forall (b64 : string -> option (list Z)) (tdec : string -> option tval) (xdec : string -> option string)
         (b64e : list Z -> string) (tenc : tval -> string) (xenc : string -> string)
         (time_ok : tval -> Prop) (text_ok : string -> Prop),
    (forall b, bytes_ok b -> b64 (b64e b) = Some b) ->
    (forall x, time_ok x -> tdec (tenc x) = Some x) ->
    (forall s, text_ok s -> xdec (xenc s) = Some s) ->
    forall (t : ty) (v : gv),
      wf_ty t -> sendable time_ok text_ok t v ->
      parse b64 tdec xdec t (json_of b64e tenc xenc t v) = Ok v.
Proof. exact Proofs.variable_roundtrip. Qed.
Print Assumptions variable_transport.

(** ... and more generally every rendering of a value - members in any order, null members written or
    left out, unknown members present, any representation of a number whose integer part is the value -
    parses to that value (no hypothesis on the type or on the decoders). *)
Theorem every_rendering_parses :
  forall b64 tdec xdec (t : ty) (v : gv) (j : jv),
    renders b64 tdec xdec t v j -> parse b64 tdec xdec t j = Ok v.
Proof. exact Proofs.renders_parse. Qed.
Print Assumptions every_rendering_parses.

(** Rejections happen in the prepare phase: in every run of the two-phase machine (any number of
    resolver steps in any order), a request whose preparation fails - a literal that does not convert,
    a default on a required variable, an argument that does not parse - sees no resolver call at all,
    and every resolver call that does happen receives exactly the value [prepare] computed. *)
Theorem no_resolver_before_args :
  forall b64 tdec xdec (rq : request) (ls : list label) (st : mstate),
    run b64 tdec xdec rq MInit ls = Some st ->
    (forall e, prepare b64 tdec xdec rq = Err e -> calls_of st = []) /\
    (forall i a, In (i, a) (calls_of st) ->
       exists args, prepare b64 tdec xdec rq = Ok args /\ nth_error args i = Some a).
Proof. exact Proofs.no_resolver_before_args. Qed.
Print Assumptions no_resolver_before_args.
