(** C14 – validated queries cannot go wrong; responses match the advertised schema.
    Statements only; proofs are in GqlTyping/ProofsTyping.v and ProofsExec.v. *)
From Coq Require Import List ZArith String Bool Arith.
From Thunder Require Import Lib.Json GqlTyping.Types GqlTyping.Parse GqlTyping.ProofsParse GqlTyping.ProofsExec
     GqlTyping.Typing GqlTyping.ProofsTyping GqlTyping.ProofsValid.
Import ListNotations.
Open Scope string_scope.
Open Scope list_scope.

(** (b) Conformance.  For every schema, every well-typed data value (what Go's types and the builder's
    non-null enforcement guarantee about resolver results) and every selection: whatever the reference
    evaluator returns conforms to the advertised type – object fields exactly as selected (same
    aliases, in order), lists where lists are advertised, scalars of the JSON kind the scalar table
    gives for the advertised scalar name, enum values among the advertised ones, and null only under
    a nullable type or as a list entry. *)
Theorem response_conforms :
  forall (sch : schema) (tbl : ftable) (fuel : nat) (t : tref) (sel : option (list titem)) (v : value) (j : json),
    has_type sch false t v -> eval sch tbl fuel t sel v = EOk j -> conforms sch tbl false t sel j.
Proof. exact (fun sch tbl fuel => proj1 (eval_conforms sch tbl fuel) false). Qed.
Print Assumptions response_conforms.

(** (c) Completeness of rejection, for every variant of the traversal – in particular the memoised
    PrepareQuery of the repaired code.  [applies] = the parts of the query PrepareQuery walks into
    (sub-selections of known fields, every fragment under an object type, the fragments on a member
    under a union); [bad] = an unknown field, a plain field other than __typename on a union, a
    sub-selection on a scalar or enum, no sub-selection on an object or union.  Skipping an
    already-seen (type, fragment) pair never hides a failure: the set of pairs a successful run ends
    with justifies itself (every pair's body is well-formed relative to the set), so every applicable
    part is well-formed relative to it. *)
Theorem rejection_complete :
  forall (v : variant) (sch : schema) (root : string) (q : query) (tn' : string) (l' : list titem),
    applies sch (q_frags q) root (q_sel q) tn' l' -> bad sch tn' l' ->
    forall n, prepare v sch root q <> ROk n.
Proof. exact rejection_complete_all. Qed.
Print Assumptions rejection_complete.

(** (a) Progress.  Full statement (NOT proved):
      forall sch root q data fuel, prepare repaired sch root q = ROk n -> has_type sch false (TNamed root) data ->
                                   eval sch (q_frags q) fuel (TNamed root) (Some (q_sel q)) data <> EShape.
    Proved here: validation itself cannot go wrong on any query Parse returned, for every schema in
    which field types and union members are defined (no crash, no unbounded recursion); the
    execution half is checked by the oracle only (a validated query must execute without error on
    generated schemas and data). *)
Theorem validation_cannot_go_wrong_partial :
  forall (v : variant) (doc : gdoc) (vars : jargs) (q : query) (c : nat) (sch : schema) (root : string),
    convert v doc vars = ROk (q, c) -> schema_closed sch -> lookup root sch <> None ->
    is_crash (prepare v sch root q) = false.
Proof. exact (fun v doc vars q c sch root H => prepare_nocrash v sch root q (convert_certified v doc vars q c H)). Qed.
Print Assumptions validation_cannot_go_wrong_partial.

(** Non-vacuity. *)
Example ex_eval :
  eval ex_sch [] 10 (TNamed "Query") (Some ex_sel) ex_data =
  EOk (JObj [("n", JNum 3); ("o", JObj [("__typename", JStr "Obj"); ("tags", JArr [JStr "a"; JNull]); ("shade", JStr "DARK")])]).
Proof. reflexivity. Qed.
Example ex_rejected :
  prepare orig ex_sch "Query" {| q_name := ""; q_kind := "query"; q_sel := [TField "o" "obj" [] [] (Some [TField "x" "nope" [] [] None])]; q_frags := [] |}
  = RErr EPUnknownField.
Proof. reflexivity. Qed.
