From Thunder Require Import Lib.Json GqlTyping.Types GqlTyping.Parse GqlTyping.Typing GqlTyping.Check14.
Theorem placeholder : True. Proof. exact I. Qed.
Print Assumptions placeholder.
