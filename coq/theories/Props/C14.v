(** C14 – validated queries cannot go wrong; responses match the advertised schema.
    Statements only; proofs are in GqlTyping/ProofsTyping.v and ProofsExec.v. *)
From Coq Require Import List ZArith String Bool Arith.
From Thunder Require Import Lib.Json GqlTyping.Types GqlTyping.Parse GqlTyping.ProofsParse GqlTyping.ProofsExec
     GqlTyping.Typing GqlTyping.ProofsTyping GqlTyping.ProofsValid
     GqlTyping.Introspect GqlTyping.ProofsIntrospect GqlTyping.ProofsSim GqlTyping.Conformb GqlTyping.ProofsConformb GqlTyping.GoTypes GqlTyping.ProofsGoTypes.
Import ListNotations.
Open Scope string_scope.
Open Scope list_scope.

(** (b) Conformance.  For every schema, every well-typed data value (what Go's types and the builder's
    non-null enforcement guarantee about resolver results) and every selection: whatever the reference
    evaluator returns conforms to the advertised type – object fields exactly as selected (same
    aliases, in order), lists where lists are advertised, scalars of the JSON kind the scalar table
    gives for the advertised scalar name, enum values among the advertised ones, and null only under
    a nullable type or as a list entry. *)
Theorem response_conforms :
  forall (sch : schema) (tbl : ftable) (fuel : nat) (t : tref) (sel : option (list titem)) (v : value) (j : json),
    has_type sch false t v -> eval sch tbl fuel t sel v = EOk j -> conforms sch tbl false t sel j.
Proof. exact (fun sch tbl fuel => proj1 (eval_conforms sch tbl fuel) false). Qed.
Print Assumptions response_conforms.

(** (c) Completeness of rejection, for every variant of the traversal – in particular the memoised
    PrepareQuery of the repaired code.  [applies] = the parts of the query PrepareQuery walks into
    (sub-selections of known fields, every fragment under an object type, the fragments on a member
    under a union); [bad] = an unknown field, a plain field other than __typename on a union, a
    sub-selection on a scalar or enum, no sub-selection on an object or union.  Skipping an
    already-seen (type, fragment) pair never hides a failure: the set of pairs a successful run ends
    with justifies itself (every pair's body is well-formed relative to the set), so every applicable
    part is well-formed relative to it.
    This is the theorem that rules out a memo keyed by the selection set alone: [applies] follows a
    named fragment under EVERY object type (and union member) it is spread under, so
    `{ car { ...F } boat { ...F } } fragment F on Car { name wheels }` with no `wheels` on Boat has a
    [bad] applicable part (Boat, body of F) and must be rejected; the model's memo is keyed by
    (type, fragment), and the proof needs exactly that the pair - not the fragment - is in the set.
    The harness generates such spreads (QGen.PCross) and decides the expected verdict from the
    introspection JSON alone (ISchema.IllFormed). *)
Theorem rejection_complete :
  forall (v : variant) (sch : schema) (root : string) (q : query) (tn' : string) (l' : list titem),
    applies sch (q_frags q) root (q_sel q) tn' l' -> bad sch tn' l' ->
    forall n, prepare v sch root q <> ROk n.
Proof. exact rejection_complete_all. Qed.
Print Assumptions rejection_complete.

(** (a) Progress: a query that Parse returned and PrepareQuery accepted cannot fail for a type or shape
    reason.  For every schema, every data value that is well-typed for the root type (every field of the
    schema has a value of its type; non-null types hold no nil except as list entries), and every
    recursion budget, the reference evaluator never answers [EShape] (field missing from the type or
    the data, sub-selection on a leaf, none on a composite, unknown type, fragment that cannot be
    expanded): it answers a JSON value, or [EFuel] when the budget is smaller than the depth of the
    data.  Any two variants may be used for Parse and for PrepareQuery. *)
Theorem validated_query_cannot_go_wrong :
  forall (v v' : variant) (doc : gdoc) (vars : jargs) (q : query) (c : nat) (sch : schema) (root : string) (n : nat)
         (data : value) (fuel : nat),
    convert v doc vars = ROk (q, c) -> prepare v' sch root q = ROk n ->
    has_type sch false (TNamed root) data ->
    eval sch (q_frags q) fuel (TNamed root) (Some (q_sel q)) data <> EShape.
Proof. exact progress_all. Qed.
Print Assumptions validated_query_cannot_go_wrong.

(** Validation itself cannot go wrong either: no crash, no unbounded recursion, on any query Parse
    returned, for every schema in which field types and union members are defined. *)
Theorem validation_never_crashes :
  forall (v : variant) (doc : gdoc) (vars : jargs) (q : query) (c : nat) (sch : schema) (root : string),
    convert v doc vars = ROk (q, c) -> schema_closed sch -> lookup root sch <> None ->
    is_crash (prepare v sch root q) = false.
Proof. exact (fun v doc vars q c sch root H => prepare_nocrash v sch root q (convert_certified v doc vars q c H)). Qed.
Print Assumptions validation_never_crashes.

(** * "The schema reported by introspection is truthful"

    [introspect_types] is the model of graphql/introspection/introspection.go: what ComputeSchemaJSON
    prints as `__schema.types` for a built schema [x] (kinds, names, descriptions, fields with their
    arguments, inputFields, enumValues, possibleTypes, type references as kind/name/ofType chains cut
    at the depth of the introspection query's TypeRef fragment; everything sorted as introspection.go
    sorts the entries of its Go maps).  [read_types] is the reader a client applies to that JSON.
    [xwf x]: names are distinct where the code uses map keys, referenced types are defined, and no type
    reference is wrapped deeper than the TypeRef fragment prints.  The harness compares
    [introspect_types] of the walked built schema with the JSON the implementation printed, on every
    generated schema, and checks [xwf] of it. *)

(** The reader inverts the printer, for every well-formed schema: nothing about a type that matters to
    a client is lost or altered in the JSON (only the order of Go map entries and the key marks are). *)
Theorem introspection_readable :
  forall x : xschema, xwf x = true -> read_types (introspect_types x) = Some (xnormalize x).
Proof. exact read_introspect. Qed.
Print Assumptions introspection_readable.

(** Truthful for validation: PrepareQuery judged against the types a client reconstructs from the
    printed JSON gives the verdict (and the number of calls) the real PrepareQuery gives against the
    built schema, for every variant of the traversal, every root, every query. *)
Theorem introspection_truthful_for_validation :
  forall (x y : xschema) (v : variant) (root : string) (q : query),
    xwf x = true -> read_types (introspect_types x) = Some y ->
    prepare v (erase y) root q = prepare v (erase x) root q.
Proof. exact truthful_prepare. Qed.
Print Assumptions introspection_truthful_for_validation.

(** … hence completeness of rejection can be judged from the advertised schema alone: an applicable
    part that is ill-formed according to the printed JSON makes the real PrepareQuery fail. *)
Theorem rejection_complete_against_advertised :
  forall (v : variant) (x y : xschema) (root : string) (q : query) (tn' : string) (l' : list titem),
    xwf x = true -> read_types (introspect_types x) = Some y ->
    applies (erase y) (q_frags q) root (q_sel q) tn' l' -> bad (erase y) tn' l' ->
    forall n, prepare v (erase x) root q <> ROk n.
Proof. exact rejection_complete_advertised. Qed.
Print Assumptions rejection_complete_against_advertised.

(** Truthful for execution: the reference evaluator over the reconstructed types returns what it
    returns over the built schema. *)
Theorem introspection_truthful_for_execution :
  forall (x y : xschema) (tbl : ftable) (fuel : nat) (t : tref) (sel : option (list titem)) (v : value),
    xwf x = true -> read_types (introspect_types x) = Some y ->
    eval (erase y) tbl fuel t sel v = eval (erase x) tbl fuel t sel v.
Proof. exact truthful_eval. Qed.
Print Assumptions introspection_truthful_for_execution.

(** (b) composed with introspection: every response computed over the BUILT schema from well-typed data
    conforms to the types reconstructed from the PRINTED JSON – the statement a client relies on. *)
Theorem response_conforms_to_advertised :
  forall (x y : xschema) (tbl : ftable) (fuel : nat) (t : tref) (sel : option (list titem)) (v : value) (j : json),
    xwf x = true -> read_types (introspect_types x) = Some y ->
    has_type (erase x) false t v -> eval (erase x) tbl fuel t sel v = EOk j ->
    conforms (erase y) tbl false t sel j.
Proof. exact truthful_conforms. Qed.
Print Assumptions response_conforms_to_advertised.

(** Validation cannot crash on any built schema that passes the harness's well-formedness check, whatever
    the query: [xwf] implies the closedness [validation_never_crashes] assumes (field types and union
    members are defined output types), so that premise is one the correspondence decides on every
    generated schema. *)
Theorem validation_never_crashes_on_built_schemas :
  forall (v : variant) (doc : gdoc) (vars : jargs) (q : query) (c : nat) (x : xschema) (root s : string)
         (fs : list (string * (tref * xargs))) (k : option string),
    convert v doc vars = ROk (q, c) -> xwf x = true -> lookup root x = Some (XObject s fs k) ->
    is_crash (prepare v (erase x) root q) = false.
Proof. exact validation_never_crashes_built. Qed.
Print Assumptions validation_never_crashes_on_built_schemas.

(** The limit of the introspection query, exactly: a type reference with at most [ref_depth - 1 = 7]
    List/NonNull wrappers is read back as itself; a deeper one is cut off by the TypeRef fragment and the
    reader fails – it never reconstructs a different type. *)
Theorem type_reference_read_back_or_unreadable :
  forall (x : xschema) (t : tref),
    (wrappers t < ref_depth -> read_ref ref_depth (ref_json x ref_depth t) = Some t) /\
    (ref_depth <= wrappers t -> read_ref ref_depth (ref_json x ref_depth t) = None).
Proof. exact ref_readable_iff. Qed.
Print Assumptions type_reference_read_back_or_unreadable.

(** The conformance relation is decidable by an executable check, sound for every schema, selection and
    JSON value.  (Its map-based twin [rconformsb] - objects as maps, selections sharing an alias merged
    as Flatten merges them - is evaluated by the harness on every response of the implementation, against
    the schema [read_types] reads from the implementation's printed introspection JSON.) *)
Theorem conformance_check_sound :
  forall (sch : schema) (tbl : ftable) (fuel : nat) (t : tref) (sel : option (list titem)) (j : json),
    conformsb sch tbl fuel false t sel j = true -> conforms sch tbl false t sel j.
Proof. exact conformsb_conforms. Qed.
Print Assumptions conformance_check_sound.

(** * "null only where the type is nullable", at the builder

    [get_type] / [field_type] are the model of schemabuilder's getType (build.go 44-101), getReturnType
    (function.go) and consumeReturnValue (batch.go); [enforce] of the non-null enforcement on resolver
    results (function.go 386-409, batch.go extractResultsAndErr).  The harness exports the Go type of
    every generated field and [field_type] must give the type the builder gave it. *)

(** getType marks a type non-null exactly when the Go type cannot hold nil (everything but a pointer
    that is not itself a scalar or an enum), for every Go type it accepts … *)
Theorem nonnull_exactly_when_go_type_cannot_be_nil :
  forall (force : bool) (g : gotype) (t : tref),
    get_type force g = Some t -> is_nonnull t = negb (can_be_nil g).
Proof. exact get_type_nullable. Qed.
Print Assumptions nonnull_exactly_when_go_type_cannot_be_nil.

(** … list entries are marked non-null at every depth for struct fields (the exception the property
    makes for list entries is therefore about every list thunder advertises) … *)
Theorem list_entries_always_marked_nonnull :
  forall (g : gotype) (t : tref), field_type KStructField g = Some t -> entries_nonnull t = true.
Proof. exact get_type_entries. Qed.
Print Assumptions list_entries_always_marked_nonnull.

(** … a field registered with options is advertised non-null exactly when NonNullable was given or the
    Go type cannot be nil (FieldFunc), resp. when NonNullable was given or the result is a list
    (BatchFieldFunc) … *)
Theorem advertised_nullability_of_a_field :
  forall (k : fkind) (g : gotype) (t : tref),
    field_type k g = Some t ->
    is_nonnull t = match k with
                   | KStructField => negb (can_be_nil g)
                   | KFunc nn _ => nn || negb (can_be_nil g)
                   | KBatch nn _ => nn || is_list t
                   end.
Proof. exact field_type_nullable. Qed.
Print Assumptions advertised_nullability_of_a_field.

(** … and the enforcement matches the advertisement: a resolver result that is delivered (the request
    does not fail) under a non-null type is not nil - but for a batch resolver that leaves out the entry
    of a list-typed field, which renders as an empty list, not as null.  Together with the first theorem
    this is the premise [has_type] of [response_conforms] for the values of one field. *)
Theorem delivered_result_under_nonnull_is_not_nil :
  forall (k : fkind) (g : gotype) (t : tref) (nil : bool),
    k <> KStructField -> field_type k g = Some t -> enforce k t nil = Delivered -> is_nonnull t = true ->
    nil = false \/ (exists nn le e, k = KBatch nn le /\ t = TNonNull (TList e)).
Proof. exact delivered_nonnull. Qed.
Print Assumptions delivered_result_under_nonnull_is_not_nil.

(** Non-vacuity. *)
Example ex_eval :
  eval ex_sch [] 10 (TNamed "Query") (Some ex_sel) ex_data =
  EOk (JObj [("n", JNum 3); ("o", JObj [("__typename", JStr "Obj"); ("tags", JArr [JStr "a"; JNull]); ("shade", JStr "DARK")])]).
Proof. reflexivity. Qed.
Example ex_data_well_typed_and_enough_fuel :
  has_type ex_sch false (TNamed "Query") ex_data /\
  exists j, eval ex_sch [] 10 (TNamed "Query") (Some ex_sel) ex_data = EOk j.
Proof. split; [exact ex_data_typed | eexists; reflexivity]. Qed.
Example ex_rejected :
  prepare orig ex_sch "Query" {| q_name := ""; q_kind := "query"; q_sel := [TField "o" "obj" [] [] (Some [TField "x" "nope" [] [] None])]; q_frags := [] |}
  = RErr EPUnknownField.
Proof. reflexivity. Qed.

(** The introspection model on a schema with arguments, an input object, a union, an enum and a key. *)
Example ex_x_well_formed : xwf ex_x = true.
Proof. reflexivity. Qed.
Example ex_x_read_back :
  option_map erase (read_types (introspect_types ex_x)) =
  Some [("Obj", DObject [("shade", TNonNull (TNamed "Shade")); ("tags", TNonNull (TList (TNonNull (TNamed "string")))); ("u", TNamed "U")] None);
        ("Query", DObject [("n", TNonNull (TNamed "int64")); ("o", TNamed "Obj")] None);
        ("Shade", DEnum ["DARK"; "LIGHT"]); ("U", DUnion ["Obj"]); ("int64", DScalar); ("string", DScalar)].
Proof. reflexivity. Qed.
Example ex_printed_reference :
  ref_json ex_x ref_depth (TNonNull (TList (TNamed "Obj"))) =
  JObj [("kind", JStr "NON_NULL"); ("name", JNull);
        ("ofType", JObj [("kind", JStr "LIST"); ("name", JNull);
                         ("ofType", JObj [("kind", JStr "OBJECT"); ("name", JStr "Obj"); ("ofType", JNull)])])].
Proof. reflexivity. Qed.
Example ex_eight_wrappers_unreadable :
  let t := TNonNull (TList (TNonNull (TList (TNonNull (TList (TNonNull (TList (TNamed "int64")))))))) in
  wrappers t = 8 /\ read_ref ref_depth (ref_json ex_x ref_depth t) = None.
Proof. split; reflexivity. Qed.
Example ex_conformance_check :
  conformsb ex_sch [] 10 false (TNamed "Query") (Some ex_sel)
    (JObj [("n", JNum 3); ("o", JObj [("__typename", JStr "Obj"); ("tags", JArr [JStr "a"; JNull]); ("shade", JStr "DARK")])]) = true /\
  conformsb ex_sch [] 10 false (TNamed "Query") (Some ex_sel)
    (JObj [("n", JNull); ("o", JObj [("__typename", JStr "Obj"); ("tags", JArr [JStr "a"; JNull]); ("shade", JStr "DARK")])]) = false.
Proof. split; reflexivity. Qed.

(** getType on the usual shapes: int64, *int64, a registered enum, *enum (a pointer to an enum is a nullable
    scalar of the enum's kind), time.Time, []byte, []*User, *User under NonNullable. *)
Example ex_get_type :
  get_type true g_int64 = Some (TNonNull (TNamed "int64")) /\
  get_type true (GPtr f_none g_int64) = Some (TNamed "int64") /\
  get_type true g_shade = Some (TNonNull (TNamed "Shade")) /\
  get_type true (GPtr f_none g_shade) = Some (TNamed "int32") /\
  get_type true g_time = Some (TNonNull (TNamed "Time")) /\
  get_type true g_bytes = Some (TNonNull (TNamed "bytes")) /\
  get_type true (GSlice f_none (GPtr f_none g_user)) = Some (TNonNull (TList (TNonNull (TNamed "User")))) /\
  get_type false (GSlice f_none (GPtr f_none g_user)) = Some (TNonNull (TList (TNamed "User"))) /\
  field_type (KFunc true false) (GPtr f_none g_user) = Some (TNonNull (TNamed "User")) /\
  field_type (KBatch false false) g_user = Some (TNamed "User") /\
  enforce (KFunc true false) (TNonNull (TNamed "User")) true = RequestFails /\
  enforce (KBatch false false) (TNamed "User") true = Delivered.
Proof. repeat split; reflexivity. Qed.
