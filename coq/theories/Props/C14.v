(** C14 – validated queries cannot go wrong; responses match the advertised schema.
    Statements only; proofs are in GqlTyping/ProofsTyping.v and ProofsExec.v. *)
From Coq Require Import List ZArith String Bool Arith.
From Thunder Require Import Lib.Json GqlTyping.Types GqlTyping.Parse GqlTyping.ProofsParse GqlTyping.ProofsExec
     GqlTyping.Typing GqlTyping.ProofsTyping GqlTyping.ProofsValid.
Import ListNotations.
Open Scope string_scope.
Open Scope list_scope.

(** (b) Conformance.  For every schema, every well-typed data value (what Go's types and the builder's
    non-null enforcement guarantee about resolver results) and every selection: whatever the reference
    evaluator returns conforms to the advertised type – object fields exactly as selected (same
    aliases, in order), lists where lists are advertised, scalars of the JSON kind the scalar table
    gives for the advertised scalar name, enum values among the advertised ones, and null only under
    a nullable type or as a list entry. *)
Theorem response_conforms :
  forall (sch : schema) (tbl : ftable) (fuel : nat) (t : tref) (sel : option (list titem)) (v : value) (j : json),
    has_type sch false t v -> eval sch tbl fuel t sel v = EOk j -> conforms sch tbl false t sel j.
Proof. exact (fun sch tbl fuel => proj1 (eval_conforms sch tbl fuel) false). Qed.
Print Assumptions response_conforms.

(** (c) Completeness of rejection, for every variant of the traversal – in particular the memoised
    PrepareQuery of the repaired code.  [applies] = the parts of the query PrepareQuery walks into
    (sub-selections of known fields, every fragment under an object type, the fragments on a member
    under a union); [bad] = an unknown field, a plain field other than __typename on a union, a
    sub-selection on a scalar or enum, no sub-selection on an object or union.  Skipping an
    already-seen (type, fragment) pair never hides a failure: the set of pairs a successful run ends
    with justifies itself (every pair's body is well-formed relative to the set), so every applicable
    part is well-formed relative to it.
    This is the theorem that rules out a memo keyed by the selection set alone: [applies] follows a
    named fragment under EVERY object type (and union member) it is spread under, so
    `{ car { ...F } boat { ...F } } fragment F on Car { name wheels }` with no `wheels` on Boat has a
    [bad] applicable part (Boat, body of F) and must be rejected; the model's memo is keyed by
    (type, fragment), and the proof needs exactly that the pair - not the fragment - is in the set.
    The harness generates such spreads (QGen.PCross) and decides the expected verdict from the
    introspection JSON alone (ISchema.IllFormed). *)
Theorem rejection_complete :
  forall (v : variant) (sch : schema) (root : string) (q : query) (tn' : string) (l' : list titem),
    applies sch (q_frags q) root (q_sel q) tn' l' -> bad sch tn' l' ->
    forall n, prepare v sch root q <> ROk n.
Proof. exact rejection_complete_all. Qed.
Print Assumptions rejection_complete.

(** (a) Progress: a query that Parse returned and PrepareQuery accepted cannot fail for a type or shape
    reason.  For every schema, every data value that is well-typed for the root type (every field of the
    schema has a value of its type; non-null types hold no nil except as list entries), and every
    recursion budget, the reference evaluator never answers [EShape] (field missing from the type or
    the data, sub-selection on a leaf, none on a composite, unknown type, fragment that cannot be
    expanded): it answers a JSON value, or [EFuel] when the budget is smaller than the depth of the
    data.  Any two variants may be used for Parse and for PrepareQuery. *)
Theorem validated_query_cannot_go_wrong :
  forall (v v' : variant) (doc : gdoc) (vars : jargs) (q : query) (c : nat) (sch : schema) (root : string) (n : nat)
         (data : value) (fuel : nat),
    convert v doc vars = ROk (q, c) -> prepare v' sch root q = ROk n ->
    has_type sch false (TNamed root) data ->
    eval sch (q_frags q) fuel (TNamed root) (Some (q_sel q)) data <> EShape.
Proof. exact progress_all. Qed.
Print Assumptions validated_query_cannot_go_wrong.

(** Validation itself cannot go wrong either: no crash, no unbounded recursion, on any query Parse
    returned, for every schema in which field types and union members are defined. *)
Theorem validation_never_crashes :
  forall (v : variant) (doc : gdoc) (vars : jargs) (q : query) (c : nat) (sch : schema) (root : string),
    convert v doc vars = ROk (q, c) -> schema_closed sch -> lookup root sch <> None ->
    is_crash (prepare v sch root q) = false.
Proof. exact (fun v doc vars q c sch root H => prepare_nocrash v sch root q (convert_certified v doc vars q c H)). Qed.
Print Assumptions validation_never_crashes.

(** Non-vacuity. *)
Example ex_eval :
  eval ex_sch [] 10 (TNamed "Query") (Some ex_sel) ex_data =
  EOk (JObj [("n", JNum 3); ("o", JObj [("__typename", JStr "Obj"); ("tags", JArr [JStr "a"; JNull]); ("shade", JStr "DARK")])]).
Proof. reflexivity. Qed.
Example ex_data_well_typed_and_enough_fuel :
  has_type ex_sch false (TNamed "Query") ex_data /\
  exists j, eval ex_sch [] 10 (TNamed "Query") (Some ex_sel) ex_data = EOk j.
Proof. split; [exact ex_data_typed | eexists; reflexivity]. Qed.
Example ex_rejected :
  prepare orig ex_sch "Query" {| q_name := ""; q_kind := "query"; q_sel := [TField "o" "obj" [] [] (Some [TField "x" "nope" [] [] None])]; q_frags := [] |}
  = RErr EPUnknownField.
Proof. reflexivity. Qed.
