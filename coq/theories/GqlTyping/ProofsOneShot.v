From Coq Require Import List Bool Arith Lia.
From Thunder Require Import GqlTyping.OneShot.
Import ListNotations.

(** F23: with the original handlers the state "context cancelled before the first run, handler
    waiting" is reachable and dead: no label at all is enabled, and the handler has not returned. *)
Lemma orig_deadlock :
  exists tr s, run false init tr = Some s /\ hd s = HWaiting /\ req_cancelled s = true /\
               forall l, step false s l = None.
Proof.
  exists [Cancel; RunnerSelect]. eexists. split; [reflexivity|]. simpl.
  repeat split. intros l; destruct l; reflexivity.
Qed.

(** Invariant of every reachable state (either variant). *)
Definition inv (s : ostate) : Prop :=
  (req_cancelled s = true -> run_cancelled s = true) /\
  (signalled s = true <-> rn s = RFinished) /\
  (hd s <> HWaiting -> run_cancelled s = true) /\
  (run_cancelled s = true -> req_cancelled s = true \/ hd s <> HWaiting) /\
  (rn s = RSkipped -> run_cancelled s = true).

Ltac crush := unfold inv in *; simpl in *; intuition (try congruence; try discriminate).

Lemma inv_init : inv init.
Proof. crush. Qed.

Lemma inv_step b s l s' : inv s -> step b s l = Some s' -> inv s'.
Proof.
  destruct s as [rc runc r h sg]. intros Hi H.
  destruct l; destruct rc, runc, r, h, sg, b; simpl in H; try discriminate; inversion H; subst; clear H; crush.
Qed.

Lemma inv_run b tr : forall s s', inv s -> run b s tr = Some s' -> inv s'.
Proof.
  induction tr as [|l t IH]; simpl; intros s s' Hi H.
  - inversion H; subst; auto.
  - destruct (step b s l) eqn:E; try discriminate. eapply IH; [eapply inv_step; eauto | exact H].
Qed.

Lemma reachable_inv b tr s : run b init tr = Some s -> inv s.
Proof. apply inv_run. apply inv_init. Qed.

(** Every step of the system lowers the measure: at most four happen. *)
Lemma measure_decreases b s l s' : In l system_labels -> step b s l = Some s' -> measure s' < measure s.
Proof.
  destruct s as [rc runc r h sg]. unfold system_labels. intros Hin H.
  destruct l; simpl in Hin; try (exfalso; intuition discriminate);
    destruct rc, runc, r, h, sg, b; simpl in H; try discriminate; inversion H; subst; unfold measure; simpl; lia.
Qed.

(** Repaired: in every reachable state in which the handler has not returned some step of the system
    is enabled. *)
Lemma repaired_progress s : inv s -> hd s <> HReturned -> exists l, In l system_labels /\ enabled true s l = true.
Proof.
  destruct s as [rc runc r h sg]. intros Hi Hh. unfold enabled, system_labels.
  destruct r.
  - exists RunnerSelect. simpl; auto.
  - exists ComputeFinish. simpl; auto.
  - destruct h; [exists HandlerWake | exists HandlerStop | crush]; simpl; split; auto.
    destruct rc, runc, sg; simpl; auto; crush.
  - destruct h; [exists HandlerWake | exists HandlerStop | crush]; simpl; split; auto.
    destruct rc, runc, sg; simpl; auto; crush.
Qed.

(** … and once nothing can move the handler has returned and the rerunner goroutine is gone. *)
Lemma repaired_quiescent s : inv s -> quiescent true s = true ->
  hd s = HReturned /\ (rn s = RSkipped \/ rn s = RFinished).
Proof.
  destruct s as [rc runc r h sg]. intros Hi Hq.
  destruct rc, runc, r, h, sg; simpl in Hq; try discriminate; simpl; auto; crush.
Qed.

(** The original is also fine as long as the request is not cancelled before the first run. *)
Lemma orig_progress_if_computed s : inv s -> hd s <> HReturned -> rn s <> RSkipped ->
  exists l, In l system_labels /\ enabled false s l = true.
Proof.
  destruct s as [rc runc r h sg]. intros Hi Hh Hr. unfold enabled, system_labels.
  destruct r; [exists RunnerSelect | exists ComputeFinish | crush | ]; simpl; auto.
  destruct h; [exists HandlerWake | exists HandlerStop | crush]; simpl; split; auto.
  destruct rc, runc, sg; simpl; auto; crush.
Qed.
