(** Types of a built graphql.Schema, as the harness walks them (pkg/gqlty/walk.go).
    Named types are referred to by name, because object types are recursive. *)
From Coq Require Import List String Bool.
From Thunder Require Import Lib.Json.
Import ListNotations.
Open Scope string_scope.

Inductive tref : Type :=
| TNamed (n : string)
| TList (t : tref)
| TNonNull (t : tref).

Inductive tdef : Type :=
| DScalar
| DEnum (values : list string)
| DObject (fields : list (string * tref)) (key : option string)
| DUnion (members : list string).

Definition schema := list (string * tdef).

(** graphql.List and graphql.NonNull are transparent for PrepareQuery. *)
Fixpoint named_of (t : tref) : string :=
  match t with
  | TNamed n => n
  | TList t' => named_of t'
  | TNonNull t' => named_of t'
  end.

Definition mem (s : string) (l : list string) : bool := existsb (String.eqb s) l.

Lemma mem_In s l : mem s l = true <-> In s l.
Proof.
  unfold mem. rewrite existsb_exists. split.
  - intros [x [Hin He]]. apply String.eqb_eq in He. subst; auto.
  - intros H. exists s. split; auto. apply String.eqb_refl.
Qed.
