(** Cost of the memoised PrepareQuery: each fragment body is checked at most once per type it is used
    under, every other selection set once per check of the body that contains it.  Hence
      calls <= K * (1 + size of the operation's selection set + (number of types) * size of the fragments)
    with K = 1 + the deepest List/NonNull wrapping of a field type in the schema. *)
From Coq Require Import List ZArith String Bool Arith Lia.
From Thunder Require Import Lib.Json GqlTyping.Types GqlTyping.Parse GqlTyping.ProofsParse GqlTyping.ProofsExec
     GqlTyping.ProofsCost GqlTyping.ProofsValid.
Import ListNotations.
Open Scope string_scope.
Open Scope list_scope.

Definition fields_wmax (fs : list (string * tref)) : nat := fold_right (fun f m => Nat.max (wrappers (snd f)) m) 0 fs.
Definition wmax (sch : schema) : nat :=
  fold_right (fun e m => match snd e with DObject fs _ => Nat.max (fields_wmax fs) m | _ => m end) 0 sch.
Definition kcost (sch : schema) : nat := S (wmax sch).

Lemma fields_wmax_ge fs name ft : lookup name fs = Some ft -> wrappers ft <= fields_wmax fs.
Proof.
  induction fs as [|[k x] t IH]; simpl; intros H; [discriminate|].
  destruct (String.eqb name k); [inversion H; subst; lia | specialize (IH H); lia].
Qed.

Lemma wmax_ge sch tn fs k name ft :
  lookup tn sch = Some (DObject fs k) -> lookup name fs = Some ft -> wrappers ft <= wmax sch.
Proof.
  intros H Hf. apply fields_wmax_ge in Hf.
  induction sch as [|[n d] t IH]; simpl in *; [discriminate|].
  destruct (String.eqb tn n).
  - inversion H; subst. simpl. lia.
  - specialize (IH H). destruct d; simpl; lia.
Qed.

Section Cost.
  Variable sch : schema.
  Variable tbl : ftable.
  Let K := kcost sch.

  Definition wp (n : string) : nat :=
    match lookup n tbl with Some (_, body) => 1 + K * items_size body | None => 0 end.
  Definition Wp (l : pairs) : nat := fold_right (fun p a => wp (snd p) + a) 0 l.

  Lemma Wp_app a b : Wp (a ++ b) = Wp a + Wp b.
  Proof. induction a as [|x t IH]; simpl; auto. rewrite IH. lia. Qed.

  Definition prel (m : nat) (st st' : pstate) : Prop :=
    exists ext, p_seen st' = ext ++ p_seen st /\ p_cost st' <= p_cost st + m + Wp ext /\
                (NoDup (p_seen st) -> NoDup (p_seen st')) /\
                (forall p, In p ext -> In (fst p) (map fst sch) /\ In (snd p) (map fst tbl)).

  Lemma prel_same m st st' : p_seen st' = p_seen st -> p_cost st' <= p_cost st + m -> prel m st st'.
  Proof.
    intros Hs Hc. exists []. simpl. rewrite Hs. repeat split; auto; try lia; try (intros p []); try contradiction.
  Qed.

  Lemma prel_weaken m m' st st' : m <= m' -> prel m st st' -> prel m' st st'.
  Proof. intros Hm [e [S1 [C1 [N1 I1]]]]. exists e. repeat split; auto; try apply I1; auto. lia. Qed.

  Lemma prel_trans m1 m2 a b c : prel m1 a b -> prel m2 b c -> prel (m1 + m2) a c.
  Proof.
    intros [e1 [S1 [C1 [N1 I1]]]] [e2 [S2 [C2 [N2 I2]]]]. exists (e2 ++ e1). repeat split.
    - rewrite S2, S1, app_assoc. reflexivity.
    - rewrite Wp_app. lia.
    - auto.
    - apply in_app_or in H. destruct H as [H|H]; [apply I2 | apply I1]; auto.
    - apply in_app_or in H. destruct H as [H|H]; [apply I2 | apply I1]; auto.
  Qed.

  (** What one pass charges to one item. *)
  Definition cw (b : bool) (it : titem) : nat :=
    match it with
    | TField _ _ _ _ _ => if b then K * titem_size it else 0
    | TInline _ _ _ => if b then 0 else K * titem_size it
    | TSpread _ _ => 0
    end.

  Lemma cw_sum l : fold_right (fun x n => cw true x + n) 0 l + fold_right (fun x n => cw false x + n) 0 l <= K * items_size l.
  Proof.
    unfold items_size. induction l as [|x t IH]; cbn [fold_right]; [lia|].
    assert (cw true x + cw false x <= K * titem_size x) by (destruct x; cbn [cw]; lia).
    rewrite Nat.mul_add_distr_l. lia.
  Qed.

  Lemma fold_prel (f : pstate -> titem -> res pstate) (g : titem -> nat) l :
    (forall x st st', In x l -> f st x = ROk st' -> prel (g x) st st') ->
    forall st st', fold_res f st l = ROk st' -> prel (fold_right (fun x n => g x + n) 0 l) st st'.
  Proof.
    induction l as [|x t IH]; intros Hf st st' H; simpl in *.
    - inversion H; subst. apply prel_same; auto; lia.
    - destruct (f st x) as [st1| |] eqn:E; try discriminate.
      eapply prel_trans; [eapply Hf; eauto | eapply IH; eauto].
  Qed.

  Lemma prep_list_prel (item : string -> bool -> pstate -> titem -> res pstate) tn st st' l :
    (forall b x s s', In x l -> item tn b s x = ROk s' -> prel (cw b x) s s') ->
    prep_list sch item tn st l = ROk st' ->
    prel (1 + K * items_size l) st st' /\ In tn (map fst sch).
  Proof.
    intros Hf H. unfold prep_list in H.
    destruct (lookup tn sch) as [d|] eqn:E; [|discriminate].
    split; [|apply lookup_In in E; apply in_map_iff; exists (tn, d); auto].
    assert (Hgen : forall r1 r2 : bool, r1 <> r2 ->
              match fold_res (item tn r1) (p_add 1 st) l with
              | ROk s1 => fold_res (item tn r2) s1 l
              | RErr e => RErr e | RCrash c => RCrash c end = ROk st' ->
              prel (1 + K * items_size l) st st').
    { intros r1 r2 Hr H1.
      destruct (fold_res (item tn r1) (p_add 1 st) l) as [s1| |] eqn:E1; try discriminate.
      pose proof (fold_prel (item tn r1) (cw r1) l (Hf r1) _ _ E1) as P1.
      pose proof (fold_prel (item tn r2) (cw r2) l (Hf r2) _ _ H1) as P2.
      pose proof (prel_trans _ _ _ _ _ P1 P2) as P.
      pose proof (cw_sum l) as Hsum.
      destruct P as [e [S1 [C1 [N1 I1]]]]. exists e. simpl in *. repeat split; auto; try apply I1; auto.
      destruct r1, r2; try congruence; lia. }
    destruct d as [|vs|fs k|ms]; try discriminate.
    - apply (Hgen true false); [discriminate | exact H].
    - apply (Hgen false true); [discriminate | exact H].
  Qed.

  Lemma K_ge_1 : 1 <= K. Proof. unfold K, kcost. lia. Qed.

  Lemma pq_item_prel v (Hv : fix21 v = true) fuel : forall it tn b st st',
    pq_item v fuel sch tbl tn b st it = ROk st' -> prel (cw b it) st st'.
  Proof.
    pose proof K_ge_1 as HK.
    induction fuel as [|f IHf]; [intros it tn b st st' H; discriminate|].
    induction it using titem_ind'; intros tn b st st' H0; rewrite pq_unfold in H0.
    - (* leaf field *)
      destruct (lookup tn sch) as [[|vs|fs k|ms]|] eqn:E; try discriminate.
      + destruct b; [|inversion H0; subst; apply prel_same; simpl; auto; lia].
        destruct (String.eqb n "__typename").
        * apply typename_field_ok in H0 as [-> _]. apply prel_same; auto. lia.
        * destruct (lookup n fs) as [ft|] eqn:Ef; try discriminate.
          pose proof (wmax_ge sch tn fs k n ft E Ef) as Hw.
          unfold prep_leaf in H0. destruct (lookup (named_of ft) sch) as [[|vs| |]|]; try discriminate;
            inversion H0; subst; apply prel_same; simpl; auto; unfold K, kcost; lia.
      + destruct b; [|inversion H0; subst; apply prel_same; simpl; auto; lia].
        destruct (String.eqb n "__typename"); try discriminate.
        apply typename_field_ok in H0 as [-> _]. apply prel_same; auto. lia.
    - (* field with sub-selection *)
      destruct (lookup tn sch) as [[|vs|fs k|ms]|] eqn:E; try discriminate.
      + destruct b; [|inversion H0; subst; apply prel_same; simpl; auto; lia].
        destruct (String.eqb n "__typename").
        * apply typename_field_ok in H0 as [_ [_ Hc]]. discriminate.
        * destruct (lookup n fs) as [ft|] eqn:Ef; try discriminate.
          pose proof (wmax_ge sch tn fs k n ft E Ef) as Hw.
          apply prep_list_prel in H0.
          -- destruct H0 as [[e [S1 [C1 [N1 I1]]]] _]. exists e. simpl in *. repeat split; auto; try apply I1; auto.
             fold (items_size l). unfold K, kcost in *. lia.
          -- intros b0 x s s' Hin Hx. rewrite Forall_forall in H. apply (H x Hin _ _ _ _ Hx).
      + destruct b; [|inversion H0; subst; apply prel_same; simpl; auto; lia].
        destruct (String.eqb n "__typename"); try discriminate.
        apply typename_field_ok in H0 as [_ [_ Hc]]. discriminate.
    - (* spread *)
      assert (Hsp : forall tx on body, lookup n tbl = Some (on, body) -> pmem (tx, n) (p_seen st) = false ->
                prep_list sch (pq_item v f sch tbl) tx {| p_seen := (tx, n) :: p_seen st; p_cost := p_cost st |} body = ROk st' ->
                prel 0 st st').
      { intros tx on body El Em Hp.
        apply prep_list_prel in Hp; [|intros b0 x s s' _ Hx; apply (IHf x _ _ _ _ Hx)].
        destruct Hp as [[e [S1 [C1 [N1 I1]]]] Htx]. cbn [p_seen p_cost] in *.
        exists (e ++ [(tx, n)]). repeat split.
        - rewrite S1, <- app_assoc. reflexivity.
        - rewrite Wp_app. simpl. unfold wp. rewrite El. lia.
        - intros Hnd. apply N1. constructor; auto. intros Hc. apply pmem_In in Hc. rewrite Hc in Em; discriminate.
        - apply in_app_or in H. destruct H as [H|[H|[]]]; [apply I1; auto | subst; simpl; auto].
        - apply in_app_or in H. destruct H as [H|[H|[]]]; [apply I1; auto | subst; simpl].
          apply lookup_In in El. apply in_map_iff. exists (n, (on, body)); auto. }
      destruct (lookup tn sch) as [[|vs|fs k|ms]|] eqn:E; try discriminate.
      + destruct b; [inversion H0; subst; apply prel_same; simpl; auto; lia|].
        destruct (lookup n tbl) as [[on body]|] eqn:El; try discriminate.
        rewrite Hv in H0. simpl in H0.
        destruct (pmem (tn, n) (p_seen st)) eqn:Em; [inversion H0; subst; apply prel_same; simpl; auto; lia|].
        eapply Hsp; eauto.
      + destruct b; [inversion H0; subst; apply prel_same; simpl; auto; lia|].
        destruct (lookup n tbl) as [[on body]|] eqn:El; try discriminate.
        destruct (mem on ms); [|inversion H0; subst; apply prel_same; simpl; auto; lia].
        rewrite Hv in H0. simpl in H0.
        destruct (pmem (on, n) (p_seen st)) eqn:Em; [inversion H0; subst; apply prel_same; simpl; auto; lia|].
        eapply Hsp; eauto.
    - (* inline fragment *)
      assert (Hin : forall tx, prep_list sch (pq_item v (S f) sch tbl) tx st l = ROk st' -> prel (K * titem_size (TInline on ds l)) st st').
      { intros tx Hp. apply prep_list_prel in Hp.
        - destruct Hp as [P _]. eapply prel_weaken; [|exact P]. simpl. fold (items_size l). lia.
        - intros b0 x s s' Hin Hx. rewrite Forall_forall in H. apply (H x Hin _ _ _ _ Hx). }
      destruct (lookup tn sch) as [[|vs|fs k|ms]|] eqn:E; try discriminate.
      + destruct b; [inversion H0; subst; apply prel_same; simpl; auto; lia|]. simpl cw. apply (Hin tn H0).
      + destruct b; [inversion H0; subst; apply prel_same; simpl; auto; lia|].
        destruct (mem on ms); [simpl cw; apply (Hin on H0)|].
        inversion H0; subst. apply prel_same; auto. lia.
  Qed.

  (** Bounding the weight of the checked pairs. *)
  Lemma wp_le n : wp n <= K * match lookup n tbl with Some (_, body) => S (items_size body) | None => 0 end.
  Proof. pose proof K_ge_1. unfold wp. destruct (lookup n tbl) as [[on body]|]; lia. Qed.
End Cost.

(** * The weight of the checked pairs is bounded by (number of types) x (size of the fragments) *)

Definition wpk (k : nat) (tbl : ftable) (n : string) : nat :=
  match lookup n tbl with Some (_, body) => 1 + k * items_size body | None => 0 end.
Definition Wn (k : nat) (tbl : ftable) (l : list string) : nat := fold_right (fun n a => wpk k tbl n + a) 0 l.

Lemma Wn_app k tbl a b : Wn k tbl (a ++ b) = Wn k tbl a + Wn k tbl b.
Proof. induction a as [|x t IH]; simpl; auto. rewrite IH. lia. Qed.

Lemma Wn_ext k t1 t2 l : (forall n, In n l -> wpk k t1 n = wpk k t2 n) -> Wn k t1 l = Wn k t2 l.
Proof.
  induction l as [|x t IH]; simpl; intros H; [reflexivity|].
  rewrite (H x (or_introl eq_refl)). rewrite IH; [reflexivity|]. intros n Hn; apply H; right; exact Hn.
Qed.

Lemma Wn_bound k tbl : 1 <= k -> forall l, NoDup l -> incl l (map fst tbl) -> Wn k tbl l <= k * ftable_size tbl.
Proof.
  intros Hk. induction tbl as [|[key [on body]] t IH]; intros l Hnd Hi.
  - destruct l as [|x l']; simpl; [lia|]. exfalso. apply (Hi x). left; auto.
  - assert (Hw : forall n, n <> key -> wpk k ((key, (on, body)) :: t) n = wpk k t n).
    { intros n Hn. unfold wpk. simpl. destruct (String.eqb n key) eqn:E; auto. apply String.eqb_eq in E. congruence. }
    assert (Hsz : ftable_size ((key, (on, body)) :: t) = S (items_size body) + ftable_size t) by reflexivity.
    rewrite Hsz, Nat.mul_add_distr_l.
    destruct (in_dec string_dec key l) as [Hin|Hnin].
    + destruct (in_split _ _ Hin) as [l1 [l2 Hl]]. subst l.
      apply NoDup_remove in Hnd. destruct Hnd as [Hnd Hk2].
      assert (Hi' : incl (l1 ++ l2) (map fst t)).
      { intros x Hx. assert (Hx' : In x (l1 ++ key :: l2)) by (apply in_app_or in Hx; apply in_or_app; simpl; tauto).
        destruct (Hi x Hx') as [Hxk|Hxt]; auto. simpl in Hxk. subst. contradiction. }
      rewrite Wn_app. simpl. rewrite (Wn_ext k _ t l1), (Wn_ext k _ t l2).
      * specialize (IH (l1 ++ l2) Hnd Hi'). rewrite Wn_app in IH.
        unfold wpk at 1. simpl. rewrite String.eqb_refl.
        replace (k * S (items_size body)) with (k + k * items_size body) by (rewrite Nat.mul_succ_r; lia). lia.
      * intros n Hn. apply Hw. intros Hc; subst. apply Hk2. apply in_or_app; auto.
      * intros n Hn. apply Hw. intros Hc; subst. apply Hk2. apply in_or_app; auto.
    + rewrite (Wn_ext k _ t l).
      * assert (Hi' : incl l (map fst t)).
        { intros x Hx. destruct (Hi x Hx) as [Hxk|Hxt]; auto. simpl in Hxk. subst. contradiction. }
        specialize (IH l Hnd Hi'). lia.
      * intros n Hn. apply Hw. intros Hc; subst. contradiction.
Qed.

Definition Wpk (k : nat) (tbl : ftable) (l : pairs) : nat := fold_right (fun p a => wpk k tbl (snd p) + a) 0 l.

Lemma Wpk_Wn k tbl l : Wpk k tbl l = Wn k tbl (map snd l).
Proof. induction l as [|x t IH]; simpl; auto. Qed.

Lemma Wpk_filter k tbl (f : string * string -> bool) l :
  Wpk k tbl l = Wpk k tbl (filter f l) + Wpk k tbl (filter (fun p => negb (f p)) l).
Proof. induction l as [|x t IH]; simpl; auto. destruct (f x); simpl; lia. Qed.

Lemma NoDup_map_snd_same_fst a (l : pairs) : NoDup l -> (forall p, In p l -> fst p = a) -> NoDup (map snd l).
Proof.
  induction l as [|[x y] t IH]; intros Hnd Hf; simpl; [constructor|].
  inversion Hnd; subst. constructor.
  - intros Hc. apply in_map_iff in Hc. destruct Hc as [[x' y'] [He Hin]]. simpl in He. subst.
    assert (x' = a) by (apply (Hf (x', y)); right; auto).
    assert (x = a) by (apply (Hf (x, y)); left; auto). subst. contradiction.
  - apply IH; auto. intros p Hp. apply Hf. right; auto.
Qed.

Lemma pairs_bound k tbl : 1 <= k -> forall (A : list string) (l : pairs),
  NoDup l -> (forall p, In p l -> In (fst p) A /\ In (snd p) (map fst tbl)) ->
  Wpk k tbl l <= List.length A * (k * ftable_size tbl).
Proof.
  intros Hk. induction A as [|a A' IH]; intros l Hnd Hin.
  - destruct l as [|p t]; simpl; [lia|]. exfalso. destruct (Hin p (or_introl eq_refl)) as [[] _].
  - rewrite (Wpk_filter k tbl (fun p => String.eqb (fst p) a) l).
    assert (H1 : Wpk k tbl (filter (fun p => String.eqb (fst p) a) l) <= k * ftable_size tbl).
    { rewrite Wpk_Wn. apply Wn_bound; auto.
      - apply (NoDup_map_snd_same_fst a); [apply NoDup_filter; auto|].
        intros p Hp. apply filter_In in Hp. destruct Hp as [_ Hp]. apply String.eqb_eq in Hp. auto.
      - intros y Hy. apply in_map_iff in Hy. destruct Hy as [p [He Hp]]. subst.
        apply filter_In in Hp. destruct Hp as [Hp _]. apply Hin; auto. }
    assert (H2 : Wpk k tbl (filter (fun p => negb (String.eqb (fst p) a)) l) <= List.length A' * (k * ftable_size tbl)).
    { apply IH; [apply NoDup_filter; auto|].
      intros p Hp. apply filter_In in Hp. destruct Hp as [Hp Hne]. destruct (Hin p Hp) as [[Ha|Ha] Hb]; auto.
      subst. rewrite String.eqb_refl in Hne. discriminate. }
    simpl. lia.
Qed.

(** The bound. *)
Lemma prepare_memo_cost v sch root q n :
  fix21 v = true -> prepare v sch root q = ROk n ->
  n <= kcost sch * (1 + items_size (q_sel q) + List.length sch * ftable_size (q_frags q)).
Proof.
  intros Hv H. unfold prepare, prepare_run in H.
  destruct (prep_list sch (pq_item v (S (List.length (q_frags q))) sch (q_frags q)) root {| p_seen := []; p_cost := 0 |} (q_sel q))
    as [st'| |] eqn:E; try discriminate.
  inversion H; subst; clear H.
  apply prep_list_prel with (tbl := q_frags q) in E;
    [|intros b x s s' _ Hx; apply (pq_item_prel sch (q_frags q) v Hv _ x _ _ _ _ Hx)].
  destruct E as [[e [S1 [C1 [N1 I1]]]] _]. cbn [p_seen p_cost] in S1, C1, N1. rewrite app_nil_r in S1.
  assert (Hnd : NoDup e) by (rewrite <- S1; apply N1; constructor).
  assert (Hk : 1 <= kcost sch) by (unfold kcost; lia).
  pose proof (pairs_bound (kcost sch) (q_frags q) Hk (map fst sch) e Hnd I1) as Hb.
  rewrite map_length in Hb.
  assert (Hw : Wp sch (q_frags q) e = Wpk (kcost sch) (q_frags q) e) by reflexivity.
  rewrite Hw in C1.
  rewrite !Nat.mul_add_distr_l. rewrite Nat.mul_1_r.
  replace (kcost sch * (List.length sch * ftable_size (q_frags q))) with (List.length sch * (kcost sch * ftable_size (q_frags q)))
    by (rewrite !Nat.mul_assoc; f_equal; apply Nat.mul_comm).
  lia.
Qed.
