(** Model of graphql/parser.go (conversion of graphql-go's AST, detectCyclesAndUnusedFragments,
    detectConflicts, Flatten) and of the traversal of graphql/executor.go PrepareQuery, with every
    partial Go operation explicit as a [RCrash] outcome and every traversal paired with a visit count.

    The mirror type [gdoc] is graphql-go's AST as its parser (language/parser/parser.go) can return it:
    there is an [option] exactly where that parser may leave a nil pointer (alias, operation name, type
    condition of an inline fragment, sub-selection of a field, default value).  Constructs thunder does
    not support are all present: inline fragment without type condition, subscriptions, type-system
    definitions ([GOtherDef]), several operations, variables inside default values, value kinds that
    parser.go's switch does not list ([GVOther]).

    A [variant] says which repairs are in the modelled code; [cur] is the tree the check runs against. *)
From Coq Require Import List ZArith String Bool Arith Lia.
From Thunder Require Import Lib.Json GqlTyping.Types.
Import ListNotations.
Open Scope string_scope.

(** * graphql-go's AST *)

Inductive gvalue : Type :=
| GVInt (z : Z)                                   (* token text read as an integer; may exceed int64 *)
| GVFloat (canon : string) (in_range : bool) (as_int : option Z)
    (* canon: shortest text of the float64 value; in_range: strconv.ParseFloat succeeded (strconv is
       third-party to the model); as_int: the value when it is integral and below 2^53 *)
| GVString (s : string)
| GVBool (b : bool)
| GVEnum (s : string)
| GVVar (name : string)
| GVList (l : list gvalue)
| GVObject (l : list (string * gvalue))
| GVOther (kind : string).

Definition gargs := list (string * gvalue).
Definition gdir := (string * gargs)%type.

Inductive gsel : Type :=
| GField (alias : option string) (name : string) (args : gargs) (dirs : list gdir) (sub : option (list gsel))
| GSpread (name : string) (dirs : list gdir)
| GInline (tc : option string) (dirs : list gdir) (sub : list gsel).

Inductive gtype : Type :=
| GTNamed (n : string)
| GTList (t : gtype)
| GTNonNull (t : gtype).

Inductive gvardef : Type := GVarDef (name : string) (ty : gtype) (default : option gvalue).

Inductive gdef : Type :=
| GOperation (op : string) (name : option string) (vdefs : list gvardef) (dirs : list gdir) (sel : list gsel)
| GFragmentDef (name : string) (tc : string) (dirs : list gdir) (sel : list gsel)
| GOtherDef (kind : string).

Definition gdoc := list gdef.

(** Node count: the size measure of the cost theorems (names and values are not counted, so the
    measure does not grow with the length of identifiers). *)
Fixpoint gsel_size (s : gsel) : nat :=
  match s with
  | GField _ _ _ _ None => 1
  | GField _ _ _ _ (Some l) => S ((fix go (l : list gsel) := match l with [] => 0 | x :: t => gsel_size x + go t end) l)
  | GSpread _ _ => 1
  | GInline _ _ l => S ((fix go (l : list gsel) := match l with [] => 0 | x :: t => gsel_size x + go t end) l)
  end.

Definition gsels_size (l : list gsel) : nat := fold_right (fun x n => gsel_size x + n) 0 l.

Definition gdef_size (d : gdef) : nat :=
  match d with
  | GOperation _ _ _ _ sel => S (gsels_size sel)
  | GFragmentDef _ _ _ sel => S (gsels_size sel)
  | GOtherDef _ => 1
  end.

Definition gdoc_size (d : gdoc) : nat := fold_right (fun x n => gdef_size x + n) 0 d.

(** * Outcomes *)

Inductive perr : Type :=
| EDupFragment | EOnlyQueryMut | ESingleQuery | EUnsupportedDef | ENoQuery | ERequiredDefault | EBadDefault
| EUnknownFragment | EDupArg | EDupField | EBadInt | EBadFloat | EUnsupportedValue | ECycle | EUnused
| EAliasName | EAliasArgs | EInlineNoType
| EDirectiveIfMissing | EDirectiveIfNotBool                         (* ShouldIncludeNode, at Flatten time *)
| EFlattenMixed                                                     (* Flatten: alias with and without selections *)
| EPLeafSel | EPCompositeNoSel | EPUnknownField | EPTypenameArgs | EPTypenameSel.  (* PrepareQuery *)

(** Numbers shared with harness/pkg/gqlty/errcodes.go. *)
Definition code_of (e : perr) : nat :=
  match e with
  | EDupFragment => 2 | EOnlyQueryMut => 3 | ESingleQuery => 4 | EUnsupportedDef => 5 | ENoQuery => 6
  | ERequiredDefault => 7 | EBadDefault => 8 | EUnknownFragment => 9 | EDupArg => 10 | EDupField => 11
  | EBadInt => 12 | EBadFloat => 13 | EUnsupportedValue => 14 | ECycle => 15 | EUnused => 16
  | EAliasName => 17 | EAliasArgs => 18 | EInlineNoType => 19
  | EDirectiveIfMissing => 30 | EDirectiveIfNotBool => 31 | EFlattenMixed => 32
  | EPLeafSel => 40 | EPCompositeNoSel => 41 | EPUnknownField => 42 | EPTypenameArgs => 43 | EPTypenameSel => 44
  end.

(** What kills the goroutine (and, on the websocket path, whatever it serves). *)
Inductive crash : Type :=
| CrNilTypeCondition        (* selection.TypeCondition.Name.Value with TypeCondition == nil *)
| CrDanglingFragment        (* a *Fragment that is in no table: cannot arise, kept explicit *)
| CrStack                   (* unbounded recursion through fragment spreads: stack overflow (fuel ran out) *)
| CrUnknownTypeKind         (* PrepareQuery's default branch: panic("unknown type kind") *)
| CrNilSelectionSet.        (* fragment.SelectionSet.Selections with a nil SelectionSet *)

Inductive res (A : Type) : Type :=
| ROk (a : A)
| RErr (e : perr)
| RCrash (c : crash).
Arguments ROk {A} a.
Arguments RErr {A} e.
Arguments RCrash {A} c.

Definition is_crash {A} (r : res A) : bool := match r with RCrash _ => true | _ => false end.

Record variant := { fix22 : bool; fix21 : bool; fix26 : bool }.
Definition orig : variant := {| fix22 := false; fix21 := false; fix26 := false |}.
Definition repaired : variant := {| fix22 := true; fix21 := true; fix26 := true |}.
(** The tree the correspondence check runs against. *)
Definition cur : variant := repaired.

(** * thunder's own selection structure
    SelectionSet{Selections, Fragments} keeps fields and fragments in two slices; here they stay in one
    list in source order and every traversal makes the two passes the Go code makes (fields, then
    fragments).  A spread is a pointer to the shared *Fragment of the table: [TSpread name]. *)

Definition jargs := list (string * json).
Definition tdir := (string * jargs)%type.

Inductive titem : Type :=
| TField (alias name : string) (args : jargs) (dirs : list tdir) (sub : option (list titem))
| TSpread (name : string) (dirs : list tdir)
| TInline (on : string) (dirs : list tdir) (sub : list titem).

Definition ftable := list (string * (string * list titem)).   (* name -> (On, body) *)

Record query := { q_name : string; q_kind : string; q_sel : list titem; q_frags : ftable }.

(** * valueToJson, argsToJson, parseDirectives *)

Definition int64_ok (z : Z) : bool := ((-9223372036854775808 <=? z) && (z <=? 9223372036854775807))%Z.

Fixpoint value_to_json (vars : jargs) (v : gvalue) : res json :=
  match v with
  | GVInt z => if int64_ok z then ROk (JNum z) else RErr EBadInt
  | GVFloat c ok ai =>
      if ok then ROk (match ai with Some z => JNum z | None => JStr ("float:" ++ c) end) else RErr EBadFloat
  | GVString s => ROk (JStr s)
  | GVBool b => ROk (JBool b)
  | GVEnum s => ROk (JStr s)
  | GVVar n => match lookup n vars with Some j => ROk j | None => ROk JNull end
  | GVList l =>
      match (fix go (l : list gvalue) : res (list json) :=
               match l with
               | [] => ROk []
               | x :: t => match value_to_json vars x with
                           | ROk j => match go t with ROk js => ROk (j :: js) | RErr e => RErr e | RCrash c => RCrash c end
                           | RErr e => RErr e
                           | RCrash c => RCrash c
                           end
               end) l with
      | ROk js => ROk (JArr js)
      | RErr e => RErr e
      | RCrash c => RCrash c
      end
  | GVObject l =>
      match (fix go (seen : list string) (l : list (string * gvalue)) : res (list (string * json)) :=
               match l with
               | [] => ROk []
               | (k, x) :: t =>
                   if mem k seen then RErr EDupField
                   else match value_to_json vars x with
                        | ROk j => match go (k :: seen) t with ROk js => ROk ((k, j) :: js) | RErr e => RErr e | RCrash c => RCrash c end
                        | RErr e => RErr e
                        | RCrash c => RCrash c
                        end
               end) [] l with
      | ROk kvs => ROk (JObj kvs)
      | RErr e => RErr e
      | RCrash c => RCrash c
      end
  | GVOther _ => RErr EUnsupportedValue
  end.

Fixpoint args_to_json_from (seen : list string) (vars : jargs) (a : gargs) : res jargs :=
  match a with
  | [] => ROk []
  | (k, x) :: t =>
      if mem k seen then RErr EDupArg
      else match value_to_json vars x with
           | ROk j => match args_to_json_from (k :: seen) vars t with
                      | ROk js => ROk ((k, j) :: js) | RErr e => RErr e | RCrash c => RCrash c end
           | RErr e => RErr e
           | RCrash c => RCrash c
           end
  end.
Definition args_to_json := args_to_json_from [].

Fixpoint parse_directives (vars : jargs) (ds : list gdir) : res (list tdir) :=
  match ds with
  | [] => ROk []
  | (n, a) :: t =>
      match args_to_json vars a with
      | ROk ja => match parse_directives vars t with
                  | ROk r => ROk ((n, ja) :: r) | RErr e => RErr e | RCrash c => RCrash c end
      | RErr e => RErr e
      | RCrash c => RCrash c
      end
  end.

(** * parseSelectionSet *)

Fixpoint parse_sel (v : variant) (fnames : list string) (vars : jargs) (s : gsel) : res titem :=
  match s with
  | GField alias name args dirs sub =>
      match parse_directives vars dirs with
      | RErr e => RErr e | RCrash c => RCrash c
      | ROk ds =>
          match args_to_json vars args with
          | RErr e => RErr e | RCrash c => RCrash c
          | ROk ja =>
              let al := match alias with Some a => a | None => name end in
              match sub with
              | None => ROk (TField al name ja ds None)
              | Some l =>
                  match (fix go (l : list gsel) : res (list titem) :=
                           match l with
                           | [] => ROk []
                           | x :: t => match parse_sel v fnames vars x with
                                       | ROk i => match go t with ROk r => ROk (i :: r) | RErr e => RErr e | RCrash c => RCrash c end
                                       | RErr e => RErr e
                                       | RCrash c => RCrash c
                                       end
                           end) l with
                  | ROk items => ROk (TField al name ja ds (Some items))
                  | RErr e => RErr e
                  | RCrash c => RCrash c
                  end
              end
          end
      end
  | GSpread name dirs =>
      match parse_directives vars dirs with
      | RErr e => RErr e | RCrash c => RCrash c
      | ROk ds => if mem name fnames then ROk (TSpread name ds) else RErr EUnknownFragment
      end
  | GInline tc dirs sub =>
      match tc with
      | None => if fix22 v then RErr EInlineNoType else RCrash CrNilTypeCondition
      | Some on =>
          match parse_directives vars dirs with
          | RErr e => RErr e | RCrash c => RCrash c
          | ROk ds =>
              match (fix go (l : list gsel) : res (list titem) :=
                       match l with
                       | [] => ROk []
                       | x :: t => match parse_sel v fnames vars x with
                                   | ROk i => match go t with ROk r => ROk (i :: r) | RErr e => RErr e | RCrash c => RCrash c end
                                   | RErr e => RErr e
                                   | RCrash c => RCrash c
                                   end
                       end) sub with
              | ROk items => ROk (TInline on ds items)
              | RErr e => RErr e
              | RCrash c => RCrash c
              end
          end
      end
  end.

Fixpoint parse_selset (v : variant) (fnames : list string) (vars : jargs) (l : list gsel) : res (list titem) :=
  match l with
  | [] => ROk []
  | x :: t => match parse_sel v fnames vars x with
              | ROk i => match parse_selset v fnames vars t with
                         | ROk r => ROk (i :: r) | RErr e => RErr e | RCrash c => RCrash c end
              | RErr e => RErr e
              | RCrash c => RCrash c
              end
  end.

(** * The definitions loop, variable definitions *)

Record defs_acc := { a_frags : list (string * (string * list gsel)); a_op : option gdef }.

Fixpoint scan_defs (acc : defs_acc) (d : gdoc) : res defs_acc :=
  match d with
  | [] => ROk acc
  | GFragmentDef name tc _ sel :: t =>
      if mem name (map fst (a_frags acc)) then RErr EDupFragment
      else scan_defs {| a_frags := a_frags acc ++ [(name, (tc, sel))]; a_op := a_op acc |} t
  | (GOperation op _ _ _ _ as o) :: t =>
      if negb (String.eqb op "query" || String.eqb op "mutation") then RErr EOnlyQueryMut
      else match a_op acc with
           | Some _ => RErr ESingleQuery
           | None => scan_defs {| a_frags := a_frags acc; a_op := Some o |} t
           end
  | GOtherDef _ :: t => RErr EUnsupportedDef
  end.

Definition is_nonnull (t : gtype) : bool := match t with GTNonNull _ => true | _ => false end.

Definition present (n : string) (vars : jargs) : bool :=
  match lookup n vars with Some JNull => false | Some _ => true | None => false end.

(** [vars0] is what the client sent (the test `vars[name] != nil` reads it); [acc] collects defaults. *)
Fixpoint apply_defaults (vars0 acc : jargs) (vds : list gvardef) : res jargs :=
  match vds with
  | [] => ROk acc
  | GVarDef name ty def :: t =>
      if is_nonnull ty then
        match def with Some _ => RErr ERequiredDefault | None => apply_defaults vars0 acc t end
      else match def with
           | None => apply_defaults vars0 acc t
           | Some dv =>
               if present name vars0 then apply_defaults vars0 acc t
               else match value_to_json [] dv with      (* valueToJson(default, nil) *)
                    | ROk j => apply_defaults vars0 ((name, j) :: acc) t
                    | RErr _ => RErr EBadDefault
                    | RCrash c => RCrash c
                    end
           end
  end.

(** * Traversal combinators
    Every traversal of a SelectionSet makes two passes over it (the Selections slice, then the Fragments
    slice).  [item fields st it] is what the pass does at one item. *)

Section FoldRes.
  Context {S : Type} (f : S -> titem -> res S).
  Fixpoint fold_res (st : S) (l : list titem) {struct l} : res S :=
    match l with
    | [] => ROk st
    | x :: t => match f st x with
                | ROk st' => fold_res st' t
                | RErr e => RErr e
                | RCrash c => RCrash c
                end
    end.
End FoldRes.

Definition two_pass {S : Type} (item : bool -> S -> titem -> res S) (st : S) (l : list titem) : res S :=
  match fold_res (item true) st l with
  | ROk st' => fold_res (item false) st' l
  | RErr e => RErr e
  | RCrash c => RCrash c
  end.

(** PrepareQuery on a Union looks at the fragments first. *)
Definition two_pass_rev {S : Type} (item : bool -> S -> titem -> res S) (st : S) (l : list titem) : res S :=
  match fold_res (item false) st l with
  | ROk st' => fold_res (item true) st' l
  | RErr e => RErr e
  | RCrash c => RCrash c
  end.

(** * detectCyclesAndUnusedFragments *)

Record dstate := { visiting : list string; visited : list string }.

Fixpoint dc_item (fuel : nat) (tbl : ftable) : bool -> dstate -> titem -> res dstate :=
  match fuel with
  | 0 => fun _ _ _ => RCrash CrStack
  | S f =>
      fix item (fields : bool) (st : dstate) (it : titem) {struct it} : res dstate :=
        match it with
        | TField _ _ _ _ None => ROk st
        | TField _ _ _ _ (Some sub) => if fields then two_pass item st sub else ROk st
        | TInline _ _ sub => if fields then ROk st else two_pass item st sub
        | TSpread name _ =>
            if fields then ROk st
            else if mem name (visiting st) then RErr ECycle
            else if mem name (visited st) then ROk st
            else match lookup name tbl with
                 | None => RCrash CrDanglingFragment
                 | Some (_, body) =>
                     match two_pass (dc_item f tbl) {| visiting := name :: visiting st; visited := visited st |} body with
                     | ROk st' => ROk {| visiting := visiting st; visited := name :: visited st' |}
                     | RErr e => RErr e
                     | RCrash c => RCrash c
                     end
                 end
        end
  end.

Definition detect_cycles (tbl : ftable) (sel : list titem) : res (list string) :=
  match two_pass (dc_item (S (List.length tbl)) tbl) {| visiting := []; visited := [] |} sel with
  | ROk st => if forallb (fun n => mem n (visited st)) (map fst tbl) then ROk (visited st) else RErr EUnused
  | RErr e => RErr e
  | RCrash c => RCrash c
  end.

(** * detectConflicts
    Only the top-level sibling group is checked (visitChild is called once).  [visitSibling] has no
    visited set in the original; the repaired code skips a selection set it has already seen.  The
    count is the number of executions of the body of visitSibling (hook "parse.visit"). *)

Definition args_equal (a b : jargs) : bool := json_eqb (norm (JObj a)) (norm (JObj b)).

Record cstate := { c_sels : list (string * (string * jargs)); c_seen : list string; c_cost : nat }.

Definition c_bump (st : cstate) : cstate := {| c_sels := c_sels st; c_seen := c_seen st; c_cost := S (c_cost st) |}.

Fixpoint cf_item (v : variant) (fuel : nat) (tbl : ftable) : bool -> cstate -> titem -> res cstate :=
  match fuel with
  | 0 => fun _ _ _ => RCrash CrStack
  | S f =>
      fix item (fields : bool) (st : cstate) (it : titem) {struct it} : res cstate :=
        match it with
        | TField alias name args _ _ =>
            if fields then
              match lookup alias (c_sels st) with
              | Some (name', args') =>
                  if negb (String.eqb name' name) then RErr EAliasName
                  else if negb (args_equal args' args) then RErr EAliasArgs
                  else ROk st
              | None => ROk {| c_sels := c_sels st ++ [(alias, (name, args))]; c_seen := c_seen st; c_cost := c_cost st |}
              end
            else ROk st
        | TInline _ _ sub => if fields then ROk st else two_pass item (c_bump st) sub
        | TSpread name _ =>
            if fields then ROk st
            else if fix21 v && mem name (c_seen st) then ROk st
            else match lookup name tbl with
                 | None => RCrash CrDanglingFragment
                 | Some (_, body) =>
                     two_pass (cf_item v f tbl)
                              (c_bump {| c_sels := c_sels st; c_seen := name :: c_seen st; c_cost := c_cost st |}) body
                 end
        end
  end.

Definition conflicts_run (v : variant) (tbl : ftable) (sel : list titem) : res cstate :=
  two_pass (cf_item v (S (List.length tbl)) tbl) (c_bump {| c_sels := []; c_seen := []; c_cost := 0 |}) sel.

Definition detect_conflicts (v : variant) (tbl : ftable) (sel : list titem) : res nat :=
  match conflicts_run v tbl sel with
  | ROk st => ROk (c_cost st)
  | RErr e => RErr e
  | RCrash c => RCrash c
  end.

(** * Parse *)

Fixpoint parse_frags (v : variant) (fnames : list string) (vars : jargs)
         (fs : list (string * (string * list gsel))) : list (string * res (string * list titem)) :=
  match fs with
  | [] => []
  | (n, (tc, sel)) :: t =>
      (n, match parse_selset v fnames vars sel with
          | ROk items => ROk (tc, items) | RErr e => RErr e | RCrash c => RCrash c end)
      :: parse_frags v fnames vars t
  end.

Fixpoint collect_frags (rs : list (string * res (string * list titem))) : res ftable :=
  match rs with
  | [] => ROk []
  | (n, ROk b) :: t => match collect_frags t with ROk r => ROk ((n, b) :: r) | RErr e => RErr e | RCrash c => RCrash c end
  | (_, RErr e) :: _ => RErr e
  | (_, RCrash c) :: _ => RCrash c
  end.

(** Failures of the fragment loop: Go ranges over a map, any of them may be the one reported. *)
Fixpoint frag_failures (rs : list (string * res (string * list titem))) : list (res (query * nat)) :=
  match rs with
  | [] => []
  | (_, ROk _) :: t => frag_failures t
  | (_, RErr e) :: t => RErr e :: frag_failures t
  | (_, RCrash c) :: t => RCrash c :: frag_failures t
  end.

Definition op_parts (o : gdef) : (string * option string * list gvardef * list gsel) :=
  match o with
  | GOperation op name vds _ sel => (op, name, vds, sel)
  | _ => ("", None, [], [])
  end.

(** After the definitions and variables: everything from the fragment loop on.  The result carries the
    query and the visit count of detectConflicts. *)
Definition convert_tail (v : variant) (o : gdef) (frs : list (string * (string * list gsel))) (vars : jargs)
  : list (string * res (string * list titem)) -> res (query * nat) :=
  fun rs =>
    let '(op, name, _, sel) := op_parts o in
    match collect_frags rs with
    | RErr e => RErr e | RCrash c => RCrash c
    | ROk tbl =>
        match parse_selset v (map fst frs) vars sel with
        | RErr e => RErr e | RCrash c => RCrash c
        | ROk items =>
            match detect_cycles tbl items with
            | RErr e => RErr e | RCrash c => RCrash c
            | ROk _ =>
                match detect_conflicts v tbl items with
                | RErr e => RErr e | RCrash c => RCrash c
                | ROk cost =>
                    ROk ({| q_name := match name with Some n => n | None => "" end; q_kind := op;
                            q_sel := items; q_frags := tbl |}, cost)
                end
            end
        end
    end.

(** All outcomes Parse may have on this input (more than one only when several fragments fail). *)
Definition convert_all (v : variant) (d : gdoc) (vars : jargs) : list (res (query * nat)) :=
  match scan_defs {| a_frags := []; a_op := None |} d with
  | RErr e => [RErr e] | RCrash c => [RCrash c]
  | ROk acc =>
      match a_op acc with
      | None => [RErr ENoQuery]
      | Some o =>
          let '(_, _, vds, _) := op_parts o in
          match apply_defaults vars vars vds with
          | RErr e => [RErr e] | RCrash c => [RCrash c]
          | ROk vars' =>
              let rs := parse_frags v (map fst (a_frags acc)) vars' (a_frags acc) in
              match frag_failures rs with
              | [] => [convert_tail v o (a_frags acc) vars' rs]
              | fl => fl
              end
          end
      end
  end.

(** The outcome when fragments are processed in document order. *)
Definition convert (v : variant) (d : gdoc) (vars : jargs) : res (query * nat) :=
  match scan_defs {| a_frags := []; a_op := None |} d with
  | RErr e => RErr e | RCrash c => RCrash c
  | ROk acc =>
      match a_op acc with
      | None => RErr ENoQuery
      | Some o =>
          let '(_, _, vds, _) := op_parts o in
          match apply_defaults vars vars vds with
          | RErr e => RErr e | RCrash c => RCrash c
          | ROk vars' =>
              convert_tail v o (a_frags acc) vars' (parse_frags v (map fst (a_frags acc)) vars' (a_frags acc))
          end
      end
  end.

(** * ShouldIncludeNode and Flatten (top level: which aliases come out) *)

Definition parse_if (a : jargs) : res bool :=
  match lookup "if" a with
  | None => RErr EDirectiveIfMissing
  | Some JNull => RErr EDirectiveIfMissing
  | Some (JBool b) => ROk b
  | Some _ => RErr EDirectiveIfNotBool
  end.

Definition should_include (ds : list tdir) : res bool :=
  match lookup "skip" ds with
  | Some a => match parse_if a with ROk b => ROk (negb b) | RErr e => RErr e | RCrash c => RCrash c end
  | None => match lookup "include" ds with
            | Some a => parse_if a
            | None => ROk true
            end
  end.

(** [f_groups]: alias -> for each selection grouped under it, whether it has a sub-selection set. *)
Record fstate := { f_groups : list (string * list bool); f_seen : list string; f_cost : nat; f_unknown : bool }.

Definition f_bump (st : fstate) : fstate :=
  {| f_groups := f_groups st; f_seen := f_seen st; f_cost := S (f_cost st); f_unknown := f_unknown st |}.

Fixpoint group_add (alias : string) (has_sub : bool) (g : list (string * list bool)) : list (string * list bool) :=
  match g with
  | [] => [(alias, [has_sub])]
  | (a, l) :: t => if String.eqb a alias then (a, (l ++ [has_sub])%list) :: t else (a, l) :: group_add alias has_sub t
  end.

Definition has_some {A} (o : option A) : bool := match o with Some _ => true | None => false end.

(** [f_unknown] = a spread carries directives: parser.go stores them on the shared fragment (last
    writer wins, in map order), which this model does not follow (C19's subject). *)
Fixpoint fl_item (fuel : nat) (tbl : ftable) : bool -> fstate -> titem -> res fstate :=
  match fuel with
  | 0 => fun _ _ _ => RCrash CrStack
  | S f =>
      fix item (fields : bool) (st : fstate) (it : titem) {struct it} : res fstate :=
        match it with
        | TField alias _ _ _ sub =>
            if fields then
              ROk {| f_groups := group_add alias (has_some sub) (f_groups st);
                     f_seen := f_seen st; f_cost := f_cost st; f_unknown := f_unknown st |}
            else ROk st
        | TInline _ ds sub =>
            if fields then ROk st
            else match should_include ds with
                 | RErr e => RErr e
                 | RCrash c => RCrash c
                 | ROk false => ROk st
                 | ROk true => two_pass item (f_bump st) sub
                 end
        | TSpread name ds =>
            if fields then ROk st
            else match ds with
                 | _ :: _ => ROk {| f_groups := f_groups st; f_seen := f_seen st; f_cost := f_cost st; f_unknown := true |}
                 | [] =>
                     if mem name (f_seen st) then ROk st
                     else match lookup name tbl with
                          | None => RCrash CrDanglingFragment
                          | Some (_, body) =>
                              two_pass (fl_item f tbl)
                                       (f_bump {| f_groups := f_groups st; f_seen := name :: f_seen st;
                                                  f_cost := f_cost st; f_unknown := f_unknown st |}) body
                          end
                 end
        end
  end.

(** The merge loop: `selection.SelectionSet.Selections` for every selection of a group whose first
    member has sub-selections. *)
Definition group_ok (flags : list bool) : bool :=
  match flags with
  | [] => true
  | [_] => true
  | false :: _ => true
  | true :: rest => forallb (fun b => b) rest
  end.

Definition flatten (v : variant) (tbl : ftable) (sel : list titem) : res fstate :=
  match two_pass (fl_item (S (List.length tbl)) tbl)
                 (f_bump {| f_groups := []; f_seen := []; f_cost := 0; f_unknown := false |}) sel with
  | ROk st =>
      if forallb (fun g => group_ok (snd g)) (f_groups st) then ROk st
      else if fix26 v then RErr EFlattenMixed else RCrash CrNilSelectionSet
  | RErr e => RErr e
  | RCrash c => RCrash c
  end.

Definition f_aliases (st : fstate) : list string := map fst (f_groups st).

(** * PrepareQuery: verdict and number of calls (hook "prepare.visit")
    Argument parsing (field.ParseArguments) is outside this model (C18); fields are looked up by name.
    The repaired code remembers (type, selection set) pairs; in the model the shared selection sets are
    the fragment bodies, keyed by name (a selection set nested inside a fragment body that is checked
    under two different types is checked again by the model, once by the code: the model's count is
    an upper bound there and exact on the bomb families). *)

Record pstate := { p_seen : list (string * string); p_cost : nat }.

Definition p_add (n : nat) (st : pstate) : pstate := {| p_seen := p_seen st; p_cost := n + p_cost st |}.

Definition pmem (k : string * string) (l : list (string * string)) : bool :=
  existsb (fun x => String.eqb (fst x) (fst k) && String.eqb (snd x) (snd k)) l.

Definition is_nil_args (a : jargs) : bool := match a with [] => true | _ => false end.

Fixpoint wrappers (t : tref) : nat :=
  match t with TNamed _ => 0 | TList t' => S (wrappers t') | TNonNull t' => S (wrappers t') end.

(** PrepareQuery(named type tn, nil). *)
Definition prep_leaf (sch : schema) (st : pstate) (tn : string) : res pstate :=
  match lookup tn sch with
  | None => RCrash CrUnknownTypeKind
  | Some DScalar => ROk (p_add 1 st)
  | Some (DEnum _) => ROk (p_add 1 st)
  | Some _ => RErr EPCompositeNoSel
  end.

(** PrepareQuery(named type tn, non-nil selection set l), given what to do at one item under tn. *)
Definition prep_list (sch : schema) (item : string -> bool -> pstate -> titem -> res pstate)
           (tn : string) (st : pstate) (l : list titem) : res pstate :=
  match lookup tn sch with
  | None => RCrash CrUnknownTypeKind
  | Some DScalar => RErr EPLeafSel
  | Some (DEnum _) => RErr EPLeafSel
  | Some (DObject _ _) => two_pass (item tn) (p_add 1 st) l
  | Some (DUnion _) => two_pass_rev (item tn) (p_add 1 st) l
  end.

Definition typename_field (args : jargs) (sub : option (list titem)) (st : pstate) : res pstate :=
  if negb (is_nil_args args) then RErr EPTypenameArgs
  else match sub with Some _ => RErr EPTypenameSel | None => ROk st end.

Fixpoint pq_item (v : variant) (fuel : nat) (sch : schema) (tbl : ftable)
  : string -> bool -> pstate -> titem -> res pstate :=
  match fuel with
  | 0 => fun _ _ _ _ => RCrash CrStack
  | S f =>
      fix item (tn : string) (fields : bool) (st : pstate) (it : titem) {struct it} : res pstate :=
        match lookup tn sch with
        | Some (DObject fs _) =>
            match it with
            | TField _ name args _ sub =>
                if fields then
                  if String.eqb name "__typename" then typename_field args sub st
                  else match lookup name fs with
                       | None => RErr EPUnknownField
                       | Some ft =>
                           match sub with
                           | None => prep_leaf sch (p_add (wrappers ft) st) (named_of ft)
                           | Some l => prep_list sch item (named_of ft) (p_add (wrappers ft) st) l
                           end
                       end
                else ROk st
            | TSpread name _ =>
                if fields then ROk st
                else match lookup name tbl with
                     | None => RCrash CrDanglingFragment
                     | Some (_, body) =>
                         if fix21 v && pmem (tn, name) (p_seen st) then ROk st
                         else prep_list sch (pq_item v f sch tbl) tn
                                        {| p_seen := (tn, name) :: p_seen st; p_cost := p_cost st |} body
                     end
            | TInline _ _ sub => if fields then ROk st else prep_list sch item tn st sub
            end
        | Some (DUnion members) =>
            match it with
            | TField _ name args _ sub =>
                if fields then
                  if String.eqb name "__typename" then typename_field args sub st else RErr EPUnknownField
                else ROk st
            | TSpread name _ =>
                if fields then ROk st
                else match lookup name tbl with
                     | None => RCrash CrDanglingFragment
                     | Some (on, body) =>
                         if mem on members then
                           if fix21 v && pmem (on, name) (p_seen st) then ROk st
                           else prep_list sch (pq_item v f sch tbl) on
                                          {| p_seen := (on, name) :: p_seen st; p_cost := p_cost st |} body
                         else ROk st
                     end
            | TInline on _ sub =>
                if fields then ROk st
                else if mem on members then prep_list sch item on st sub else ROk st
            end
        | _ => RCrash CrUnknownTypeKind
        end
  end.

Definition prepare_run (v : variant) (sch : schema) (root : string) (q : query) : res pstate :=
  prep_list sch (pq_item v (S (List.length (q_frags q))) sch (q_frags q)) root {| p_seen := []; p_cost := 0 |} (q_sel q).

Definition prepare (v : variant) (sch : schema) (root : string) (q : query) : res nat :=
  match prepare_run v sch root q with
  | ROk st => ROk (p_cost st)
  | RErr e => RErr e
  | RCrash c => RCrash c
  end.
