(** C14: conformance as an executable check.
    [conformsb] decides the relation [conforms] of Typing.v (sound: ProofsConformb.v) on the reference
    evaluator's format (one entry per selected field, in selection order).
    [rconformsb] is the same judgement on a response as a client receives it: a JSON object is a map, and
    the executor (Flatten) merges the selections that share an alias into one entry whose sub-selections
    are the concatenation; `__key` entries are internal and dropped by the harness before the check.  It
    is evaluated on every response of the implementation against the schema that [read_types] reads from
    the implementation's own introspection JSON. *)
From Coq Require Import List ZArith String Bool Arith.
From Thunder Require Import Lib.Json GqlTyping.Types GqlTyping.Parse GqlTyping.Typing.
Import ListNotations.
Open Scope string_scope.
Open Scope list_scope.

Definition is_jnull (j : json) : bool := match j with JNull => true | _ => false end.

Section Conformb.
  Variable sch : schema.
  Variable tbl : ftable.

  Fixpoint conformsb (fuel : nat) (entry : bool) (t : tref) (sel : option (list titem)) (j : json) : bool :=
    match fuel with
    | 0 => false
    | S f =>
        match t with
        | TNonNull t' => (negb (is_jnull j) || entry) && conformsb f entry t' sel j
        | TList t' => match j with JArr js => forallb (conformsb f true t' sel) js | _ => false end
        | TNamed n =>
            match j with
            | JNull => true
            | _ =>
                match lookup n sch, sel with
                | Some DScalar, None => match scalar_kind n with Some k => json_has_kind k j | None => false end
                | Some (DEnum vs), None => match j with JStr s => mem s vs | _ => false end
                | Some (DObject fs _), Some items =>
                    match j, expand_obj tbl items with
                    | JObj kvs, ROk sfs => fieldsb f n fs sfs kvs
                    | _, _ => false
                    end
                | Some (DUnion ms), Some items =>
                    match j with
                    | JObj kvs =>
                        existsb (fun m => match lookup m sch, expand_union tbl m items with
                                          | Some (DObject fs _), ROk sfs => fieldsb f m fs sfs kvs
                                          | _, _ => false
                                          end) ms
                    | _ => false
                    end
                | _, _ => false
                end
            end
        end
    end
  with fieldsb (fuel : nat) (tn : string) (fs : list (string * tref)) (sfs : list sfield) (kvs : list (string * json)) : bool :=
    match fuel with
    | 0 => false
    | S f =>
        match sfs, kvs with
        | [], [] => true
        | (alias, name, sub) :: r, (k, j) :: kvs' =>
            String.eqb alias k &&
            (if String.eqb name "__typename"
             then match sub, j with None, JStr s => String.eqb s tn | _, _ => false end
             else match lookup name fs with Some ft => conformsb f false ft sub j | None => false end) &&
            fieldsb f tn fs r kvs'
        | _, _ => false
        end
    end.

  (** ** The response as the client sees it *)

  (** Flatten: one entry per alias (first occurrence decides the field), sub-selections concatenated. *)
  Fixpoint merge_into (alias name : string) (sub : option (list titem)) (g : list sfield) : list sfield :=
    match g with
    | [] => [(alias, name, sub)]
    | (a, n, s) :: r =>
        if String.eqb a alias
        then (a, n, match s, sub with Some x, Some y => Some (x ++ y) | _, _ => s end) :: r
        else (a, n, s) :: merge_into alias name sub r
    end.
  Definition merge_sfs (sfs : list sfield) : list sfield :=
    fold_left (fun g sf => merge_into (fst (fst sf)) (snd (fst sf)) (snd sf) g) sfs [].

  Fixpoint rconformsb (fuel : nat) (entry : bool) (t : tref) (sel : option (list titem)) (j : json) : bool :=
    match fuel with
    | 0 => false
    | S f =>
        match t with
        | TNonNull t' => (negb (is_jnull j) || entry) && rconformsb f entry t' sel j
        | TList t' => match j with JArr js => forallb (rconformsb f true t' sel) js | _ => false end
        | TNamed n =>
            match j with
            | JNull => true
            | _ =>
                match lookup n sch, sel with
                | Some DScalar, None => match scalar_kind n with Some k => json_has_kind k j | None => false end
                | Some (DEnum vs), None => match j with JStr s => mem s vs | _ => false end
                | Some (DObject fs _), Some items =>
                    match j, expand_obj tbl items with
                    | JObj kvs, ROk sfs => rfieldsb f n fs (merge_sfs sfs) kvs
                    | _, _ => false
                    end
                | Some (DUnion ms), Some items =>
                    match j with
                    | JObj kvs =>
                        existsb (fun m => match lookup m sch, expand_union tbl m items with
                                          | Some (DObject fs _), ROk sfs => rfieldsb f m fs (merge_sfs sfs) kvs
                                          | _, _ => false
                                          end) ms
                    | _ => false
                    end
                | _, _ => false
                end
            end
        end
    end
  (** fields exactly as selected: every merged selection has its entry, of the field's type, and there is
      no other entry *)
  with rfieldsb (fuel : nat) (tn : string) (fs : list (string * tref)) (sfs : list sfield) (kvs : list (string * json)) : bool :=
    match fuel with
    | 0 => false
    | S f =>
        Nat.eqb (List.length sfs) (List.length kvs) && nodup_keys (map fst kvs) &&
        forallb (fun sf : sfield =>
                   let '(alias, name, sub) := sf in
                   match lookup alias kvs with
                   | None => false
                   | Some j =>
                       if String.eqb name "__typename"
                       then match sub, j with None, JStr s => String.eqb s tn | _, _ => false end
                       else match lookup name fs with Some ft => rconformsb f false ft sub j | None => false end
                   end) sfs
    end.
End Conformb.
