(** C14: "null only where the type is nullable", at the level of the builder: getType marks a type
    non-null exactly when its Go type cannot hold nil; list entries are always marked non-null; a result
    the options promise non-null is delivered only when it is not nil. *)
From Coq Require Import List String Bool Arith Lia.
From Thunder Require Import Lib.Json GqlTyping.Types GqlTyping.GoTypes.
Import ListNotations.
Open Scope string_scope.

Lemma nonnull_is_nonnull t : is_nonnull (nonnull t) = true.
Proof. unfold nonnull. destruct (is_nonnull t) eqn:E; [exact E | reflexivity]. Qed.

Lemma get_type_unfold force g :
  get_type force g =
  match g_enum (facts g) with
  | Some n => Some (TNonNull (TNamed n))
  | None =>
      match g_scalar (facts g) with
      | Some n => Some (TNonNull (TNamed n))
      | None =>
          match (match g with GPtr _ e => g_scalar (facts e) | _ => None end) with
          | Some n => Some (TNamed n)
          | None =>
              if g_text (facts g)
              then Some (match g with GPtr _ _ => TNamed "string" | _ => TNonNull (TNamed "string") end)
              else match g with
                   | GStruct _ (Some n) => Some (TNonNull (TNamed n))
                   | GPtr _ (GStruct _ (Some n)) => Some (TNamed n)
                   | GSlice _ e =>
                       match get_type force e with
                       | Some et => Some (TNonNull (TList (if force then nonnull et else et)))
                       | None => None
                       end
                   | _ => None
                   end
          end
      end
  end.
Proof. destruct g; reflexivity. Qed.

Ltac fin := intros H; inversion H; subst; try reflexivity; try discriminate.

(** getType marks a type non-null exactly when the Go type cannot hold nil. *)
Lemma get_type_nullable force g t : get_type force g = Some t -> is_nonnull t = negb (can_be_nil g).
Proof.
  rewrite get_type_unfold. unfold can_be_nil.
  destruct g as [[en sc tx] e|[en sc tx] e|[en sc tx] n|[en sc tx]]; cbn [facts g_enum g_scalar g_text is_ptr andb negb];
    (destruct en as [m|]; [fin|]); (destruct sc as [m|]; [fin|]).
  - destruct (g_scalar (facts e)) as [m|]; [fin|]. destruct tx; [fin|].
    destruct e as [? ?|? ?|? [m|]|?]; fin.
  - destruct tx; [fin|]. destruct (get_type force e); fin.
  - destruct tx; [fin|]. destruct n; fin.
  - destruct tx; fin.
Qed.

(** No NonNull of a NonNull. *)
Lemma get_type_single force g u : get_type force g = Some (TNonNull u) -> is_nonnull u = false.
Proof.
  rewrite get_type_unfold.
  destruct g as [[en sc tx] e|[en sc tx] e|[en sc tx] n|[en sc tx]]; cbn [facts g_enum g_scalar g_text];
    (destruct en as [m|]; [fin|]); (destruct sc as [m|]; [fin|]).
  - destruct (g_scalar (facts e)) as [m|]; [fin|]. destruct tx; [fin|].
    destruct e as [? ?|? ?|? [m|]|?]; fin.
  - destruct tx; [fin|]. destruct (get_type force e); fin.
  - destruct tx; [fin|]. destruct n; fin.
  - destruct tx; fin.
Qed.

Lemma entries_nonnull_nonnull t : entries_nonnull (nonnull t) = entries_nonnull t.
Proof. unfold nonnull. destruct (is_nonnull t); reflexivity. Qed.

(** With forceListEntryNonNull (struct fields, and FieldFuncs marked ListEntryNonNullable) every list
    entry type is non-null, at every depth. *)
Lemma get_type_entries g : forall t, get_type true g = Some t -> entries_nonnull t = true.
Proof.
  induction g as [[en sc tx] e IH|[en sc tx] e IH|[en sc tx] n|[en sc tx]]; intros t; rewrite get_type_unfold;
    cbn [facts g_enum g_scalar g_text];
    (destruct en as [m|]; [fin|]); (destruct sc as [m|]; [fin|]).
  - destruct (g_scalar (facts e)) as [m|]; [fin|]. destruct tx; [fin|].
    destruct e as [? ?|? ?|? [m|]|?]; fin.
  - destruct tx; [fin|]. destruct (get_type true e) as [et|]; fin.
    cbn [entries_nonnull]. rewrite nonnull_is_nonnull, entries_nonnull_nonnull. apply IH. reflexivity.
  - destruct tx; [fin|]. destruct n; fin.
  - destruct tx; fin.
Qed.

(** The advertised nullability of a field, by the way the field was registered. *)
Definition is_list (t : tref) : bool := match t with TNonNull (TList _) => true | _ => false end.

Lemma field_type_nullable k g t :
  field_type k g = Some t ->
  is_nonnull t =
  match k with
  | KStructField => negb (can_be_nil g)
  | KFunc nn _ => nn || negb (can_be_nil g)
  | KBatch nn _ => nn || is_list t
  end.
Proof.
  destruct k as [|nn le|nn le]; cbn [field_type].
  - apply get_type_nullable.
  - destruct (get_type le g) as [t0|] eqn:E; [|discriminate]. intros H. inversion H; subst.
    pose proof (get_type_nullable le g t0 E) as Hn. destruct nn; cbn [orb]; [apply nonnull_is_nonnull | exact Hn].
  - destruct (get_type le g) as [t0|] eqn:E; [|discriminate]. intros H. inversion H; subst. clear H.
    destruct nn; cbn [orb]; [apply nonnull_is_nonnull|].
    destruct t0 as [n|t1|u]; try reflexivity.
    pose proof (get_type_single le g u E) as Hs.
    destruct u as [n|e|u']; try reflexivity. discriminate.
Qed.

(** Enforcement: a result that is delivered under a non-null type is not nil – except the one case the
    executor renders without null: a batch resolver that leaves out the entry of a list-typed field
    (an empty list). *)
Lemma delivered_nonnull k g t nil :
  k <> KStructField -> field_type k g = Some t -> enforce k t nil = Delivered -> is_nonnull t = true ->
  nil = false \/ (exists nn le e, k = KBatch nn le /\ t = TNonNull (TList e)).
Proof.
  intros Hk Hf He Hn. destruct k as [|nn le|nn le]; [congruence| |]; cbn [enforce] in He.
  - rewrite Hn in He. destruct nil; [discriminate | left; reflexivity].
  - destruct nil; [|left; reflexivity]. destruct nn; [discriminate|].
    right. pose proof (field_type_nullable _ _ _ Hf) as H. cbn [orb] in H. rewrite Hn in H.
    destruct t as [n|t1|[n|e|u]]; try discriminate. exists false, le, e. split; reflexivity.
Qed.
