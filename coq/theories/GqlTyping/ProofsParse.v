(** Lemmas about GqlTyping/Parse.v: the repaired conversion never crashes, the original does; the
    cost of the original traversals is exponential on the fragment-bomb family, the repaired
    detectConflicts is linear. *)
From Coq Require Import List ZArith String Bool Arith Lia ZifyBool ZifyNat.
From Thunder Require Import Lib.Json GqlTyping.Types GqlTyping.Parse.
Import ListNotations.
Open Scope string_scope.
Open Scope list_scope.

(** * Nested induction principles *)

Section GvalueInd.
  Variable P : gvalue -> Prop.
  Hypothesis Hint : forall z, P (GVInt z).
  Hypothesis Hfloat : forall c ok ai, P (GVFloat c ok ai).
  Hypothesis Hstr : forall s, P (GVString s).
  Hypothesis Hbool : forall b, P (GVBool b).
  Hypothesis Henum : forall s, P (GVEnum s).
  Hypothesis Hvar : forall n, P (GVVar n).
  Hypothesis Hlist : forall l, Forall P l -> P (GVList l).
  Hypothesis Hobj : forall l, Forall (fun kv => P (snd kv)) l -> P (GVObject l).
  Hypothesis Hother : forall k, P (GVOther k).

  Fixpoint gvalue_ind' (v : gvalue) : P v :=
    match v with
    | GVInt z => Hint z
    | GVFloat c ok ai => Hfloat c ok ai
    | GVString s => Hstr s
    | GVBool b => Hbool b
    | GVEnum s => Henum s
    | GVVar n => Hvar n
    | GVList l => Hlist l ((fix go (l : list gvalue) : Forall P l :=
                              match l with [] => Forall_nil _ | x :: t => Forall_cons _ (gvalue_ind' x) (go t) end) l)
    | GVObject l => Hobj l ((fix go (l : list (string * gvalue)) : Forall (fun kv => P (snd kv)) l :=
                               match l with [] => Forall_nil _ | kv :: t => Forall_cons _ (gvalue_ind' (snd kv)) (go t) end) l)
    | GVOther k => Hother k
    end.
End GvalueInd.

Section GselInd.
  Variable P : gsel -> Prop.
  Hypothesis Hleaf : forall a n args ds, P (GField a n args ds None).
  Hypothesis Hfield : forall a n args ds l, Forall P l -> P (GField a n args ds (Some l)).
  Hypothesis Hspread : forall n ds, P (GSpread n ds).
  Hypothesis Hinline : forall tc ds l, Forall P l -> P (GInline tc ds l).

  Fixpoint gsel_ind' (s : gsel) : P s :=
    match s with
    | GField a n args ds None => Hleaf a n args ds
    | GField a n args ds (Some l) =>
        Hfield a n args ds l ((fix go (l : list gsel) : Forall P l :=
                                 match l with [] => Forall_nil _ | x :: t => Forall_cons _ (gsel_ind' x) (go t) end) l)
    | GSpread n ds => Hspread n ds
    | GInline tc ds l =>
        Hinline tc ds l ((fix go (l : list gsel) : Forall P l :=
                            match l with [] => Forall_nil _ | x :: t => Forall_cons _ (gsel_ind' x) (go t) end) l)
    end.
End GselInd.

Section TitemInd.
  Variable P : titem -> Prop.
  Hypothesis Hleaf : forall a n args ds, P (TField a n args ds None).
  Hypothesis Hfield : forall a n args ds l, Forall P l -> P (TField a n args ds (Some l)).
  Hypothesis Hspread : forall n ds, P (TSpread n ds).
  Hypothesis Hinline : forall on ds l, Forall P l -> P (TInline on ds l).

  Fixpoint titem_ind' (s : titem) : P s :=
    match s with
    | TField a n args ds None => Hleaf a n args ds
    | TField a n args ds (Some l) =>
        Hfield a n args ds l ((fix go (l : list titem) : Forall P l :=
                                 match l with [] => Forall_nil _ | x :: t => Forall_cons _ (titem_ind' x) (go t) end) l)
    | TSpread n ds => Hspread n ds
    | TInline on ds l =>
        Hinline on ds l ((fix go (l : list titem) : Forall P l :=
                            match l with [] => Forall_nil _ | x :: t => Forall_cons _ (titem_ind' x) (go t) end) l)
    end.
End TitemInd.

(** * Generic facts about the traversal combinators *)

Definition good {S} (P : S -> Prop) (r : res S) : Prop :=
  match r with ROk s => P s | RErr _ => True | RCrash _ => False end.

Lemma fold_res_good {S} (P : S -> Prop) (f : S -> titem -> res S) (l : list titem) :
  (forall st x, In x l -> P st -> good P (f st x)) ->
  forall st, P st -> good P (fold_res f st l).
Proof.
  induction l as [|x t IH]; intros Hf st Hst; simpl; auto.
  assert (Hx := Hf st x (or_introl eq_refl) Hst).
  destruct (f st x) as [st'| |]; simpl in *; [ | exact I | exact Hx].
  apply IH; [intros st0 x0 Hin0 H0; apply Hf; [right; exact Hin0 | exact H0] | exact Hx].
Qed.

Lemma two_pass_good {S} (P : S -> Prop) (item : bool -> S -> titem -> res S) (l : list titem) :
  (forall b st x, In x l -> P st -> good P (item b st x)) ->
  forall st, P st -> good P (two_pass item st l).
Proof.
  intros Hf st Hst. unfold two_pass.
  assert (H1 := fold_res_good P (item true) l (Hf true) st Hst).
  destruct (fold_res (item true) st l) as [st'| |]; simpl in *; auto.
  apply fold_res_good; auto.
Qed.

Lemma two_pass_rev_good {S} (P : S -> Prop) (item : bool -> S -> titem -> res S) (l : list titem) :
  (forall b st x, In x l -> P st -> good P (item b st x)) ->
  forall st, P st -> good P (two_pass_rev item st l).
Proof.
  intros Hf st Hst. unfold two_pass_rev.
  assert (H1 := fold_res_good P (item false) l (Hf false) st Hst).
  destruct (fold_res (item false) st l) as [st'| |]; simpl in *; auto.
  apply fold_res_good; auto.
Qed.

(** * No crash in the conversion of values, arguments, directives, selections *)

Definition nocrash {A} (r : res A) : Prop := is_crash r = false.

Lemma value_to_json_nocrash vars v : nocrash (value_to_json vars v).
Proof.
  unfold nocrash.
  induction v using gvalue_ind'; simpl; auto.
  - destruct (int64_ok z); auto.
  - destruct ok; auto.
  - destruct (lookup n vars); auto.
  - match goal with |- is_crash (match ?X with _ => _ end) = false => assert (Hx : is_crash X = false) end.
    { induction H as [|x t Hx Ht IH]; simpl; auto.
      destruct (value_to_json vars x); simpl in *; try discriminate; auto.
      match goal with |- is_crash (match ?Y with _ => _ end) = false => destruct Y end; simpl in *; auto. }
    match goal with |- is_crash (match ?X with _ => _ end) = false => destruct X end; simpl in *; auto.
  - match goal with |- is_crash (match ?X with _ => _ end) = false => assert (Hx : is_crash X = false) end.
    { generalize (@nil string). induction H as [|[k x] t Hx Ht IH]; intros seen; simpl; auto.
      destruct (mem k seen); auto. simpl in Hx.
      destruct (value_to_json vars x); simpl in *; try discriminate; auto.
      specialize (IH (k :: seen)).
      match goal with |- is_crash (match ?Y with _ => _ end) = false => destruct Y end; simpl in *; auto. }
    match goal with |- is_crash (match ?X with _ => _ end) = false => destruct X end; simpl in *; auto.
Qed.

Lemma args_to_json_from_nocrash vars a : forall seen, nocrash (args_to_json_from seen vars a).
Proof.
  unfold nocrash. induction a as [|[k x] t IH]; intros seen; simpl; auto.
  destruct (mem k seen); auto.
  assert (Hv := value_to_json_nocrash vars x). unfold nocrash in Hv.
  destruct (value_to_json vars x); simpl in *; try discriminate; auto.
  specialize (IH (k :: seen)). destruct (args_to_json_from (k :: seen) vars t); simpl in *; auto.
Qed.

Lemma parse_directives_nocrash vars ds : nocrash (parse_directives vars ds).
Proof.
  unfold nocrash. induction ds as [|[n a] t IH]; simpl; auto.
  assert (Ha := args_to_json_from_nocrash vars a []). unfold nocrash in Ha. unfold args_to_json.
  destruct (args_to_json_from [] vars a); simpl in *; try discriminate; auto.
  destruct (parse_directives vars t); simpl in *; auto.
Qed.

(** * parseSelectionSet: no crash once repaired; every spread it lets through names a known fragment *)

Fixpoint item_spreads (it : titem) : list string :=
  match it with
  | TField _ _ _ _ None => []
  | TField _ _ _ _ (Some l) => flat_map item_spreads l
  | TSpread n _ => [n]
  | TInline _ _ l => flat_map item_spreads l
  end.

Definition sel_ok (v : variant) (fnames : list string) (r : res titem) : Prop :=
  (fix22 v = true -> is_crash r = false) /\ (forall it, r = ROk it -> incl (item_spreads it) fnames).

Definition sels_ok (v : variant) (fnames : list string) (r : res (list titem)) : Prop :=
  (fix22 v = true -> is_crash r = false) /\ (forall l, r = ROk l -> incl (flat_map item_spreads l) fnames).

Lemma sels_ok_step v fnames (r1 : res titem) (r2 : res (list titem)) :
  sel_ok v fnames r1 -> sels_ok v fnames r2 ->
  sels_ok v fnames (match r1 with
                    | ROk i => match r2 with ROk r => ROk (i :: r) | RErr e => RErr e | RCrash c => RCrash c end
                    | RErr e => RErr e
                    | RCrash c => RCrash c
                    end).
Proof.
  intros [H1c H1s] [H2c H2s]. split.
  - intros Hf. specialize (H1c Hf). specialize (H2c Hf).
    destruct r1; simpl in *; auto. destruct r2; simpl in *; auto.
  - intros l Hl. destruct r1 as [i| |]; try discriminate. destruct r2 as [r| |]; try discriminate.
    inversion Hl; subst. simpl. apply incl_app; auto.
Qed.

Lemma parse_sel_ok v fnames vars s : sel_ok v fnames (parse_sel v fnames vars s).
Proof.
  induction s using gsel_ind'; simpl.
  - (* leaf field *)
    pose proof (parse_directives_nocrash vars ds) as Hd. unfold nocrash in Hd.
    destruct (parse_directives vars ds) as [d| |]; simpl in Hd; try discriminate;
      [ | split; [auto | intros; discriminate]].
    pose proof (args_to_json_from_nocrash vars args []) as Ha. unfold nocrash in Ha. unfold args_to_json.
    destruct (args_to_json_from [] vars args) as [ja| |]; simpl in Ha; try discriminate;
      [ | split; [auto | intros; discriminate]].
    split; [auto | intros it Hit; inversion Hit; subst; simpl; apply incl_nil_l].
  - (* field with sub-selection *)
    pose proof (parse_directives_nocrash vars ds) as Hd. unfold nocrash in Hd.
    destruct (parse_directives vars ds) as [d| |]; simpl in Hd; try discriminate;
      [ | split; [auto | intros; discriminate]].
    pose proof (args_to_json_from_nocrash vars args []) as Ha. unfold nocrash in Ha. unfold args_to_json.
    destruct (args_to_json_from [] vars args) as [ja| |]; simpl in Ha; try discriminate;
      [ | split; [auto | intros; discriminate]].
    match goal with |- sel_ok _ _ (match ?X with _ => _ end) => assert (Hx : sels_ok v fnames X) end.
    { induction H as [|x t Hx Ht IH].
      - split; [auto | intros l0 Hl0; inversion Hl0; subst; simpl; apply incl_nil_l].
      - apply sels_ok_step; auto. }
    destruct Hx as [Hc Hs].
    match goal with |- sel_ok _ _ (match ?X with _ => _ end) => destruct X as [items| |] end.
    + split; [auto | intros it Hit; inversion Hit; subst; simpl; apply Hs; auto].
    + split; [auto | intros; discriminate].
    + split; [exact Hc | intros; discriminate].
  - (* spread *)
    pose proof (parse_directives_nocrash vars ds) as Hd. unfold nocrash in Hd.
    destruct (parse_directives vars ds) as [d| |]; simpl in Hd; try discriminate;
      [ | split; [auto | intros; discriminate]].
    destruct (mem n fnames) eqn:Hm.
    + split; [auto | intros it Hit; inversion Hit; subst; simpl].
      intros x [Hx|[]]; subst. apply mem_In; auto.
    + split; [auto | intros; discriminate].
  - (* inline fragment *)
    destruct tc as [on|].
    + pose proof (parse_directives_nocrash vars ds) as Hd. unfold nocrash in Hd.
      destruct (parse_directives vars ds) as [d| |]; simpl in Hd; try discriminate;
        [ | split; [auto | intros; discriminate]].
      match goal with |- sel_ok _ _ (match ?X with _ => _ end) => assert (Hx : sels_ok v fnames X) end.
      { induction H as [|x t Hx Ht IH].
        - split; [auto | intros l0 Hl0; inversion Hl0; subst; simpl; apply incl_nil_l].
        - apply sels_ok_step; auto. }
      destruct Hx as [Hc Hs].
      match goal with |- sel_ok _ _ (match ?X with _ => _ end) => destruct X as [items| |] end.
      * split; [auto | intros it Hit; inversion Hit; subst; simpl; apply Hs; auto].
      * split; [auto | intros; discriminate].
      * split; [exact Hc | intros; discriminate].
    + destruct (fix22 v) eqn:Hf; split; try (intros; discriminate); auto.
      intros Ht; rewrite Hf in Ht; discriminate Ht.
Qed.

Lemma parse_selset_ok v fnames vars l : sels_ok v fnames (parse_selset v fnames vars l).
Proof.
  induction l as [|x t IH]; simpl.
  - split; [auto | intros l0 Hl0; inversion Hl0; subst; simpl; apply incl_nil_l].
  - apply sels_ok_step; auto. apply parse_sel_ok.
Qed.

(** The original crashes: F22. *)
Lemma parse_sel_orig_crashes :
  parse_selset orig [] [] [GInline None [] [GField None "a" [] [] None]] = RCrash CrNilTypeCondition.
Proof. reflexivity. Qed.

(** * Tables *)

Lemma lookup_In {A} n (l : list (string * A)) v : lookup n l = Some v -> In (n, v) l.
Proof.
  induction l as [|[k x] t IH]; simpl; intros H; try discriminate.
  destruct (String.eqb n k) eqn:E.
  - apply String.eqb_eq in E. inversion H; subst. left; reflexivity.
  - right; apply IH; exact H.
Qed.

Lemma lookup_keys {A} n (l : list (string * A)) : In n (map fst l) -> exists v, lookup n l = Some v.
Proof.
  induction l as [|[k x] t IH]; simpl; intros H; [contradiction|].
  destruct (String.eqb n k) eqn:E; [eexists; reflexivity|].
  destruct H as [H|H]; [subst; rewrite String.eqb_refl in E; discriminate | apply IH; exact H].
Qed.

Definition tbl_closed (tbl : ftable) : Prop :=
  forall n on body, In (n, (on, body)) tbl -> incl (flat_map item_spreads body) (map fst tbl).

Lemma incl_flat_map_in {A B} (f : A -> list B) l x K : incl (flat_map f l) K -> In x l -> incl (f x) K.
Proof. intros H Hin y Hy. apply H. apply in_flat_map. exists x; auto. Qed.

(** * detectCyclesAndUnusedFragments: unfolding equations *)

Lemma dc_leaf f tbl b st a n args ds : dc_item (S f) tbl b st (TField a n args ds None) = ROk st.
Proof. reflexivity. Qed.
Lemma dc_field f tbl b st a n args ds l :
  dc_item (S f) tbl b st (TField a n args ds (Some l)) = if b then two_pass (dc_item (S f) tbl) st l else ROk st.
Proof. reflexivity. Qed.
Lemma dc_inline f tbl b st on ds l :
  dc_item (S f) tbl b st (TInline on ds l) = if b then ROk st else two_pass (dc_item (S f) tbl) st l.
Proof. reflexivity. Qed.
Lemma dc_spread f tbl b st name ds :
  dc_item (S f) tbl b st (TSpread name ds) =
  if b then ROk st
  else if mem name (visiting st) then RErr ECycle
  else if mem name (visited st) then ROk st
  else match lookup name tbl with
       | None => RCrash CrDanglingFragment
       | Some (_, body) =>
           match two_pass (dc_item f tbl) {| visiting := name :: visiting st; visited := visited st |} body with
           | ROk st' => ROk {| visiting := visiting st; visited := name :: visited st' |}
           | RErr e => RErr e
           | RCrash c => RCrash c
           end
       end.
Proof. reflexivity. Qed.

(** No crash: the recursion through spreads is at most as deep as there are fragments, because the
    fragments being visited are pairwise distinct (pigeonhole), and no spread dangles.  The invariant
    also keeps the visited list duplicate-free and inside the table. *)
Definition dinv (K vis : list string) (st : dstate) : Prop :=
  visiting st = vis /\ NoDup (visited st) /\ incl (visited st) K /\ (forall x, In x vis -> ~ In x (visited st)).

Lemma dc_item_good fuel : forall tbl, tbl_closed tbl ->
  forall vis, NoDup vis -> incl vis (map fst tbl) -> List.length vis + fuel > List.length (map fst tbl) ->
  forall it b st, incl (item_spreads it) (map fst tbl) -> dinv (map fst tbl) vis st ->
  good (dinv (map fst tbl) vis) (dc_item fuel tbl b st it).
Proof.
  induction fuel as [|f IHf]; intros tbl Hcl vis Hnd Hincl Hlen.
  - exfalso. pose proof (NoDup_incl_length Hnd Hincl). lia.
  - induction it using titem_ind'; intros b st Hsp Hvis.
    + rewrite dc_leaf. exact Hvis.
    + rewrite dc_field. destruct b; [|exact Hvis].
      apply two_pass_good; [|exact Hvis].
      intros b0 st0 x Hin H0. rewrite Forall_forall in H. apply H; auto.
      simpl in Hsp. eapply incl_flat_map_in; eauto.
    + rewrite dc_spread. destruct b; [exact Hvis|].
      destruct Hvis as [Hv [Hnd2 [Hin2 Hdis]]].
      destruct (mem n (visiting st)) eqn:Hm1; [exact I|].
      destruct (mem n (visited st)) eqn:Hm2; [repeat split; auto|].
      assert (Hn : In n (map fst tbl)) by (apply Hsp; simpl; auto).
      destruct (lookup_keys n tbl Hn) as [[on body] Hl]. rewrite Hl.
      assert (Hnv : ~ In n vis).
      { intros Hc. rewrite <- Hv in Hc. apply mem_In in Hc. rewrite Hc in Hm1; discriminate. }
      assert (Hnd3 : ~ In n (visited st)).
      { intros Hc. apply mem_In in Hc. rewrite Hc in Hm2; discriminate. }
      assert (Hg : good (dinv (map fst tbl) (n :: vis))
                        (two_pass (dc_item f tbl) {| visiting := n :: visiting st; visited := visited st |} body)).
      { apply two_pass_good.
        - intros b0 st0 x Hin H0.
          apply (IHf tbl Hcl (n :: vis)); auto.
          + constructor; auto.
          + intros y [Hy|Hy]; [subst; auto | apply Hincl; auto].
          + simpl. lia.
          + apply lookup_In in Hl. eapply incl_flat_map_in; [eapply Hcl; eauto | exact Hin].
        - repeat split; simpl; auto. { rewrite Hv; reflexivity. }
          intros x [Hx|Hx]; [subst; auto | apply Hdis; auto]. }
      destruct (two_pass (dc_item f tbl) {| visiting := n :: visiting st; visited := visited st |} body) as [st1| |];
        simpl in *; auto.
      destruct Hg as [G1 [G2 [G3 G4]]]. repeat split; simpl; auto.
      * constructor; auto. apply G4. left; reflexivity.
      * intros y [Hy|Hy]; [subst; auto | apply G3; auto].
      * intros x Hx [Hc|Hc]; [subst; contradiction | apply (G4 x); [right; auto | auto]].
    + rewrite dc_inline. destruct b; [exact Hvis|].
      apply two_pass_good; [|exact Hvis].
      intros b0 st0 x Hin H0. rewrite Forall_forall in H. apply H; auto.
      simpl in Hsp. eapply incl_flat_map_in; eauto.
Qed.

(** * What a successful cycle check certifies: the visited list is a topological order *)

Fixpoint topo (tbl : ftable) (d : list string) : Prop :=
  match d with
  | [] => True
  | n :: d' => topo tbl d' /\ exists on body, lookup n tbl = Some (on, body) /\ incl (flat_map item_spreads body) d'
  end.

(** The spreads one pass looks at in an item. *)
Definition sp (b : bool) (it : titem) : list string :=
  match it with
  | TField _ _ _ _ None => []
  | TField _ _ _ _ (Some l) => if b then flat_map item_spreads l else []
  | TSpread n _ => if b then [] else [n]
  | TInline _ _ l => if b then [] else flat_map item_spreads l
  end.

Lemma item_spreads_sp it : incl (item_spreads it) (sp true it ++ sp false it).
Proof.
  destruct it as [a n args ds [l|]|n ds|on ds l]; simpl; intros x Hx; auto;
    try (rewrite app_nil_r; exact Hx).
Qed.

Definition grows (st st' : dstate) : Prop := exists ext, visited st' = ext ++ visited st.

Lemma grows_refl st : grows st st. Proof. exists []; reflexivity. Qed.
Lemma grows_trans a b c : grows a b -> grows b c -> grows a c.
Proof. intros [e1 H1] [e2 H2]. exists (e2 ++ e1). rewrite H2, H1, app_assoc; reflexivity. Qed.
Lemma grows_incl a b X : grows a b -> incl X (visited a) -> incl X (visited b).
Proof. intros [e H] Hi x Hx. rewrite H. apply in_or_app; right; auto. Qed.

Definition step_ok (tbl : ftable) (S0 : list string) (st : dstate) (r : res dstate) : Prop :=
  forall st', r = ROk st' -> topo tbl (visited st) -> topo tbl (visited st') /\ grows st st' /\ incl S0 (visited st').

Lemma fold_res_topo tbl (f : dstate -> titem -> res dstate) (g : titem -> list string) l :
  (forall x st, In x l -> step_ok tbl (g x) st (f st x)) ->
  forall st, step_ok tbl (flat_map g l) st (fold_res f st l).
Proof.
  induction l as [|x t IH]; intros Hf st st' Hr Ht; simpl in *.
  - inversion Hr; subst. split; [auto|split; [apply grows_refl | apply incl_nil_l]].
  - destruct (f st x) as [st1| |] eqn:E; try discriminate.
    destruct (Hf x st (or_introl eq_refl) st1 E Ht) as [T1 [G1 I1]].
    destruct (IH (fun y s Hy => Hf y s (or_intror Hy)) st1 st' Hr T1) as [T2 [G2 I2]].
    split; [auto|split; [eapply grows_trans; eauto|]].
    apply incl_app; auto. eapply grows_incl; eauto.
Qed.

Lemma two_pass_topo tbl (item : bool -> dstate -> titem -> res dstate) l :
  (forall b x st, In x l -> step_ok tbl (sp b x) st (item b st x)) ->
  forall st, step_ok tbl (flat_map item_spreads l) st (two_pass item st l).
Proof.
  intros Hf st st' Hr Ht. unfold two_pass in Hr.
  destruct (fold_res (item true) st l) as [st1| |] eqn:E; try discriminate.
  destruct (fold_res_topo tbl (item true) (sp true) l (Hf true) st st1 E Ht) as [T1 [G1 I1]].
  destruct (fold_res_topo tbl (item false) (sp false) l (Hf false) st1 st' Hr T1) as [T2 [G2 I2]].
  split; [auto|split; [eapply grows_trans; eauto|]].
  intros x Hx. apply in_flat_map in Hx. destruct Hx as [it [Hit Hx]].
  apply item_spreads_sp in Hx. apply in_app_or in Hx. destruct Hx as [Hx|Hx].
  - apply (grows_incl st1 st' _ G2 I1). apply in_flat_map. exists it; auto.
  - apply I2. apply in_flat_map. exists it; auto.
Qed.

Lemma dc_item_topo fuel : forall tbl it b st, step_ok tbl (sp b it) st (dc_item fuel tbl b st it).
Proof.
  induction fuel as [|f IHf]; intros tbl.
  - intros it b st st' Hr. discriminate.
  - induction it using titem_ind'; intros b st.
    + rewrite dc_leaf. intros st' Hr Ht. inversion Hr; subst.
      split; [auto|split; [apply grows_refl | apply incl_nil_l]].
    + rewrite dc_field. destruct b.
      * simpl. apply two_pass_topo. intros b x st0 Hin. rewrite Forall_forall in H. apply H; auto.
      * intros st' Hr Ht. inversion Hr; subst. split; [auto|split; [apply grows_refl | apply incl_nil_l]].
    + rewrite dc_spread. destruct b.
      * intros st' Hr Ht. inversion Hr; subst. split; [auto|split; [apply grows_refl | apply incl_nil_l]].
      * destruct (mem n (visiting st)) eqn:Hm1; [intros st' Hr; discriminate|].
        destruct (mem n (visited st)) eqn:Hm2.
        { intros st' Hr Ht. inversion Hr; subst. split; [auto|split; [apply grows_refl|]].
          simpl. intros x [Hx|[]]; subst. apply mem_In; auto. }
        destruct (lookup n tbl) as [[on body]|] eqn:Hl; [|intros st' Hr; discriminate].
        intros st' Hr Ht.
        destruct (two_pass (dc_item f tbl) {| visiting := n :: visiting st; visited := visited st |} body) as [st1| |] eqn:E;
          try discriminate.
        inversion Hr; subst; clear Hr.
        assert (Hb := two_pass_topo tbl (dc_item f tbl) body (fun b x st0 _ => IHf tbl x b st0)
                                    {| visiting := n :: visiting st; visited := visited st |} st1 E Ht).
        destruct Hb as [T1 [[ext G1] I1]]. simpl in *.
        split; [split; [exact T1 | exists on, body; auto]|].
        split; [exists (n :: ext); rewrite G1; reflexivity|].
        intros x [Hx|[]]; subst; left; reflexivity.
    + rewrite dc_inline. destruct b.
      * intros st' Hr Ht. inversion Hr; subst. split; [auto|split; [apply grows_refl | apply incl_nil_l]].
      * simpl. apply two_pass_topo. intros b x st0 Hin. rewrite Forall_forall in H. apply H; auto.
Qed.

Lemma topo_split tbl d n : topo tbl d -> In n d ->
  exists d2 on body, lookup n tbl = Some (on, body) /\ incl (flat_map item_spreads body) d2 /\ topo tbl d2
                     /\ List.length d2 < List.length d.
Proof.
  induction d as [|m d' IH]; simpl; intros Ht Hin; [contradiction|].
  destruct Ht as [Ht [on [body [Hl Hi]]]].
  destruct Hin as [Hin|Hin].
  - subst. exists d', on, body. auto.
  - destruct (IH Ht Hin) as [d2 [on2 [body2 [H1 [H2 [H3 H4]]]]]].
    exists d2, on2, body2. repeat split; auto.
Qed.

(** * detectConflicts *)

Fixpoint sib (it : titem) : list string :=
  match it with
  | TField _ _ _ _ _ => []
  | TSpread n _ => [n]
  | TInline _ _ l => flat_map sib l
  end.

Lemma sib_incl it : incl (sib it) (item_spreads it).
Proof.
  induction it using titem_ind'; simpl; try apply incl_nil_l; try apply incl_refl.
  intros x Hx. apply in_flat_map in Hx. destruct Hx as [y [Hy Hx]].
  apply in_flat_map. exists y. split; auto. rewrite Forall_forall in H. apply (H y Hy); auto.
Qed.

Lemma flat_map_incl {A B} (f g : A -> list B) l : (forall x, In x l -> incl (f x) (g x)) -> incl (flat_map f l) (flat_map g l).
Proof.
  intros H x Hx. apply in_flat_map in Hx. destruct Hx as [y [Hy Hx]].
  apply in_flat_map. exists y; split; auto. apply (H y Hy); auto.
Qed.

Lemma cf_field v f tbl b st alias name args ds sub :
  cf_item v (S f) tbl b st (TField alias name args ds sub) =
  if b then
    match lookup alias (c_sels st) with
    | Some (name', args') =>
        if negb (String.eqb name' name) then RErr EAliasName
        else if negb (args_equal args' args) then RErr EAliasArgs
        else ROk st
    | None => ROk {| c_sels := c_sels st ++ [(alias, (name, args))]; c_seen := c_seen st; c_cost := c_cost st |}
    end
  else ROk st.
Proof. reflexivity. Qed.
Lemma cf_inline v f tbl b st on ds l :
  cf_item v (S f) tbl b st (TInline on ds l) = if b then ROk st else two_pass (cf_item v (S f) tbl) (c_bump st) l.
Proof. reflexivity. Qed.
Lemma cf_spread v f tbl b st name ds :
  cf_item v (S f) tbl b st (TSpread name ds) =
  if b then ROk st
  else if fix21 v && mem name (c_seen st) then ROk st
  else match lookup name tbl with
       | None => RCrash CrDanglingFragment
       | Some (_, body) =>
           two_pass (cf_item v f tbl)
                    (c_bump {| c_sels := c_sels st; c_seen := name :: c_seen st; c_cost := c_cost st |}) body
       end.
Proof. reflexivity. Qed.

Definition any {S} (_ : S) : Prop := True.

Lemma cf_item_good v fuel : forall tbl d, topo tbl d -> List.length d < fuel ->
  forall it b st, incl (sib it) d -> good any (cf_item v fuel tbl b st it).
Proof.
  induction fuel as [|f IHf]; intros tbl d Ht Hlen; [lia|].
  induction it using titem_ind'; intros b st Hs.
  - rewrite cf_field. destruct b; [|exact I].
    destruct (lookup a (c_sels st)) as [[n' a']|]; [|exact I].
    destruct (negb (String.eqb n' n)); [exact I|]. destruct (negb (args_equal a' args)); exact I.
  - rewrite cf_field. destruct b; [|exact I].
    destruct (lookup a (c_sels st)) as [[n' a']|]; [|exact I].
    destruct (negb (String.eqb n' n)); [exact I|]. destruct (negb (args_equal a' args)); exact I.
  - rewrite cf_spread. destruct b; [exact I|].
    destruct (fix21 v && mem n (c_seen st)); [exact I|].
    assert (Hn : In n d) by (apply Hs; simpl; auto).
    destruct (topo_split tbl d n Ht Hn) as [d2 [on [body [Hl [Hi [Ht2 Hlen2]]]]]].
    rewrite Hl. apply two_pass_good; [|exact I].
    intros b0 st0 x Hin _. apply (IHf tbl d2); auto; [lia|].
    intros y Hy. apply Hi. apply in_flat_map. exists x. split; auto. apply sib_incl; auto.
  - rewrite cf_inline. destruct b; [exact I|].
    apply two_pass_good; [|exact I].
    intros b0 st0 x Hin _. rewrite Forall_forall in H. apply H; auto.
    simpl in Hs. eapply incl_flat_map_in; eauto.
Qed.

(** * Assembling Parse *)

Lemma good_nocrash {S} (P : S -> Prop) r : good P r -> is_crash r = false.
Proof. destruct r; simpl; auto. contradiction. Qed.

Lemma scan_defs_nocrash d : forall acc, nocrash (scan_defs acc d).
Proof.
  unfold nocrash. induction d as [|x t IH]; intros acc; simpl; auto.
  destruct x as [op name vds ds sel|name tc ds sel|k]; auto.
  - destruct (negb (String.eqb op "query" || String.eqb op "mutation")); auto.
    destruct (a_op acc); auto.
  - destruct (mem name (map fst (a_frags acc))); auto.
Qed.

Lemma apply_defaults_nocrash vars0 vds : forall acc, nocrash (apply_defaults vars0 acc vds).
Proof.
  unfold nocrash. induction vds as [|[name ty def] t IH]; intros acc; simpl; auto.
  destruct (is_nonnull ty).
  - destruct def; auto.
  - destruct def as [dv|]; auto. destruct (present name vars0); auto.
    pose proof (value_to_json_nocrash [] dv) as Hv. unfold nocrash in Hv.
    destruct (value_to_json [] dv); simpl in *; auto.
Qed.

Lemma parse_frags_spec v fnames vars frs :
  (fix22 v = true -> forall o, In o (frag_failures (parse_frags v fnames vars frs)) -> is_crash o = false) /\
  (fix22 v = true -> is_crash (collect_frags (parse_frags v fnames vars frs)) = false) /\
  (forall tbl, collect_frags (parse_frags v fnames vars frs) = ROk tbl ->
               map fst tbl = map fst frs /\
               forall n on body, In (n, (on, body)) tbl -> incl (flat_map item_spreads body) fnames).
Proof.
  induction frs as [|[n [tc sel]] t IH]; simpl.
  - repeat split; auto; try contradiction.
    + inversion H; subst; reflexivity.
    + inversion H; subst. contradiction.
  - destruct IH as [IH1 [IH2 IH3]].
    destruct (parse_selset_ok v fnames vars sel) as [Hc Hs].
    destruct (parse_selset v fnames vars sel) as [items| |]; simpl.
    + split; [exact IH1|]. split.
      * intros Hf. specialize (IH2 Hf).
        destruct (collect_frags (parse_frags v fnames vars t)); simpl in *; auto.
      * intros tbl Ht.
        destruct (collect_frags (parse_frags v fnames vars t)) as [r| |]; try discriminate.
        inversion Ht; subst. destruct (IH3 r eq_refl) as [K1 K2]. simpl. split; [f_equal; auto|].
        intros n0 on body [Hin|Hin]; [inversion Hin; subst; apply Hs; reflexivity | eapply K2; eauto].
    + split; [intros Hf o [Ho|Ho]; [subst; reflexivity | apply IH1; auto]|].
      split; [auto | intros; discriminate].
    + split; [intros Hf o [Ho|Ho]; [subst; simpl; apply (Hc Hf) | apply IH1; auto]|].
      split; [exact Hc | intros; discriminate].
Qed.

Lemma detect_cycles_spec tbl items :
  tbl_closed tbl -> incl (flat_map item_spreads items) (map fst tbl) ->
  is_crash (detect_cycles tbl items) = false /\
  forall d, detect_cycles tbl items = ROk d ->
            topo tbl d /\ incl (flat_map item_spreads items) d /\ List.length d <= List.length tbl.
Proof.
  intros Hcl Hsp. unfold detect_cycles.
  set (st0 := {| visiting := []; visited := [] |}).
  assert (Hinv : dinv (map fst tbl) [] st0).
  { repeat split; simpl; auto; [constructor | apply incl_nil_l]. }
  assert (Hg : good (dinv (map fst tbl) []) (two_pass (dc_item (S (List.length tbl)) tbl) st0 items)).
  { apply two_pass_good; auto. intros b st x Hin Hst.
    apply dc_item_good; auto; [constructor | apply incl_nil_l | rewrite map_length; simpl; lia |].
    eapply incl_flat_map_in; eauto. }
  assert (Ht := two_pass_topo tbl (dc_item (S (List.length tbl)) tbl) items
                              (fun b x st _ => dc_item_topo (S (List.length tbl)) tbl x b st) st0).
  destruct (two_pass (dc_item (S (List.length tbl)) tbl) st0 items) as [st| |] eqn:E; simpl in Hg.
  - split.
    + destruct (forallb (fun n => mem n (visited st)) (map fst tbl)); reflexivity.
    + intros d Hd. destruct (forallb (fun n => mem n (visited st)) (map fst tbl)); try discriminate.
      inversion Hd; subst. destruct (Ht st eq_refl I) as [T1 [_ I1]].
      destruct Hg as [_ [G2 [G3 _]]].
      split; [exact T1|]. split; [exact I1|].
      pose proof (NoDup_incl_length G2 G3) as Hl. rewrite map_length in Hl. exact Hl.
  - split; [reflexivity | intros; discriminate].
  - contradiction.
Qed.

Lemma detect_conflicts_nocrash v tbl items d :
  topo tbl d -> List.length d <= List.length tbl -> incl (flat_map item_spreads items) d ->
  is_crash (detect_conflicts v tbl items) = false.
Proof.
  intros Ht Hl Hi. unfold detect_conflicts, conflicts_run.
  assert (Hg : good any (two_pass (cf_item v (S (List.length tbl)) tbl)
                                  (c_bump {| c_sels := []; c_seen := []; c_cost := 0 |}) items)).
  { apply two_pass_good; [|exact I]. intros b st x Hin _.
    apply (cf_item_good v (S (List.length tbl)) tbl d); auto; [lia|].
    intros y Hy. apply Hi. apply in_flat_map. exists x; split; auto. apply sib_incl; auto. }
  destruct (two_pass (cf_item v (S (List.length tbl)) tbl) (c_bump {| c_sels := []; c_seen := []; c_cost := 0 |}) items);
    simpl in *; auto. contradiction.
Qed.

Lemma convert_tail_nocrash v o frs vars :
  fix22 v = true ->
  is_crash (convert_tail v o frs vars (parse_frags v (map fst frs) vars frs)) = false.
Proof.
  intros Hf. unfold convert_tail.
  destruct (op_parts o) as [[[op name] vds] sel].
  destruct (parse_frags_spec v (map fst frs) vars frs) as [_ [P2 P3]].
  specialize (P2 Hf).
  destruct (collect_frags (parse_frags v (map fst frs) vars frs)) as [tbl| |]; simpl in *; auto.
  destruct (P3 tbl eq_refl) as [K1 K2].
  destruct (parse_selset_ok v (map fst frs) vars sel) as [Hc Hs]. specialize (Hc Hf).
  destruct (parse_selset v (map fst frs) vars sel) as [items| |]; simpl in *; auto.
  assert (Hcl : tbl_closed tbl).
  { intros n on body Hin. rewrite K1. eapply K2; eauto. }
  assert (Hsp : incl (flat_map item_spreads items) (map fst tbl)).
  { rewrite K1. apply Hs; reflexivity. }
  destruct (detect_cycles_spec tbl items Hcl Hsp) as [D1 D2].
  destruct (detect_cycles tbl items) as [d| |]; simpl in *; auto.
  destruct (D2 d eq_refl) as [T1 [T2 T3]].
  pose proof (detect_conflicts_nocrash v tbl items d T1 T3 T2) as Hcf.
  destruct (detect_conflicts v tbl items); simpl in *; auto.
Qed.

Lemma convert_all_nocrash v doc vars :
  fix22 v = true -> forall o, In o (convert_all v doc vars) -> is_crash o = false.
Proof.
  intros Hf o Ho. unfold convert_all in Ho.
  pose proof (scan_defs_nocrash doc {| a_frags := []; a_op := None |}) as Hs. unfold nocrash in Hs.
  destruct (scan_defs {| a_frags := []; a_op := None |} doc) as [acc| |]; simpl in *;
    try (destruct Ho as [Ho|[]]; subst; auto; fail).
  destruct (a_op acc) as [o0|]; [|destruct Ho as [Ho|[]]; subst; reflexivity].
  destruct (op_parts o0) as [[[op name] vds] sel] eqn:Eo.
  pose proof (apply_defaults_nocrash vars vds vars) as Hd. unfold nocrash in Hd.
  destruct (apply_defaults vars vars vds) as [vars'| |]; simpl in *;
    try (destruct Ho as [Ho|[]]; subst; auto; fail).
  destruct (parse_frags_spec v (map fst (a_frags acc)) vars' (a_frags acc)) as [P1 _].
  destruct (frag_failures (parse_frags v (map fst (a_frags acc)) vars' (a_frags acc))) as [|x t] eqn:Ef.
  - destruct Ho as [Ho|[]]; subst. apply convert_tail_nocrash; auto.
  - apply (P1 Hf); auto.
Qed.

Lemma convert_nocrash v doc vars : fix22 v = true -> is_crash (convert v doc vars) = false.
Proof.
  intros Hf. unfold convert.
  pose proof (scan_defs_nocrash doc {| a_frags := []; a_op := None |}) as Hs. unfold nocrash in Hs.
  destruct (scan_defs {| a_frags := []; a_op := None |} doc) as [acc| |]; simpl in *; auto.
  destruct (a_op acc) as [o0|]; auto.
  destruct (op_parts o0) as [[[op name] vds] sel] eqn:Eo.
  pose proof (apply_defaults_nocrash vars vds vars) as Hd. unfold nocrash in Hd.
  destruct (apply_defaults vars vars vds) as [vars'| |]; simpl in *; auto.
  apply convert_tail_nocrash; auto.
Qed.

(** F22: the unrepaired conversion crashes on `{ ... { a } }`. *)
Definition f22_doc : gdoc := [GOperation "query" None [] [] [GInline None [] [GField None "a" [] [] None]]].
Lemma convert_orig_crashes : convert orig f22_doc [] = RCrash CrNilTypeCondition.
Proof. reflexivity. Qed.
