(** C14: the reader inverts the introspection printer; validation, execution and conformance judged
    against the schema read back from the printed JSON agree with the judgement against the built one. *)
From Coq Require Import List ZArith String Bool Arith Lia.
From Thunder Require Import Lib.Json Lib.JsonNorm GqlTyping.Types GqlTyping.Parse GqlTyping.Introspect.
Import ListNotations.
Open Scope string_scope.
Open Scope list_scope.

(** * Type references *)
Lemma kind_of_named x n : String.eqb (kind_of x n) "NON_NULL" = false /\ String.eqb (kind_of x n) "LIST" = false.
Proof. unfold kind_of. destruct (lookup n x) as [[| | | |]|]; split; reflexivity. Qed.

Lemma read_ref_roundtrip x : forall k t, wrappers t < k -> read_ref k (ref_json x k t) = Some t.
Proof.
  induction k as [|k IH]; intros t Hw; [lia|].
  destruct t as [n|t'|t']; cbn [wrappers] in Hw.
  - destruct (kind_of_named x n) as [H1 H2].
    destruct k; cbn [ref_json read_ref app jfield lookup jstr String.eqb Ascii.eqb Bool.eqb]; rewrite H1, H2; reflexivity.
  - destruct k as [|k]; [lia|].
    change (read_ref (S (S k)) (ref_json x (S (S k)) (TList t'))) with (option_map TList (read_ref (S k) (ref_json x (S k) t'))).
    rewrite IH by lia. reflexivity.
  - destruct k as [|k]; [lia|].
    change (read_ref (S (S k)) (ref_json x (S (S k)) (TNonNull t'))) with (option_map TNonNull (read_ref (S k) (ref_json x (S k) t'))).
    rewrite IH by lia. reflexivity.
Qed.

(** A reference wrapped deeper than the TypeRef fragment prints is cut off; the reader then fails – it
    never reconstructs a different type. *)
Lemma read_ref_too_deep x : forall k t, k <= wrappers t -> read_ref k (ref_json x k t) = None.
Proof.
  induction k as [|k IH]; intros t Hw; [reflexivity|].
  destruct t as [n|t'|t']; cbn [wrappers] in Hw; [lia| |].
  - destruct k as [|k]; [reflexivity|].
    change (read_ref (S (S k)) (ref_json x (S (S k)) (TList t'))) with (option_map TList (read_ref (S k) (ref_json x (S k) t'))).
    rewrite IH by lia. reflexivity.
  - destruct k as [|k]; [reflexivity|].
    change (read_ref (S (S k)) (ref_json x (S (S k)) (TNonNull t'))) with (option_map TNonNull (read_ref (S k) (ref_json x (S k) t'))).
    rewrite IH by lia. reflexivity.
Qed.

(** * Lists *)
Lemma mapo_map {A B C} (f : B -> option C) (g : A -> B) (h : A -> C) (l : list A) :
  (forall a, In a l -> f (g a) = Some (h a)) -> mapo f (map g l) = Some (map h l).
Proof.
  induction l as [|a r IH]; intros H; [reflexivity|]. cbn [map mapo].
  rewrite (H a (or_introl eq_refl)), IH by (intros; apply H; right; assumption). reflexivity.
Qed.

Lemma map_id_ext {A} (h : A -> A) l : (forall a, In a l -> h a = a) -> map h l = l.
Proof. induction l as [|a r IH]; intros H; [reflexivity|]. cbn [map]. rewrite H, IH; auto; [intros; apply H; right; auto | left; auto]. Qed.

Lemma by_name_in {A} (a : string * A) l : In a (by_name l) -> In a l.
Proof. unfold by_name. apply sort_kv_in. Qed.

(** * Pieces *)
Definition refb (t : tref) : bool := Nat.ltb (wrappers t) ref_depth.

Lemma read_input_value_ok x a : refb (snd a) = true -> read_input_value (input_value_json x a) = Some a.
Proof.
  intros H. apply Nat.ltb_lt in H. unfold read_input_value, input_value_json.
  cbn [jfield lookup jstr String.eqb Ascii.eqb Bool.eqb].
  rewrite read_ref_roundtrip by exact H. destruct a; reflexivity.
Qed.

Lemma read_input_values_ok x (l : list (string * tref)) :
  forallb (fun a => refb (snd a)) l = true ->
  read_list read_input_value (Some (JArr (map (input_value_json x) (by_name l)))) = Some (by_name l).
Proof.
  intros H. cbn [read_list]. rewrite (mapo_map _ _ (fun a => a)), map_id; [reflexivity|].
  intros a Hin. apply read_input_value_ok. apply by_name_in in Hin.
  rewrite forallb_forall in H. exact (H a Hin).
Qed.

Definition fieldb (f : string * (tref * xargs)) : bool :=
  refb (fst (snd f)) && forallb (fun a => refb (snd a)) (snd (snd f)).

Definition norm_field (f : string * (tref * xargs)) : string * (tref * xargs) :=
  (fst f, (fst (snd f), by_name (snd (snd f)))).

Lemma read_field_ok x f : fieldb f = true -> read_field (field_json x f) = Some (norm_field f).
Proof.
  intros H. apply andb_true_iff in H. destruct H as [H1 H2]. apply Nat.ltb_lt in H1.
  unfold read_field, field_json.
  cbn [jfield lookup jstr String.eqb Ascii.eqb Bool.eqb].
  rewrite (read_input_values_ok x _ H2), read_ref_roundtrip by exact H1. reflexivity.
Qed.

Lemma read_enum_value_ok v : read_enum_value (enum_value_json v) = Some v.
Proof. destruct v; reflexivity. Qed.

Lemma read_member_ok x m : read_member (ref_json x ref_depth (TNamed m)) = Some m.
Proof. reflexivity. Qed.

Definition defb (d : xdef) : bool :=
  match d with
  | XObject _ fs _ => forallb fieldb fs
  | XInput fs => forallb (fun a => refb (snd a)) fs
  | _ => true
  end.

Lemma read_type_ok x n d : lookup n x = Some d -> defb d = true -> read_type (type_json x (n, d)) = Some (n, norm_def d).
Proof.
  intros Hl Hd. unfold read_type, type_json, kind_of. rewrite Hl.
  destruct d as [|vs|s fs k|s ms|fs]; cbn [jfield lookup jstr String.eqb Ascii.eqb Bool.eqb norm_def].
  - reflexivity.
  - cbn [read_list]. rewrite (mapo_map _ _ (fun a => a)), map_id; [reflexivity|]. intros; apply read_enum_value_ok.
  - cbn [read_list]. rewrite (mapo_map _ _ norm_field); [reflexivity|].
    intros f Hin. apply read_field_ok. apply by_name_in in Hin. cbn [defb] in Hd. rewrite forallb_forall in Hd. exact (Hd f Hin).
  - cbn [read_list]. rewrite (mapo_map _ _ (fun a => a)), map_id; [reflexivity|]. intros; apply read_member_ok.
  - rewrite (read_input_values_ok x fs Hd). reflexivity.
Qed.

(** * The whole schema *)
Lemma ref_ok_refb x t : ref_ok x t = true -> refb t = true.
Proof. unfold ref_ok. intros H. apply andb_true_iff in H. exact (proj1 H). Qed.

Lemma def_ok_defb x d : def_ok x d = true -> defb d = true.
Proof.
  destruct d as [|vs|s fs k|s ms|fs]; cbn [def_ok defb]; intros H; try reflexivity.
  - apply andb_true_iff in H. destruct H as [_ H]. rewrite forallb_forall in *. intros f Hin. specialize (H f Hin).
    apply andb_true_iff in H. destruct H as [H H3]. apply andb_true_iff in H. destruct H as [H1 _].
    unfold out_ref_ok in H1. apply andb_true_iff in H1. destruct H1 as [H1 _].
    unfold fieldb. apply andb_true_iff. split; [exact (ref_ok_refb _ _ H1)|].
    apply forallb_forall. intros a Ha. rewrite forallb_forall in H3. exact (ref_ok_refb _ _ (H3 a Ha)).
  - apply andb_true_iff in H. destruct H as [_ H]. rewrite forallb_forall in *. intros a Ha. exact (ref_ok_refb _ _ (H a Ha)).
Qed.

Lemma xwf_names x : xwf x = true -> NoDup (map fst x).
Proof. unfold xwf. intros H. apply andb_true_iff in H. apply nodup_keys_NoDup. exact (proj1 H). Qed.

Lemma xwf_def x n d : xwf x = true -> In (n, d) x -> def_ok x d = true.
Proof. unfold xwf. intros H Hin. apply andb_true_iff in H. destruct H as [_ H]. rewrite forallb_forall in H. exact (H (n, d) Hin). Qed.

(** The reader inverts the printer: for every well-formed built schema, reading the printed `types`
    gives the same types back (in introspection's order, key marks dropped). *)
Lemma read_introspect x : xwf x = true -> read_types (introspect_types x) = Some (xnormalize x).
Proof.
  intros Hwf. unfold read_types, introspect_types, xnormalize. cbn [read_list].
  apply mapo_map. intros [n d] Hin. apply by_name_in in Hin.
  apply read_type_ok.
  - apply in_lookup'; [apply xwf_names; exact Hwf | exact Hin].
  - eapply def_ok_defb. eapply xwf_def; eauto.
Qed.

(** … and a field type wrapped deeper than the TypeRef fragment makes the JSON unreadable, not wrong. *)
Lemma read_field_too_deep x f : ref_depth <= wrappers (fst (snd f)) -> read_field (field_json x f) = None.
Proof.
  intros H. unfold read_field, field_json. cbn [jfield lookup jstr String.eqb Ascii.eqb Bool.eqb].
  rewrite (read_ref_too_deep x ref_depth _ H).
  destruct (read_list read_input_value _); reflexivity.
Qed.

(** * The erased schemas are equivalent as finite maps *)
Definition def_sim (d d' : tdef) : Prop :=
  match d, d' with
  | DScalar, DScalar => True
  | DEnum a, DEnum b => forall s, In s a <-> In s b
  | DObject f _, DObject f' _ => forall n, lookup n f = lookup n f'
  | DUnion m, DUnion m' => forall s, mem s m = mem s m'
  | _, _ => False
  end.

Definition sch_sim (a b : schema) : Prop :=
  forall n, match lookup n a, lookup n b with
            | None, None => True
            | Some d, Some d' => def_sim d d'
            | _, _ => False
            end.

Lemma def_sim_refl d : def_sim d d.
Proof. destruct d; cbn; intros; tauto || reflexivity. Qed.

Lemma sch_sim_refl a : sch_sim a a.
Proof. intros n. destruct (lookup n a); [apply def_sim_refl | exact I]. Qed.

Lemma def_sim_sym d d' : def_sim d d' -> def_sim d' d.
Proof. destruct d, d'; cbn; intros H; try exact H; intros s; specialize (H s); try tauto; symmetry; exact H. Qed.

Lemma sch_sim_sym a b : sch_sim a b -> sch_sim b a.
Proof. intros H n. specialize (H n). destruct (lookup n a), (lookup n b); try exact H. apply def_sim_sym; exact H. Qed.

Lemma lookup_erase_none x n : lookup n x = None -> lookup n (erase x) = None.
Proof.
  induction x as [|[m d] r IH]; [reflexivity|]. cbn [lookup erase].
  destruct (String.eqb n m) eqn:E; [discriminate|]. intros H.
  destruct (erase_def d); [cbn [lookup]; rewrite E|]; apply IH; exact H.
Qed.

Lemma lookup_erase x n : NoDup (map fst x) ->
  lookup n (erase x) = match lookup n x with Some d => erase_def d | None => None end.
Proof.
  induction x as [|[m d] r IH]; intros Hnd; [reflexivity|]. cbn [map fst] in Hnd. inversion Hnd as [|? ? Hni Hnd']; subst.
  cbn [lookup erase]. destruct (String.eqb n m) eqn:E.
  - apply String.eqb_eq in E. subst m. destruct (erase_def d) eqn:Ed.
    + cbn [lookup]. rewrite String.eqb_refl. reflexivity.
    + apply lookup_erase_none. apply lookup_none_iff. exact Hni.
  - destruct (erase_def d); [cbn [lookup]; rewrite E|]; apply IH; exact Hnd'.
Qed.

Lemma lookup_map_snd {A B} (g : A -> B) k (l : list (string * A)) :
  lookup k (map (fun e => (fst e, g (snd e))) l) = option_map g (lookup k l).
Proof.
  induction l as [|[k' v] r IH]; [reflexivity|]. cbn [map lookup fst snd].
  destruct (String.eqb k k'); [reflexivity | exact IH].
Qed.

Lemma map_fst_map_snd {A B} (g : A -> B) (l : list (string * A)) : map fst (map (fun e => (fst e, g (snd e))) l) = map fst l.
Proof. rewrite map_map. reflexivity. Qed.

Lemma mem_sort_names s ms : mem s (sort_names ms) = mem s ms.
Proof.
  destruct (mem s ms) eqn:E.
  - apply mem_In. apply mem_In in E. unfold sort_names. apply sort_kv_keys. rewrite map_map. cbn [fst]. rewrite map_id. exact E.
  - destruct (mem s (sort_names ms)) eqn:E'; [|reflexivity]. apply mem_In in E'. unfold sort_names in E'.
    apply (proj1 (sort_kv_keys _ _)) in E'. rewrite map_map in E'. cbn [fst] in E'. rewrite map_id in E'. apply mem_In in E'. congruence.
Qed.

Lemma erase_norm_def_sim d d1 d2 :
  (match d with XObject _ fs _ => NoDup (map fst fs) | _ => True end) ->
  erase_def (norm_def d) = Some d1 -> erase_def d = Some d2 -> def_sim d1 d2.
Proof.
  destruct d as [|vs|s fs k|s ms|fs]; cbn [norm_def erase_def]; intros Hnd H1 H2; inversion H1; inversion H2; subst; cbn [def_sim]; try exact I.
  - intros s. unfold by_name. apply sort_kv_keys.
  - intros n. rewrite map_map. cbn [fst snd].
    change (map (fun x => (fst x, fst (snd x))) (by_name fs)) with (map (fun e : string * (tref * xargs) => (fst e, fst (snd e))) (by_name fs)).
    rewrite (lookup_map_snd (fun v : tref * xargs => fst v)), (lookup_map_snd (fun v : tref * xargs => fst v)).
    unfold by_name. rewrite sort_kv_lookup by exact Hnd. reflexivity.
  - intros m. apply mem_sort_names.
Qed.

Lemma erase_norm_def_none d : erase_def (norm_def d) = None <-> erase_def d = None.
Proof. destruct d; cbn; split; intros H; try discriminate; reflexivity. Qed.

Lemma xwf_fields_nodup x n s fs k : xwf x = true -> lookup n x = Some (XObject s fs k) -> NoDup (map fst fs).
Proof.
  intros Hwf Hl. apply lookup_in' in Hl. pose proof (xwf_def x n _ Hwf Hl) as H. cbn [def_ok] in H.
  apply andb_true_iff in H. apply nodup_keys_NoDup. exact (proj1 H).
Qed.

Lemma erase_normalize_sim x : xwf x = true -> sch_sim (erase (xnormalize x)) (erase x).
Proof.
  intros Hwf n. pose proof (xwf_names x Hwf) as Hnd.
  assert (Hnd2 : NoDup (map fst (xnormalize x))).
  { unfold xnormalize. rewrite map_fst_map_snd. apply ksorted_nodup. apply sort_kv_sorted. exact Hnd. }
  rewrite (lookup_erase _ n Hnd2), (lookup_erase _ n Hnd).
  unfold xnormalize. rewrite lookup_map_snd. unfold by_name. rewrite sort_kv_lookup by exact Hnd.
  destruct (lookup n x) as [d|] eqn:El; cbn [option_map]; [|exact I].
  destruct (erase_def (norm_def d)) as [d1|] eqn:E1, (erase_def d) as [d2|] eqn:E2.
  - eapply erase_norm_def_sim; eauto. destruct d; try exact I. eapply xwf_fields_nodup; eauto.
  - apply (proj2 (erase_norm_def_none d)) in E2. congruence.
  - apply (proj1 (erase_norm_def_none d)) in E1. congruence.
  - exact I.
Qed.

(** * A well-formed built schema is closed in the sense validation needs: field types and union members
    are defined output types, union members are objects. *)
Lemma erase_def_some_not_input d d' : erase_def d = Some d' -> match d with XInput _ => False | _ => True end.
Proof. destruct d; cbn; intros H; try exact I; discriminate. Qed.

Lemma lookup_erase_object x n s fs k : NoDup (map fst x) -> lookup n x = Some (XObject s fs k) ->
  lookup n (erase x) = Some (DObject (map (fun f => (fst f, fst (snd f))) fs) k).
Proof. intros Hnd Hl. rewrite lookup_erase by exact Hnd. rewrite Hl. reflexivity. Qed.

Lemma xwf_erase_closed x : xwf x = true ->
  (forall tn fs k f ft, lookup tn (erase x) = Some (DObject fs k) -> lookup f fs = Some ft -> lookup (named_of ft) (erase x) <> None) /\
  (forall tn ms m, lookup tn (erase x) = Some (DUnion ms) -> In m ms -> exists fs k, lookup m (erase x) = Some (DObject fs k)).
Proof.
  intros Hwf. pose proof (xwf_names x Hwf) as Hnd. split.
  - intros tn fs k f ft Hl Hf. rewrite lookup_erase in Hl by exact Hnd.
    destruct (lookup tn x) as [d|] eqn:El; [|discriminate].
    destruct d as [|vs|s xfs xk|s ms|ifs]; cbn [erase_def] in Hl; try discriminate. inversion Hl; subst. clear Hl.
    change (map (fun f0 : string * (tref * xargs) => (fst f0, fst (snd f0))) xfs)
      with (map (fun e : string * (tref * xargs) => (fst e, (fun v : tref * xargs => fst v) (snd e))) xfs) in Hf.
    rewrite lookup_map_snd in Hf. destruct (lookup f xfs) as [[t args]|] eqn:Ef; [|discriminate].
    cbn in Hf. inversion Hf; subst. clear Hf.
    apply lookup_in' in Ef. apply lookup_in' in El.
    pose proof (xwf_def x tn _ Hwf El) as Hd. cbn [def_ok] in Hd.
    apply andb_true_iff in Hd. destruct Hd as [_ Hd]. rewrite forallb_forall in Hd. specialize (Hd _ Ef). cbn [fst snd] in Hd.
    apply andb_true_iff in Hd. destruct Hd as [Hd _]. apply andb_true_iff in Hd. destruct Hd as [Hd _].
    unfold out_ref_ok, ref_ok in Hd. apply andb_true_iff in Hd. destruct Hd as [Hd1 Hd2].
    apply andb_true_iff in Hd1. destruct Hd1 as [_ Hd1].
    rewrite lookup_erase by exact Hnd.
    destruct (lookup (named_of ft) x) as [d|]; [|discriminate].
    destruct d; cbn [erase_def]; try discriminate.
  - intros tn ms m Hl Hin. rewrite lookup_erase in Hl by exact Hnd.
    destruct (lookup tn x) as [d|] eqn:El; [|discriminate].
    destruct d as [|vs|s xfs xk|s xms|ifs]; cbn [erase_def] in Hl; try discriminate. inversion Hl; subst. clear Hl.
    apply lookup_in' in El. pose proof (xwf_def x tn _ Hwf El) as Hd. cbn [def_ok] in Hd.
    apply andb_true_iff in Hd. destruct Hd as [_ Hd]. rewrite forallb_forall in Hd. specialize (Hd m Hin).
    destruct (lookup m x) as [[| |s' fs' k'| |]|] eqn:Em; try discriminate.
    eexists. eexists. apply (lookup_erase_object x m s' fs' k' Hnd Em).
Qed.
