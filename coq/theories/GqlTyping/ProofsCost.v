(** Cost of detectConflicts and PrepareQuery: exponential on the fragment-bomb family in the original
    code (F21), linear in the repaired detectConflicts. *)
From Coq Require Import List ZArith String Bool Arith Lia ZifyBool ZifyNat.
From Thunder Require Import Lib.Json GqlTyping.Types GqlTyping.Parse GqlTyping.ProofsParse.
Import ListNotations.
Open Scope string_scope.
Open Scope list_scope.

(** Size of thunder's selection structure: one per field, spread, inline fragment and fragment. *)
Fixpoint titem_size (it : titem) : nat :=
  match it with
  | TField _ _ _ _ None => 1
  | TField _ _ _ _ (Some l) => S (fold_right (fun x n => titem_size x + n) 0 l)
  | TSpread _ _ => 1
  | TInline _ _ l => S (fold_right (fun x n => titem_size x + n) 0 l)
  end.
Definition items_size (l : list titem) : nat := fold_right (fun x n => titem_size x + n) 0 l.
Definition ftable_size (tbl : ftable) : nat := fold_right (fun e n => S (items_size (snd (snd e))) + n) 0 tbl.
Definition query_size (q : query) : nat := items_size (q_sel q) + ftable_size (q_frags q).

Lemma two_pass_1 {S} (item : bool -> S -> titem -> res S) st x s1 s2 :
  item true st x = ROk s1 -> item false s1 x = ROk s2 -> two_pass item st [x] = ROk s2.
Proof. intros H1 H2. unfold two_pass. cbn [fold_res]. rewrite H1. cbn [fold_res]. rewrite H2. reflexivity. Qed.

Lemma two_pass_2 {S} (item : bool -> S -> titem -> res S) st x y s1 s2 s3 s4 :
  item true st x = ROk s1 -> item true s1 y = ROk s2 -> item false s2 x = ROk s3 -> item false s3 y = ROk s4 ->
  two_pass item st [x; y] = ROk s4.
Proof.
  intros H1 H2 H3 H4. unfold two_pass. cbn [fold_res]. rewrite H1, H2. cbn [fold_res]. rewrite H3, H4. reflexivity.
Qed.

Section Bomb.
  (** Any injective naming of the fragments (the harness uses F0, F1, …). *)
  Variable nm : nat -> string.
  Hypothesis nm_inj : forall i j, nm i = nm j -> i = j.

  (** { ...F0 }  fragment Fi on Query { ...F(i+1) ...F(i+1) }  (i < n)   fragment Fn on Query { a } *)
  Definition bbody (n i : nat) : list titem :=
    if Nat.ltb i n then [TSpread (nm (S i)) []; TSpread (nm (S i)) []] else [TField "a" "a" [] [] None].
  Definition btbl (n : nat) : ftable := map (fun i => (nm i, ("Query", bbody n i))) (seq 0 (S n)).
  Definition broot : list titem := [TSpread (nm 0) []].
  Definition bquery (n : nat) : query := {| q_name := ""; q_kind := "query"; q_sel := broot; q_frags := btbl n |}.

  Lemma lookup_map_nm {A} (g : nat -> A) l i :
    In i l -> lookup (nm i) (map (fun j => (nm j, g j)) l) = Some (g i).
  Proof.
    induction l as [|j t IH]; simpl; intros Hin; [contradiction|].
    destruct (String.eqb (nm i) (nm j)) eqn:E.
    - apply String.eqb_eq in E. apply nm_inj in E. subst; reflexivity.
    - destruct Hin as [Hin|Hin]; [subst; rewrite String.eqb_refl in E; discriminate | auto].
  Qed.

  Lemma btbl_lookup n i : i <= n -> lookup (nm i) (btbl n) = Some ("Query", bbody n i).
  Proof.
    intros H. unfold btbl. apply (lookup_map_nm (fun j => ("Query", bbody n j))).
    apply in_seq. lia.
  Qed.

  Lemma btbl_length n : List.length (btbl n) = S n.
  Proof. unfold btbl. rewrite map_length, seq_length. reflexivity. Qed.

  (** Linear size. *)
  Lemma ftable_size_btbl_aux n l :
    (forall i, In i l -> i < n) ->
    ftable_size (map (fun i => (nm i, ("Query", bbody n i))) l) = 3 * List.length l.
  Proof.
    induction l as [|i t IH]; simpl; intros H; auto.
    rewrite IH by (intros; apply H; right; auto).
    unfold bbody. assert (Hi : Nat.ltb i n = true) by (apply Nat.ltb_lt; apply H; left; auto).
    rewrite Hi. simpl. lia.
  Qed.

  Lemma ftable_size_app a b : ftable_size (a ++ b) = ftable_size a + ftable_size b.
  Proof. induction a as [|e t IH]; simpl; auto. rewrite IH. lia. Qed.

  Lemma ftable_size_btbl n : ftable_size (btbl n) = 3 * n + 2.
  Proof.
    unfold btbl. rewrite seq_S. rewrite map_app. rewrite ftable_size_app.
    rewrite ftable_size_btbl_aux by (intros i Hi; apply in_seq in Hi; lia).
    rewrite seq_length. simpl. unfold bbody. rewrite Nat.ltb_irrefl. simpl. lia.
  Qed.

  Lemma query_size_bomb n : query_size (bquery n) = 3 * n + 3.
  Proof. unfold query_size, bquery. cbn [q_sel q_frags]. rewrite ftable_size_btbl. simpl. lia. Qed.

  (** ** detectConflicts (original): at least 2^n visits *)

  Definition cq (st : cstate) : Prop :=
    forall name' args', lookup "a" (c_sels st) = Some (name', args') -> name' = "a" /\ args' = [].

  Lemma cq_bump st : cq st -> cq (c_bump st). Proof. auto. Qed.

  Lemma cf_leaf_field f n st : cq st ->
    exists st', cf_item orig (S f) (btbl n) true st (TField "a" "a" [] [] None) = ROk st' /\ cq st' /\ c_cost st' = c_cost st.
  Proof.
    intros Hq. rewrite cf_field. destruct (lookup "a" (c_sels st)) as [[n' a']|] eqn:E.
    - destruct (Hq n' a' E); subst. simpl. exists st; auto.
    - eexists; split; [reflexivity|]. split; [|reflexivity].
      intros n' a' H. cbn [c_sels] in H.
      assert (Hl : forall (l : list (string * (string * jargs))), lookup "a" l = None ->
                    lookup "a" (l ++ [("a", ("a", []))]) = Some ("a", [])).
      { induction l as [|[k x] t IH]; cbn [lookup app]; auto. destruct (String.eqb "a" k); [intros H0; discriminate H0 | auto]. }
      assert (H2 : Some (n', a') = Some ("a", @nil (string * json))) by (rewrite <- H; apply Hl; exact E).
      inversion H2; auto.
  Qed.

  Lemma cf_bomb_visit n k : forall i f st, i + k = n -> f > k -> cq st ->
    exists st', cf_item orig (S f) (btbl n) false st (TSpread (nm i) []) = ROk st' /\ cq st' /\
                c_cost st' >= c_cost st + 2 ^ k.
  Proof.
    induction k as [|k IH]; intros i f st Hi Hf Hq.
    - rewrite cf_spread. cbn [fix21 orig andb].
      rewrite btbl_lookup by lia. unfold bbody. assert (E : Nat.ltb i n = false) by (apply Nat.ltb_ge; lia). rewrite E.
      destruct f as [|f]; [lia|].
      set (st1 := c_bump {| c_sels := c_sels st; c_seen := nm i :: c_seen st; c_cost := c_cost st |}).
      destruct (cf_leaf_field f n st1 Hq) as [st2 [H1 [Q1 C1]]].
      exists st2. split.
      + eapply two_pass_1; [exact H1 | rewrite cf_field; reflexivity].
      + split; [auto|]. rewrite C1. unfold st1. simpl. lia.
    - rewrite cf_spread. cbn [fix21 orig andb].
      rewrite btbl_lookup by lia. unfold bbody. assert (E : Nat.ltb i n = true) by (apply Nat.ltb_lt; lia). rewrite E.
      destruct f as [|f]; [lia|].
      set (st1 := c_bump {| c_sels := c_sels st; c_seen := nm i :: c_seen st; c_cost := c_cost st |}).
      destruct (IH (S i) f st1 ltac:(lia) ltac:(lia) Hq) as [st2 [H2 [Q2 C2]]].
      destruct (IH (S i) f st2 ltac:(lia) ltac:(lia) Q2) as [st3 [H3 [Q3 C3]]].
      exists st3. split.
      + eapply two_pass_2; [rewrite cf_spread; reflexivity | rewrite cf_spread; reflexivity | exact H2 | exact H3].
      + split; [auto|]. unfold st1 in C2. simpl in C2. rewrite Nat.pow_succ_r'. lia.
  Qed.

  Lemma conflicts_bomb_exponential n :
    exists c, detect_conflicts orig (btbl n) broot = ROk c /\ c >= 2 ^ n.
  Proof.
    unfold detect_conflicts, conflicts_run, broot. rewrite btbl_length.
    set (st0 := c_bump {| c_sels := []; c_seen := []; c_cost := 0 |}).
    destruct (cf_bomb_visit n n 0 (S n) st0 ltac:(lia) ltac:(lia)) as [st' [H [Q C]]].
    { intros n' a' H. discriminate. }
    rewrite (two_pass_1 _ st0 (TSpread (nm 0) []) st0 st'); [|rewrite cf_spread; reflexivity | exact H].
    exists (c_cost st'). split; [reflexivity|]. unfold st0 in C. simpl in C. lia.
  Qed.

  (** ** PrepareQuery (original): at least 2^n calls, on any schema whose root object has a scalar field "a" *)

  Variable sch : schema.
  Variable fs : list (string * tref).
  Variable key : option string.
  Variable ft : tref.
  Hypothesis Hroot : lookup "Query" sch = Some (DObject fs key).
  Hypothesis Hfield : lookup "a" fs = Some ft.
  Hypothesis Hleaf : lookup (named_of ft) sch = Some DScalar.

  Lemma pq_obj_spread v f tbl st name ds b :
    pq_item v (S f) sch tbl "Query" b st (TSpread name ds) =
    if b then ROk st
    else match lookup name tbl with
         | None => RCrash CrDanglingFragment
         | Some (_, body) =>
             if fix21 v && pmem ("Query", name) (p_seen st) then ROk st
             else prep_list sch (pq_item v f sch tbl) "Query"
                            {| p_seen := ("Query", name) :: p_seen st; p_cost := p_cost st |} body
         end.
  Proof. cbn [pq_item]. rewrite Hroot. reflexivity. Qed.

  Lemma pq_obj_a v f tbl st b :
    pq_item v (S f) sch tbl "Query" b st (TField "a" "a" [] [] None) =
    if b then ROk (p_add 1 (p_add (wrappers ft) st)) else ROk st.
  Proof.
    cbn [pq_item]. rewrite Hroot. destruct b; [|reflexivity].
    change (String.eqb "a" "__typename") with false. cbn iota. rewrite Hfield.
    unfold prep_leaf. rewrite Hleaf. reflexivity.
  Qed.

  Lemma prep_list_query item st l : prep_list sch item "Query" st l = two_pass (item "Query") (p_add 1 st) l.
  Proof. unfold prep_list. rewrite Hroot. reflexivity. Qed.

  Lemma pq_bomb_visit n k : forall i f st, i + k = n -> f > k ->
    exists st', pq_item orig (S f) sch (btbl n) "Query" false st (TSpread (nm i) []) = ROk st' /\
                p_cost st' >= p_cost st + 2 ^ k.
  Proof.
    induction k as [|k IH]; intros i f st Hi Hf.
    - rewrite pq_obj_spread. rewrite btbl_lookup by lia. cbn [fix21 orig andb].
      rewrite prep_list_query.
      unfold bbody. assert (E : Nat.ltb i n = false) by (apply Nat.ltb_ge; lia). rewrite E.
      destruct f as [|f]; [lia|].
      eexists. split.
      + eapply two_pass_1; rewrite pq_obj_a; reflexivity.
      + simpl. lia.
    - rewrite pq_obj_spread. rewrite btbl_lookup by lia. cbn [fix21 orig andb].
      rewrite prep_list_query.
      unfold bbody. assert (E : Nat.ltb i n = true) by (apply Nat.ltb_lt; lia). rewrite E.
      destruct f as [|f]; [lia|].
      set (st1 := p_add 1 {| p_seen := ("Query", nm i) :: p_seen st; p_cost := p_cost st |}).
      destruct (IH (S i) f st1 ltac:(lia) ltac:(lia)) as [st2 [H2 C2]].
      destruct (IH (S i) f st2 ltac:(lia) ltac:(lia)) as [st3 [H3 C3]].
      exists st3. split.
      + eapply two_pass_2; [rewrite pq_obj_spread; reflexivity | rewrite pq_obj_spread; reflexivity | exact H2 | exact H3].
      + unfold st1 in C2. simpl in C2. rewrite Nat.pow_succ_r'. lia.
  Qed.

  Lemma prepare_bomb_exponential n :
    exists c, prepare orig sch "Query" (bquery n) = ROk c /\ c >= 2 ^ n.
  Proof.
    unfold prepare, prepare_run, bquery. cbn [q_sel q_frags]. rewrite btbl_length.
    rewrite prep_list_query.
    set (st0 := p_add 1 {| p_seen := []; p_cost := 0 |}).
    destruct (pq_bomb_visit n n 0 (S n) st0 ltac:(lia) ltac:(lia)) as [st' [H C]].
    unfold broot.
    rewrite (two_pass_1 _ st0 (TSpread (nm 0) []) st0 st'); [|rewrite pq_obj_spread; reflexivity | exact H].
    exists (p_cost st'). split; [reflexivity|]. lia.
  Qed.
End Bomb.

(** An injective naming for examples: F, aF, aaF, … *)
Fixpoint unary (n : nat) : string := match n with 0 => "F" | S k => String (Ascii.ascii_of_nat 97) (unary k) end.
Lemma unary_inj : forall i j, unary i = unary j -> i = j.
Proof.
  induction i as [|i IH]; destruct j as [|j]; simpl; intros H; auto; try discriminate.
  inversion H. f_equal; auto.
Qed.

(** * Repaired detectConflicts: the number of visits is at most the size of the query
    Every selection set is visited at most once: the inline ones once per visit of their enclosing set,
    the fragment bodies once because of the [seen] set. *)

Fixpoint isz_item (it : titem) : nat :=
  match it with
  | TInline _ _ l => S (fold_right (fun x n => isz_item x + n) 0 l)
  | _ => 0
  end.
Definition isz (l : list titem) : nat := fold_right (fun x n => isz_item x + n) 0 l.

Definition wt (tbl : ftable) (n : string) : nat :=
  match lookup n tbl with Some (_, body) => S (isz body) | None => 0 end.
Definition Wt (tbl : ftable) (l : list string) : nat := fold_right (fun n a => wt tbl n + a) 0 l.

Lemma Wt_app tbl a b : Wt tbl (a ++ b) = Wt tbl a + Wt tbl b.
Proof. induction a as [|x t IH]; simpl; auto. rewrite IH. lia. Qed.

(** [crel tbl m st st']: st' extends the seen set of st by fresh, known names and the visits made in
    between are [m] plus the weight of the new names. *)
Definition crel (tbl : ftable) (m : nat) (st st' : cstate) : Prop :=
  exists ext, c_seen st' = ext ++ c_seen st /\ c_cost st' = c_cost st + m + Wt tbl ext /\
              (NoDup (c_seen st) -> NoDup (c_seen st')) /\ incl ext (map fst tbl).

Lemma crel_refl tbl st : crel tbl 0 st st.
Proof. exists []. simpl. repeat split; auto; [lia | apply incl_nil_l]. Qed.

Lemma crel_trans tbl m1 m2 a b c : crel tbl m1 a b -> crel tbl m2 b c -> crel tbl (m1 + m2) a c.
Proof.
  intros [e1 [S1 [C1 [N1 I1]]]] [e2 [S2 [C2 [N2 I2]]]]. exists (e2 ++ e1).
  repeat split.
  - rewrite S2, S1, app_assoc. reflexivity.
  - rewrite C2, C1, Wt_app. lia.
  - auto.
  - apply incl_app; auto.
Qed.

Lemma fold_res_crel tbl (f : cstate -> titem -> res cstate) (g : titem -> nat) l :
  (forall x st st', In x l -> f st x = ROk st' -> crel tbl (g x) st st') ->
  forall st st', fold_res f st l = ROk st' -> crel tbl (fold_right (fun x n => g x + n) 0 l) st st'.
Proof.
  induction l as [|x t IH]; intros Hf st st' H; simpl in *.
  - inversion H; subst. apply crel_refl.
  - destruct (f st x) as [st1| |] eqn:E; try discriminate.
    eapply crel_trans; [eapply Hf; eauto | eapply IH; eauto].
Qed.

Lemma two_pass_crel tbl (item : bool -> cstate -> titem -> res cstate) l :
  (forall x st st', In x l -> item true st x = ROk st' -> crel tbl 0 st st') ->
  (forall x st st', In x l -> item false st x = ROk st' -> crel tbl (isz_item x) st st') ->
  forall st st', two_pass item st l = ROk st' -> crel tbl (isz l) st st'.
Proof.
  intros H1 H2 st st' H. unfold two_pass in H.
  destruct (fold_res (item true) st l) as [st1| |] eqn:E; try discriminate.
  pose proof (fold_res_crel tbl (item true) (fun _ => 0) l H1 st st1 E) as R1.
  pose proof (fold_res_crel tbl (item false) isz_item l H2 st1 st' H) as R2.
  assert (Z : fold_right (fun (_ : titem) n => 0 + n) 0 l = 0) by (clear; induction l; simpl; auto).
  cbv beta in R1. rewrite Z in R1. apply (crel_trans tbl 0 _ st st1 st' R1 R2).
Qed.

Lemma crel_bump tbl m st st' : crel tbl m (c_bump st) st' -> crel tbl (S m) st st'.
Proof.
  intros [e [S1 [C1 [N1 I1]]]]. exists e. simpl in *. repeat split; auto. lia.
Qed.

Lemma cf_item_crel fuel : forall tbl it b st st',
  cf_item repaired fuel tbl b st it = ROk st' -> crel tbl (if b then 0 else isz_item it) st st'.
Proof.
  induction fuel as [|f IHf]; intros tbl; [intros it b st st' H; discriminate|].
  induction it using titem_ind'; intros b st st'; [rewrite cf_field | rewrite cf_field | rewrite cf_spread | rewrite cf_inline].
  - destruct b; simpl; [|intros H0; inversion H0; subst; apply crel_refl].
    destruct (lookup a (c_sels st)) as [[n' a']|].
    + destruct (negb (String.eqb n' n)); [discriminate|]. destruct (negb (args_equal a' args)); [discriminate|].
      intros H0; inversion H0; subst; apply crel_refl.
    + intros H0; inversion H0; subst. exists []. simpl. repeat split; auto; [lia | apply incl_nil_l].
  - destruct b; simpl; [|intros H0; inversion H0; subst; apply crel_refl].
    destruct (lookup a (c_sels st)) as [[n' a']|].
    + destruct (negb (String.eqb n' n)); [discriminate|]. destruct (negb (args_equal a' args)); [discriminate|].
      intros H0; inversion H0; subst; apply crel_refl.
    + intros H0; inversion H0; subst. exists []. simpl. repeat split; auto; [lia | apply incl_nil_l].
  - destruct b; [intros H0; inversion H0; subst; apply crel_refl|].
    cbn [fix21 repaired andb]. destruct (mem n (c_seen st)) eqn:Em; [intros H0; inversion H0; subst; apply crel_refl|].
    destruct (lookup n tbl) as [[on body]|] eqn:El; [|discriminate].
    intros H0.
    set (st1 := {| c_sels := c_sels st; c_seen := n :: c_seen st; c_cost := c_cost st |}) in *.
    assert (R : crel tbl (S (isz body)) st1 st').
    { apply crel_bump. apply (two_pass_crel tbl (cf_item repaired f tbl) body); auto.
      - intros x s s' _ Hx. apply (IHf tbl x true s s' Hx).
      - intros x s s' _ Hx. apply (IHf tbl x false s s' Hx). }
    destruct R as [e [S1 [C1 [N1 I1]]]]. exists (e ++ [n]). simpl in *. repeat split.
    + rewrite S1, <- app_assoc. reflexivity.
    + rewrite C1, Wt_app. simpl. unfold wt. rewrite El. lia.
    + intros Hnd. apply N1. constructor; auto. intros Hc. apply mem_In in Hc. rewrite Hc in Em; discriminate.
    + apply incl_app; auto. intros x [Hx|[]]; subst. apply lookup_In in El.
      apply in_map_iff. exists (x, (on, body)); auto.
  - destruct b; [intros H0; inversion H0; subst; apply crel_refl|].
    intros H0. simpl. apply crel_bump.
    apply (two_pass_crel tbl (cf_item repaired (S f) tbl) l); auto.
    + intros x s s' Hin Hx. rewrite Forall_forall in H. apply (H x Hin true s s' Hx).
    + intros x s s' Hin Hx. rewrite Forall_forall in H. apply (H x Hin false s s' Hx).
Qed.

Lemma isz_le_size l : isz l <= items_size l.
Proof.
  assert (Hi : forall it, isz_item it <= titem_size it).
  { induction it using titem_ind'; simpl; try lia.
    apply le_n_S. induction H as [|x t Hx Ht IH]; simpl; lia. }
  induction l as [|x t IH]; simpl; auto. specialize (Hi x). unfold isz, items_size in *. simpl. lia.
Qed.

Lemma Wt_ext t1 t2 l : (forall n, In n l -> wt t1 n = wt t2 n) -> Wt t1 l = Wt t2 l.
Proof.
  induction l as [|x t IH]; simpl; intros H; [reflexivity|].
  rewrite (H x (or_introl eq_refl)). rewrite IH; [reflexivity|]. intros n Hn; apply H; right; exact Hn.
Qed.

Lemma Wt_bound tbl : forall l, NoDup l -> incl l (map fst tbl) -> Wt tbl l <= ftable_size tbl.
Proof.
  induction tbl as [|[k [on body]] t IH]; intros l Hnd Hi.
  - destruct l as [|x l']; simpl; auto. exfalso. apply (Hi x). left; auto.
  - assert (Hw : forall n, n <> k -> wt ((k, (on, body)) :: t) n = wt t n).
    { intros n Hn. unfold wt. simpl. destruct (String.eqb n k) eqn:E; auto. apply String.eqb_eq in E. congruence. }
    destruct (in_dec string_dec k l) as [Hin|Hnin].
    + destruct (in_split _ _ Hin) as [l1 [l2 Hl]]. subst l.
      apply NoDup_remove in Hnd. destruct Hnd as [Hnd Hk].
      assert (Hi' : incl (l1 ++ l2) (map fst t)).
      { intros x Hx. assert (Hx' : In x (l1 ++ k :: l2)) by (apply in_app_or in Hx; apply in_or_app; simpl; tauto).
        destruct (Hi x Hx') as [Hxk|Hxt]; auto. simpl in Hxk. subst. contradiction. }
      rewrite Wt_app. simpl. rewrite (Wt_ext _ t l1), (Wt_ext _ t l2).
      * specialize (IH (l1 ++ l2) Hnd Hi'). rewrite Wt_app in IH.
        unfold wt at 1. simpl. rewrite String.eqb_refl. pose proof (isz_le_size body). lia.
      * intros n Hn. apply Hw. intros Hc; subst. apply Hk. apply in_or_app; auto.
      * intros n Hn. apply Hw. intros Hc; subst. apply Hk. apply in_or_app; auto.
    + rewrite (Wt_ext _ t l).
      * assert (Hi' : incl l (map fst t)).
        { intros x Hx. destruct (Hi x Hx) as [Hxk|Hxt]; auto. simpl in Hxk. subst. contradiction. }
        specialize (IH l Hnd Hi'). simpl. lia.
      * intros n Hn. apply Hw. intros Hc; subst. contradiction.
Qed.

Lemma conflicts_repaired_linear tbl items c :
  detect_conflicts repaired tbl items = ROk c -> c <= 1 + items_size items + ftable_size tbl.
Proof.
  unfold detect_conflicts, conflicts_run.
  destruct (two_pass (cf_item repaired (S (List.length tbl)) tbl) (c_bump {| c_sels := []; c_seen := []; c_cost := 0 |}) items)
    as [st| |] eqn:E; try discriminate.
  intros H; inversion H; subst; clear H.
  assert (R : crel tbl (isz items) (c_bump {| c_sels := []; c_seen := []; c_cost := 0 |}) st).
  { apply (two_pass_crel tbl (cf_item repaired (S (List.length tbl)) tbl) items); auto.
    - intros x s s' _ Hx. apply (cf_item_crel _ tbl x true s s' Hx).
    - intros x s s' _ Hx. apply (cf_item_crel _ tbl x false s s' Hx). }
  destruct R as [e [S1 [C1 [N1 I1]]]]. simpl in *. rewrite app_nil_r in S1.
  assert (Hnd : NoDup e) by (rewrite <- S1; apply N1; constructor).
  pose proof (Wt_bound tbl e Hnd I1). pose proof (isz_le_size items). lia.
Qed.

Lemma convert_repaired_linear doc vars q c :
  convert repaired doc vars = ROk (q, c) -> c <= 1 + query_size q.
Proof.
  unfold convert.
  destruct (scan_defs {| a_frags := []; a_op := None |} doc) as [acc| |]; try discriminate.
  destruct (a_op acc) as [o0|]; try discriminate.
  destruct (op_parts o0) as [[[op name] vds] sel] eqn:Eo.
  destruct (apply_defaults vars vars vds) as [vars'| |]; try discriminate.
  unfold convert_tail. rewrite Eo.
  destruct (collect_frags _) as [tbl| |]; try discriminate.
  destruct (parse_selset _ _ _ sel) as [items| |]; try discriminate.
  destruct (detect_cycles tbl items); try discriminate.
  destruct (detect_conflicts repaired tbl items) as [cost| |] eqn:Ec; try discriminate.
  intros H; inversion H; subst; clear H. unfold query_size; simpl.
  apply conflicts_repaired_linear in Ec. lia.
Qed.

(** The bomb as a document (what the client sends), for the examples of Props/C15.v. *)
Definition bomb_doc (nm : nat -> string) (n : nat) : gdoc :=
  GOperation "query" None [] [] [GSpread (nm 0) []] ::
  map (fun i => GFragmentDef (nm i) "Query" []
                  (if Nat.ltb i n then [GSpread (nm (S i)) []; GSpread (nm (S i)) []] else [GField None "a" [] [] None]))
      (seq 0 (S n)).

(** * Flatten: each selection set is visited at most once per call
    [fl_item] marks a fragment's selection set before walking it and never walks a marked one again, so
    the number of visits is at most the size of the selection set flattened plus the size of the
    fragments - in particular not 2^depth for fragments that spread the next one several times. *)

Definition frel (tbl : ftable) (m : nat) (st st' : fstate) : Prop :=
  exists ext, f_seen st' = ext ++ f_seen st /\ f_cost st' <= f_cost st + m + Wt tbl ext /\
              (NoDup (f_seen st) -> NoDup (f_seen st')) /\ incl ext (map fst tbl).

Lemma frel_refl tbl st : frel tbl 0 st st.
Proof. exists []. simpl. repeat split; auto; [lia | apply incl_nil_l]. Qed.

Lemma frel_trans tbl m1 m2 a b c : frel tbl m1 a b -> frel tbl m2 b c -> frel tbl (m1 + m2) a c.
Proof.
  intros [e1 [S1 [C1 [N1 I1]]]] [e2 [S2 [C2 [N2 I2]]]]. exists (e2 ++ e1).
  repeat split.
  - rewrite S2, S1, app_assoc. reflexivity.
  - rewrite Wt_app. lia.
  - auto.
  - apply incl_app; auto.
Qed.

Lemma fold_res_frel tbl (f : fstate -> titem -> res fstate) (g : titem -> nat) l :
  (forall x st st', In x l -> f st x = ROk st' -> frel tbl (g x) st st') ->
  forall st st', fold_res f st l = ROk st' -> frel tbl (fold_right (fun x n => g x + n) 0 l) st st'.
Proof.
  induction l as [|x t IH]; intros Hf st st' H; simpl in *.
  - inversion H; subst. apply frel_refl.
  - destruct (f st x) as [st1| |] eqn:E; try discriminate.
    eapply frel_trans; [eapply Hf; eauto | eapply IH; eauto].
Qed.

Lemma two_pass_frel tbl (item : bool -> fstate -> titem -> res fstate) l :
  (forall x st st', In x l -> item true st x = ROk st' -> frel tbl 0 st st') ->
  (forall x st st', In x l -> item false st x = ROk st' -> frel tbl (isz_item x) st st') ->
  forall st st', two_pass item st l = ROk st' -> frel tbl (isz l) st st'.
Proof.
  intros H1 H2 st st' H. unfold two_pass in H.
  destruct (fold_res (item true) st l) as [st1| |] eqn:E; try discriminate.
  pose proof (fold_res_frel tbl (item true) (fun _ => 0) l H1 st st1 E) as R1.
  pose proof (fold_res_frel tbl (item false) isz_item l H2 st1 st' H) as R2.
  assert (Z : fold_right (fun (_ : titem) n => 0 + n) 0 l = 0) by (clear; induction l; simpl; auto).
  cbv beta in R1. rewrite Z in R1. apply (frel_trans tbl 0 _ st st1 st' R1 R2).
Qed.

Lemma frel_bump tbl m st st' : frel tbl m (f_bump st) st' -> frel tbl (S m) st st'.
Proof. intros [e [S1 [C1 [N1 I1]]]]. exists e. simpl in *. repeat split; auto. lia. Qed.

Lemma frel_same tbl st st' : f_seen st' = f_seen st -> f_cost st' = f_cost st -> frel tbl 0 st st'.
Proof. intros Hs Hc. exists []. simpl. rewrite Hs, Hc. repeat split; auto; [lia | apply incl_nil_l]. Qed.

Lemma fl_item_frel fuel : forall tbl it b st st',
  fl_item fuel tbl b st it = ROk st' -> frel tbl (if b then 0 else isz_item it) st st'.
Proof.
  induction fuel as [|f IHf]; intros tbl; [intros it b st st' H; discriminate|].
  induction it using titem_ind'; intros b st st' H0; simpl in H0.
  - destruct b; inversion H0; subst; [apply frel_same; reflexivity | apply frel_refl].
  - destruct b; inversion H0; subst; [apply frel_same; reflexivity | apply frel_refl].
  - destruct b; [inversion H0; subst; apply frel_refl|].
    destruct ds; [|inversion H0; subst; apply frel_same; reflexivity].
    destruct (mem n (f_seen st)) eqn:Em; [inversion H0; subst; apply frel_refl|].
    destruct (lookup n tbl) as [[on body]|] eqn:El; [|discriminate].
    set (st1 := {| f_groups := f_groups st; f_seen := n :: f_seen st; f_cost := f_cost st; f_unknown := f_unknown st |}) in *.
    assert (R : frel tbl (S (isz body)) st1 st').
    { apply frel_bump. apply (two_pass_frel tbl (fl_item f tbl) body); auto.
      - intros x s s' _ Hx. apply (IHf tbl x true s s' Hx).
      - intros x s s' _ Hx. apply (IHf tbl x false s s' Hx). }
    destruct R as [e [S1 [C1 [N1 I1]]]]. exists (e ++ [n]). simpl in *. repeat split.
    + rewrite S1, <- app_assoc. reflexivity.
    + rewrite Wt_app. simpl. unfold wt. rewrite El. lia.
    + intros Hnd. apply N1. constructor; auto. intros Hc. apply mem_In in Hc. rewrite Hc in Em; discriminate.
    + apply incl_app; auto. intros x [Hx|[]]; subst. apply lookup_In in El.
      apply in_map_iff. exists (x, (on, body)); auto.
  - destruct b; [inversion H0; subst; apply frel_refl|].
    destruct (should_include ds) as [[|]| |]; try discriminate.
    + apply frel_bump.
      apply (two_pass_frel tbl (fl_item (S f) tbl) l); auto.
      * intros x s s' Hin Hx. rewrite Forall_forall in H. apply (H x Hin true s s' Hx).
      * intros x s s' Hin Hx. rewrite Forall_forall in H. apply (H x Hin false s s' Hx).
    + inversion H0; subst. exists []. simpl. repeat split; auto; [lia | apply incl_nil_l].
Qed.

Lemma flatten_linear v tbl items st :
  flatten v tbl items = ROk st -> f_cost st <= 1 + items_size items + ftable_size tbl.
Proof.
  unfold flatten.
  destruct (two_pass (fl_item (S (List.length tbl)) tbl)
                     (f_bump {| f_groups := []; f_seen := []; f_cost := 0; f_unknown := false |}) items) as [st1| |] eqn:E;
    try discriminate.
  assert (R : frel tbl (isz items) (f_bump {| f_groups := []; f_seen := []; f_cost := 0; f_unknown := false |}) st1).
  { apply (two_pass_frel tbl (fl_item (S (List.length tbl)) tbl) items); auto.
    - intros x s s' _ Hx. apply (fl_item_frel _ tbl x true s s' Hx).
    - intros x s s' _ Hx. apply (fl_item_frel _ tbl x false s s' Hx). }
  destruct R as [e [S1 [C1 [N1 I1]]]]. simpl in *. rewrite app_nil_r in S1.
  assert (Hnd : NoDup e) by (rewrite <- S1; apply N1; constructor).
  pose proof (Wt_bound tbl e Hnd I1). pose proof (isz_le_size items).
  intros Hr. destruct (forallb (fun g => group_ok (snd g)) (f_groups st1)); [|destruct (fix26 v); discriminate].
  inversion Hr; subst. lia.
Qed.
