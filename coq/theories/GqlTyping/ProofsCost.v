(** Cost of detectConflicts and PrepareQuery: exponential on the fragment-bomb family in the original
    code (F21), linear in the repaired detectConflicts. *)
From Coq Require Import List ZArith String Bool Arith Lia ZifyBool ZifyNat.
From Thunder Require Import Lib.Json GqlTyping.Types GqlTyping.Parse GqlTyping.ProofsParse.
Import ListNotations.
Open Scope string_scope.
Open Scope list_scope.

(** Size of thunder's selection structure: one per field, spread, inline fragment and fragment. *)
Fixpoint titem_size (it : titem) : nat :=
  match it with
  | TField _ _ _ _ None => 1
  | TField _ _ _ _ (Some l) => S (fold_right (fun x n => titem_size x + n) 0 l)
  | TSpread _ _ => 1
  | TInline _ _ l => S (fold_right (fun x n => titem_size x + n) 0 l)
  end.
Definition items_size (l : list titem) : nat := fold_right (fun x n => titem_size x + n) 0 l.
Definition ftable_size (tbl : ftable) : nat := fold_right (fun e n => S (items_size (snd (snd e))) + n) 0 tbl.
Definition query_size (q : query) : nat := items_size (q_sel q) + ftable_size (q_frags q).

Lemma two_pass_1 {S} (item : bool -> S -> titem -> res S) st x s1 s2 :
  item true st x = ROk s1 -> item false s1 x = ROk s2 -> two_pass item st [x] = ROk s2.
Proof. intros H1 H2. unfold two_pass. cbn [fold_res]. rewrite H1. cbn [fold_res]. rewrite H2. reflexivity. Qed.

Lemma two_pass_2 {S} (item : bool -> S -> titem -> res S) st x y s1 s2 s3 s4 :
  item true st x = ROk s1 -> item true s1 y = ROk s2 -> item false s2 x = ROk s3 -> item false s3 y = ROk s4 ->
  two_pass item st [x; y] = ROk s4.
Proof.
  intros H1 H2 H3 H4. unfold two_pass. cbn [fold_res]. rewrite H1, H2. cbn [fold_res]. rewrite H3, H4. reflexivity.
Qed.

Section Bomb.
  (** Any injective naming of the fragments (the harness uses F0, F1, …). *)
  Variable nm : nat -> string.
  Hypothesis nm_inj : forall i j, nm i = nm j -> i = j.

  (** { ...F0 }  fragment Fi on Query { ...F(i+1) ...F(i+1) }  (i < n)   fragment Fn on Query { a } *)
  Definition bbody (n i : nat) : list titem :=
    if Nat.ltb i n then [TSpread (nm (S i)) []; TSpread (nm (S i)) []] else [TField "a" "a" [] [] None].
  Definition btbl (n : nat) : ftable := map (fun i => (nm i, ("Query", bbody n i))) (seq 0 (S n)).
  Definition broot : list titem := [TSpread (nm 0) []].
  Definition bquery (n : nat) : query := {| q_name := ""; q_kind := "query"; q_sel := broot; q_frags := btbl n |}.

  Lemma lookup_map_nm {A} (g : nat -> A) l i :
    In i l -> lookup (nm i) (map (fun j => (nm j, g j)) l) = Some (g i).
  Proof.
    induction l as [|j t IH]; simpl; intros Hin; [contradiction|].
    destruct (String.eqb (nm i) (nm j)) eqn:E.
    - apply String.eqb_eq in E. apply nm_inj in E. subst; reflexivity.
    - destruct Hin as [Hin|Hin]; [subst; rewrite String.eqb_refl in E; discriminate | auto].
  Qed.

  Lemma btbl_lookup n i : i <= n -> lookup (nm i) (btbl n) = Some ("Query", bbody n i).
  Proof.
    intros H. unfold btbl. apply (lookup_map_nm (fun j => ("Query", bbody n j))).
    apply in_seq. lia.
  Qed.

  Lemma btbl_length n : List.length (btbl n) = S n.
  Proof. unfold btbl. rewrite map_length, seq_length. reflexivity. Qed.

  (** Linear size. *)
  Lemma ftable_size_btbl_aux n l :
    (forall i, In i l -> i < n) ->
    ftable_size (map (fun i => (nm i, ("Query", bbody n i))) l) = 3 * List.length l.
  Proof.
    induction l as [|i t IH]; simpl; intros H; auto.
    rewrite IH by (intros; apply H; right; auto).
    unfold bbody. assert (Hi : Nat.ltb i n = true) by (apply Nat.ltb_lt; apply H; left; auto).
    rewrite Hi. simpl. lia.
  Qed.

  Lemma ftable_size_app a b : ftable_size (a ++ b) = ftable_size a + ftable_size b.
  Proof. induction a as [|e t IH]; simpl; auto. rewrite IH. lia. Qed.

  Lemma ftable_size_btbl n : ftable_size (btbl n) = 3 * n + 2.
  Proof.
    unfold btbl. rewrite seq_S. rewrite map_app. rewrite ftable_size_app.
    rewrite ftable_size_btbl_aux by (intros i Hi; apply in_seq in Hi; lia).
    rewrite seq_length. simpl. unfold bbody. rewrite Nat.ltb_irrefl. simpl. lia.
  Qed.

  Lemma query_size_bomb n : query_size (bquery n) = 3 * n + 3.
  Proof. unfold query_size, bquery. cbn [q_sel q_frags]. rewrite ftable_size_btbl. simpl. lia. Qed.

  (** ** detectConflicts (original): at least 2^n visits *)

  Definition cq (st : cstate) : Prop :=
    forall name' args', lookup "a" (c_sels st) = Some (name', args') -> name' = "a" /\ args' = [].

  Lemma cq_bump st : cq st -> cq (c_bump st). Proof. auto. Qed.

  Lemma cf_leaf_field f n st : cq st ->
    exists st', cf_item orig (S f) (btbl n) true st (TField "a" "a" [] [] None) = ROk st' /\ cq st' /\ c_cost st' = c_cost st.
  Proof.
    intros Hq. rewrite cf_field. destruct (lookup "a" (c_sels st)) as [[n' a']|] eqn:E.
    - destruct (Hq n' a' E); subst. simpl. exists st; auto.
    - eexists; split; [reflexivity|]. split; [|reflexivity].
      intros n' a' H. cbn [c_sels] in H.
      assert (Hl : forall (l : list (string * (string * jargs))), lookup "a" l = None ->
                    lookup "a" (l ++ [("a", ("a", []))]) = Some ("a", [])).
      { induction l as [|[k x] t IH]; cbn [lookup app]; auto. destruct (String.eqb "a" k); [intros H0; discriminate H0 | auto]. }
      assert (H2 : Some (n', a') = Some ("a", @nil (string * json))) by (rewrite <- H; apply Hl; exact E).
      inversion H2; auto.
  Qed.

  Lemma cf_bomb_visit n k : forall i f st, i + k = n -> f > k -> cq st ->
    exists st', cf_item orig (S f) (btbl n) false st (TSpread (nm i) []) = ROk st' /\ cq st' /\
                c_cost st' >= c_cost st + 2 ^ k.
  Proof.
    induction k as [|k IH]; intros i f st Hi Hf Hq.
    - rewrite cf_spread. cbn [fix21 orig andb].
      rewrite btbl_lookup by lia. unfold bbody. assert (E : Nat.ltb i n = false) by (apply Nat.ltb_ge; lia). rewrite E.
      destruct f as [|f]; [lia|].
      set (st1 := c_bump {| c_sels := c_sels st; c_seen := nm i :: c_seen st; c_cost := c_cost st |}).
      destruct (cf_leaf_field f n st1 Hq) as [st2 [H1 [Q1 C1]]].
      exists st2. split.
      + eapply two_pass_1; [exact H1 | rewrite cf_field; reflexivity].
      + split; [auto|]. rewrite C1. unfold st1. simpl. lia.
    - rewrite cf_spread. cbn [fix21 orig andb].
      rewrite btbl_lookup by lia. unfold bbody. assert (E : Nat.ltb i n = true) by (apply Nat.ltb_lt; lia). rewrite E.
      destruct f as [|f]; [lia|].
      set (st1 := c_bump {| c_sels := c_sels st; c_seen := nm i :: c_seen st; c_cost := c_cost st |}).
      destruct (IH (S i) f st1 ltac:(lia) ltac:(lia) Hq) as [st2 [H2 [Q2 C2]]].
      destruct (IH (S i) f st2 ltac:(lia) ltac:(lia) Q2) as [st3 [H3 [Q3 C3]]].
      exists st3. split.
      + eapply two_pass_2; [rewrite cf_spread; reflexivity | rewrite cf_spread; reflexivity | exact H2 | exact H3].
      + split; [auto|]. unfold st1 in C2. simpl in C2. rewrite Nat.pow_succ_r'. lia.
  Qed.

  Lemma conflicts_bomb_exponential n :
    exists c, detect_conflicts orig (btbl n) broot = ROk c /\ c >= 2 ^ n.
  Proof.
    unfold detect_conflicts, conflicts_run, broot. rewrite btbl_length.
    set (st0 := c_bump {| c_sels := []; c_seen := []; c_cost := 0 |}).
    destruct (cf_bomb_visit n n 0 (S n) st0 ltac:(lia) ltac:(lia)) as [st' [H [Q C]]].
    { intros n' a' H. discriminate. }
    rewrite (two_pass_1 _ st0 (TSpread (nm 0) []) st0 st'); [|rewrite cf_spread; reflexivity | exact H].
    exists (c_cost st'). split; [reflexivity|]. unfold st0 in C. simpl in C. lia.
  Qed.

  (** ** PrepareQuery (original): at least 2^n calls, on any schema whose root object has a scalar field "a" *)

  Variable sch : schema.
  Variable fs : list (string * tref).
  Variable key : option string.
  Variable ft : tref.
  Hypothesis Hroot : lookup "Query" sch = Some (DObject fs key).
  Hypothesis Hfield : lookup "a" fs = Some ft.
  Hypothesis Hleaf : lookup (named_of ft) sch = Some DScalar.

  Lemma pq_obj_spread v f tbl st name ds b :
    pq_item v (S f) sch tbl "Query" b st (TSpread name ds) =
    if b then ROk st
    else match lookup name tbl with
         | None => RCrash CrDanglingFragment
         | Some (_, body) =>
             if fix21 v && pmem ("Query", name) (p_seen st) then ROk st
             else prep_list sch (pq_item v f sch tbl) "Query"
                            {| p_seen := ("Query", name) :: p_seen st; p_cost := p_cost st |} body
         end.
  Proof. cbn [pq_item]. rewrite Hroot. reflexivity. Qed.

  Lemma pq_obj_a v f tbl st b :
    pq_item v (S f) sch tbl "Query" b st (TField "a" "a" [] [] None) =
    if b then ROk (p_add 1 (p_add (wrappers ft) st)) else ROk st.
  Proof.
    cbn [pq_item]. rewrite Hroot. destruct b; [|reflexivity].
    change (String.eqb "a" "__typename") with false. cbn iota. rewrite Hfield.
    unfold prep_leaf. rewrite Hleaf. reflexivity.
  Qed.

  Lemma prep_list_query item st l : prep_list sch item "Query" st l = two_pass (item "Query") (p_add 1 st) l.
  Proof. unfold prep_list. rewrite Hroot. reflexivity. Qed.

  Lemma pq_bomb_visit n k : forall i f st, i + k = n -> f > k ->
    exists st', pq_item orig (S f) sch (btbl n) "Query" false st (TSpread (nm i) []) = ROk st' /\
                p_cost st' >= p_cost st + 2 ^ k.
  Proof.
    induction k as [|k IH]; intros i f st Hi Hf.
    - rewrite pq_obj_spread. rewrite btbl_lookup by lia. cbn [fix21 orig andb].
      rewrite prep_list_query.
      unfold bbody. assert (E : Nat.ltb i n = false) by (apply Nat.ltb_ge; lia). rewrite E.
      destruct f as [|f]; [lia|].
      eexists. split.
      + eapply two_pass_1; rewrite pq_obj_a; reflexivity.
      + simpl. lia.
    - rewrite pq_obj_spread. rewrite btbl_lookup by lia. cbn [fix21 orig andb].
      rewrite prep_list_query.
      unfold bbody. assert (E : Nat.ltb i n = true) by (apply Nat.ltb_lt; lia). rewrite E.
      destruct f as [|f]; [lia|].
      set (st1 := p_add 1 {| p_seen := ("Query", nm i) :: p_seen st; p_cost := p_cost st |}).
      destruct (IH (S i) f st1 ltac:(lia) ltac:(lia)) as [st2 [H2 C2]].
      destruct (IH (S i) f st2 ltac:(lia) ltac:(lia)) as [st3 [H3 C3]].
      exists st3. split.
      + eapply two_pass_2; [rewrite pq_obj_spread; reflexivity | rewrite pq_obj_spread; reflexivity | exact H2 | exact H3].
      + unfold st1 in C2. simpl in C2. rewrite Nat.pow_succ_r'. lia.
  Qed.

  Lemma prepare_bomb_exponential n :
    exists c, prepare orig sch "Query" (bquery n) = ROk c /\ c >= 2 ^ n.
  Proof.
    unfold prepare, prepare_run, bquery. cbn [q_sel q_frags]. rewrite btbl_length.
    rewrite prep_list_query.
    set (st0 := p_add 1 {| p_seen := []; p_cost := 0 |}).
    destruct (pq_bomb_visit n n 0 (S n) st0 ltac:(lia) ltac:(lia)) as [st' [H C]].
    unfold broot.
    rewrite (two_pass_1 _ st0 (TSpread (nm 0) []) st0 st'); [|rewrite pq_obj_spread; reflexivity | exact H].
    exists (p_cost st'). split; [reflexivity|]. lia.
  Qed.
End Bomb.

(** An injective naming for examples: F, aF, aaF, … *)
Fixpoint unary (n : nat) : string := match n with 0 => "F" | S k => String (Ascii.ascii_of_nat 97) (unary k) end.
Lemma unary_inj : forall i j, unary i = unary j -> i = j.
Proof.
  induction i as [|i IH]; destruct j as [|j]; simpl; intros H; auto; try discriminate.
  inversion H. f_equal; auto.
Qed.
