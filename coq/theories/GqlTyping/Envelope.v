(** C15: the envelope layer of graphql/server.go (ServeJSONSocket's read loop, conn.handle, the decoding
    of inEnvelope / subscribeMessage / mutateMessage / the url string) and of graphql/http.go (httpPostBody),
    as total functions over arbitrary JSON.

    Input: the envelope as an ordered JSON value (object members in document order, duplicates kept: the
    harness reads the text with encoding/json's token stream), or nothing when the text is not JSON.
    encoding/json's struct decoding is mirrored for what the code relies on: members are matched to the
    struct's fields by exact name, else ignoring ASCII case; `null` leaves a string untouched and clears a
    map; a later duplicate overrides; a member of the wrong JSON kind makes Unmarshal return an error
    (after the other members were decoded); unknown members are skipped; json.RawMessage keeps any value,
    `null` included.  (Non-ASCII case folding of member names - U+017F, U+212A - is outside the model:
    the generator uses ASCII member names.)

    What a subscribe / mutate message leads to once it is decoded depends on graphql.Parse and
    PrepareQuery: their joint verdict on (query, variables) is an input ([valid]: against the Query root,
    which a subscribe uses, and against the Mutation root, which a mutate uses) computed by the harness
    with the same two functions; C15's other theorems are about them. *)
From Coq Require Import List ZArith String Ascii Bool Arith.
From Thunder Require Import Lib.Json GqlTyping.Types.
Import ListNotations.
Open Scope string_scope.
Open Scope list_scope.

(** ** encoding/json: matching a member name to a struct field *)
Definition lower_ascii (c : ascii) : ascii :=
  let n := nat_of_ascii c in
  if (Nat.leb 65 n) && (Nat.leb n 90) then ascii_of_nat (n + 32) else c.

Fixpoint fold_str (s : string) : string :=
  match s with
  | EmptyString => EmptyString
  | String c r => String (lower_ascii c) (fold_str r)
  end.

Definition field_of (fields : list string) (k : string) : option string :=
  if mem k fields then Some k
  else find (fun f => String.eqb (fold_str f) (fold_str k)) fields.

(** ** inEnvelope *)
Record envl := mkenv { v_id : string; v_type : string; v_msg : option json }.

Definition env_fields : list string := ["id"; "type"; "message"; "extensions"].

(** One member; [bad]: some member had the wrong kind (Unmarshal will return an UnmarshalTypeError). *)
Definition env_member (e : envl) (bad : bool) (k : string) (v : json) : envl * bool :=
  match field_of env_fields k with
  | None => (e, bad)
  | Some f =>
      if String.eqb f "id" then
        match v with
        | JStr s => (mkenv s (v_type e) (v_msg e), bad)
        | JNull => (e, bad)
        | _ => (e, true)
        end
      else if String.eqb f "type" then
        match v with
        | JStr s => (mkenv (v_id e) s (v_msg e), bad)
        | JNull => (e, bad)
        | _ => (e, true)
        end
      else if String.eqb f "message" then (mkenv (v_id e) (v_type e) (Some v), bad)
      else (* extensions: map[string]interface{} *)
        match v with
        | JObj _ => (e, bad)
        | JNull => (e, bad)
        | _ => (e, true)
        end
  end.

Fixpoint env_members (e : envl) (bad : bool) (kvs : list (string * json)) : envl * bool :=
  match kvs with
  | [] => (e, bad)
  | (k, v) :: r => let '(e', bad') := env_member e bad k v in env_members e' bad' r
  end.

Definition env_zero : envl := mkenv "" "" None.

(** socket.ReadJSON(&envelope): None = it returns an error. *)
Definition decode_envelope (j : json) : option envl :=
  match j with
  | JNull => Some env_zero
  | JObj kvs => let '(e, bad) := env_members env_zero false kvs in if bad then None else Some e
  | _ => None
  end.

(** ** subscribeMessage / mutateMessage / httpPostBody: { query string; variables map } *)
Definition msg_fields : list string := ["query"; "variables"].

Definition msg_member_ok (k : string) (v : json) : bool :=
  match field_of msg_fields k with
  | None => true
  | Some f =>
      if String.eqb f "query" then match v with JStr _ => true | JNull => true | _ => false end
      else match v with JObj _ => true | JNull => true | _ => false end
  end.

(** json.Unmarshal(in.Message, &subscribe) succeeds.  An absent message is the empty input. *)
Definition decode_message (raw : option json) : bool :=
  match raw with
  | None => false
  | Some JNull => true
  | Some (JObj kvs) => forallb (fun kv => msg_member_ok (fst kv) (snd kv)) kvs
  | Some _ => false
  end.

(** json.Unmarshal(e.Message, &url) for the "url" message. *)
Definition decode_url (raw : option json) : bool :=
  match raw with
  | Some (JStr _) => true
  | Some JNull => true
  | _ => false
  end.

(** ** conn.handle and the read loop: what one envelope does *)
Inductive reaction : Type :=
| REnds            (* ReadJSON failed: the loop returns, every subscription is closed *)
| RSyncError       (* handle returned an error: one "error" envelope with the envelope's id, written by the read loop *)
| REcho            (* one "echo" envelope *)
| RNoSyncReply.    (* nothing is written by the read loop: unsubscribe, url, or a subscription / mutation
                      that was accepted and now runs on its own (its update / result / error comes from there) *)

Definition remove_id (id : string) (l : list string) : list string := filter (fun x => negb (String.eqb x id)) l.

(** [subs]: the ids of the connection's running subscriptions (a mutation is in the table only while it
    runs, and a failed subscription leaves it on its own: the harness never reuses such ids). *)
Definition env_step (maxsubs : nat) (subs : list string) (input : option json) (valid : bool * bool) : reaction * list string :=
  match input with
  | None => (REnds, [])
  | Some j =>
      match decode_envelope j with
      | None => (REnds, [])
      | Some e =>
          let t := v_type e in
          if String.eqb t "subscribe" then
            if negb (decode_message (v_msg e)) then (RSyncError, subs)
            else if mem (v_id e) subs then (RSyncError, subs)
            else if Nat.ltb maxsubs (List.length subs + 1) then (RSyncError, subs)
            else if fst valid then (RNoSyncReply, v_id e :: subs) else (RSyncError, subs)
          else if String.eqb t "unsubscribe" then (RNoSyncReply, remove_id (v_id e) subs)
          else if String.eqb t "mutate" then
            if negb (decode_message (v_msg e)) then (RSyncError, subs)
            else if mem (v_id e) subs then (RSyncError, subs)
            else if snd valid then (RNoSyncReply, subs) else (RSyncError, subs)
          else if String.eqb t "echo" then (REcho, subs)
          else if String.eqb t "url" then ((if decode_url (v_msg e) then RNoSyncReply else RSyncError), subs)
          else (RSyncError, subs)
      end
  end.

(** A whole script. *)
Definition reply_id (input : option json) : string :=
  match input with
  | Some j => match decode_envelope j with Some e => v_id e | None => "" end
  | None => ""
  end.

Fixpoint env_script (maxsubs : nat) (subs : list string) (l : list (option json * (bool * bool))) : list reaction :=
  match l with
  | [] => []
  | (i, valid) :: r =>
      let '(re, subs') := env_step maxsubs subs i valid in
      re :: match re with REnds => [] | _ => env_script maxsubs subs' r end
  end.

(** ** http.go: json.NewDecoder(r.Body).Decode(&params), then Parse / PrepareQuery *)
Inductive hreaction := HErrors | HRuns.

Definition http_body_ok (body : option json) : bool :=
  match body with
  | None => false
  | Some JNull => true
  | Some (JObj kvs) => forallb (fun kv => msg_member_ok (fst kv) (snd kv)) kvs
  | Some _ => false
  end.

Definition http_step (body : option json) (valid : bool) : hreaction :=
  if http_body_ok body && valid then HRuns else HErrors.

(** Well-typed envelope: what keeps the connection. *)
Definition member_kind_ok (k : string) (v : json) : bool :=
  match field_of env_fields k with
  | None => true
  | Some f =>
      if String.eqb f "id" || String.eqb f "type" then match v with JStr _ => true | JNull => true | _ => false end
      else if String.eqb f "message" then true
      else match v with JObj _ => true | JNull => true | _ => false end
  end.

Definition envelope_shape_ok (input : option json) : bool :=
  match input with
  | Some JNull => true
  | Some (JObj kvs) => forallb (fun kv => member_kind_ok (fst kv) (snd kv)) kvs
  | _ => false
  end.
