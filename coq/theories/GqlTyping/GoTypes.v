(** C14: schemabuilder's mapping from Go types to graphql types (build.go getType 44-101,
    getTextMarshalerType; function.go getReturnType 305-330; batch.go consumeReturnValue 258-297) and the
    non-null enforcement on resolver results (function.go extractResultAndErr 386-409, batch.go
    extractResultsAndErr 362-390), as executable definitions.

    A Go type is its shape (pointer, slice, struct, anything else) together with the three facts getType
    asks reflect about, in the order it asks: is it a registered enum (getEnum), does getScalar name it
    (identical to a key of the `scalars` table, or of the same basic kind), does it implement
    encoding.TextMarshaler.  The harness derives these facts from the reflect.Type with its own copy of
    the rules and exports every generated field's Go type; [field_type] must give the type the builder
    gave the field (component 12 of the correspondence). *)
From Coq Require Import List String Bool Arith.
From Thunder Require Import Lib.Json GqlTyping.Types.
Import ListNotations.
Open Scope string_scope.

Record gfacts := mkf { g_enum : option string; g_scalar : option string; g_text : bool }.

Inductive gotype : Type :=
| GPtr (f : gfacts) (e : gotype)
| GSlice (f : gfacts) (e : gotype)
| GStruct (f : gfacts) (n : option string)     (* n: the object / union registered for the struct *)
| GOther (f : gfacts).                         (* basic kinds, maps, funcs, interfaces, ... *)

Definition facts (g : gotype) : gfacts :=
  match g with GPtr f _ => f | GSlice f _ => f | GStruct f _ => f | GOther f => f end.

Definition is_nonnull (t : tref) : bool := match t with TNonNull _ => true | _ => false end.
Definition nonnull (t : tref) : tref := if is_nonnull t then t else TNonNull t.

(** build.go getType. *)
Fixpoint get_type (force : bool) (g : gotype) : option tref :=
  match g_enum (facts g) with
  | Some n => Some (TNonNull (TNamed n))
  | None =>
      match g_scalar (facts g) with
      | Some n => Some (TNonNull (TNamed n))
      | None =>
          match (match g with GPtr _ e => g_scalar (facts e) | _ => None end) with
          | Some n => Some (TNamed n)
          | None =>
              if g_text (facts g)
              then Some (match g with GPtr _ _ => TNamed "string" | _ => TNonNull (TNamed "string") end)
              else match g with
                   | GStruct _ (Some n) => Some (TNonNull (TNamed n))
                   | GPtr _ (GStruct _ (Some n)) => Some (TNamed n)
                   | GSlice _ e =>
                       match get_type force e with
                       | Some et => Some (TNonNull (TList (if force then nonnull et else et)))
                       | None => None
                       end
                   | _ => None
                   end
          end
      end
  end.

(** How a field comes to be: a struct field (output.go buildField: getType(field.Type, true)), a
    FieldFunc or a BatchFieldFunc with its options. *)
Inductive fkind := KStructField | KFunc (nonnullable list_entry_nonnull : bool) | KBatch (nonnullable list_entry_nonnull : bool).

Definition field_type (k : fkind) (g : gotype) : option tref :=
  match k with
  | KStructField => get_type true g
  | KFunc nn le =>
      match get_type le g with
      | Some t => Some (if nn then nonnull t else t)
      | None => None
      end
  | KBatch nn le =>
      match get_type le g with
      | Some t =>
          (* batch results are nullable unless they are lists (a missing entry renders as an empty list) *)
          let t' := match t with TNonNull (TList e) => t | TNonNull u => u | _ => t end in
          Some (if nn then nonnull t' else t')
      | None => None
      end
  end.

(** ** Non-null enforcement on resolver results.  [nil]: the result is a nil pointer (function.go) or,
    for a batch resolver, a nil pointer or an entry left out of the result map (batch.go). *)
Inductive outcome := Delivered | RequestFails.

Definition enforce (k : fkind) (t : tref) (nil : bool) : outcome :=
  match k with
  | KStructField => Delivered
  | KFunc _ _ => if is_nonnull t && nil then RequestFails else Delivered
  | KBatch nn _ => if nn && nil then RequestFails else Delivered
  end.

Definition is_ptr (g : gotype) : bool := match g with GPtr _ _ => true | _ => false end.

(** A Go type can hold nil and render it as null: a pointer that is itself neither an enum nor a scalar. *)
Definition can_be_nil (g : gotype) : bool :=
  is_ptr g && match g_enum (facts g), g_scalar (facts g) with None, None => true | _, _ => false end.

Fixpoint entries_nonnull (t : tref) : bool :=
  match t with
  | TNamed _ => true
  | TNonNull t' => entries_nonnull t'
  | TList t' => is_nonnull t' && entries_nonnull t'
  end.

(** Examples used by Props/C14.v. *)
Definition f_none : gfacts := mkf None None false.
Definition g_int64 : gotype := GOther (mkf None (Some "int64") false).
Definition g_shade : gotype := GOther (mkf (Some "Shade") (Some "int32") false).
Definition g_time : gotype := GStruct (mkf None (Some "Time") true) None.
Definition g_bytes : gotype := GSlice (mkf None (Some "bytes") false) (GOther (mkf None (Some "uint8") false)).
Definition g_user : gotype := GStruct f_none (Some "User").
