(** C15: the cost of validation as an explicit polynomial in the size of the INPUT (the document, as
    graphql-go's parser returned it) and the size of the schema.
    Parse keeps the size: the converted query has exactly as many nodes as the document's operation and
    fragment definitions.  Hence, after the repairs, detectConflicts makes at most 1 + |doc| visits and
    PrepareQuery at most (1 + |schema|)^2 * (1 + |doc|) calls. *)
From Coq Require Import List ZArith String Bool Arith Lia.
From Thunder Require Import Lib.Json GqlTyping.Types GqlTyping.Parse GqlTyping.ProofsParse GqlTyping.ProofsExec
     GqlTyping.ProofsCost GqlTyping.ProofsValid GqlTyping.ProofsCostPrepare.
Import ListNotations.
Open Scope string_scope.
Open Scope list_scope.

(** * Parse keeps the size *)
Definition size_kept (s : gsel) (r : res titem) : Prop := forall i, r = ROk i -> titem_size i = gsel_size s.

Lemma go_size_kept v fnames vars (l : list gsel) :
  Forall (fun s => size_kept s (parse_sel v fnames vars s)) l ->
  forall items,
    (fix go (l : list gsel) : res (list titem) :=
       match l with
       | [] => ROk []
       | x :: t => match parse_sel v fnames vars x with
                   | ROk i => match go t with ROk r => ROk (i :: r) | RErr e => RErr e | RCrash c => RCrash c end
                   | RErr e => RErr e
                   | RCrash c => RCrash c
                   end
       end) l = ROk items ->
    items_size items = (fix go (l : list gsel) := match l with [] => 0 | x :: t => gsel_size x + go t end) l.
Proof.
  induction 1 as [|x t Hx Ht IH]; intros items H.
  - inversion H; reflexivity.
  - destruct (parse_sel v fnames vars x) as [i| |] eqn:Ei; try discriminate.
    match type of H with (match ?G with _ => _ end) = _ => destruct G as [r| |] eqn:Eg; try discriminate end.
    inversion H; subst. unfold items_size in *. cbn [fold_right]. rewrite (Hx i eq_refl), (IH r eq_refl). reflexivity.
Qed.

Lemma parse_sel_size v fnames vars s : size_kept s (parse_sel v fnames vars s).
Proof.
  induction s using gsel_ind'; intros i Hi; simpl in Hi.
  - destruct (parse_directives vars ds); try discriminate. destruct (args_to_json vars args); try discriminate.
    inversion Hi; reflexivity.
  - destruct (parse_directives vars ds); try discriminate. destruct (args_to_json vars args); try discriminate.
    match type of Hi with (match ?G with _ => _ end) = _ => destruct G as [items| |] eqn:Eg; try discriminate end.
    inversion Hi; subst. cbn [titem_size gsel_size]. f_equal.
    exact (go_size_kept v fnames vars l H items Eg).
  - destruct (parse_directives vars ds); try discriminate. destruct (mem n fnames); try discriminate.
    inversion Hi; reflexivity.
  - destruct tc as [on|]; [|destruct (fix22 v); discriminate].
    destruct (parse_directives vars ds); try discriminate.
    match type of Hi with (match ?G with _ => _ end) = _ => destruct G as [items| |] eqn:Eg; try discriminate end.
    inversion Hi; subst. cbn [titem_size gsel_size]. f_equal.
    exact (go_size_kept v fnames vars l H items Eg).
Qed.

Lemma parse_selset_size v fnames vars l items :
  parse_selset v fnames vars l = ROk items -> items_size items = gsels_size l.
Proof.
  revert items. induction l as [|x t IH]; intros items H; simpl in H.
  - inversion H; reflexivity.
  - destruct (parse_sel v fnames vars x) as [i| |] eqn:Ei; try discriminate.
    destruct (parse_selset v fnames vars t) as [r| |]; try discriminate.
    inversion H; subst. unfold items_size, gsels_size in *. cbn [fold_right].
    rewrite (parse_sel_size v fnames vars x i Ei), (IH r eq_refl). reflexivity.
Qed.

Definition frs_size (frs : list (string * (string * list gsel))) : nat :=
  fold_right (fun e n => S (gsels_size (snd (snd e))) + n) 0 frs.

Lemma frs_size_app a b : frs_size (a ++ b) = frs_size a + frs_size b.
Proof. induction a as [|x t IH]; simpl; [reflexivity|]. rewrite IH. lia. Qed.

Lemma collect_frags_size v fnames vars frs tbl :
  collect_frags (parse_frags v fnames vars frs) = ROk tbl -> ftable_size tbl = frs_size frs.
Proof.
  revert tbl. induction frs as [|[n [tc sel]] t IH]; intros tbl H; simpl in H.
  - inversion H; reflexivity.
  - destruct (parse_selset v fnames vars sel) as [items| |] eqn:Es; try discriminate.
    destruct (collect_frags (parse_frags v fnames vars t)) as [r| |]; try discriminate.
    inversion H; subst. simpl. rewrite (IH r eq_refl), (parse_selset_size _ _ _ _ _ Es). reflexivity.
Qed.

Definition op_size (o : option gdef) : nat := match o with Some d => gdef_size d | None => 0 end.

Lemma scan_defs_size d : forall acc acc',
  scan_defs acc d = ROk acc' ->
  frs_size (a_frags acc') + op_size (a_op acc') = frs_size (a_frags acc) + op_size (a_op acc) + gdoc_size d.
Proof.
  induction d as [|x t IH]; intros acc acc' H; simpl in H.
  - inversion H; subst. simpl. lia.
  - destruct x as [op name vds dirs sel|name tc dirs sel|k]; try discriminate.
    + destruct (negb (String.eqb op "query" || String.eqb op "mutation")); try discriminate.
      destruct (a_op acc) eqn:Eo; try discriminate.
      rewrite (IH _ _ H). unfold gdoc_size. cbn [a_frags a_op op_size fold_right gdef_size]. lia.
    + destruct (mem name (map fst (a_frags acc))); try discriminate.
      rewrite (IH _ _ H). unfold gdoc_size. cbn [a_frags a_op fold_right gdef_size]. rewrite frs_size_app. cbn [frs_size fold_right snd]. lia.
Qed.

Lemma op_parts_size o : gsels_size (snd (op_parts o)) < gdef_size o.
Proof. destruct o; simpl; lia. Qed.

(** The converted query is as large as the document's operation and fragments (node count). *)
Lemma convert_size v doc vars q c : convert v doc vars = ROk (q, c) -> query_size q <= gdoc_size doc.
Proof.
  unfold convert. intros H.
  destruct (scan_defs {| a_frags := []; a_op := None |} doc) as [acc| |] eqn:Es; try discriminate.
  pose proof (scan_defs_size doc _ _ Es) as Hsz. cbn [a_frags a_op frs_size fold_right op_size] in Hsz.
  destruct (a_op acc) as [o|] eqn:Eo; try discriminate.
  pose proof (op_parts_size o) as Hop. unfold convert_tail in H.
  destruct (op_parts o) as [[[op name] vds] sel]. cbn [snd] in Hop.
  destruct (apply_defaults vars vars vds) as [vars'| |]; try discriminate.
  destruct (collect_frags (parse_frags v (map fst (a_frags acc)) vars' (a_frags acc))) as [tbl| |] eqn:Ec; try discriminate.
  destruct (parse_selset v (map fst (a_frags acc)) vars' sel) as [items| |] eqn:Ep; try discriminate.
  destruct (detect_cycles tbl items); try discriminate.
  destruct (detect_conflicts v tbl items); try discriminate.
  inversion H; subst. unfold query_size. cbn [q_sel q_frags].
  rewrite (parse_selset_size _ _ _ _ _ Ep), (collect_frags_size _ _ _ _ _ Ec).
  cbn [op_size] in Hsz. lia.
Qed.

(** * The size of a schema: its types, fields (with the depth of their List/NonNull wrapping), enum
    values and union members. *)
Definition fields_size (fs : list (string * tref)) : nat := fold_right (fun f m => S (wrappers (snd f)) + m) 0 fs.
Definition tdef_size (d : tdef) : nat :=
  match d with
  | DScalar => 0
  | DEnum vs => List.length vs
  | DObject fs _ => fields_size fs
  | DUnion ms => List.length ms
  end.
Definition schema_size (sch : schema) : nat := fold_right (fun e n => S (tdef_size (snd e)) + n) 0 sch.

Lemma fields_wmax_le fs : fields_wmax fs <= fields_size fs.
Proof. induction fs as [|f t IH]; simpl; [lia|]. unfold fields_wmax in *. cbn [fold_right]. lia. Qed.

Lemma wmax_le sch : wmax sch <= schema_size sch.
Proof.
  induction sch as [|[n d] t IH]; simpl; [lia|]. unfold wmax in *. cbn [fold_right snd].
  destruct d as [|vs|fs k|ms]; cbn [tdef_size]; try lia.
  pose proof (fields_wmax_le fs). lia.
Qed.

Lemma length_le_size sch : List.length sch <= schema_size sch.
Proof. induction sch as [|e t IH]; simpl; lia. Qed.

(** After the repairs, for every document, variable map and schema: Parse's conflict check makes at most
    1 + |doc| visits and PrepareQuery at most (1 + |schema|)^2 * (1 + |doc|) calls. *)
Lemma validation_cost_explicit doc vars q c sch root n :
  convert repaired doc vars = ROk (q, c) -> prepare repaired sch root q = ROk n ->
  c <= 1 + gdoc_size doc /\
  n <= (1 + schema_size sch) * (1 + schema_size sch) * (1 + gdoc_size doc).
Proof.
  intros Hc Hp. pose proof (convert_size _ _ _ _ _ Hc) as Hq.
  pose proof (convert_repaired_linear doc vars q c Hc) as Hl.
  pose proof (prepare_memo_cost repaired sch root q n eq_refl Hp) as Hm.
  pose proof (wmax_le sch) as Hw. pose proof (length_le_size sch) as Hlen.
  unfold kcost in Hm. unfold query_size in *.
  split; [lia|].
  set (S0 := schema_size sch) in *. set (I := items_size (q_sel q)) in *. set (F := ftable_size (q_frags q)) in *.
  set (D := gdoc_size doc) in *. set (L := List.length sch) in *. set (W := wmax sch) in *.
  assert (H1 : 1 + I + L * F <= (1 + S0) * (1 + D)) by nia.
  assert (H2 : S W * (1 + I + L * F) <= (1 + S0) * ((1 + S0) * (1 + D))) by (apply Nat.mul_le_mono; lia).
  lia.
Qed.
