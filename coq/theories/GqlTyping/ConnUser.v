(** C15: user code on the path of a request's computation other than resolvers - the connection's
    MakeCtx hook (server.go handleSubscribe / handleMutate: `ctx = c.makeCtx(ctx)`) and the
    MiddlewareFuncs (middleware.go RunMiddlewares; conn.Use, HTTPHandler middlewares).  In the code as
    found only resolver panics are recovered (SafeExecuteResolver); C15-fix-6 recovers the other two as
    well (RunMiddlewares, safeMakeCtx) and turns them into the error of the request. *)
From Coq Require Import List String Bool ZArith.
From Thunder Require Import Lib.Json GqlTyping.Conn GqlTyping.ProofsConn.
Import ListNotations.
Open Scope string_scope.
Open Scope list_scope.

Inductive site := SMakeCtx | SMiddleware | SResolver.

Record recovers := { r_makectx : bool; r_middleware : bool; r_resolver : bool }.
Definition as_found : recovers := {| r_makectx := false; r_middleware := false; r_resolver := true |}.
Definition with_fix6 : recovers := {| r_makectx := true; r_middleware := true; r_resolver := true |}.

Definition site_recovers (r : recovers) (s : site) : bool :=
  match s with SMakeCtx => r_makectx r | SMiddleware => r_middleware r | SResolver => r_resolver r end.

(** What the user code of one computation does. *)
Inductive uoutcome := UVal (v : json) | UErr (safe : option string) | UPanic (s : site).

Definition run_user (r : recovers) (c : conn) (id : string) (u : uoutcome) : conn :=
  match u with
  | UVal v => run_request true c id (OVal v)
  | UErr s => run_request true c id (OErr s)
  | UPanic s => run_request (site_recovers r s) c id OPanic
  end.

Lemma user_contained c id u :
  let c' := run_user with_fix6 c id u in
  alive c' = alive c /\
  (forall id', id' <> id -> lookup id' (subs c') = lookup id' (subs c)) /\
  exists written, outbox c' = outbox c ++ written /\ Forall (fun e => e_id e = id) written.
Proof. destruct u as [v|s|[| |]]; cbn [run_user with_fix6 site_recovers r_makectx r_middleware r_resolver]; apply contained. Qed.

Definition ex_conn : conn :=
  {| alive := true;
     subs := [("h1", {| s_mutation := false; s_initial := false; s_prev := Some (JNum 1%Z) |});
              ("r0", {| s_mutation := false; s_initial := true; s_prev := None |})];
     outbox := [] |}.

Lemma user_as_found_dies :
  alive (run_user as_found ex_conn "r0" (UPanic SMiddleware)) = false /\
  alive (run_user as_found ex_conn "r0" (UPanic SMakeCtx)) = false /\
  alive (run_user as_found ex_conn "r0" (UPanic SResolver)) = true /\
  run_user with_fix6 ex_conn "r0" (UPanic SMiddleware) =
    {| alive := true; subs := [("h1", {| s_mutation := false; s_initial := false; s_prev := Some (JNum 1%Z) |})];
       outbox := [{| e_id := "r0"; e_type := EError; e_msg := JStr "Internal server error" |}] |}.
Proof. repeat split; reflexivity. Qed.
