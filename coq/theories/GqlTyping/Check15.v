(** Correspondence evaluator for C15: the harness writes what graphql.Parse / Flatten / the visit
    counters did on each input; [mismatches_c15] lists the cases on which the model says otherwise. *)
From Coq Require Import List ZArith String Bool Arith.
From Thunder Require Import Lib.Json GqlTyping.Types GqlTyping.Parse GqlTyping.Envelope.
Import ListNotations.
Open Scope string_scope.
Open Scope list_scope.

(** What graphql.Flatten did on the top-level selection set. *)
Inductive fobs : Type := FOk (aliases : list string) | FErr | FPanic.

Inductive ccase : Type :=
| PCase (doc : gdoc) (vars : jargs) (codes : list nat) (name kind : string) (flat : fobs)
    (* codes: what graphql.Parse did over several runs (0 ok, 1 client error, 2 other error, 99 panic) *)
| BCase (doc : gdoc) (parse_visits prepare_visits : Z)
| ECase (script : list (option json * (bool * bool))) (observed : list (nat * string))
    (* every envelope sent on one connection (ordered JSON, or None for text that is not JSON; the verdicts of
       Parse+PrepareQuery against the Query and the Mutation root) and what the read loop did with each:
       0 the connection ended, 1 one error envelope, 2 one echo envelope, 3 nothing written by the read loop;
       with the id the reply carried *)
| HCase (bodies : list (option json * bool)) (errors : list bool).
    (* HTTP POST bodies with the verdict of Parse+PrepareQuery, and whether the response carried errors *)

(** The verdict is compared, never the wording of an error: 0 accepted, 1 client error, 99 crash
    (2 = an error that is not a graphql.ClientError: the model has none). *)
Definition outcome_code {A} (r : res A) : nat :=
  match r with ROk _ => 0 | RErr _ => 1 | RCrash _ => 99 end.

Definition nat_mem (n : nat) (l : list nat) : bool := existsb (Nat.eqb n) l.

Definition same_set (a b : list string) : bool :=
  forallb (fun x => mem x b) a && forallb (fun x => mem x a) b.

(** Flatten is compared on queries without directives only: what directives do at Flatten time
    (spread directives stored on the shared fragment, fields excluded before or after grouping) is
    C19's subject and is being repaired there. *)
Definition no_dirs {A} (l : list A) : bool := match l with [] => true | _ => false end.

Fixpoint has_dirs (it : titem) : bool :=
  match it with
  | TField _ _ _ ds None => negb (no_dirs ds)
  | TField _ _ _ ds (Some l) => negb (no_dirs ds) || existsb has_dirs l
  | TSpread _ ds => negb (no_dirs ds)
  | TInline _ ds l => negb (no_dirs ds) || existsb has_dirs l
  end.

Definition query_has_dirs (q : query) : bool :=
  existsb has_dirs (q_sel q) || existsb (fun e => existsb has_dirs (snd (snd e))) (q_frags q).

Definition root_of (kind : string) : string := if String.eqb kind "mutation" then "Mutation" else "Query".

Definition reaction_code (r : reaction) : nat :=
  match r with REnds => 0 | RSyncError => 1 | REcho => 2 | RNoSyncReply => 3 end.

Fixpoint model_script (subs : list string) (l : list (option json * (bool * bool))) : list (nat * string) :=
  match l with
  | [] => []
  | (i, valid) :: r =>
      let '(re, subs') := env_step 200 subs i valid in
      (reaction_code re, match re with RSyncError => reply_id i | REcho => reply_id i | _ => "" end)
        :: match re with REnds => [] | _ => model_script subs' r end
  end.

Definition obs_eqb (a b : nat * string) : bool := Nat.eqb (fst a) (fst b) && String.eqb (snd a) (snd b).

Fixpoint list_eqb' {A} (eq : A -> A -> bool) (a b : list A) : bool :=
  match a, b with
  | [], [] => true
  | x :: a', y :: b' => eq x y && list_eqb' eq a' b'
  | _, _ => false
  end.

(** 8 the read loop reacted to some envelope otherwise than [step] says; 9 an HTTP body. *)
Definition check_env_case (c : ccase) : list nat :=
  match c with
  | ECase script observed => if list_eqb' obs_eqb (model_script [] script) observed then [] else [8]
  | HCase bodies errors =>
      if list_eqb' Bool.eqb (map (fun b => match http_step (fst b) (snd b) with HErrors => true | HRuns => false end) bodies) errors
      then [] else [9]
  | _ => []
  end.

(** Component codes: 1 verdict (accepted / client error / crash), 2 query name and kind, 3 Flatten (aliases / error / panic),
    5 visits of detectConflicts, 6 calls of PrepareQuery, 7 model rejects a bomb the code accepted. *)
Definition check_case (sch : schema) (c : ccase) : list nat :=
  match c with
  | PCase doc vars codes name kind flat =>
      let cands := map outcome_code (convert_all cur doc vars) in
      let c1 := match codes with
                | [] => [1]
                | _ => if forallb (fun k => nat_mem k cands) codes then [] else [1]
                end in
      let rest :=
        match convert cur doc vars with
        | ROk (q, _) =>
            (if nat_mem 0 codes then
               if String.eqb (q_name q) name && String.eqb (q_kind q) kind then [] else [2]
             else []) ++
            (if nat_mem 0 codes && negb (query_has_dirs q) then
               match flatten cur (q_frags q) (q_sel q), flat with
               | ROk st, FOk l => if f_unknown st then [] else if same_set (f_aliases st) l then [] else [3]
               | ROk st, _ => if f_unknown st then [] else [3]
               | RErr _, FErr => []
               | RCrash _, FPanic => []
               | _, _ => [3]
               end
             else [])
        | _ => []
        end in
      c1 ++ rest
  | BCase doc pv qv =>
      match convert cur doc [] with
      | ROk (q, cost) =>
          (if Z.eqb (Z.of_nat cost) pv then [] else [5]) ++
          match prepare cur sch (root_of (q_kind q)) q with
          | ROk n => if Z.eqb (Z.of_nat n) qv then [] else [6]
          | _ => [7]
          end
      | _ => [7]
      end
  | _ => check_env_case c
  end.

Fixpoint mismatches_c15 (sch : schema) (_ : nat) (cs : list (nat * ccase)) : list (nat * list nat) :=
  match cs with
  | [] => []
  | (i, c) :: t => match check_case sch c with
                   | [] => mismatches_c15 sch 0 t
                   | l => (i, l) :: mismatches_c15 sch 0 t
                   end
  end.
