(** C14: the executable conformance check is sound for the relation [conforms]. *)
From Coq Require Import List ZArith String Bool Arith Lia.
From Thunder Require Import Lib.Json GqlTyping.Types GqlTyping.Parse GqlTyping.Typing GqlTyping.Conformb.
Import ListNotations.
Open Scope string_scope.
Open Scope list_scope.

Section Sound.
  Variable sch : schema.
  Variable tbl : ftable.

  Lemma conformsb_sound fuel :
    (forall entry t sel j, conformsb sch tbl fuel entry t sel j = true -> conforms sch tbl entry t sel j) /\
    (forall tn fs sfs kvs, fieldsb sch tbl fuel tn fs sfs kvs = true -> conforms_fields sch tbl tn fs sfs kvs).
  Proof.
    induction fuel as [|f [IH1 IH2]]; [split; intros; discriminate|]. split.
    - intros entry t sel j H. destruct t as [n|t'|t']; cbn [conformsb] in H.
      + destruct j as [|bb|z|s|js|kvs]; try apply cf_null;
          destruct (lookup n sch) as [[|vs|fs k|ms]|] eqn:E; try discriminate;
          destruct sel as [items|]; try discriminate.
        all: try (destruct (scalar_kind n) as [k|] eqn:Ek; [|discriminate]; eapply cf_scalar; eauto; fail).
        * eapply cf_enum; eauto. apply mem_In. exact H.
        * destruct (expand_obj tbl items) as [sfs| |] eqn:Ex; try discriminate. eapply cf_object; eauto.
        * apply existsb_exists in H. destruct H as [m [Hin H]].
          destruct (lookup m sch) as [[| |fs k|]|] eqn:Em; try discriminate.
          destruct (expand_union tbl m items) as [sfs| |] eqn:Ex; try discriminate.
          eapply cf_union; eauto.
      + destruct j as [| | | |js|]; try discriminate. apply cf_list.
        rewrite forallb_forall in H. apply Forall_forall. intros x Hx. apply IH1. apply H. exact Hx.
      + apply andb_true_iff in H. destruct H as [Hn H]. apply cf_nonnull; [|apply IH1; exact H].
        apply orb_true_iff in Hn. destruct Hn as [Hn|Hn]; [left | right; exact Hn].
        intros ->. discriminate.
    - intros tn fs sfs kvs H. cbn [fieldsb] in H.
      destruct sfs as [|[[alias name] sub] r], kvs as [|[k j] kvs']; try discriminate; [constructor|].
      apply andb_true_iff in H. destruct H as [H Hr]. apply andb_true_iff in H. destruct H as [Ha Hh].
      apply String.eqb_eq in Ha. subst k.
      destruct (String.eqb name "__typename") eqn:En.
      + apply String.eqb_eq in En. subst name. destruct sub; [discriminate|]. destruct j; try discriminate.
        apply String.eqb_eq in Hh. subst s. constructor. apply IH2. exact Hr.
      + destruct (lookup name fs) as [ft|] eqn:Ef; [|discriminate].
        eapply cff_field; eauto.
        intros Hc. subst. rewrite String.eqb_refl in En. discriminate.
  Qed.
End Sound.

Lemma conformsb_conforms sch tbl fuel t sel j :
  conformsb sch tbl fuel false t sel j = true -> conforms sch tbl false t sel j.
Proof. apply (proj1 (conformsb_sound sch tbl fuel)). Qed.
