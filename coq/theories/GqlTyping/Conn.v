(** A small model of one websocket connection (graphql/server.go) for the containment clause of C15:
    what one run of one subscription or mutation does to the connection, given what its resolvers do.
    SafeExecuteResolver / SafeExecuteBatchResolver (executor.go 206-228) turn a resolver panic into an
    ordinary error; [recover] = false is the code without them (the panic leaves the goroutine the
    executor started, and the process with it). *)
From Coq Require Import List String Bool.
From Thunder Require Import Lib.Json.
Import ListNotations.
Open Scope string_scope.
Open Scope list_scope.

Inductive outcome : Type :=
| OVal (v : json)                  (* all resolvers returned *)
| OErr (safe : option string)      (* a resolver returned an error; Some m = SanitizedError with message m *)
| OPanic.                          (* a resolver panicked *)

Inductive etype := EUpdate | EResult | EError.
Record envelope := { e_id : string; e_type : etype; e_msg : json }.

Record sub := { s_mutation : bool; s_initial : bool; s_prev : option json }.

Record conn := { alive : bool; subs : list (string * sub); outbox : list envelope }.

Inductive exec_result := XVal (v : json) | XErr (safe : option string) | XDied.

Definition execute (recover : bool) (o : outcome) : exec_result :=
  match o with
  | OVal v => XVal v
  | OErr s => XErr s
  | OPanic => if recover then XErr None else XDied
  end.

Definition sanitize (safe : option string) : json :=
  match safe with Some m => JStr m | None => JStr "Internal server error" end.

Definition set_sub (id : string) (s : sub) (l : list (string * sub)) : list (string * sub) :=
  (id, s) :: remove_key id l.

(** One run of the rerunner of request [id] (handleSubscribe's / handleMutate's computation). *)
Definition run_request (recover : bool) (c : conn) (id : string) (o : outcome) : conn :=
  if negb (alive c) then c else
  match lookup id (subs c) with
  | None => c                                        (* closed meanwhile: the rerunner is stopped *)
  | Some s =>
      match execute recover o with
      | XDied => {| alive := false; subs := []; outbox := outbox c |}
      | XVal v =>
          if s_mutation s then
            {| alive := true; subs := remove_key id (subs c);
               outbox := outbox c ++ [{| e_id := id; e_type := EResult; e_msg := v |}] |}
          else
            {| alive := true; subs := set_sub id {| s_mutation := false; s_initial := false; s_prev := Some v |} (subs c);
               outbox := outbox c ++ [{| e_id := id; e_type := EUpdate; e_msg := v |}] |}
      | XErr safe =>
          if s_mutation s || s_initial s then
            {| alive := true; subs := remove_key id (subs c);
               outbox := outbox c ++ [{| e_id := id; e_type := EError; e_msg := sanitize safe |}] |}
          else c                                     (* a re-run that fails is retried; nothing is written *)
      end
  end.
