(** C14: validation, execution and conformance depend on a schema only as a finite map (lookups of
    types, of fields, membership of enum values and union members): equivalent schemas ([sch_sim]) give
    the same verdict, the same result, the same conformance judgement. *)
From Coq Require Import List ZArith String Bool Arith Lia.
From Thunder Require Import Lib.Json Lib.JsonNorm GqlTyping.Types GqlTyping.Parse GqlTyping.ProofsParse GqlTyping.ProofsExec
     GqlTyping.Typing GqlTyping.ProofsTyping GqlTyping.ProofsValid GqlTyping.Introspect GqlTyping.ProofsIntrospect.
Import ListNotations.
Open Scope string_scope.
Open Scope list_scope.

Lemma fold_res_ext {S} (f g : S -> titem -> res S) l :
  (forall st x, In x l -> f st x = g st x) -> forall st, fold_res f st l = fold_res g st l.
Proof.
  induction l as [|x t IH]; intros H st; [reflexivity|]. cbn [fold_res].
  rewrite (H st x (or_introl eq_refl)). destruct (g st x); try reflexivity.
  apply IH. intros; apply H; right; assumption.
Qed.

Lemma two_pass_ext {S} (f g : bool -> S -> titem -> res S) l :
  (forall b st x, In x l -> f b st x = g b st x) -> forall st, two_pass f st l = two_pass g st l.
Proof.
  intros H st. unfold two_pass. rewrite (fold_res_ext (f true) (g true) l (H true)).
  destruct (fold_res (g true) st l); try reflexivity. apply fold_res_ext. apply H.
Qed.

Lemma two_pass_rev_ext {S} (f g : bool -> S -> titem -> res S) l :
  (forall b st x, In x l -> f b st x = g b st x) -> forall st, two_pass_rev f st l = two_pass_rev g st l.
Proof.
  intros H st. unfold two_pass_rev. rewrite (fold_res_ext (f false) (g false) l (H false)).
  destruct (fold_res (g false) st l); try reflexivity. apply fold_res_ext. apply H.
Qed.

Section Sim.
  Variables a b : schema.
  Hypothesis Hsim : sch_sim a b.

  Lemma sim_lookup n :
    match lookup n a, lookup n b with
    | None, None => True
    | Some DScalar, Some DScalar => True
    | Some (DEnum va), Some (DEnum vb) => forall s, In s va <-> In s vb
    | Some (DObject fa _), Some (DObject fb _) => forall f, lookup f fa = lookup f fb
    | Some (DUnion ma), Some (DUnion mb) => forall s, mem s ma = mem s mb
    | _, _ => False
    end.
  Proof.
    specialize (Hsim n). destruct (lookup n a) as [[| | |]|], (lookup n b) as [[| | |]|]; exact Hsim.
  Qed.

  Lemma prep_leaf_sim st tn : prep_leaf a st tn = prep_leaf b st tn.
  Proof.
    unfold prep_leaf. pose proof (sim_lookup tn) as H.
    destruct (lookup tn a) as [[| | |]|], (lookup tn b) as [[| | |]|]; try contradiction; reflexivity.
  Qed.

  Lemma prep_list_sim (f g : string -> bool -> pstate -> titem -> res pstate) tn st l :
    (forall bb st0 x, In x l -> f tn bb st0 x = g tn bb st0 x) -> prep_list a f tn st l = prep_list b g tn st l.
  Proof.
    intros H. unfold prep_list. pose proof (sim_lookup tn) as Hl.
    destruct (lookup tn a) as [[| | |]|], (lookup tn b) as [[| | |]|]; try contradiction; try reflexivity.
    - apply two_pass_ext. exact H.
    - apply two_pass_rev_ext. exact H.
  Qed.

  Lemma pq_item_sim v tbl fuel : forall it tn bb st, pq_item v fuel a tbl tn bb st it = pq_item v fuel b tbl tn bb st it.
  Proof.
    induction fuel as [|f IHf]; [reflexivity|].
    induction it using titem_ind'; intros tn bb st; rewrite !pq_unfold; pose proof (sim_lookup tn) as Hl;
      destruct (lookup tn a) as [[|va|fa ka|ma]|], (lookup tn b) as [[|vb|fb kb|mb]|]; try contradiction; try reflexivity.
    - destruct bb; [|reflexivity]. destruct (String.eqb n "__typename"); [reflexivity|]. rewrite Hl.
      destruct (lookup n fb); [|reflexivity]. apply prep_leaf_sim.
    - destruct bb; [|reflexivity]. destruct (String.eqb n "__typename"); [reflexivity|]. rewrite Hl.
      destruct (lookup n fb); [|reflexivity]. apply prep_list_sim.
      intros bb0 st0 x Hin. rewrite Forall_forall in H. apply H; exact Hin.
    - destruct bb; [reflexivity|]. destruct (lookup n tbl) as [[on body]|]; [|reflexivity].
      destruct (fix21 v && pmem (tn, n) (p_seen st)); [reflexivity|]. apply prep_list_sim. intros; apply IHf.
    - destruct bb; [reflexivity|]. destruct (lookup n tbl) as [[on body]|]; [|reflexivity]. rewrite Hl.
      destruct (mem on mb); [|reflexivity].
      destruct (fix21 v && pmem (on, n) (p_seen st)); [reflexivity|]. apply prep_list_sim. intros; apply IHf.
    - destruct bb; [reflexivity|]. apply prep_list_sim. intros bb0 st0 x Hin. rewrite Forall_forall in H. apply H; exact Hin.
    - destruct bb; [reflexivity|]. rewrite Hl. destruct (mem on mb); [|reflexivity].
      apply prep_list_sim. intros bb0 st0 x Hin. rewrite Forall_forall in H. apply H; exact Hin.
  Qed.

  Lemma prepare_sim v root q : prepare v a root q = prepare v b root q.
  Proof.
    unfold prepare, prepare_run. rewrite (prep_list_sim _ (pq_item v (S (List.length (q_frags q))) b (q_frags q))); [reflexivity|].
    intros; apply pq_item_sim.
  Qed.

  (** ** Execution *)
  Lemma eval_sim tbl fuel :
    (forall t sel v, eval a tbl fuel t sel v = eval b tbl fuel t sel v) /\
    (forall tn fa fb flds sfs, (forall f, lookup f fa = lookup f fb) ->
                               eval_fields a tbl fuel tn fa flds sfs = eval_fields b tbl fuel tn fb flds sfs).
  Proof.
    induction fuel as [|f [IH1 IH2]]; [split; reflexivity|]. split.
    - intros t sel v. destruct t as [n|t'|t']; cbn [eval].
      + pose proof (sim_lookup n) as Hl.
        destruct (lookup n a) as [[|va|fa ka|ma]|], (lookup n b) as [[|vb|fb kb|mb]|]; try contradiction; try reflexivity.
        * destruct sel as [items|]; [|reflexivity]. destruct v; try reflexivity.
          destruct (expand_obj tbl items); try reflexivity. apply IH2. exact Hl.
        * destruct sel as [items|]; [|reflexivity]. destruct v as [| | | |m flds]; try reflexivity.
          pose proof (sim_lookup m) as Hm.
          destruct (lookup m a) as [[|va'|fa' ka'|ma']|], (lookup m b) as [[|vb'|fb' kb'|mb']|]; try contradiction; try reflexivity.
          destruct (expand_union tbl m items); try reflexivity. apply IH2. exact Hm.
      + destruct v; try reflexivity.
        induction l as [|x r IHl]; [reflexivity|]. rewrite IH1, IHl. reflexivity.
      + apply IH1.
    - intros tn fa fb flds sfs Hf. cbn [eval_fields]. destruct sfs as [|[[alias name] sub] r]; [reflexivity|].
      rewrite (IH2 tn fa fb flds r Hf), Hf.
      destruct (String.eqb name "__typename"); [reflexivity|].
      destruct (lookup name fb); [|reflexivity]. destruct (lookup name flds); [|reflexivity]. rewrite IH1. reflexivity.
  Qed.

  (** ** Conformance of what execution over [a] returns, judged against [b] *)
  Lemma eval_conforms_sim tbl fuel :
    (forall entry t sel v j, has_type a entry t v -> eval a tbl fuel t sel v = EOk j -> conforms b tbl entry t sel j) /\
    (forall tn fa fb flds sfs kvs, (forall f, lookup f fa = lookup f fb) -> fields_typed a fa flds ->
                                   eval_fields a tbl fuel tn fa flds sfs = EOk (JObj kvs) ->
                                   conforms_fields b tbl tn fb sfs kvs).
  Proof.
    induction fuel as [|f [IH1 IH2]]; [split; intros; discriminate|]. split.
    - intros entry t sel v j Ht He. destruct t as [n|t'|t']; simpl in He.
      + pose proof (sim_lookup n) as Hl.
        destruct (lookup n a) as [[|va|fa ka|ma]|] eqn:E; try discriminate;
          destruct (lookup n b) as [[|vb|fb kb|mb]|] eqn:E'; try contradiction.
        * destruct sel; try discriminate. destruct v; try discriminate; inversion He; subst; [apply cf_null|].
          inversion Ht; subst; unify_lookups; try congruence. eapply cf_scalar; eauto.
        * destruct sel; try discriminate. destruct v; try discriminate; inversion He; subst; [apply cf_null|].
          inversion Ht; subst; unify_lookups; try congruence. eapply cf_enum; eauto. apply Hl. assumption.
        * destruct sel as [items|]; try discriminate. destruct v as [| | | |tn flds]; try discriminate; [inversion He; apply cf_null|].
          destruct (expand_obj tbl items) as [sfs| |] eqn:Ex; try discriminate.
          destruct (eval_fields_shape _ _ _ _ _ _ _ _ He) as [kvs ->].
          inversion Ht; subst; unify_lookups; try congruence.
          eapply cf_object; eauto.
        * destruct sel as [items|]; try discriminate. destruct v as [| | | |m flds]; try discriminate; [inversion He; apply cf_null|].
          pose proof (sim_lookup m) as Hm.
          destruct (lookup m a) as [[| |fa' ka'|]|] eqn:Em; try discriminate.
          destruct (lookup m b) as [[| |fb' kb'|]|] eqn:Em'; try contradiction.
          destruct (expand_union tbl m items) as [sfs| |] eqn:Ex; try discriminate.
          destruct (eval_fields_shape _ _ _ _ _ _ _ _ He) as [kvs ->].
          inversion Ht; subst; unify_lookups; try congruence.
          eapply cf_union; eauto. apply mem_In. rewrite <- Hl. apply mem_In. assumption.
      + destruct v as [| | |l|]; try discriminate.
        * inversion He; subst. apply cf_list. constructor.
        * inversion Ht; subst. clear Ht.
          revert j He. match goal with H : Forall _ l |- _ => induction H as [|x r Hx Hr IHl] end; intros j He.
          -- inversion He; subst. apply cf_list. constructor.
          -- destruct (eval a tbl f t' sel x) as [j0| |] eqn:Ex;
               try (match type of He with context [match ?G with _ => _ end] => destruct G as [[| | | |js|]| |] eqn:Eg end);
               try discriminate.
             inversion He; subst. specialize (IHl (JArr js) eq_refl). inversion IHl; subst.
             apply cf_list. constructor; auto. eapply IH1; eauto.
      + inversion Ht; subst. apply cf_nonnull; [|eapply IH1; eauto].
        match goal with H : _ <> VNull \/ _ = true |- _ => destruct H as [Hv|Hentry] end;
          [left; eapply eval_not_null; eauto | right; auto].
    - intros tn fa fb flds sfs kvs Hf Hft He. simpl in He.
      destruct sfs as [|[[alias name] sub] r]; [inversion He; subst; constructor|].
      destruct (String.eqb name "__typename") eqn:En.
      + apply String.eqb_eq in En; subst.
        destruct sub; [discriminate|].
        destruct (eval_fields a tbl f tn fa flds r) as [[| | | | |kvs']| |] eqn:Er; try discriminate.
        inversion He; subst. constructor. eapply IH2; eauto.
      + destruct (lookup name fa) as [ft|] eqn:Ef; [|discriminate].
        destruct (lookup name flds) as [v'|] eqn:Ev; [|discriminate].
        destruct (eval a tbl f ft sub v') as [j0| |] eqn:Ee;
          destruct (eval_fields a tbl f tn fa flds r) as [[| | | | |kvs']| |] eqn:Er; try discriminate.
        inversion He; subst. inversion Hft as [fs0 flds0 Hall]; subst.
        destruct (Hall name ft Ef) as [v0 [Hv0 Ht0]]. rewrite Ev in Hv0. inversion Hv0; subst.
        eapply cff_field; eauto.
        * intros Hc; subst. rewrite String.eqb_refl in En; discriminate.
        * rewrite <- Hf. exact Ef.
  Qed.
End Sim.

(** * Truthfulness of introspection, composed with the reader *)
Lemma truthful_prepare x y v root q :
  xwf x = true -> read_types (introspect_types x) = Some y ->
  prepare v (erase y) root q = prepare v (erase x) root q.
Proof.
  intros Hwf Hr. rewrite (read_introspect x Hwf) in Hr. inversion Hr; subst.
  apply prepare_sim. apply erase_normalize_sim. exact Hwf.
Qed.

Lemma truthful_eval x y tbl fuel t sel v :
  xwf x = true -> read_types (introspect_types x) = Some y ->
  eval (erase y) tbl fuel t sel v = eval (erase x) tbl fuel t sel v.
Proof.
  intros Hwf Hr. rewrite (read_introspect x Hwf) in Hr. inversion Hr; subst.
  apply (proj1 (eval_sim _ _ (erase_normalize_sim x Hwf) tbl fuel)).
Qed.

Lemma truthful_conforms x y tbl fuel t sel v j :
  xwf x = true -> read_types (introspect_types x) = Some y ->
  has_type (erase x) false t v -> eval (erase x) tbl fuel t sel v = EOk j ->
  conforms (erase y) tbl false t sel j.
Proof.
  intros Hwf Hr Ht He. rewrite (read_introspect x Hwf) in Hr. inversion Hr; subst.
  apply (proj1 (eval_conforms_sim _ _ (sch_sim_sym _ _ (erase_normalize_sim x Hwf)) tbl fuel) false t sel v j Ht He).
Qed.

(** Completeness of rejection judged on the advertised schema: an ill-formed applicable part, found by
    reading the printed JSON alone, makes the real PrepareQuery (over the built schema) fail. *)
Lemma rejection_complete_advertised v x y root q tn' l' :
  xwf x = true -> read_types (introspect_types x) = Some y ->
  applies (erase y) (q_frags q) root (q_sel q) tn' l' -> bad (erase y) tn' l' ->
  forall n, prepare v (erase x) root q <> ROk n.
Proof.
  intros Hwf Hr Ha Hb n. rewrite <- (truthful_prepare x y v root q Hwf Hr).
  exact (ProofsValid.rejection_complete_all v (erase y) root q tn' l' Ha Hb n).
Qed.

Lemma ref_readable_iff x t :
  (wrappers t < ref_depth -> read_ref ref_depth (ref_json x ref_depth t) = Some t) /\
  (ref_depth <= wrappers t -> read_ref ref_depth (ref_json x ref_depth t) = None).
Proof. split; [apply read_ref_roundtrip | apply read_ref_too_deep]. Qed.

(** A well-formed built schema is closed: the premise of [prepare_nocrash] and of progress is then
    discharged by the check the harness makes on every generated schema ([xwf]). *)
Lemma xwf_schema_closed x : xwf x = true -> schema_closed (erase x).
Proof. intros H. exact (xwf_erase_closed x H). Qed.

Lemma validation_never_crashes_built v doc vars q c x root s fs k :
  convert v doc vars = ROk (q, c) -> xwf x = true -> lookup root x = Some (XObject s fs k) ->
  is_crash (prepare v (erase x) root q) = false.
Proof.
  intros Hc Hwf Hr. apply prepare_nocrash.
  - eapply convert_certified; eauto.
  - apply xwf_schema_closed; exact Hwf.
  - rewrite (lookup_erase_object x root s fs k (xwf_names x Hwf) Hr). discriminate.
Qed.
