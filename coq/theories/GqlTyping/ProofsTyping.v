(** C14 (c): completeness of rejection.  An unknown field, a sub-selection on a scalar or enum, or a
    missing sub-selection on an object or union, anywhere in a part of the query that applies to the
    advertised type, makes PrepareQuery fail. *)
From Coq Require Import List ZArith String Bool Arith Lia.
From Thunder Require Import Lib.Json GqlTyping.Types GqlTyping.Parse GqlTyping.ProofsParse GqlTyping.ProofsExec GqlTyping.Typing.
Import ListNotations.
Open Scope string_scope.
Open Scope list_scope.

Definition not_ok {A} (r : res A) : Prop := forall a, r <> ROk a.

Lemma fold_res_not_ok {S} (f : S -> titem -> res S) l x :
  In x l -> (forall st, not_ok (f st x)) -> forall st, not_ok (fold_res f st l).
Proof.
  induction l as [|y t IH]; intros Hin Hx st a; [contradiction|]. simpl.
  destruct Hin as [Hin|Hin].
  - subst. pose proof (Hx st) as H. destruct (f st x); try discriminate. exfalso; apply (H a0); reflexivity.
  - destruct (f st y); try discriminate. apply IH; auto.
Qed.

Lemma two_pass_not_ok {S} (item : bool -> S -> titem -> res S) l x b :
  In x l -> (forall st, not_ok (item b st x)) -> forall st, not_ok (two_pass item st l).
Proof.
  intros Hin Hx st a. unfold two_pass. destruct b.
  - pose proof (fold_res_not_ok (item true) l x Hin Hx st) as H.
    destruct (fold_res (item true) st l); try discriminate. exfalso; apply (H a0); reflexivity.
  - destruct (fold_res (item true) st l) as [st1| |]; try discriminate.
    apply (fold_res_not_ok (item false) l x Hin Hx st1).
Qed.

Lemma two_pass_rev_not_ok {S} (item : bool -> S -> titem -> res S) l x b :
  In x l -> (forall st, not_ok (item b st x)) -> forall st, not_ok (two_pass_rev item st l).
Proof.
  intros Hin Hx st a. unfold two_pass_rev. destruct b.
  - destruct (fold_res (item false) st l) as [st1| |]; try discriminate.
    apply (fold_res_not_ok (item true) l x Hin Hx st1).
  - pose proof (fold_res_not_ok (item false) l x Hin Hx st) as H.
    destruct (fold_res (item false) st l); try discriminate. exfalso; apply (H a0); reflexivity.
Qed.

(** PrepareQuery(type tn, selection set l) at any recursion budget. *)
Definition pq (v : variant) (sch : schema) (tbl : ftable) (fuel : nat) (tn : string) (st : pstate) (l : list titem) :=
  prep_list sch (pq_item v fuel sch tbl) tn st l.

Lemma pq_zero v sch tbl tn st l x : In x l -> not_ok (pq v sch tbl 0 tn st l).
Proof.
  intros Hin a. unfold pq, prep_list.
  destruct (lookup tn sch) as [[| | |]|]; try discriminate.
  - apply (two_pass_not_ok _ l x true Hin). intros s b; discriminate.
  - apply (two_pass_rev_not_ok _ l x true Hin). intros s b; discriminate.
Qed.

(** One item that cannot pass makes the whole selection set fail. *)
Lemma pq_item_blocks v sch tbl f tn st l x b :
  In x l -> (forall s, not_ok (pq_item v (S f) sch tbl tn b s x)) -> not_ok (pq v sch tbl (S f) tn st l).
Proof.
  intros Hin Hx a. unfold pq, prep_list.
  destruct (lookup tn sch) as [[| | |]|]; try discriminate.
  - apply (two_pass_not_ok _ l x b Hin Hx).
  - apply (two_pass_rev_not_ok _ l x b Hin Hx).
Qed.

(** The ill-formed spots of the property statement, directly inside selection set [l] under type [tn]. *)
Inductive bad (sch : schema) (tn : string) (l : list titem) : Prop :=
| bad_unknown : forall fs k a name args ds sub,
    lookup tn sch = Some (DObject fs k) -> In (TField a name args ds sub) l ->
    name <> "__typename" -> lookup name fs = None -> bad sch tn l
| bad_union_field : forall ms a name args ds sub,
    lookup tn sch = Some (DUnion ms) -> In (TField a name args ds sub) l -> name <> "__typename" -> bad sch tn l
| bad_leaf_sel : forall fs k a name args ds sub ft,
    lookup tn sch = Some (DObject fs k) -> In (TField a name args ds (Some sub)) l ->
    name <> "__typename" -> lookup name fs = Some ft ->
    (lookup (named_of ft) sch = Some DScalar \/ exists vs, lookup (named_of ft) sch = Some (DEnum vs)) -> bad sch tn l
| bad_composite_nosel : forall fs k a name args ds ft,
    lookup tn sch = Some (DObject fs k) -> In (TField a name args ds None) l ->
    name <> "__typename" -> lookup name fs = Some ft ->
    ((exists fs' k', lookup (named_of ft) sch = Some (DObject fs' k')) \/ exists ms, lookup (named_of ft) sch = Some (DUnion ms)) ->
    bad sch tn l.

Lemma neq_eqb a b : a <> b -> String.eqb a b = false.
Proof. intros H. destruct (String.eqb a b) eqn:E; auto. apply String.eqb_eq in E. contradiction. Qed.

Lemma bad_rejected v sch tbl tn l : bad sch tn l -> forall fuel st, not_ok (pq v sch tbl fuel tn st l).
Proof.
  intros Hb fuel st. destruct fuel as [|f].
  { destruct Hb; eapply pq_zero; eauto. }
  destruct Hb as [fs k a name args ds sub E Hin Hn Hl | ms a name args ds sub E Hin Hn
                 | fs k a name args ds sub ft E Hin Hn Hl Hleaf | fs k a name args ds ft E Hin Hn Hl Hc].
  - eapply (pq_item_blocks v sch tbl f tn st l _ true Hin). intros s x. rewrite pq_unfold, E.
    rewrite (neq_eqb _ _ Hn), Hl. discriminate.
  - eapply (pq_item_blocks v sch tbl f tn st l _ true Hin). intros s x. rewrite pq_unfold, E.
    rewrite (neq_eqb _ _ Hn). discriminate.
  - eapply (pq_item_blocks v sch tbl f tn st l _ true Hin). intros s x. rewrite pq_unfold, E.
    rewrite (neq_eqb _ _ Hn), Hl. unfold prep_list.
    destruct Hleaf as [H|[vs H]]; rewrite H; discriminate.
  - eapply (pq_item_blocks v sch tbl f tn st l _ true Hin). intros s x. rewrite pq_unfold, E.
    rewrite (neq_eqb _ _ Hn), Hl. unfold prep_leaf.
    destruct Hc as [[fs' [k' H]]|[ms H]]; rewrite H; discriminate.
Qed.

(** The parts of a query that apply to the advertised type: what PrepareQuery walks into. *)
Inductive applies (sch : schema) (tbl : ftable) : string -> list titem -> string -> list titem -> Prop :=
| ap_here : forall tn l, applies sch tbl tn l tn l
| ap_field : forall tn l fs k a name args ds sub ft tn' l',
    lookup tn sch = Some (DObject fs k) -> In (TField a name args ds (Some sub)) l ->
    name <> "__typename" -> lookup name fs = Some ft ->
    applies sch tbl (named_of ft) sub tn' l' -> applies sch tbl tn l tn' l'
| ap_inline_obj : forall tn l fs k on ds sub tn' l',
    lookup tn sch = Some (DObject fs k) -> In (TInline on ds sub) l ->
    applies sch tbl tn sub tn' l' -> applies sch tbl tn l tn' l'
| ap_inline_union : forall tn l ms on ds sub tn' l',
    lookup tn sch = Some (DUnion ms) -> In (TInline on ds sub) l -> In on ms ->
    applies sch tbl on sub tn' l' -> applies sch tbl tn l tn' l'
| ap_spread_obj : forall tn l fs k n ds on body tn' l',
    lookup tn sch = Some (DObject fs k) -> In (TSpread n ds) l -> lookup n tbl = Some (on, body) ->
    applies sch tbl tn body tn' l' -> applies sch tbl tn l tn' l'
| ap_spread_union : forall tn l ms n ds on body tn' l',
    lookup tn sch = Some (DUnion ms) -> In (TSpread n ds) l -> lookup n tbl = Some (on, body) -> In on ms ->
    applies sch tbl on body tn' l' -> applies sch tbl tn l tn' l'.

(** Without the (type, selection set) memo: a part that cannot pass blocks everything above it. *)
Lemma applies_blocks v sch tbl tn l tn' l' :
  fix21 v = false -> applies sch tbl tn l tn' l' -> l' <> [] ->
  (forall fuel st, not_ok (pq v sch tbl fuel tn' st l')) ->
  forall fuel st, not_ok (pq v sch tbl fuel tn st l).
Proof.
  intros Hv Hap Hne Hbad. induction Hap as
      [tn l
      | tn l fs k a name args ds sub ft tn' l' E Hin Hn Hl Hap IH
      | tn l fs k on ds sub tn' l' E Hin Hap IH
      | tn l ms on ds sub tn' l' E Hin Hm Hap IH
      | tn l fs k n ds on body tn' l' E Hin Hl Hap IH
      | tn l ms n ds on body tn' l' E Hin Hl Hm Hap IH]; auto; intros fuel st;
    (destruct fuel as [|f]; [eapply pq_zero; eauto|]).
  - eapply (pq_item_blocks v sch tbl f tn st l _ true Hin). intros s x. rewrite pq_unfold, E.
    rewrite (neq_eqb _ _ Hn), Hl. apply (IH Hne Hbad (S f)).
  - eapply (pq_item_blocks v sch tbl f tn st l _ false Hin). intros s x. rewrite pq_unfold, E.
    apply (IH Hne Hbad (S f)).
  - eapply (pq_item_blocks v sch tbl f tn st l _ false Hin). intros s x. rewrite pq_unfold, E.
    assert (Hmem : mem on ms = true) by (apply mem_In; auto). rewrite Hmem. apply (IH Hne Hbad (S f)).
  - eapply (pq_item_blocks v sch tbl f tn st l _ false Hin). intros s x. rewrite pq_unfold, E, Hl, Hv.
    simpl. apply (IH Hne Hbad f).
  - eapply (pq_item_blocks v sch tbl f tn st l _ false Hin). intros s x. rewrite pq_unfold, E, Hl, Hv.
    assert (Hmem : mem on ms = true) by (apply mem_In; auto). rewrite Hmem. simpl. apply (IH Hne Hbad f).
Qed.

Lemma bad_nonempty sch tn l : bad sch tn l -> l <> [].
Proof. intros Hb; destruct Hb; intros Hc; subst; contradiction. Qed.

Lemma rejection_complete v sch root q tn' l' :
  fix21 v = false -> applies sch (q_frags q) root (q_sel q) tn' l' -> bad sch tn' l' ->
  forall n, prepare v sch root q <> ROk n.
Proof.
  intros Hv Hap Hb n. unfold prepare, prepare_run.
  pose proof (applies_blocks v sch (q_frags q) root (q_sel q) tn' l' Hv Hap (bad_nonempty _ _ _ Hb)
                             (bad_rejected v sch (q_frags q) tn' l' Hb)
                             (S (List.length (q_frags q))) {| p_seen := []; p_cost := 0 |}) as H.
  unfold pq in H.
  destruct (prep_list sch (pq_item v (S (List.length (q_frags q))) sch (q_frags q)) root {| p_seen := []; p_cost := 0 |} (q_sel q));
    try discriminate. exfalso; apply (H a); reflexivity.
Qed.

(** * C14 (b): whatever the reference evaluator returns conforms to the advertised type *)

(** Well-typed data: what Go's type system and schemabuilder's non-null enforcement (function.go
    386-409) guarantee about resolver results.  [entry]: list entries may be nil whatever the type. *)
Inductive has_type (sch : schema) : bool -> tref -> value -> Prop :=
| ht_nonnull : forall entry t v, (v <> VNull \/ entry = true) -> has_type sch entry t v -> has_type sch entry (TNonNull t) v
| ht_list_nil : forall entry t, has_type sch entry (TList t) VNull
| ht_list : forall entry t l, Forall (has_type sch true t) l -> has_type sch entry (TList t) (VList l)
| ht_null : forall entry n, has_type sch entry (TNamed n) VNull
| ht_scalar : forall entry n k j, lookup n sch = Some DScalar -> scalar_kind n = Some k -> json_has_kind k j = true ->
                                  has_type sch entry (TNamed n) (VScalar j)
| ht_enum : forall entry n vs s, lookup n sch = Some (DEnum vs) -> In s vs -> has_type sch entry (TNamed n) (VEnum s)
| ht_obj : forall entry n fs k flds, lookup n sch = Some (DObject fs k) -> fields_typed sch fs flds ->
                                     has_type sch entry (TNamed n) (VObj n flds)
| ht_union : forall entry n ms m fs k flds, lookup n sch = Some (DUnion ms) -> In m ms ->
                                            lookup m sch = Some (DObject fs k) -> fields_typed sch fs flds ->
                                            has_type sch entry (TNamed n) (VObj m flds)
with fields_typed (sch : schema) : list (string * tref) -> list (string * value) -> Prop :=
| ft_intro : forall fs flds, (forall f ft, lookup f fs = Some ft -> exists v, lookup f flds = Some v /\ has_type sch false ft v) ->
                             fields_typed sch fs flds.

Ltac unify_lookups :=
  repeat match goal with
         | H1 : lookup ?n ?s = Some ?a, H2 : lookup ?n ?s = Some ?b |- _ =>
             rewrite H1 in H2; inversion H2; subst; clear H2
         | H1 : lookup ?n ?s = Some ?a, H2 : lookup ?n ?s = None |- _ => rewrite H1 in H2; discriminate
         end.

Section Soundness.
  Variable sch : schema.
  Variable tbl : ftable.

  Lemma kind_not_null k j : json_has_kind k j = true -> j <> JNull.
  Proof. destruct k, j; simpl; intros H; try discriminate; intros Hc; discriminate. Qed.

  Lemma eval_list_shape fuel t sel l j :
    (fix go (l : list value) : eres :=
       match l with
       | [] => EOk (JArr [])
       | x :: r => match eval sch tbl fuel t sel x, go r with
                   | EOk j, EOk (JArr js) => EOk (JArr (j :: js))
                   | EShape, _ => EShape | _, EShape => EShape
                   | _, _ => EFuel
                   end
       end) l = EOk j -> exists js, j = JArr js.
  Proof.
    destruct l as [|x r]; intros H.
    - inversion H; eauto.
    - destruct (eval sch tbl fuel t sel x) as [j0| |];
        try (match type of H with context [match ?G with _ => _ end] => destruct G as [[| | | |js|]| |] end);
        try discriminate; inversion H; eauto.
  Qed.

  Lemma eval_fields_shape fuel tn fs flds sfs j : eval_fields sch tbl fuel tn fs flds sfs = EOk j -> exists kvs, j = JObj kvs.
  Proof.
    destruct fuel as [|f]; simpl; [discriminate|].
    destruct sfs as [|[[alias name] sub] r]; intros H; [inversion H; eauto|].
    match type of H with (match ?X with _ => _ end) = _ => destruct X as [j0| |] end;
      destruct (eval_fields sch tbl f tn fs flds r) as [[| | | | |kvs]| |]; try discriminate; inversion H; eauto.
  Qed.

  (** A non-nil value never renders as null. *)
  Lemma eval_not_null fuel : forall entry t sel v j,
    has_type sch entry t v -> v <> VNull -> eval sch tbl fuel t sel v = EOk j -> j <> JNull.
  Proof.
    induction fuel as [|f IH]; intros entry t sel v j Ht Hv He; [discriminate|].
    destruct t as [n|t'|t']; simpl in He.
    - destruct (lookup n sch) as [[|vs|fs k|ms]|] eqn:E; try discriminate.
      + destruct sel; try discriminate. destruct v; try discriminate; try contradiction.
        inversion He; subst. inversion Ht; subst; try congruence. eapply kind_not_null; eauto.
      + destruct sel; try discriminate. destruct v; try discriminate; try contradiction. inversion He; subst. discriminate.
      + destruct sel as [items|]; try discriminate. destruct v; try discriminate; try contradiction.
        destruct (expand_obj tbl items); try discriminate.
        apply eval_fields_shape in He. destruct He as [kvs ->]. discriminate.
      + destruct sel as [items|]; try discriminate. destruct v as [| | | |m flds]; try discriminate; try contradiction.
        destruct (lookup m sch) as [[| |fs k|]|]; try discriminate.
        destruct (expand_union tbl m items); try discriminate.
        apply eval_fields_shape in He. destruct He as [kvs ->]. discriminate.
    - destruct v; try discriminate; try contradiction.
      apply eval_list_shape in He. destruct He as [js ->]. discriminate.
    - inversion Ht; subst. eapply IH; eauto.
  Qed.

  Lemma eval_conforms fuel :
    (forall entry t sel v j, has_type sch entry t v -> eval sch tbl fuel t sel v = EOk j -> conforms sch tbl entry t sel j) /\
    (forall tn fs flds sfs kvs, fields_typed sch fs flds -> eval_fields sch tbl fuel tn fs flds sfs = EOk (JObj kvs) ->
                                conforms_fields sch tbl tn fs sfs kvs).
  Proof.
    induction fuel as [|f [IH1 IH2]]; [split; intros; discriminate|]. split.
    - intros entry t sel v j Ht He. destruct t as [n|t'|t']; simpl in He.
      + destruct (lookup n sch) as [[|vs|fs k|ms]|] eqn:E; try discriminate.
        * destruct sel; try discriminate. destruct v; try discriminate; inversion He; subst; [apply cf_null|].
          inversion Ht; subst; unify_lookups; try congruence. eapply cf_scalar; eauto.
        * destruct sel; try discriminate. destruct v; try discriminate; inversion He; subst; [apply cf_null|].
          inversion Ht; subst; unify_lookups; try congruence. eapply cf_enum; eauto.
        * destruct sel as [items|]; try discriminate. destruct v as [| | | |tn flds]; try discriminate; [inversion He; apply cf_null|].
          destruct (expand_obj tbl items) as [sfs| |] eqn:Ex; try discriminate.
          destruct (eval_fields_shape _ _ _ _ _ _ He) as [kvs ->].
          inversion Ht; subst; unify_lookups; try congruence.
          eapply cf_object; eauto.
        * destruct sel as [items|]; try discriminate. destruct v as [| | | |m flds]; try discriminate; [inversion He; apply cf_null|].
          destruct (lookup m sch) as [[| |fs k|]|] eqn:Em; try discriminate.
          destruct (expand_union tbl m items) as [sfs| |] eqn:Ex; try discriminate.
          destruct (eval_fields_shape _ _ _ _ _ _ He) as [kvs ->].
          inversion Ht; subst; unify_lookups; try congruence.
          eapply cf_union; eauto.
      + destruct v as [| | |l|]; try discriminate.
        * inversion He; subst. apply cf_list. constructor.
        * inversion Ht; subst. clear Ht.
          revert j He. match goal with H : Forall _ l |- _ => induction H as [|x r Hx Hr IHl] end; intros j He.
          -- inversion He; subst. apply cf_list. constructor.
          -- destruct (eval sch tbl f t' sel x) as [j0| |] eqn:Ex;
               try (match type of He with context [match ?G with _ => _ end] => destruct G as [[| | | |js|]| |] eqn:Eg end);
               try discriminate.
             inversion He; subst. specialize (IHl (JArr js) eq_refl). inversion IHl; subst.
             apply cf_list. constructor; auto. eapply IH1; eauto.
      + inversion Ht; subst. apply cf_nonnull; [|eapply IH1; eauto].
        match goal with H : _ <> VNull \/ _ = true |- _ => destruct H as [Hv|Hentry] end;
          [left; eapply eval_not_null; eauto | right; auto].
    - intros tn fs flds sfs kvs Hft He. simpl in He.
      destruct sfs as [|[[alias name] sub] r]; [inversion He; subst; constructor|].
      destruct (String.eqb name "__typename") eqn:En.
      + apply String.eqb_eq in En; subst.
        destruct sub; [discriminate|].
        destruct (eval_fields sch tbl f tn fs flds r) as [[| | | | |kvs']| |] eqn:Er; try discriminate.
        inversion He; subst. constructor. eapply IH2; eauto.
      + destruct (lookup name fs) as [ft|] eqn:Ef; [|discriminate].
        destruct (lookup name flds) as [v'|] eqn:Ev; [|discriminate].
        destruct (eval sch tbl f ft sub v') as [j0| |] eqn:Ee;
          destruct (eval_fields sch tbl f tn fs flds r) as [[| | | | |kvs']| |] eqn:Er; try discriminate.
        inversion He; subst. inversion Hft as [fs0 flds0 Hall]; subst.
        destruct (Hall name ft Ef) as [v0 [Hv0 Ht0]]. rewrite Ev in Hv0. inversion Hv0; subst.
        eapply cff_field; eauto.
        intros Hc; subst. rewrite String.eqb_refl in En; discriminate.
  Qed.
End Soundness.

(** A small schema, selection and data for the examples of Props/C14.v. *)
Definition ex_sch : schema :=
  [("Query", DObject [("obj", TNamed "Obj"); ("n", TNonNull (TNamed "int64"))] None);
   ("Obj", DObject [("tags", TNonNull (TList (TNonNull (TNamed "string")))); ("shade", TNonNull (TNamed "Shade"))] None);
   ("Shade", DEnum ["DARK"; "LIGHT"]); ("int64", DScalar); ("string", DScalar)].
Definition ex_sel : list titem :=
  [TField "n" "n" [] [] None;
   TField "o" "obj" [] [] (Some [TField "__typename" "__typename" [] [] None; TField "tags" "tags" [] [] None;
                                 TInline "Obj" [] [TField "shade" "shade" [] [] None]])].
Definition ex_data : value :=
  VObj "Query" [("n", VScalar (JNum 3)); ("obj", VObj "Obj" [("tags", VList [VScalar (JStr "a"); VNull]); ("shade", VEnum "DARK")])].

Lemma ex_data_typed : has_type ex_sch false (TNamed "Query") ex_data.
Proof.
  eapply ht_obj; [reflexivity|]. constructor. intros f ft H. cbn [lookup] in H.
  destruct (String.eqb f "obj") eqn:E1.
  - apply String.eqb_eq in E1; subst. inversion H; subst. eexists; split; [reflexivity|].
    eapply ht_obj; [reflexivity|]. constructor. intros g gt Hg. cbn [lookup] in Hg.
    destruct (String.eqb g "tags") eqn:E2.
    + apply String.eqb_eq in E2; subst. inversion Hg; subst. eexists; split; [reflexivity|].
      apply ht_nonnull; [left; discriminate|]. apply ht_list. constructor.
      * apply ht_nonnull; [left; discriminate|]. eapply ht_scalar; reflexivity.
      * constructor; [|constructor]. apply ht_nonnull; [right; reflexivity|]. apply ht_null.
    + destruct (String.eqb g "shade") eqn:E3; [|discriminate].
      apply String.eqb_eq in E3; subst. inversion Hg; subst. eexists; split; [reflexivity|].
      apply ht_nonnull; [left; discriminate|]. eapply ht_enum; [reflexivity|]. simpl; auto.
  - destruct (String.eqb f "n") eqn:E2; [|discriminate].
    apply String.eqb_eq in E2; subst. inversion H; subst. eexists; split; [reflexivity|].
    apply ht_nonnull; [left; discriminate|]. eapply ht_scalar; reflexivity.
Qed.
