(** C15: facts about the envelope layer, for every JSON value a client may send. *)
From Coq Require Import List ZArith String Ascii Bool Arith Lia.
From Thunder Require Import Lib.Json GqlTyping.Types GqlTyping.Envelope.
Import ListNotations.
Open Scope string_scope.
Open Scope list_scope.

Lemma env_member_bad e b k v :
  snd (env_member e b k v) = b || negb (member_kind_ok k v).
Proof.
  unfold env_member, member_kind_ok. destruct (field_of env_fields k) as [f|]; [|cbn; rewrite orb_false_r; reflexivity].
  destruct (String.eqb f "id"); cbn [orb].
  - destruct v; cbn; rewrite ?orb_false_r, ?orb_true_r; reflexivity.
  - destruct (String.eqb f "type").
    + destruct v; cbn; rewrite ?orb_false_r, ?orb_true_r; reflexivity.
    + destruct (String.eqb f "message"); [cbn; rewrite orb_false_r; reflexivity|].
      destruct v; cbn; rewrite ?orb_false_r, ?orb_true_r; reflexivity.
Qed.

Lemma env_members_bad kvs : forall e b,
  snd (env_members e b kvs) = b || negb (forallb (fun kv => member_kind_ok (fst kv) (snd kv)) kvs).
Proof.
  induction kvs as [|[k v] r IH]; intros e b; cbn [env_members forallb fst snd].
  - rewrite orb_false_r. reflexivity.
  - pose proof (env_member_bad e b k v) as H. destruct (env_member e b k v) as [e' b']. cbn [snd] in H.
    rewrite IH, H. destruct b, (member_kind_ok k v); reflexivity.
Qed.

Lemma decode_envelope_some input :
  (exists e, match input with Some j => decode_envelope j = Some e | None => False end) <-> envelope_shape_ok input = true.
Proof.
  unfold envelope_shape_ok. destruct input as [j|]; [|split; [intros [e []] | discriminate]].
  destruct j as [| | | | |kvs]; cbn [decode_envelope]; try (split; [intros [e H]; discriminate | discriminate]).
  - split; [reflexivity | intros _; eexists; reflexivity].
  - pose proof (env_members_bad kvs env_zero false) as H.
    destruct (env_members env_zero false kvs) as [e b]. cbn [snd orb] in H. subst b.
    destruct (forallb _ kvs); cbn [negb]; split; try reflexivity; try discriminate.
    + intros _. eexists; reflexivity.
    + intros [e' He]. discriminate.
Qed.

(** The connection ends exactly on input that is not JSON, not an object (or null), or whose id / type /
    extensions have the wrong kind; never because of what an envelope asks for. *)
Lemma ends_iff maxsubs subs input valid :
  fst (env_step maxsubs subs input valid) = REnds <-> envelope_shape_ok input = false.
Proof.
  pose proof (decode_envelope_some input) as Hd. unfold env_step.
  destruct input as [j|]; [|cbn; split; reflexivity].
  destruct (decode_envelope j) as [e|] eqn:E.
  - assert (Hs : envelope_shape_ok (Some j) = true) by (apply Hd; exists e; reflexivity). rewrite Hs.
    split; [|discriminate]. intros H. exfalso.
    repeat match type of H with
           | context [if ?c then _ else _] => destruct c
           end; cbn in H; discriminate.
  - split; [intros _|reflexivity].
    destruct (envelope_shape_ok (Some j)) eqn:Es; [|reflexivity].
    destruct (proj2 Hd eq_refl) as [e He]. discriminate.
Qed.

Lemma In_remove_id x id l : In x l -> x <> id -> In x (remove_id id l).
Proof.
  intros Hin Hne. unfold remove_id. apply filter_In. split; [exact Hin|].
  destruct (String.eqb x id) eqn:E; [apply String.eqb_eq in E; contradiction | reflexivity].
Qed.

(** Whatever one envelope is, every other subscription of the connection stays in the table - unless the
    connection ends (previous lemma) or the envelope is an unsubscribe naming it. *)
Lemma others_survive maxsubs subs input valid x :
  In x subs -> fst (env_step maxsubs subs input valid) <> REnds ->
  In x (snd (env_step maxsubs subs input valid)) \/
  exists j e, input = Some j /\ decode_envelope j = Some e /\ v_type e = "unsubscribe" /\ v_id e = x.
Proof.
  intros Hin Hne. unfold env_step in *.
  destruct input as [j|]; [|exfalso; apply Hne; reflexivity].
  destruct (decode_envelope j) as [e|] eqn:E; [|exfalso; apply Hne; reflexivity].
  destruct (String.eqb (v_type e) "subscribe").
  { repeat match goal with |- context [if ?c then _ else _] => destruct c end; cbn [snd]; left; auto; right; exact Hin. }
  destruct (String.eqb (v_type e) "unsubscribe") eqn:Eu.
  { cbn [snd]. destruct (String.eqb x (v_id e)) eqn:Ex.
    - apply String.eqb_eq in Ex. apply String.eqb_eq in Eu. right. exists j, e. auto.
    - left. apply In_remove_id; [exact Hin|]. intros Hc. subst. rewrite String.eqb_refl in Ex. discriminate. }
  repeat match goal with |- context [if ?c then _ else _] => destruct c end; cbn [snd]; left; exact Hin.
Qed.

(** An envelope that is answered with an error, or an echo, changes nothing. *)
Lemma error_changes_nothing maxsubs subs input valid :
  fst (env_step maxsubs subs input valid) = RSyncError \/ fst (env_step maxsubs subs input valid) = REcho ->
  snd (env_step maxsubs subs input valid) = subs.
Proof.
  unfold env_step. destruct input as [j|]; [|intros [H|H]; discriminate].
  destruct (decode_envelope j) as [e|]; [|intros [H|H]; discriminate].
  repeat match goal with |- context [if ?c then _ else _] => destruct c end; cbn [fst snd]; intros [H|H]; try discriminate; reflexivity.
Qed.

(** HTTP: a body runs only if it decodes and validates; everything else is answered with `errors`. *)
Lemma http_runs_iff body valid : http_step body valid = HRuns <-> http_body_ok body = true /\ valid = true.
Proof. unfold http_step. destruct (http_body_ok body), valid; cbn; split; try tauto; try discriminate; intros [? ?]; discriminate. Qed.

(** Examples. *)
Definition ex_sub (id q : string) : json := JObj [("id", JStr id); ("type", JStr "subscribe"); ("message", JObj [("query", JStr q)])].

Lemma ex_script :
  env_script 200 []
    [(Some (ex_sub "h1" "{ a }"), (true, false));
     (Some (JObj [("ID", JStr "x"); ("Type", JStr "subscribe"); ("MESSAGE", JObj [("query", JNum 5)])]), (false, false));
     (Some (ex_sub "h1" "{ a }"), (true, false));
     (Some (JObj [("id", JStr "e"); ("type", JStr "echo"); ("extensions", JNull)]), (false, false));
     (Some (JObj [("type", JStr "frobnicate")]), (false, false));
     (Some (JObj [("id", JStr "u"); ("type", JStr "url"); ("message", JNum 7)]), (false, false));
     (Some (JObj [("id", JStr "h1"); ("type", JStr "unsubscribe")]), (false, false));
     (Some JNull, (false, false));
     (Some (JObj [("id", JNum 5)]), (false, false));
     (Some (ex_sub "never" "{ a }"), (true, false))]
  = [RNoSyncReply; RSyncError; RSyncError; REcho; RSyncError; RSyncError; RNoSyncReply; RSyncError; REnds].
Proof. reflexivity. Qed.
