(** The one-shot request pattern of graphql/http.go ServeHTTP and federation/server.go ExecuteRequest:
    the handler starts a reactive.Rerunner whose computation signals completion (wg.Done / close(done)),
    waits for that signal, then calls Stop.  reactive.Rerunner.run (rerunner.go ~356-370) returns
    without calling the computation when its context is already cancelled.

    Labels are the atomic steps; [Cancel] is the environment (client gone, sibling sub-query failed). *)
From Coq Require Import List Bool Arith.
Import ListNotations.

Inductive runner := RInit | RComputing | RSkipped | RFinished.
   (* RInit: goroutine started, at the select; RSkipped: returned because ctx.Err() != nil *)
Inductive handler := HWaiting | HStopping | HReturned.

Record ostate := {
  req_cancelled : bool;   (* the request's context *)
  run_cancelled : bool;   (* the rerunner's context (child of the request's; Stop cancels it) *)
  rn : runner;
  hd : handler;
  signalled : bool        (* wg.Done() / close(done) happened *)
}.

Inductive label := Cancel | RunnerSelect | ComputeFinish | HandlerWake | HandlerStop.

Definition init : ostate :=
  {| req_cancelled := false; run_cancelled := false; rn := RInit; hd := HWaiting; signalled := false |}.

(** [sel_ctx]: the repaired handlers also select on the request context. *)
Definition step (sel_ctx : bool) (s : ostate) (l : label) : option ostate :=
  match l with
  | Cancel =>
      if req_cancelled s then None
      else Some {| req_cancelled := true; run_cancelled := true; rn := rn s; hd := hd s; signalled := signalled s |}
  | RunnerSelect =>
      match rn s with
      | RInit =>
          Some {| req_cancelled := req_cancelled s; run_cancelled := run_cancelled s;
                  rn := if run_cancelled s then RSkipped else RComputing; hd := hd s; signalled := signalled s |}
      | _ => None
      end
  | ComputeFinish =>
      match rn s with
      | RComputing =>
          Some {| req_cancelled := req_cancelled s; run_cancelled := run_cancelled s;
                  rn := RFinished; hd := hd s; signalled := true |}
      | _ => None
      end
  | HandlerWake =>
      match hd s with
      | HWaiting =>
          if signalled s || (sel_ctx && req_cancelled s) then
            (* Stop() begins by cancelling the rerunner's context *)
            Some {| req_cancelled := req_cancelled s; run_cancelled := true; rn := rn s; hd := HStopping; signalled := signalled s |}
          else None
      | _ => None
      end
  | HandlerStop =>
      (* Stop() takes r.mu, which run holds while the computation is in progress *)
      match hd s, rn s with
      | HStopping, RComputing => None
      | HStopping, _ =>
          Some {| req_cancelled := req_cancelled s; run_cancelled := run_cancelled s; rn := rn s; hd := HReturned; signalled := signalled s |}
      | _, _ => None
      end
  end.

Fixpoint run (sel_ctx : bool) (s : ostate) (tr : list label) : option ostate :=
  match tr with
  | [] => Some s
  | l :: t => match step sel_ctx s l with Some s' => run sel_ctx s' t | None => None end
  end.

Definition system_labels : list label := [RunnerSelect; ComputeFinish; HandlerWake; HandlerStop].

Definition enabled (sel_ctx : bool) (s : ostate) (l : label) : bool :=
  match step sel_ctx s l with Some _ => true | None => false end.

(** Nothing of the system can move any more. *)
Definition quiescent (sel_ctx : bool) (s : ostate) : bool :=
  negb (existsb (enabled sel_ctx s) system_labels).

(** Progress measure: every system step lowers it. *)
Definition measure (s : ostate) : nat :=
  (match rn s with RInit => 2 | RComputing => 1 | _ => 0 end) +
  (match hd s with HWaiting => 2 | HStopping => 1 | HReturned => 0 end).
