(** Correspondence evaluator for C14: per generated schema, what the harness walked from the built
    graphql.Schema, what introspection.ComputeSchemaJSON printed, and PrepareQuery's verdict on each
    generated query. *)
From Coq Require Import List ZArith String Bool Arith.
From Thunder Require Import Lib.Json GqlTyping.Types GqlTyping.Parse GqlTyping.Typing GqlTyping.Introspect GqlTyping.Conformb GqlTyping.GoTypes.
Import ListNotations.
Open Scope string_scope.
Open Scope list_scope.

(** [c_x]: the built schema with everything introspection prints, Go map entries in shuffled order;
    [c_types]: `__schema.types` of introspection.ComputeSchemaJSON, as printed; [c_resps]: the validated
    queries that were executed, with the response the executor returned (`__key` entries dropped);
    [c_scalars]: the `scalars` table of schemabuilder/build.go as go/ast reads it from the tree under test
    (Go type expression, scalar name); [c_gofields]: owner, graphql name, way of registration and Go type
    of every generated field (paginated fields excepted). *)
Record case14 := mk14 { c_sch : schema; c_isch : schema; c_queries : list (gdoc * nat);
                        c_x : xschema; c_types : json; c_resps : list (gdoc * json);
                        c_scalars : list (string * string);
                        c_gofields : list (string * string * fkind * gotype) }.

(** The verdict only (0 accepted, 1 client error, 99 crash), never the wording of the error. *)
Definition verdict_code {A} (r : res A) : nat :=
  match r with ROk _ => 0 | RErr _ => 1 | RCrash _ => 99 end.

(** Component codes: 1 introspection JSON differs from [advertised] of the walked schema; 2 a scalar
    outside the scalar table; 3 walked schema not closed; 4 PrepareQuery's verdict differs from
    [prepare]; 5 the model of the memoised PrepareQuery and of the original disagree; 6 the model
    cannot convert a query graphql.Parse accepted. *)
Definition check_query (sch : schema) (qc : gdoc * nat) : list nat :=
  let '(doc, code) := qc in
  match convert cur doc [] with
  | ROk (q, _) =>
      let m := verdict_code (prepare cur sch "Query" q) in
      (if Nat.eqb m code then [] else [4]) ++
      (if Nat.eqb m (verdict_code (prepare orig sch "Query" q)) then [] else [5])
  | _ => [6]
  end.

(** Scalars that only the introspection vocabulary uses (bool, string, …) are printed too: composite
    and enum types must agree exactly, every walked scalar must be printed. *)
Definition non_scalar (e : string * tdef) : bool := match snd e with DScalar => false | _ => true end.
Definition scalar_names (s : schema) : list string := map fst (filter (fun e => negb (non_scalar e)) s).

Definition same_advertised (walked printed : schema) : bool :=
  schema_eqb (filter non_scalar (advertised walked)) (filter non_scalar printed) &&
  forallb (fun n => mem n (scalar_names printed)) (scalar_names walked).

(** Components of the introspection model: 7 the model's rendering of the built schema differs from the
    printed `types`; 8 the model's reader cannot read the printed `types`, or reads something else than
    the harness's own reader did; 9 the two walks of the built schema disagree; 10 a response does not
    conform (model's [rconformsb]) to the schema read from the printed JSON; 11 the scalar table of
    build.go differs from the model's; 13 the built schema is outside [xwf], the premise of the
    truthfulness theorems. *)
Definition resp_fuel : nat := 64.

Definition check_resp (adv : schema) (qr : gdoc * json) : list nat :=
  let '(doc, resp) := qr in
  match convert cur doc [] with
  | ROk (q, _) =>
      if rconformsb adv (q_frags q) resp_fuel false (TNonNull (TNamed "Query")) (Some (q_sel q)) resp then [] else [10]
  | _ => [6]
  end.

(** Go type expression of a scalar -> JSON kind of its rendering (bool; integer and float kinds;
    string, time.Time as RFC 3339 text, []byte as base64 text). *)
Definition go_scalar_kind (g : string) : option jkind :=
  if String.eqb g "bool" then Some KBool
  else if mem g ["int"; "int8"; "int16"; "int32"; "int64"; "uint"; "uint8"; "uint16"; "uint32"; "uint64"; "float32"; "float64"] then Some KNumber
  else if mem g ["string"; "time.Time"; "[]byte"] then Some KString
  else None.

Definition scalars_match (src : list (string * string)) : bool :=
  Nat.eqb (List.length src) (List.length scalar_table) &&
  forallb (fun e => match go_scalar_kind (fst e), scalar_kind (snd e) with
                    | Some k, Some k' => match k, k' with KBool, KBool | KNumber, KNumber | KString, KString => true | _, _ => false end
                    | _, _ => false
                    end) src &&
  forallb (fun e => mem (fst e) (map snd src)) scalar_table.

(** 12: the model of getType / getReturnType / consumeReturnValue gives a generated field another type
    than the builder gave it (fields of types that are not reachable from the roots are not walked). *)
Definition check_gofield (sch : schema) (e : string * string * fkind * gotype) : bool :=
  let '(owner, name, k, g) := e in
  match lookup owner sch with
  | Some (DObject fs _) =>
      match lookup name fs, field_type k g with
      | Some t, Some t' => tref_eqb t t'
      | _, _ => false
      end
  | Some _ => false
  | None => true
  end.

Definition check_introspection (c : case14) : list nat :=
  (if forallb (check_gofield (c_sch c)) (c_gofields c) then [] else [12]) ++
  (if xwf (c_x c) then [] else [13]) ++
  (if json_eqb (norm (introspect_types (c_x c))) (norm (c_types c)) then [] else [7]) ++
  (if schema_eqb (filter non_scalar (erase (xnormalize (c_x c)))) (filter non_scalar (advertised (c_sch c))) then [] else [9]) ++
  (if scalars_match (c_scalars c) then [] else [11]) ++
  match read_types (c_types c) with
  | None => [8]
  | Some y =>
      (if schema_eqb (erase y) (c_isch c) then [] else [8]) ++
      nodup Nat.eq_dec (flat_map (check_resp (erase y)) (c_resps c))
  end.

Definition check_case14 (c : case14) : list nat :=
  (if same_advertised (c_sch c) (c_isch c) then [] else [1]) ++
  (if scalars_in_table (c_isch c) then [] else [2]) ++
  (if schema_closedb (c_sch c) then [] else [3]) ++
  nodup Nat.eq_dec (flat_map (check_query (c_sch c)) (c_queries c)) ++
  check_introspection c.

Fixpoint mismatches_c14 (_ : nat) (cs : list (nat * case14)) : list (nat * list nat) :=
  match cs with
  | [] => []
  | (i, c) :: t => match check_case14 c with
                   | [] => mismatches_c14 0 t
                   | l => (i, l) :: mismatches_c14 0 t
                   end
  end.
