(** Correspondence evaluator for C14: per generated schema, what the harness walked from the built
    graphql.Schema, what introspection.ComputeSchemaJSON printed, and PrepareQuery's verdict on each
    generated query. *)
From Coq Require Import List ZArith String Bool Arith.
From Thunder Require Import Lib.Json GqlTyping.Types GqlTyping.Parse GqlTyping.Typing.
Import ListNotations.
Open Scope string_scope.
Open Scope list_scope.

Record case14 := mk14 { c_sch : schema; c_isch : schema; c_queries : list (gdoc * nat) }.

(** The verdict only (0 accepted, 1 client error, 99 crash), never the wording of the error. *)
Definition verdict_code {A} (r : res A) : nat :=
  match r with ROk _ => 0 | RErr _ => 1 | RCrash _ => 99 end.

(** Component codes: 1 introspection JSON differs from [advertised] of the walked schema; 2 a scalar
    outside the scalar table; 3 walked schema not closed; 4 PrepareQuery's verdict differs from
    [prepare]; 5 the model of the memoised PrepareQuery and of the original disagree; 6 the model
    cannot convert a query graphql.Parse accepted. *)
Definition check_query (sch : schema) (qc : gdoc * nat) : list nat :=
  let '(doc, code) := qc in
  match convert cur doc [] with
  | ROk (q, _) =>
      let m := verdict_code (prepare cur sch "Query" q) in
      (if Nat.eqb m code then [] else [4]) ++
      (if Nat.eqb m (verdict_code (prepare orig sch "Query" q)) then [] else [5])
  | _ => [6]
  end.

(** Scalars that only the introspection vocabulary uses (bool, string, …) are printed too: composite
    and enum types must agree exactly, every walked scalar must be printed. *)
Definition non_scalar (e : string * tdef) : bool := match snd e with DScalar => false | _ => true end.
Definition scalar_names (s : schema) : list string := map fst (filter (fun e => negb (non_scalar e)) s).

Definition same_advertised (walked printed : schema) : bool :=
  schema_eqb (filter non_scalar (advertised walked)) (filter non_scalar printed) &&
  forallb (fun n => mem n (scalar_names printed)) (scalar_names walked).

Definition check_case14 (c : case14) : list nat :=
  (if same_advertised (c_sch c) (c_isch c) then [] else [1]) ++
  (if scalars_in_table (c_isch c) then [] else [2]) ++
  (if schema_closedb (c_sch c) then [] else [3]) ++
  nodup Nat.eq_dec (flat_map (check_query (c_sch c)) (c_queries c)).

Fixpoint mismatches_c14 (_ : nat) (cs : list (nat * case14)) : list (nat * list nat) :=
  match cs with
  | [] => []
  | (i, c) :: t => match check_case14 c with
                   | [] => mismatches_c14 0 t
                   | l => (i, l) :: mismatches_c14 0 t
                   end
  end.
