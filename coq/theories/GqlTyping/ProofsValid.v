(** What a successful PrepareQuery certifies, for every variant of the traversal (with or without the
    (type, selection set) memo): the final set of checked (type, fragment) pairs justifies itself, and
    relative to it every selection set the traversal walked into is well-formed.  Skipping a pair that
    is already in the set therefore never hides a failure (C14 (c)), and the reference evaluator cannot
    meet a shape error (C14 (a)). *)
From Coq Require Import List ZArith String Bool Arith Lia.
From Thunder Require Import Lib.Json GqlTyping.Types GqlTyping.Parse GqlTyping.ProofsParse GqlTyping.ProofsExec
     GqlTyping.Typing GqlTyping.ProofsTyping.
Import ListNotations.
Open Scope string_scope.
Open Scope list_scope.

Definition pairs := list (string * string).

Lemma pmem_In k (l : pairs) : pmem k l = true <-> In k l.
Proof.
  unfold pmem. rewrite existsb_exists. destruct k as [a b]. split.
  - intros [[x y] [Hin He]]. simpl in He. apply andb_prop in He as [H1 H2].
    apply String.eqb_eq in H1, H2. subst; auto.
  - intros H. exists (a, b). split; auto. simpl. rewrite !String.eqb_refl. reflexivity.
Qed.

Section Okr.
  Variable sch : schema.
  Variable tbl : ftable.

  Definition leaf_type (tn : string) : Prop :=
    lookup tn sch = Some DScalar \/ exists vs, lookup tn sch = Some (DEnum vs).

  (** [okr S tn it]: item [it] of a selection set under the composite type [tn] is well-formed, where a
      spread is only required to be in the set [S] of checked pairs. *)
  Inductive okr (S : pairs) : string -> titem -> Prop :=
  | ok_typename_obj : forall tn fs k a args ds,
      lookup tn sch = Some (DObject fs k) -> is_nil_args args = true -> okr S tn (TField a "__typename" args ds None)
  | ok_typename_union : forall tn ms a args ds,
      lookup tn sch = Some (DUnion ms) -> is_nil_args args = true -> okr S tn (TField a "__typename" args ds None)
  | ok_leaf : forall tn fs k a name args ds ft,
      lookup tn sch = Some (DObject fs k) -> name <> "__typename" -> lookup name fs = Some ft ->
      leaf_type (named_of ft) -> okr S tn (TField a name args ds None)
  | ok_comp : forall tn fs k a name args ds ft l,
      lookup tn sch = Some (DObject fs k) -> name <> "__typename" -> lookup name fs = Some ft ->
      composite sch (named_of ft) -> Forall (okr S (named_of ft)) l -> okr S tn (TField a name args ds (Some l))
  | ok_spread_obj : forall tn fs k n ds on body,
      lookup tn sch = Some (DObject fs k) -> lookup n tbl = Some (on, body) -> In (tn, n) S -> okr S tn (TSpread n ds)
  | ok_spread_union : forall tn ms n ds on body,
      lookup tn sch = Some (DUnion ms) -> lookup n tbl = Some (on, body) -> (In on ms -> In (on, n) S) ->
      okr S tn (TSpread n ds)
  | ok_inline_obj : forall tn fs k on ds l,
      lookup tn sch = Some (DObject fs k) -> Forall (okr S tn) l -> okr S tn (TInline on ds l)
  | ok_inline_union : forall tn ms on ds l,
      lookup tn sch = Some (DUnion ms) -> (In on ms -> composite sch on /\ Forall (okr S on) l) ->
      okr S tn (TInline on ds l).

  Definition okl (S : pairs) (tn : string) (l : list titem) : Prop := composite sch tn /\ Forall (okr S tn) l.

  (** A checked pair is justified when the fragment's body is well-formed under that type. *)
  Definition justified (S : pairs) (p : string * string) : Prop :=
    exists on body, lookup (snd p) tbl = Some (on, body) /\ okl S (fst p) body.

  Lemma okr_mono S S' : incl S S' -> forall it tn, okr S tn it -> okr S' tn it.
  Proof.
    intros Hi. induction it using titem_ind'; intros tn Ho; inversion Ho; subst.
    - eapply ok_typename_obj; eauto.
    - eapply ok_typename_union; eauto.
    - eapply ok_leaf; eauto.
    - eapply ok_comp; eauto. rewrite Forall_forall in *. intros x Hx. apply H; auto.
    - eapply ok_spread_obj; eauto.
    - eapply ok_spread_union; eauto.
    - eapply ok_inline_obj; eauto. rewrite Forall_forall in *. intros x Hx. apply H; auto.
    - eapply ok_inline_union; eauto. intros Hm. destruct (H5 Hm) as [Hc Hf]. split; auto.
      rewrite Forall_forall in *. intros x Hx. apply H; auto.
  Qed.

  Lemma okl_mono S S' tn l : incl S S' -> okl S tn l -> okl S' tn l.
  Proof.
    intros Hi [Hc Hf]. split; auto. rewrite Forall_forall in *. intros x Hx. eapply okr_mono; eauto.
  Qed.

  Lemma justified_mono S S' p : incl S S' -> justified S p -> justified S' p.
  Proof. intros Hi [on [body [Hl Ho]]]. exists on, body. split; auto. eapply okl_mono; eauto. Qed.
End Okr.

(** * What one successful step of the traversal establishes *)
Section Traversal.
  Variable sch : schema.
  Variable tbl : ftable.

  Definition okb (S : pairs) (tn : string) (b : bool) (it : titem) : Prop :=
    match it with
    | TField _ _ _ _ _ => if b then okr sch tbl S tn it else True
    | _ => if b then True else okr sch tbl S tn it
    end.

  Lemma okb_mono S S' tn b it : incl S S' -> okb S tn b it -> okb S' tn b it.
  Proof. intros Hi. destruct it, b; simpl; auto; apply okr_mono; auto. Qed.

  Lemma okb_both S tn it : okb S tn true it -> okb S tn false it -> okr sch tbl S tn it.
  Proof. destruct it; simpl; auto. Qed.

  Definition newjust (st st' : pstate) : Prop :=
    forall p, In p (p_seen st') -> In p (p_seen st) \/ justified sch tbl (p_seen st') p.

  Definition srel (Q : pairs -> Prop) (st st' : pstate) : Prop :=
    incl (p_seen st) (p_seen st') /\ Q (p_seen st') /\ newjust st st'.

  Lemma newjust_refl st : newjust st st.
  Proof. intros p Hp; left; auto. Qed.

  Lemma newjust_trans a b c : incl (p_seen b) (p_seen c) -> newjust a b -> newjust b c -> newjust a c.
  Proof.
    intros Hi H1 H2 p Hp. destruct (H2 p Hp) as [Hb|Hj]; auto.
    destruct (H1 p Hb) as [Ha|Hj]; auto. right. eapply justified_mono; eauto.
  Qed.

  Lemma fold_srel (f : pstate -> titem -> res pstate) (Q : pairs -> titem -> Prop) l :
    (forall S S' x, incl S S' -> Q S x -> Q S' x) ->
    (forall x st st', In x l -> f st x = ROk st' -> srel (fun S => Q S x) st st') ->
    forall st st', fold_res f st l = ROk st' -> srel (fun S => forall x, In x l -> Q S x) st st'.
  Proof.
    intros Hmono. induction l as [|y t IH]; intros Hf st st' H; simpl in H.
    - inversion H; subst. split; [apply incl_refl|]. split; [intros x []|apply newjust_refl].
    - destruct (f st y) as [st1| |] eqn:E; try discriminate.
      destruct (Hf y st st1 (or_introl eq_refl) E) as [I1 [Q1 N1]].
      destruct (IH (fun x s s' Hx => Hf x s s' (or_intror Hx)) st1 st' H) as [I2 [Q2 N2]].
      split; [eapply incl_tran; eauto|]. split.
      + intros x [Hx|Hx]; [subst; eapply Hmono; eauto | apply Q2; auto].
      + eapply newjust_trans; eauto.
  Qed.

  Lemma two_pass_srel (item : bool -> pstate -> titem -> res pstate) tn l :
    (forall b x st st', In x l -> item b st x = ROk st' -> srel (fun S => okb S tn b x) st st') ->
    forall st st', two_pass item st l = ROk st' -> srel (fun S => Forall (okr sch tbl S tn) l) st st'.
  Proof.
    intros Hf st st' H. unfold two_pass in H.
    destruct (fold_res (item true) st l) as [st1| |] eqn:E; try discriminate.
    destruct (fold_srel (item true) (fun S x => okb S tn true x) l (fun S S' x => okb_mono S S' tn true x) (Hf true) st st1 E)
      as [I1 [Q1 N1]].
    destruct (fold_srel (item false) (fun S x => okb S tn false x) l (fun S S' x => okb_mono S S' tn false x) (Hf false) st1 st' H)
      as [I2 [Q2 N2]].
    split; [eapply incl_tran; eauto|]. split; [|eapply newjust_trans; eauto].
    rewrite Forall_forall. intros x Hx. apply okb_both; auto. eapply okb_mono; eauto.
  Qed.

  Lemma two_pass_rev_srel (item : bool -> pstate -> titem -> res pstate) tn l :
    (forall b x st st', In x l -> item b st x = ROk st' -> srel (fun S => okb S tn b x) st st') ->
    forall st st', two_pass_rev item st l = ROk st' -> srel (fun S => Forall (okr sch tbl S tn) l) st st'.
  Proof.
    intros Hf st st' H. unfold two_pass_rev in H.
    destruct (fold_res (item false) st l) as [st1| |] eqn:E; try discriminate.
    destruct (fold_srel (item false) (fun S x => okb S tn false x) l (fun S S' x => okb_mono S S' tn false x) (Hf false) st st1 E)
      as [I1 [Q1 N1]].
    destruct (fold_srel (item true) (fun S x => okb S tn true x) l (fun S S' x => okb_mono S S' tn true x) (Hf true) st1 st' H)
      as [I2 [Q2 N2]].
    split; [eapply incl_tran; eauto|]. split; [|eapply newjust_trans; eauto].
    rewrite Forall_forall. intros x Hx. apply okb_both; auto. eapply okb_mono; eauto.
  Qed.

  (** PrepareQuery(type tn, non-nil selection set l). *)
  Lemma prep_list_srel (item : string -> bool -> pstate -> titem -> res pstate) tn st st' l :
    (forall b x s s', In x l -> item tn b s x = ROk s' -> srel (fun S => okb S tn b x) s s') ->
    prep_list sch item tn st l = ROk st' -> srel (fun S => okl sch tbl S tn l) st st'.
  Proof.
    intros Hf H. unfold prep_list in H.
    destruct (lookup tn sch) as [[|vs|fs k|ms]|] eqn:E; try discriminate.
    - destruct (two_pass_srel (item tn) tn l Hf (p_add 1 st) st' H) as [I1 [Q1 N1]].
      split; [exact I1|]. split; [split; auto; left; eauto | exact N1].
    - destruct (two_pass_rev_srel (item tn) tn l Hf (p_add 1 st) st' H) as [I1 [Q1 N1]].
      split; [exact I1|]. split; [split; auto; right; eauto | exact N1].
  Qed.

  Lemma srel_refl (Q : pairs -> Prop) st : Q (p_seen st) -> srel Q st st.
  Proof. intros H. split; [apply incl_refl|]. split; [auto | apply newjust_refl]. Qed.

  Lemma srel_seen (Q : pairs -> Prop) st st' : p_seen st' = p_seen st -> Q (p_seen st) -> srel Q st st'.
  Proof.
    intros He H. unfold srel, newjust. rewrite He. split; [apply incl_refl|]. split; [auto | intros p Hp; left; auto].
  Qed.

  Lemma eqb_neq a b : String.eqb a b = false -> a <> b.
  Proof. intros H Hc; subst. rewrite String.eqb_refl in H; discriminate. Qed.

  Lemma typename_field_ok args sub st st' : typename_field args sub st = ROk st' ->
    st' = st /\ is_nil_args args = true /\ sub = None.
  Proof.
    unfold typename_field. destruct (is_nil_args args); simpl; [|discriminate].
    destruct sub; [discriminate|]. intros H; inversion H; auto.
  Qed.

  Lemma pq_item_srel v fuel : forall it tn b st st',
    pq_item v fuel sch tbl tn b st it = ROk st' -> srel (fun S => okb S tn b it) st st'.
  Proof.
    induction fuel as [|f IHf]; [intros it tn b st st' H; discriminate|].
    induction it using titem_ind'; intros tn b st st' H0; rewrite pq_unfold in H0.
    - (* leaf field *)
      destruct (lookup tn sch) as [[|vs|fs k|ms]|] eqn:E; try discriminate.
      + destruct b; [|inversion H0; subst; apply srel_refl; exact I].
        destruct (String.eqb n "__typename") eqn:En.
        * apply String.eqb_eq in En; subst. apply typename_field_ok in H0 as [-> [Ha _]].
          apply srel_refl. simpl. eapply ok_typename_obj; eauto.
        * destruct (lookup n fs) as [ft|] eqn:Ef; try discriminate.
          unfold prep_leaf in H0. destruct (lookup (named_of ft) sch) as [[|vs| |]|] eqn:El; try discriminate;
            inversion H0; subst; (apply srel_seen; [reflexivity|]); simpl; eapply ok_leaf; eauto using eqb_neq;
            [left; auto | right; eauto].
      + destruct b; [|inversion H0; subst; apply srel_refl; exact I].
        destruct (String.eqb n "__typename") eqn:En; try discriminate.
        apply String.eqb_eq in En; subst. apply typename_field_ok in H0 as [-> [Ha _]].
        apply srel_refl. simpl. eapply ok_typename_union; eauto.
    - (* field with sub-selection *)
      destruct (lookup tn sch) as [[|vs|fs k|ms]|] eqn:E; try discriminate.
      + destruct b; [|inversion H0; subst; apply srel_refl; exact I].
        destruct (String.eqb n "__typename") eqn:En.
        * apply typename_field_ok in H0 as [_ [_ Hc]]. discriminate.
        * destruct (lookup n fs) as [ft|] eqn:Ef; try discriminate.
          apply prep_list_srel in H0.
          -- destruct H0 as [I1 [[Hc Hf] N1]]. split; [exact I1|]. split; [|exact N1].
             simpl. eapply ok_comp; eauto using eqb_neq.
          -- intros b0 x s s' Hin Hx. rewrite Forall_forall in H. apply (H x Hin _ _ _ _ Hx).
      + destruct b; [|inversion H0; subst; apply srel_refl; exact I].
        destruct (String.eqb n "__typename") eqn:En; try discriminate.
        apply typename_field_ok in H0 as [_ [_ Hc]]. discriminate.
    - (* spread *)
      destruct (lookup tn sch) as [[|vs|fs k|ms]|] eqn:E; try discriminate.
      + destruct b; [inversion H0; subst; apply srel_refl; exact I|].
        destruct (lookup n tbl) as [[on body]|] eqn:El; try discriminate.
        destruct (fix21 v && pmem (tn, n) (p_seen st)) eqn:Em.
        * inversion H0; subst. apply srel_refl. simpl.
          apply andb_prop in Em as [_ Em]. apply pmem_In in Em. eapply ok_spread_obj; eauto.
        * apply prep_list_srel in H0; [|intros b0 x s s' _ Hx; apply (IHf x _ _ _ _ Hx)].
          destruct H0 as [I1 [Q1 N1]]. simpl in I1.
          assert (Hin : In (tn, n) (p_seen st')) by (apply I1; left; reflexivity).
          split; [intros p Hp; apply I1; right; exact Hp|]. split.
          -- simpl. eapply ok_spread_obj; eauto.
          -- intros p Hp. destruct (N1 p Hp) as [[Hq|Hq]|Hj]; auto.
             subst p. right. exists on, body. simpl. auto.
      + destruct b; [inversion H0; subst; apply srel_refl; exact I|].
        destruct (lookup n tbl) as [[on body]|] eqn:El; try discriminate.
        destruct (mem on ms) eqn:Emem.
        * destruct (fix21 v && pmem (on, n) (p_seen st)) eqn:Em.
          -- inversion H0; subst. apply srel_refl. simpl.
             apply andb_prop in Em as [_ Em]. apply pmem_In in Em. eapply ok_spread_union; eauto.
          -- apply prep_list_srel in H0; [|intros b0 x s s' _ Hx; apply (IHf x _ _ _ _ Hx)].
             destruct H0 as [I1 [Q1 N1]]. simpl in I1.
             assert (Hin : In (on, n) (p_seen st')) by (apply I1; left; reflexivity).
             split; [intros p Hp; apply I1; right; exact Hp|]. split.
             ++ simpl. eapply ok_spread_union; eauto.
             ++ intros p Hp. destruct (N1 p Hp) as [[Hq|Hq]|Hj]; auto.
                subst p. right. exists on, body. simpl. auto.
        * inversion H0; subst. apply srel_refl. simpl. eapply ok_spread_union; eauto.
          intros Hc. apply mem_In in Hc. rewrite Hc in Emem. discriminate.
    - (* inline fragment *)
      destruct (lookup tn sch) as [[|vs|fs k|ms]|] eqn:E; try discriminate.
      + destruct b; [inversion H0; subst; apply srel_refl; exact I|].
        apply prep_list_srel in H0.
        * destruct H0 as [I1 [[Hc Hf] N1]]. split; [exact I1|]. split; [|exact N1].
          simpl. eapply ok_inline_obj; eauto.
        * intros b0 x s s' Hin Hx. rewrite Forall_forall in H. apply (H x Hin _ _ _ _ Hx).
      + destruct b; [inversion H0; subst; apply srel_refl; exact I|].
        destruct (mem on ms) eqn:Emem.
        * apply prep_list_srel in H0.
          -- destruct H0 as [I1 [[Hc Hf] N1]]. split; [exact I1|]. split; [|exact N1].
             simpl. eapply ok_inline_union; eauto.
          -- intros b0 x s s' Hin Hx. rewrite Forall_forall in H. apply (H x Hin _ _ _ _ Hx).
        * inversion H0; subst. apply srel_refl. simpl. eapply ok_inline_union; eauto.
          intros Hc. apply mem_In in Hc. rewrite Hc in Emem. discriminate.
  Qed.

  (** The certificate of a successful PrepareQuery. *)
  Definition self_justified (S : pairs) : Prop := forall p, In p S -> justified sch tbl S p.

  Lemma prepare_certificate v root sel st' :
    prep_list sch (pq_item v (S (List.length tbl)) sch tbl) root {| p_seen := []; p_cost := 0 |} sel = ROk st' ->
    self_justified (p_seen st') /\ okl sch tbl (p_seen st') root sel.
  Proof.
    intros H. apply prep_list_srel in H; [|intros b x s s' _ Hx; apply (pq_item_srel v _ x _ _ _ _ Hx)].
    destruct H as [_ [Q1 N1]]. split; auto.
    intros p Hp. destruct (N1 p Hp) as [[]|Hj]; auto.
  Qed.
End Traversal.

(** * C14 (c), for every variant: an ill-formed applicable part is never accepted *)
Section Rejection.
  Variable sch : schema.
  Variable tbl : ftable.

  Lemma okl_applies S tn l tn' l' :
    self_justified sch tbl S -> okl sch tbl S tn l -> applies sch tbl tn l tn' l' -> okl sch tbl S tn' l'.
  Proof.
    intros Hs Ho Hap. induction Hap as
        [tn l
        | tn l fs k a name args ds sub ft tn' l' E Hin Hn Hl Hap IH
        | tn l fs k on ds sub tn' l' E Hin Hap IH
        | tn l ms on ds sub tn' l' E Hin Hm Hap IH
        | tn l fs k n ds on body tn' l' E Hin Hl Hap IH
        | tn l ms n ds on body tn' l' E Hin Hl Hm Hap IH]; auto; apply IH; clear IH;
      destruct Ho as [Hc Hf]; rewrite Forall_forall in Hf; specialize (Hf _ Hin); inversion Hf; subst;
      try congruence.
    - (* field *) match goal with H : lookup tn sch = Some (DObject ?fs' _), H2 : lookup name ?fs' = Some ?ft' |- _ =>
                    rewrite E in H; inversion H; subst; rewrite Hl in H2; inversion H2; subst end.
      split; auto.
    - (* inline under an object *) split; auto.
    - (* inline under a union *)
      match goal with H : lookup tn sch = Some (DUnion ?ms'), H2 : In on ?ms' -> _ |- _ =>
                        rewrite E in H; inversion H; subst; destruct (H2 Hm) as [Hc' Hf'] end.
      split; auto.
    - (* spread under an object *)
      match goal with H : In (tn, n) S |- _ => destruct (Hs _ H) as [on' [body' [Hl' Ho']]] end.
      simpl in Hl', Ho'. rewrite Hl in Hl'. inversion Hl'; subst. exact Ho'.
    - (* spread under a union *)
      match goal with H : lookup tn sch = Some (DUnion ?ms'), H1 : lookup n tbl = Some (?on', _), H2 : In ?on' ?ms' -> In _ S |- _ =>
                        rewrite E in H; inversion H; subst; rewrite Hl in H1; inversion H1; subst;
                        destruct (Hs _ (H2 Hm)) as [on'' [body'' [Hl'' Ho'']]] end.
      simpl in Hl'', Ho''. rewrite Hl in Hl''. inversion Hl''; subst. exact Ho''.
  Qed.

  Lemma okl_not_bad S tn l : okl sch tbl S tn l -> ~ bad sch tn l.
  Proof.
    intros [Hc Hf] Hb. rewrite Forall_forall in Hf.
    destruct Hb as [fs k a name args ds sub E Hin Hn Hl | ms a name args ds sub E Hin Hn
                   | fs k a name args ds sub ft E Hin Hn Hl Hleaf | fs k a name args ds ft E Hin Hn Hl Hcomp];
      specialize (Hf _ Hin); inversion Hf; subst; try congruence.
    - (* sub-selection on a leaf *)
      match goal with H : lookup tn sch = Some (DObject ?fs' _), H2 : lookup name ?fs' = Some ?ft', H3 : composite sch (named_of ?ft') |- _ =>
                        rewrite E in H; inversion H; subst; rewrite Hl in H2; inversion H2; subst;
                        destruct H3 as [[fs2 [k2 H3]]|[ms2 H3]]; destruct Hleaf as [Hx|[vs Hx]]; congruence end.
    - (* no sub-selection on a composite *)
      match goal with H : lookup tn sch = Some (DObject ?fs' _), H2 : lookup name ?fs' = Some ?ft', H3 : leaf_type sch (named_of ?ft') |- _ =>
                        rewrite E in H; inversion H; subst; rewrite Hl in H2; inversion H2; subst;
                        destruct H3 as [H3|[vs H3]]; destruct Hcomp as [[fs2 [k2 Hx]]|[ms2 Hx]]; congruence end.
  Qed.
End Rejection.

Lemma rejection_complete_all v sch root q tn' l' :
  applies sch (q_frags q) root (q_sel q) tn' l' -> bad sch tn' l' -> forall n, prepare v sch root q <> ROk n.
Proof.
  intros Hap Hb n H. unfold prepare, prepare_run in H.
  destruct (prep_list sch (pq_item v (S (List.length (q_frags q))) sch (q_frags q)) root {| p_seen := []; p_cost := 0 |} (q_sel q))
    as [st'| |] eqn:E; try discriminate.
  destruct (prepare_certificate sch (q_frags q) v root (q_sel q) st' E) as [Hs Ho].
  eapply okl_not_bad; [eapply okl_applies; eauto | exact Hb].
Qed.

(** [fine]: a result that is neither an error nor a crash. *)
Definition fine {S} (P : S -> Prop) (r : res S) : Prop :=
  match r with ROk s => P s | RErr _ => False | RCrash _ => False end.

Lemma fold_res_fine {S} (P : S -> Prop) (f : S -> titem -> res S) (l : list titem) :
  (forall st x, In x l -> P st -> fine P (f st x)) -> forall st, P st -> fine P (fold_res f st l).
Proof.
  induction l as [|x t IH]; intros Hf st Hst; simpl; auto.
  assert (Hx := Hf st x (or_introl eq_refl) Hst).
  destruct (f st x) as [st'| |]; simpl in *; try contradiction.
  apply IH; [intros st0 x0 Hin0 H0; apply Hf; [right; exact Hin0 | exact H0] | exact Hx].
Qed.

Lemma two_pass_fine {S} (P : S -> Prop) (item : bool -> S -> titem -> res S) (l : list titem) :
  (forall b st x, In x l -> P st -> fine P (item b st x)) -> forall st, P st -> fine P (two_pass item st l).
Proof.
  intros Hf st Hst. unfold two_pass.
  assert (H1 := fold_res_fine P (item true) l (Hf true) st Hst).
  destruct (fold_res (item true) st l) as [st'| |]; simpl in *; try contradiction.
  apply fold_res_fine; auto.
Qed.

Lemma two_pass_rev_fine {S} (P : S -> Prop) (item : bool -> S -> titem -> res S) (l : list titem) :
  (forall b st x, In x l -> P st -> fine P (item b st x)) -> forall st, P st -> fine P (two_pass_rev item st l).
Proof.
  intros Hf st Hst. unfold two_pass_rev.
  assert (H1 := fold_res_fine P (item false) l (Hf false) st Hst).
  destruct (fold_res (item false) st l) as [st'| |]; simpl in *; try contradiction.
  apply fold_res_fine; auto.
Qed.

(** * C14 (a): a validated query cannot meet a shape error in the reference evaluator *)
Section Progress.
  Variable sch : schema.
  Variable tbl : ftable.
  Variable S : pairs.
  Variable d : list string.
  Hypothesis Hs : self_justified sch tbl S.
  Hypothesis Ht : topo tbl d.
  Hypothesis Hlen : List.length d <= List.length tbl.
  Hypothesis Hkeys : incl (map fst tbl) d.

  Definition sel_ok (t : tref) (sel : option (list titem)) : Prop :=
    match sel with
    | None => leaf_type sch (named_of t)
    | Some l => okl sch tbl S (named_of t) l
    end.

  Definition sf_ok (fs : list (string * tref)) (sf : sfield) : Prop :=
    let '(alias, name, sub) := sf in
    (name = "__typename" /\ sub = None) \/
    (name <> "__typename" /\ exists ft, lookup name fs = Some ft /\ sel_ok ft sub).

  Lemma ex_field f b acc alias name args ds sub :
    ex_item (Datatypes.S f) tbl b acc (TField alias name args ds sub) = if b then ROk (acc ++ [(alias, name, sub)]) else ROk acc.
  Proof. reflexivity. Qed.
  Lemma ex_inline f b acc on ds sub :
    ex_item (Datatypes.S f) tbl b acc (TInline on ds sub) = if b then ROk acc else two_pass (ex_item (Datatypes.S f) tbl) acc sub.
  Proof. reflexivity. Qed.
  Lemma ex_spread f b acc name ds :
    ex_item (Datatypes.S f) tbl b acc (TSpread name ds) =
    if b then ROk acc
    else match lookup name tbl with
         | None => RCrash CrDanglingFragment
         | Some (_, body) => two_pass (ex_item f tbl) acc body
         end.
  Proof. reflexivity. Qed.

  Lemma okr_field_sf tn fs k a name args ds sub :
    lookup tn sch = Some (DObject fs k) -> okr sch tbl S tn (TField a name args ds sub) -> sf_ok fs (a, name, sub).
  Proof.
    intros E Ho. inversion Ho; subst; try congruence.
    - left; auto.
    - right. split; auto. match goal with H : lookup tn sch = Some (DObject ?fs' _) |- _ => rewrite E in H; inversion H; subst end.
      eexists; split; eauto.
    - right. split; auto. match goal with H : lookup tn sch = Some (DObject ?fs' _) |- _ => rewrite E in H; inversion H; subst end.
      eexists; split; eauto. simpl. split; auto.
  Qed.

  (** Expansion under an object type. *)
  Lemma ex_item_ok tn fs k (E : lookup tn sch = Some (DObject fs k)) fuel :
    forall d', topo tbl d' -> List.length d' < fuel ->
    forall it b acc, okr sch tbl S tn it -> incl (sib it) d' -> Forall (sf_ok fs) acc ->
                     fine (Forall (sf_ok fs)) (ex_item fuel tbl b acc it).
  Proof.
    induction fuel as [|f IHf]; intros d' Ht' Hl'; [lia|].
    induction it using titem_ind'; intros b acc Ho Hsib Hacc.
    - rewrite ex_field. destruct b; simpl; auto.
      apply Forall_app; split; auto. constructor; auto. eapply okr_field_sf; eauto.
    - rewrite ex_field. destruct b; simpl; auto.
      apply Forall_app; split; auto. constructor; auto. eapply okr_field_sf; eauto.
    - rewrite ex_spread. destruct b; simpl; auto.
      assert (Hn : In n d') by (apply Hsib; simpl; auto).
      destruct (topo_split tbl d' n Ht' Hn) as [d2 [on [body [Hlk [Hi [Ht2 Hlen2]]]]]].
      rewrite Hlk.
      inversion Ho; subst; try congruence.
      match goal with H : In (tn, n) S |- _ => destruct (Hs _ H) as [on' [body' [Hl2 [_ Hf2]]]] end.
      simpl in Hl2, Hf2. rewrite Hlk in Hl2. inversion Hl2; subst.
      apply two_pass_fine; auto.
      intros b0 acc0 x Hin Hacc0. apply (IHf d2); auto; [lia | rewrite Forall_forall in Hf2; auto |].
      intros y Hy. apply Hi. apply in_flat_map. exists x. split; auto. apply sib_incl; auto.
    - rewrite ex_inline. destruct b; simpl; auto.
      inversion Ho; subst; try congruence.
      apply two_pass_fine; auto.
      intros b0 acc0 x Hin Hacc0. rewrite Forall_forall in H. apply H; auto.
      + match goal with H : Forall (okr sch tbl S tn) l |- _ => rewrite Forall_forall in H; auto end.
      + simpl in Hsib. eapply incl_flat_map_in; eauto.
  Qed.

  Lemma okr_sib_keys tn fs k (E : lookup tn sch = Some (DObject fs k)) :
    forall it, okr sch tbl S tn it -> incl (sib it) d.
  Proof.
    induction it using titem_ind'; intros Ho; simpl; try apply incl_nil_l.
    - inversion Ho; subst; try congruence.
      intros x [Hx|[]]; subst. apply Hkeys.
      match goal with H : lookup x tbl = Some _ |- _ => apply lookup_In in H; apply in_map_iff; eexists; split; [|exact H]; reflexivity end.
    - inversion Ho; subst; try congruence.
      intros x Hx. apply in_flat_map in Hx. destruct Hx as [y [Hy Hx]].
      rewrite Forall_forall in H. apply (H y Hy); auto.
      match goal with H : Forall (okr sch tbl S tn) l |- _ => rewrite Forall_forall in H; auto end.
  Qed.

  Lemma expand_obj_ok tn fs k items :
    lookup tn sch = Some (DObject fs k) -> Forall (okr sch tbl S tn) items ->
    exists sfs, expand_obj tbl items = ROk sfs /\ Forall (sf_ok fs) sfs.
  Proof.
    intros E Hf. unfold expand_obj.
    assert (Hg : fine (Forall (sf_ok fs)) (two_pass (ex_item (Datatypes.S (List.length tbl)) tbl) [] items)).
    { apply two_pass_fine; auto. intros b acc x Hin Hacc. rewrite Forall_forall in Hf.
      apply (ex_item_ok tn fs k E _ d); auto; [lia|]. eapply okr_sib_keys; eauto. }
    destruct (two_pass (ex_item (Datatypes.S (List.length tbl)) tbl) [] items) as [sfs| |]; simpl in Hg; try contradiction.
    eauto.
  Qed.

  (** Expansion under a union whose runtime member is [m]. *)
  Lemma ux_item_ok tn ms m fs k :
    lookup tn sch = Some (DUnion ms) -> In m ms -> lookup m sch = Some (DObject fs k) ->
    forall it b acc, okr sch tbl S tn it -> Forall (sf_ok fs) acc -> fine (Forall (sf_ok fs)) (ux_item tbl m b acc it).
  Proof.
    intros E Hm Em it b acc Ho Hacc. destruct it as [a name args ds sub|n ds|on ds sub]; simpl.
    - destruct b; simpl; auto. apply Forall_app; split; auto. constructor; auto.
      inversion Ho; subst; try congruence. left; auto.
    - destruct b; simpl; auto.
      inversion Ho; subst; try congruence.
      match goal with H : lookup n tbl = Some (?on', ?body') |- _ => rewrite H end.
      match goal with |- context [String.eqb ?x m] => destruct (String.eqb x m) eqn:Eq end; simpl; auto.
      apply String.eqb_eq in Eq; subst.
      match goal with H : lookup tn sch = Some (DUnion ?ms') , H2 : In m ?ms' -> In _ S |- _ =>
                        rewrite E in H; inversion H; subst; destruct (Hs _ (H2 Hm)) as [on' [body' [Hl2 [_ Hf2]]]] end.
      simpl in Hl2, Hf2.
      match goal with H : lookup n tbl = Some (m, ?b) |- _ => rewrite H in Hl2; injection Hl2 as Ha Hb end.
      rewrite <- Hb in Hf2.
      destruct (expand_obj_ok m fs k _ Em Hf2) as [sfs [Hx Hok]]. rewrite Hx. simpl.
      apply Forall_app; split; auto.
    - destruct b; simpl; auto.
      destruct (String.eqb on m) eqn:Eq; simpl; auto. apply String.eqb_eq in Eq; subst.
      inversion Ho; subst; try congruence.
      match goal with H : lookup tn sch = Some (DUnion ?ms'), H2 : In m ?ms' -> _ |- _ =>
                        rewrite E in H; inversion H; subst; destruct (H2 Hm) as [_ Hf2] end.
      destruct (expand_obj_ok m fs k _ Em Hf2) as [sfs [Hx Hok]]. rewrite Hx. simpl.
      apply Forall_app; split; auto.
  Qed.

  Lemma expand_union_ok tn ms m fs k items :
    lookup tn sch = Some (DUnion ms) -> In m ms -> lookup m sch = Some (DObject fs k) ->
    Forall (okr sch tbl S tn) items ->
    exists sfs, expand_union tbl m items = ROk sfs /\ Forall (sf_ok fs) sfs.
  Proof.
    intros E Hm Em Hf. unfold expand_union.
    assert (Hg : fine (Forall (sf_ok fs)) (two_pass_rev (ux_item tbl m) [] items)).
    { apply two_pass_rev_fine; auto. intros b acc x Hin Hacc. rewrite Forall_forall in Hf.
      eapply ux_item_ok; eauto. }
    destruct (two_pass_rev (ux_item tbl m) [] items) as [sfs| |]; simpl in Hg; try contradiction. eauto.
  Qed.

  Lemma composite_not_leaf n : composite sch n -> leaf_type sch n -> False.
  Proof. intros [[fs [k H]]|[ms H]] [H2|[vs H2]]; congruence. Qed.

  Lemma eval_progress fuel :
    (forall entry t sel v, has_type sch entry t v -> sel_ok t sel -> eval sch tbl fuel t sel v <> EShape) /\
    (forall tn fs flds sfs, fields_typed sch fs flds -> Forall (sf_ok fs) sfs ->
                            eval_fields sch tbl fuel tn fs flds sfs <> EShape).
  Proof.
    induction fuel as [|f [IH1 IH2]]; [split; intros; simpl; discriminate|]. split.
    - intros entry t sel v Hty Hsel. destruct t as [n|t'|t']; simpl.
      + simpl in Hsel.
        destruct (lookup n sch) as [[|vs|fs k|ms]|] eqn:E.
        * destruct sel as [l|].
          { exfalso. destruct Hsel as [[[fs [k H]]|[ms H]] _]; simpl in H; congruence. }
          destruct v; try discriminate; inversion Hty; subst; congruence.
        * destruct sel as [l|].
          { exfalso. destruct Hsel as [[[fs [k H]]|[ms H]] _]; simpl in H; congruence. }
          destruct v; try discriminate; inversion Hty; subst; congruence.
        * destruct sel as [items|].
          2:{ exfalso. destruct Hsel as [H|[vs H]]; simpl in H; congruence. }
          destruct Hsel as [_ Hf].
          destruct v as [| | | |tn' flds]; try discriminate; try (inversion Hty; subst; congruence).
          inversion Hty; subst; try congruence.
          match goal with H1 : lookup ?x sch = Some (DObject ?a ?b), H2 : lookup ?x sch = Some (DObject ?c ?e) |- _ =>
                            rewrite H1 in H2; inversion H2; subst; simpl in Hf end.
          match goal with H1 : lookup ?x sch = Some (DObject ?a ?b) |- _ =>
                            destruct (expand_obj_ok x a b items H1 Hf) as [sfs [Hx Hok]] end.
          rewrite Hx. apply IH2; auto.
        * destruct sel as [items|].
          2:{ exfalso. destruct Hsel as [H|[vs H]]; simpl in H; congruence. }
          destruct Hsel as [_ Hf].
          destruct v as [| | | |m flds]; try discriminate; try (inversion Hty; subst; congruence).
          inversion Hty; subst; try congruence.
          match goal with H1 : lookup ?x sch = Some (DUnion ?a), H2 : lookup ?x sch = Some (DUnion ?c) |- _ =>
                            rewrite H1 in H2; inversion H2; subst; simpl in Hf end.
          match goal with HU : lookup ?x sch = Some (DUnion ?a), HM : In ?mm ?a, H : lookup ?mm sch = Some (DObject ?fs' ?k') |- _ =>
                            rewrite H; destruct (expand_union_ok x a mm fs' k' items HU HM H Hf) as [sfs [Hx Hok]] end.
          rewrite Hx. apply IH2; auto.
        * exfalso. destruct sel as [l|].
          -- destruct Hsel as [[[fs [k H]]|[ms H]] _]; simpl in H; congruence.
          -- destruct Hsel as [H|[vs H]]; simpl in H; congruence.
      + destruct v as [| | |l|]; try discriminate; try (inversion Hty; subst; congruence).
        inversion Hty; subst.
        clear Hty. match goal with H : Forall (has_type sch true t') l |- _ => induction H as [|x r Hx Hr IHl] end; [discriminate|].
        pose proof (IH1 true t' sel x Hx Hsel) as Hnx.
        destruct (eval sch tbl f t' sel x) as [j0| |]; try congruence;
          match goal with |- context [match ?G with _ => _ end] => destruct G as [[| | | |js|]| |] end;
          try discriminate; try congruence; exfalso; apply IHl; reflexivity.
      + inversion Hty; subst. apply IH1 with (entry := entry); auto.
    - intros tn fs flds sfs Hft Hok. simpl.
      destruct sfs as [|[[alias name] sub] r]; [discriminate|].
      inversion Hok as [|x0 l0 Hhead Hrest]; subst.
      pose proof (IH2 tn fs flds r Hft Hrest) as Hr.
      destruct Hhead as [[Hn Hsub]|[Hn [ft [Hl Hsel]]]].
      + subst. rewrite String.eqb_refl.
        destruct (eval_fields sch tbl f tn fs flds r) as [[| | | | |kvs]| |]; try discriminate; congruence.
      + rewrite (neq_eqb _ _ Hn), Hl.
        inversion Hft as [fs0 flds0 Hall]; subst.
        destruct (Hall name ft Hl) as [v' [Hv' Hty']]. rewrite Hv'.
        pose proof (IH1 false ft sub v' Hty' Hsel) as Hh.
        destruct (eval sch tbl f ft sub v') as [j0| |]; try congruence;
          destruct (eval_fields sch tbl f tn fs flds r) as [[| | | | |kvs]| |]; try discriminate; congruence.
  Qed.
End Progress.

Lemma progress_all v v' doc vars q c sch root n data fuel :
  convert v doc vars = ROk (q, c) -> prepare v' sch root q = ROk n ->
  has_type sch false (TNamed root) data ->
  eval sch (q_frags q) fuel (TNamed root) (Some (q_sel q)) data <> EShape.
Proof.
  intros Hc Hp Hty.
  destruct (convert_certified v doc vars q c Hc) as [d [T1 [T2 [T3 _]]]].
  unfold prepare, prepare_run in Hp.
  destruct (prep_list sch (pq_item v' (S (List.length (q_frags q))) sch (q_frags q)) root {| p_seen := []; p_cost := 0 |} (q_sel q))
    as [st'| |] eqn:E; try discriminate.
  destruct (prepare_certificate sch (q_frags q) v' root (q_sel q) st' E) as [Hs Ho].
  apply (proj1 (eval_progress sch (q_frags q) (p_seen st') d Hs T1 T2 T3 fuel) false); auto.
Qed.
