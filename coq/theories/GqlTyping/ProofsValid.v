(** What a successful PrepareQuery certifies, for every variant of the traversal (with or without the
    (type, selection set) memo): the final set of checked (type, fragment) pairs justifies itself, and
    relative to it every selection set the traversal walked into is well-formed.  Skipping a pair that
    is already in the set therefore never hides a failure (C14 (c)), and the reference evaluator cannot
    meet a shape error (C14 (a)). *)
From Coq Require Import List ZArith String Bool Arith Lia.
From Thunder Require Import Lib.Json GqlTyping.Types GqlTyping.Parse GqlTyping.ProofsParse GqlTyping.ProofsExec
     GqlTyping.Typing GqlTyping.ProofsTyping.
Import ListNotations.
Open Scope string_scope.
Open Scope list_scope.

Definition pairs := list (string * string).

Lemma pmem_In k (l : pairs) : pmem k l = true <-> In k l.
Proof.
  unfold pmem. rewrite existsb_exists. destruct k as [a b]. split.
  - intros [[x y] [Hin He]]. simpl in He. apply andb_prop in He as [H1 H2].
    apply String.eqb_eq in H1, H2. subst; auto.
  - intros H. exists (a, b). split; auto. simpl. rewrite !String.eqb_refl. reflexivity.
Qed.

Section Okr.
  Variable sch : schema.
  Variable tbl : ftable.

  Definition leaf_type (tn : string) : Prop :=
    lookup tn sch = Some DScalar \/ exists vs, lookup tn sch = Some (DEnum vs).

  (** [okr S tn it]: item [it] of a selection set under the composite type [tn] is well-formed, where a
      spread is only required to be in the set [S] of checked pairs. *)
  Inductive okr (S : pairs) : string -> titem -> Prop :=
  | ok_typename_obj : forall tn fs k a args ds,
      lookup tn sch = Some (DObject fs k) -> is_nil_args args = true -> okr S tn (TField a "__typename" args ds None)
  | ok_typename_union : forall tn ms a args ds,
      lookup tn sch = Some (DUnion ms) -> is_nil_args args = true -> okr S tn (TField a "__typename" args ds None)
  | ok_leaf : forall tn fs k a name args ds ft,
      lookup tn sch = Some (DObject fs k) -> name <> "__typename" -> lookup name fs = Some ft ->
      leaf_type (named_of ft) -> okr S tn (TField a name args ds None)
  | ok_comp : forall tn fs k a name args ds ft l,
      lookup tn sch = Some (DObject fs k) -> name <> "__typename" -> lookup name fs = Some ft ->
      composite sch (named_of ft) -> Forall (okr S (named_of ft)) l -> okr S tn (TField a name args ds (Some l))
  | ok_spread_obj : forall tn fs k n ds on body,
      lookup tn sch = Some (DObject fs k) -> lookup n tbl = Some (on, body) -> In (tn, n) S -> okr S tn (TSpread n ds)
  | ok_spread_union : forall tn ms n ds on body,
      lookup tn sch = Some (DUnion ms) -> lookup n tbl = Some (on, body) -> (In on ms -> In (on, n) S) ->
      okr S tn (TSpread n ds)
  | ok_inline_obj : forall tn fs k on ds l,
      lookup tn sch = Some (DObject fs k) -> Forall (okr S tn) l -> okr S tn (TInline on ds l)
  | ok_inline_union : forall tn ms on ds l,
      lookup tn sch = Some (DUnion ms) -> (In on ms -> composite sch on /\ Forall (okr S on) l) ->
      okr S tn (TInline on ds l).

  Definition okl (S : pairs) (tn : string) (l : list titem) : Prop := composite sch tn /\ Forall (okr S tn) l.

  (** A checked pair is justified when the fragment's body is well-formed under that type. *)
  Definition justified (S : pairs) (p : string * string) : Prop :=
    exists on body, lookup (snd p) tbl = Some (on, body) /\ okl S (fst p) body.

  Lemma okr_mono S S' : incl S S' -> forall it tn, okr S tn it -> okr S' tn it.
  Proof.
    intros Hi. induction it using titem_ind'; intros tn Ho; inversion Ho; subst.
    - eapply ok_typename_obj; eauto.
    - eapply ok_typename_union; eauto.
    - eapply ok_leaf; eauto.
    - eapply ok_comp; eauto. rewrite Forall_forall in *. intros x Hx. apply H; auto.
    - eapply ok_spread_obj; eauto.
    - eapply ok_spread_union; eauto.
    - eapply ok_inline_obj; eauto. rewrite Forall_forall in *. intros x Hx. apply H; auto.
    - eapply ok_inline_union; eauto. intros Hm. destruct (H5 Hm) as [Hc Hf]. split; auto.
      rewrite Forall_forall in *. intros x Hx. apply H; auto.
  Qed.

  Lemma okl_mono S S' tn l : incl S S' -> okl S tn l -> okl S' tn l.
  Proof.
    intros Hi [Hc Hf]. split; auto. rewrite Forall_forall in *. intros x Hx. eapply okr_mono; eauto.
  Qed.

  Lemma justified_mono S S' p : incl S S' -> justified S p -> justified S' p.
  Proof. intros Hi [on [body [Hl Ho]]]. exists on, body. split; auto. eapply okl_mono; eauto. Qed.
End Okr.

(** * What one successful step of the traversal establishes *)
Section Traversal.
  Variable sch : schema.
  Variable tbl : ftable.

  Definition okb (S : pairs) (tn : string) (b : bool) (it : titem) : Prop :=
    match it with
    | TField _ _ _ _ _ => if b then okr sch tbl S tn it else True
    | _ => if b then True else okr sch tbl S tn it
    end.

  Lemma okb_mono S S' tn b it : incl S S' -> okb S tn b it -> okb S' tn b it.
  Proof. intros Hi. destruct it, b; simpl; auto; apply okr_mono; auto. Qed.

  Lemma okb_both S tn it : okb S tn true it -> okb S tn false it -> okr sch tbl S tn it.
  Proof. destruct it; simpl; auto. Qed.

  Definition newjust (st st' : pstate) : Prop :=
    forall p, In p (p_seen st') -> In p (p_seen st) \/ justified sch tbl (p_seen st') p.

  Definition srel (Q : pairs -> Prop) (st st' : pstate) : Prop :=
    incl (p_seen st) (p_seen st') /\ Q (p_seen st') /\ newjust st st'.

  Lemma newjust_refl st : newjust st st.
  Proof. intros p Hp; left; auto. Qed.

  Lemma newjust_trans a b c : incl (p_seen b) (p_seen c) -> newjust a b -> newjust b c -> newjust a c.
  Proof.
    intros Hi H1 H2 p Hp. destruct (H2 p Hp) as [Hb|Hj]; auto.
    destruct (H1 p Hb) as [Ha|Hj]; auto. right. eapply justified_mono; eauto.
  Qed.

  Lemma fold_srel (f : pstate -> titem -> res pstate) (Q : pairs -> titem -> Prop) l :
    (forall S S' x, incl S S' -> Q S x -> Q S' x) ->
    (forall x st st', In x l -> f st x = ROk st' -> srel (fun S => Q S x) st st') ->
    forall st st', fold_res f st l = ROk st' -> srel (fun S => forall x, In x l -> Q S x) st st'.
  Proof.
    intros Hmono. induction l as [|y t IH]; intros Hf st st' H; simpl in H.
    - inversion H; subst. split; [apply incl_refl|]. split; [intros x []|apply newjust_refl].
    - destruct (f st y) as [st1| |] eqn:E; try discriminate.
      destruct (Hf y st st1 (or_introl eq_refl) E) as [I1 [Q1 N1]].
      destruct (IH (fun x s s' Hx => Hf x s s' (or_intror Hx)) st1 st' H) as [I2 [Q2 N2]].
      split; [eapply incl_tran; eauto|]. split.
      + intros x [Hx|Hx]; [subst; eapply Hmono; eauto | apply Q2; auto].
      + eapply newjust_trans; eauto.
  Qed.

  Lemma two_pass_srel (item : bool -> pstate -> titem -> res pstate) tn l :
    (forall b x st st', In x l -> item b st x = ROk st' -> srel (fun S => okb S tn b x) st st') ->
    forall st st', two_pass item st l = ROk st' -> srel (fun S => Forall (okr sch tbl S tn) l) st st'.
  Proof.
    intros Hf st st' H. unfold two_pass in H.
    destruct (fold_res (item true) st l) as [st1| |] eqn:E; try discriminate.
    destruct (fold_srel (item true) (fun S x => okb S tn true x) l (fun S S' x => okb_mono S S' tn true x) (Hf true) st st1 E)
      as [I1 [Q1 N1]].
    destruct (fold_srel (item false) (fun S x => okb S tn false x) l (fun S S' x => okb_mono S S' tn false x) (Hf false) st1 st' H)
      as [I2 [Q2 N2]].
    split; [eapply incl_tran; eauto|]. split; [|eapply newjust_trans; eauto].
    rewrite Forall_forall. intros x Hx. apply okb_both; auto. eapply okb_mono; eauto.
  Qed.

  Lemma two_pass_rev_srel (item : bool -> pstate -> titem -> res pstate) tn l :
    (forall b x st st', In x l -> item b st x = ROk st' -> srel (fun S => okb S tn b x) st st') ->
    forall st st', two_pass_rev item st l = ROk st' -> srel (fun S => Forall (okr sch tbl S tn) l) st st'.
  Proof.
    intros Hf st st' H. unfold two_pass_rev in H.
    destruct (fold_res (item false) st l) as [st1| |] eqn:E; try discriminate.
    destruct (fold_srel (item false) (fun S x => okb S tn false x) l (fun S S' x => okb_mono S S' tn false x) (Hf false) st st1 E)
      as [I1 [Q1 N1]].
    destruct (fold_srel (item true) (fun S x => okb S tn true x) l (fun S S' x => okb_mono S S' tn true x) (Hf true) st1 st' H)
      as [I2 [Q2 N2]].
    split; [eapply incl_tran; eauto|]. split; [|eapply newjust_trans; eauto].
    rewrite Forall_forall. intros x Hx. apply okb_both; auto. eapply okb_mono; eauto.
  Qed.

  (** PrepareQuery(type tn, non-nil selection set l). *)
  Lemma prep_list_srel (item : string -> bool -> pstate -> titem -> res pstate) tn st st' l :
    (forall b x s s', In x l -> item tn b s x = ROk s' -> srel (fun S => okb S tn b x) s s') ->
    prep_list sch item tn st l = ROk st' -> srel (fun S => okl sch tbl S tn l) st st'.
  Proof.
    intros Hf H. unfold prep_list in H.
    destruct (lookup tn sch) as [[|vs|fs k|ms]|] eqn:E; try discriminate.
    - destruct (two_pass_srel (item tn) tn l Hf (p_add 1 st) st' H) as [I1 [Q1 N1]].
      split; [exact I1|]. split; [split; auto; left; eauto | exact N1].
    - destruct (two_pass_rev_srel (item tn) tn l Hf (p_add 1 st) st' H) as [I1 [Q1 N1]].
      split; [exact I1|]. split; [split; auto; right; eauto | exact N1].
  Qed.

  Lemma srel_refl (Q : pairs -> Prop) st : Q (p_seen st) -> srel Q st st.
  Proof. intros H. split; [apply incl_refl|]. split; [auto | apply newjust_refl]. Qed.

  Lemma srel_seen (Q : pairs -> Prop) st st' : p_seen st' = p_seen st -> Q (p_seen st) -> srel Q st st'.
  Proof.
    intros He H. unfold srel, newjust. rewrite He. split; [apply incl_refl|]. split; [auto | intros p Hp; left; auto].
  Qed.

  Lemma eqb_neq a b : String.eqb a b = false -> a <> b.
  Proof. intros H Hc; subst. rewrite String.eqb_refl in H; discriminate. Qed.

  Lemma typename_field_ok args sub st st' : typename_field args sub st = ROk st' ->
    st' = st /\ is_nil_args args = true /\ sub = None.
  Proof.
    unfold typename_field. destruct (is_nil_args args); simpl; [|discriminate].
    destruct sub; [discriminate|]. intros H; inversion H; auto.
  Qed.

  Lemma pq_item_srel v fuel : forall it tn b st st',
    pq_item v fuel sch tbl tn b st it = ROk st' -> srel (fun S => okb S tn b it) st st'.
  Proof.
    induction fuel as [|f IHf]; [intros it tn b st st' H; discriminate|].
    induction it using titem_ind'; intros tn b st st' H0; rewrite pq_unfold in H0.
    - (* leaf field *)
      destruct (lookup tn sch) as [[|vs|fs k|ms]|] eqn:E; try discriminate.
      + destruct b; [|inversion H0; subst; apply srel_refl; exact I].
        destruct (String.eqb n "__typename") eqn:En.
        * apply String.eqb_eq in En; subst. apply typename_field_ok in H0 as [-> [Ha _]].
          apply srel_refl. simpl. eapply ok_typename_obj; eauto.
        * destruct (lookup n fs) as [ft|] eqn:Ef; try discriminate.
          unfold prep_leaf in H0. destruct (lookup (named_of ft) sch) as [[|vs| |]|] eqn:El; try discriminate;
            inversion H0; subst; (apply srel_seen; [reflexivity|]); simpl; eapply ok_leaf; eauto using eqb_neq;
            [left; auto | right; eauto].
      + destruct b; [|inversion H0; subst; apply srel_refl; exact I].
        destruct (String.eqb n "__typename") eqn:En; try discriminate.
        apply String.eqb_eq in En; subst. apply typename_field_ok in H0 as [-> [Ha _]].
        apply srel_refl. simpl. eapply ok_typename_union; eauto.
    - (* field with sub-selection *)
      destruct (lookup tn sch) as [[|vs|fs k|ms]|] eqn:E; try discriminate.
      + destruct b; [|inversion H0; subst; apply srel_refl; exact I].
        destruct (String.eqb n "__typename") eqn:En.
        * apply typename_field_ok in H0 as [_ [_ Hc]]. discriminate.
        * destruct (lookup n fs) as [ft|] eqn:Ef; try discriminate.
          apply prep_list_srel in H0.
          -- destruct H0 as [I1 [[Hc Hf] N1]]. split; [exact I1|]. split; [|exact N1].
             simpl. eapply ok_comp; eauto using eqb_neq.
          -- intros b0 x s s' Hin Hx. rewrite Forall_forall in H. apply (H x Hin _ _ _ _ Hx).
      + destruct b; [|inversion H0; subst; apply srel_refl; exact I].
        destruct (String.eqb n "__typename") eqn:En; try discriminate.
        apply typename_field_ok in H0 as [_ [_ Hc]]. discriminate.
    - (* spread *)
      destruct (lookup tn sch) as [[|vs|fs k|ms]|] eqn:E; try discriminate.
      + destruct b; [inversion H0; subst; apply srel_refl; exact I|].
        destruct (lookup n tbl) as [[on body]|] eqn:El; try discriminate.
        destruct (fix21 v && pmem (tn, n) (p_seen st)) eqn:Em.
        * inversion H0; subst. apply srel_refl. simpl.
          apply andb_prop in Em as [_ Em]. apply pmem_In in Em. eapply ok_spread_obj; eauto.
        * apply prep_list_srel in H0; [|intros b0 x s s' _ Hx; apply (IHf x _ _ _ _ Hx)].
          destruct H0 as [I1 [Q1 N1]]. simpl in I1.
          assert (Hin : In (tn, n) (p_seen st')) by (apply I1; left; reflexivity).
          split; [intros p Hp; apply I1; right; exact Hp|]. split.
          -- simpl. eapply ok_spread_obj; eauto.
          -- intros p Hp. destruct (N1 p Hp) as [[Hq|Hq]|Hj]; auto.
             subst p. right. exists on, body. simpl. auto.
      + destruct b; [inversion H0; subst; apply srel_refl; exact I|].
        destruct (lookup n tbl) as [[on body]|] eqn:El; try discriminate.
        destruct (mem on ms) eqn:Emem.
        * destruct (fix21 v && pmem (on, n) (p_seen st)) eqn:Em.
          -- inversion H0; subst. apply srel_refl. simpl.
             apply andb_prop in Em as [_ Em]. apply pmem_In in Em. eapply ok_spread_union; eauto.
          -- apply prep_list_srel in H0; [|intros b0 x s s' _ Hx; apply (IHf x _ _ _ _ Hx)].
             destruct H0 as [I1 [Q1 N1]]. simpl in I1.
             assert (Hin : In (on, n) (p_seen st')) by (apply I1; left; reflexivity).
             split; [intros p Hp; apply I1; right; exact Hp|]. split.
             ++ simpl. eapply ok_spread_union; eauto.
             ++ intros p Hp. destruct (N1 p Hp) as [[Hq|Hq]|Hj]; auto.
                subst p. right. exists on, body. simpl. auto.
        * inversion H0; subst. apply srel_refl. simpl. eapply ok_spread_union; eauto.
          intros Hc. apply mem_In in Hc. rewrite Hc in Emem. discriminate.
    - (* inline fragment *)
      destruct (lookup tn sch) as [[|vs|fs k|ms]|] eqn:E; try discriminate.
      + destruct b; [inversion H0; subst; apply srel_refl; exact I|].
        apply prep_list_srel in H0.
        * destruct H0 as [I1 [[Hc Hf] N1]]. split; [exact I1|]. split; [|exact N1].
          simpl. eapply ok_inline_obj; eauto.
        * intros b0 x s s' Hin Hx. rewrite Forall_forall in H. apply (H x Hin _ _ _ _ Hx).
      + destruct b; [inversion H0; subst; apply srel_refl; exact I|].
        destruct (mem on ms) eqn:Emem.
        * apply prep_list_srel in H0.
          -- destruct H0 as [I1 [[Hc Hf] N1]]. split; [exact I1|]. split; [|exact N1].
             simpl. eapply ok_inline_union; eauto.
          -- intros b0 x s s' Hin Hx. rewrite Forall_forall in H. apply (H x Hin _ _ _ _ Hx).
        * inversion H0; subst. apply srel_refl. simpl. eapply ok_inline_union; eauto.
          intros Hc. apply mem_In in Hc. rewrite Hc in Emem. discriminate.
  Qed.

  (** The certificate of a successful PrepareQuery. *)
  Definition self_justified (S : pairs) : Prop := forall p, In p S -> justified sch tbl S p.

  Lemma prepare_certificate v root sel st' :
    prep_list sch (pq_item v (S (List.length tbl)) sch tbl) root {| p_seen := []; p_cost := 0 |} sel = ROk st' ->
    self_justified (p_seen st') /\ okl sch tbl (p_seen st') root sel.
  Proof.
    intros H. apply prep_list_srel in H; [|intros b x s s' _ Hx; apply (pq_item_srel v _ x _ _ _ _ Hx)].
    destruct H as [_ [Q1 N1]]. split; auto.
    intros p Hp. destruct (N1 p Hp) as [[]|Hj]; auto.
  Qed.
End Traversal.

(** * C14 (c), for every variant: an ill-formed applicable part is never accepted *)
Section Rejection.
  Variable sch : schema.
  Variable tbl : ftable.

  Lemma okl_applies S tn l tn' l' :
    self_justified sch tbl S -> okl sch tbl S tn l -> applies sch tbl tn l tn' l' -> okl sch tbl S tn' l'.
  Proof.
    intros Hs Ho Hap. induction Hap as
        [tn l
        | tn l fs k a name args ds sub ft tn' l' E Hin Hn Hl Hap IH
        | tn l fs k on ds sub tn' l' E Hin Hap IH
        | tn l ms on ds sub tn' l' E Hin Hm Hap IH
        | tn l fs k n ds on body tn' l' E Hin Hl Hap IH
        | tn l ms n ds on body tn' l' E Hin Hl Hm Hap IH]; auto; apply IH; clear IH;
      destruct Ho as [Hc Hf]; rewrite Forall_forall in Hf; specialize (Hf _ Hin); inversion Hf; subst;
      try congruence.
    - (* field *) match goal with H : lookup tn sch = Some (DObject ?fs' _), H2 : lookup name ?fs' = Some ?ft' |- _ =>
                    rewrite E in H; inversion H; subst; rewrite Hl in H2; inversion H2; subst end.
      split; auto.
    - (* inline under an object *) split; auto.
    - (* inline under a union *)
      match goal with H : lookup tn sch = Some (DUnion ?ms'), H2 : In on ?ms' -> _ |- _ =>
                        rewrite E in H; inversion H; subst; destruct (H2 Hm) as [Hc' Hf'] end.
      split; auto.
    - (* spread under an object *)
      match goal with H : In (tn, n) S |- _ => destruct (Hs _ H) as [on' [body' [Hl' Ho']]] end.
      simpl in Hl', Ho'. rewrite Hl in Hl'. inversion Hl'; subst. exact Ho'.
    - (* spread under a union *)
      match goal with H : lookup tn sch = Some (DUnion ?ms'), H1 : lookup n tbl = Some (?on', _), H2 : In ?on' ?ms' -> In _ S |- _ =>
                        rewrite E in H; inversion H; subst; rewrite Hl in H1; inversion H1; subst;
                        destruct (Hs _ (H2 Hm)) as [on'' [body'' [Hl'' Ho'']]] end.
      simpl in Hl'', Ho''. rewrite Hl in Hl''. inversion Hl''; subst. exact Ho''.
  Qed.

  Lemma okl_not_bad S tn l : okl sch tbl S tn l -> ~ bad sch tn l.
  Proof.
    intros [Hc Hf] Hb. rewrite Forall_forall in Hf.
    destruct Hb as [fs k a name args ds sub E Hin Hn Hl | ms a name args ds sub E Hin Hn
                   | fs k a name args ds sub ft E Hin Hn Hl Hleaf | fs k a name args ds ft E Hin Hn Hl Hcomp];
      specialize (Hf _ Hin); inversion Hf; subst; try congruence.
    - (* sub-selection on a leaf *)
      match goal with H : lookup tn sch = Some (DObject ?fs' _), H2 : lookup name ?fs' = Some ?ft', H3 : composite sch (named_of ?ft') |- _ =>
                        rewrite E in H; inversion H; subst; rewrite Hl in H2; inversion H2; subst;
                        destruct H3 as [[fs2 [k2 H3]]|[ms2 H3]]; destruct Hleaf as [Hx|[vs Hx]]; congruence end.
    - (* no sub-selection on a composite *)
      match goal with H : lookup tn sch = Some (DObject ?fs' _), H2 : lookup name ?fs' = Some ?ft', H3 : leaf_type sch (named_of ?ft') |- _ =>
                        rewrite E in H; inversion H; subst; rewrite Hl in H2; inversion H2; subst;
                        destruct H3 as [H3|[vs H3]]; destruct Hcomp as [[fs2 [k2 Hx]]|[ms2 Hx]]; congruence end.
  Qed.
End Rejection.

Lemma rejection_complete_all v sch root q tn' l' :
  applies sch (q_frags q) root (q_sel q) tn' l' -> bad sch tn' l' -> forall n, prepare v sch root q <> ROk n.
Proof.
  intros Hap Hb n H. unfold prepare, prepare_run in H.
  destruct (prep_list sch (pq_item v (S (List.length (q_frags q))) sch (q_frags q)) root {| p_seen := []; p_cost := 0 |} (q_sel q))
    as [st'| |] eqn:E; try discriminate.
  destruct (prepare_certificate sch (q_frags q) v root (q_sel q) st' E) as [Hs Ho].
  eapply okl_not_bad; [eapply okl_applies; eauto | exact Hb].
Qed.
