(** After a successful Parse: Flatten and PrepareQuery cannot crash either (repaired code); the
    original Flatten can (F26), on a query that PrepareQuery accepts. *)
From Coq Require Import List ZArith String Bool Arith Lia.
From Thunder Require Import Lib.Json GqlTyping.Types GqlTyping.Parse GqlTyping.ProofsParse.
Import ListNotations.
Open Scope string_scope.
Open Scope list_scope.

(** What a successful conversion certifies about the query it returns. *)
Definition certified (q : query) : Prop :=
  exists d, topo (q_frags q) d /\ List.length d <= List.length (q_frags q) /\ incl (map fst (q_frags q)) d /\
            incl (flat_map item_spreads (q_sel q)) (map fst (q_frags q)).

Lemma detect_cycles_all tbl items d : detect_cycles tbl items = ROk d -> incl (map fst tbl) d.
Proof.
  unfold detect_cycles.
  destruct (two_pass (dc_item (S (List.length tbl)) tbl) {| visiting := []; visited := [] |} items) as [st| |]; try discriminate.
  destruct (forallb (fun n => mem n (visited st)) (map fst tbl)) eqn:E; try discriminate.
  intros H; inversion H; subst. intros x Hx. rewrite forallb_forall in E. apply mem_In. apply E; auto.
Qed.

Lemma convert_tail_certified v o frs vars q c :
  convert_tail v o frs vars (parse_frags v (map fst frs) vars frs) = ROk (q, c) -> certified q.
Proof.
  unfold convert_tail. destruct (op_parts o) as [[[op name] vds] sel].
  destruct (parse_frags_spec v (map fst frs) vars frs) as [_ [_ P3]].
  destruct (collect_frags (parse_frags v (map fst frs) vars frs)) as [tbl| |]; try discriminate.
  destruct (P3 tbl eq_refl) as [K1 K2].
  destruct (parse_selset_ok v (map fst frs) vars sel) as [_ Hs].
  destruct (parse_selset v (map fst frs) vars sel) as [items| |]; try discriminate.
  assert (Hcl : tbl_closed tbl) by (intros n on body Hin; rewrite K1; eapply K2; eauto).
  assert (Hsp : incl (flat_map item_spreads items) (map fst tbl)) by (rewrite K1; apply Hs; reflexivity).
  destruct (detect_cycles_spec tbl items Hcl Hsp) as [_ D2].
  destruct (detect_cycles tbl items) as [d| |] eqn:Ed; try discriminate.
  destruct (D2 d eq_refl) as [T1 [T2 T3]].
  destruct (detect_conflicts v tbl items); try discriminate.
  intros H; inversion H; subst; clear H. exists d. simpl. repeat split; auto.
  eapply detect_cycles_all; eauto.
Qed.

Lemma convert_certified v doc vars q c : convert v doc vars = ROk (q, c) -> certified q.
Proof.
  unfold convert.
  destruct (scan_defs {| a_frags := []; a_op := None |} doc) as [acc| |]; try discriminate.
  destruct (a_op acc) as [o0|]; try discriminate.
  destruct (op_parts o0) as [[[op name] vds] sel].
  destruct (apply_defaults vars vars vds) as [vars'| |]; try discriminate.
  apply convert_tail_certified.
Qed.

(** * Flatten *)

Lemma fl_field f tbl b st alias name args ds sub :
  fl_item (S f) tbl b st (TField alias name args ds sub) =
  if b then ROk {| f_groups := group_add alias (has_some sub) (f_groups st);
                   f_seen := f_seen st; f_cost := f_cost st; f_unknown := f_unknown st |}
  else ROk st.
Proof. reflexivity. Qed.
Lemma fl_inline f tbl b st on ds l :
  fl_item (S f) tbl b st (TInline on ds l) =
  if b then ROk st
  else match should_include ds with
       | RErr e => RErr e | RCrash c => RCrash c
       | ROk false => ROk st
       | ROk true => two_pass (fl_item (S f) tbl) (f_bump st) l
       end.
Proof. reflexivity. Qed.
Lemma fl_spread f tbl b st name ds :
  fl_item (S f) tbl b st (TSpread name ds) =
  if b then ROk st
  else match ds with
       | _ :: _ => ROk {| f_groups := f_groups st; f_seen := f_seen st; f_cost := f_cost st; f_unknown := true |}
       | [] => if mem name (f_seen st) then ROk st
               else match lookup name tbl with
                    | None => RCrash CrDanglingFragment
                    | Some (_, body) =>
                        two_pass (fl_item f tbl)
                                 (f_bump {| f_groups := f_groups st; f_seen := name :: f_seen st;
                                            f_cost := f_cost st; f_unknown := f_unknown st |}) body
                    end
       end.
Proof. reflexivity. Qed.

Lemma should_include_nocrash ds : is_crash (should_include ds) = false.
Proof.
  unfold should_include, parse_if.
  destruct (lookup "skip" ds) as [a|].
  - destruct (lookup "if" a) as [[| | | | |]|]; reflexivity.
  - destruct (lookup "include" ds) as [a|]; [|reflexivity].
    destruct (lookup "if" a) as [[| | | | |]|]; reflexivity.
Qed.

Lemma fl_item_good fuel : forall tbl d, topo tbl d -> List.length d < fuel ->
  forall it b st, incl (sib it) d -> good any (fl_item fuel tbl b st it).
Proof.
  induction fuel as [|f IHf]; intros tbl d Ht Hlen; [lia|].
  induction it using titem_ind'; intros b st Hs.
  - rewrite fl_field. destruct b; exact I.
  - rewrite fl_field. destruct b; exact I.
  - rewrite fl_spread. destruct b; [exact I|]. destruct ds; [|exact I].
    destruct (mem n (f_seen st)); [exact I|].
    assert (Hn : In n d) by (apply Hs; simpl; auto).
    destruct (topo_split tbl d n Ht Hn) as [d2 [on [body [Hl [Hi [Ht2 Hlen2]]]]]].
    rewrite Hl. apply two_pass_good; [|exact I].
    intros b0 st0 x Hin _. apply (IHf tbl d2); auto; [lia|].
    intros y Hy. apply Hi. apply in_flat_map. exists x. split; auto. apply sib_incl; auto.
  - rewrite fl_inline. destruct b; [exact I|].
    pose proof (should_include_nocrash ds) as Hsi.
    destruct (should_include ds) as [[|]| |]; simpl in *; try exact I; try discriminate.
    apply two_pass_good; [|exact I].
    intros b0 st0 x Hin _. rewrite Forall_forall in H. apply H; auto.
    simpl in Hs. eapply incl_flat_map_in; eauto.
Qed.

Lemma flatten_nocrash v q items :
  certified q -> fix26 v = true -> incl (flat_map item_spreads items) (map fst (q_frags q)) ->
  is_crash (flatten v (q_frags q) items) = false.
Proof.
  intros [d [T1 [T2 [T3 _]]]] Hf Hi. unfold flatten.
  assert (Hg : good any (two_pass (fl_item (S (List.length (q_frags q))) (q_frags q))
                                  (f_bump {| f_groups := []; f_seen := []; f_cost := 0; f_unknown := false |}) items)).
  { apply two_pass_good; [|exact I]. intros b st x Hin _.
    apply (fl_item_good (S (List.length (q_frags q))) (q_frags q) d); auto; [lia|].
    intros y Hy. apply T3. apply Hi. apply in_flat_map. exists x; split; auto. apply sib_incl; auto. }
  destruct (two_pass (fl_item (S (List.length (q_frags q))) (q_frags q))
                     (f_bump {| f_groups := []; f_seen := []; f_cost := 0; f_unknown := false |}) items) as [st| |];
    simpl in *; try contradiction; auto.
  destruct (forallb (fun g => group_ok (snd g)) (f_groups st)); auto. rewrite Hf. reflexivity.
Qed.

(** F26: `{ obj { k: child { x } k: x } }` passes Parse and PrepareQuery; Flatten of obj's selection set
    (resolveObjectBatch, on an executor goroutine) dereferences a nil SelectionSet. *)
Definition f26_schema : schema :=
  [("Query", DObject [("obj", TNamed "Obj")] None);
   ("Obj", DObject [("child", TNamed "Obj"); ("x", TNonNull (TNamed "int64"))] None);
   ("int64", DScalar)].
Definition f26_sub : list gsel :=
  [GField (Some "k") "child" [] [] (Some [GField None "x" [] [] None]); GField (Some "k") "x" [] [] None].
Definition f26_doc : gdoc := [GOperation "query" None [] [] [GField None "obj" [] [] (Some f26_sub)]].

Lemma f26_witness :
  exists q c n sub,
    convert orig f26_doc [] = ROk (q, c) /\ prepare orig f26_schema "Query" q = ROk n /\
    q_sel q = [TField "obj" "obj" [] [] (Some sub)] /\
    flatten orig (q_frags q) sub = RCrash CrNilSelectionSet /\
    flatten repaired (q_frags q) sub = RErr EFlattenMixed.
Proof. do 4 eexists. repeat split; reflexivity. Qed.

(** * PrepareQuery *)

Lemma pq_unfold v f sch tbl tn b st it :
  pq_item v (S f) sch tbl tn b st it =
  match lookup tn sch with
  | Some (DObject fs _) =>
      match it with
      | TField _ name args _ sub =>
          if b then
            if String.eqb name "__typename" then typename_field args sub st
            else match lookup name fs with
                 | None => RErr EPUnknownField
                 | Some ft =>
                     match sub with
                     | None => prep_leaf sch (p_add (wrappers ft) st) (named_of ft)
                     | Some l => prep_list sch (pq_item v (S f) sch tbl) (named_of ft) (p_add (wrappers ft) st) l
                     end
                 end
          else ROk st
      | TSpread name _ =>
          if b then ROk st
          else match lookup name tbl with
               | None => RCrash CrDanglingFragment
               | Some (_, body) =>
                   if fix21 v && pmem (tn, name) (p_seen st) then ROk st
                   else prep_list sch (pq_item v f sch tbl) tn
                                  {| p_seen := (tn, name) :: p_seen st; p_cost := p_cost st |} body
               end
      | TInline _ _ sub => if b then ROk st else prep_list sch (pq_item v (S f) sch tbl) tn st sub
      end
  | Some (DUnion members) =>
      match it with
      | TField _ name args _ sub =>
          if b then
            if String.eqb name "__typename" then typename_field args sub st else RErr EPUnknownField
          else ROk st
      | TSpread name _ =>
          if b then ROk st
          else match lookup name tbl with
               | None => RCrash CrDanglingFragment
               | Some (on, body) =>
                   if mem on members then
                     if fix21 v && pmem (on, name) (p_seen st) then ROk st
                     else prep_list sch (pq_item v f sch tbl) on
                                    {| p_seen := (on, name) :: p_seen st; p_cost := p_cost st |} body
                   else ROk st
               end
      | TInline on _ sub =>
          if b then ROk st
          else if mem on members then prep_list sch (pq_item v (S f) sch tbl) on st sub else ROk st
      end
  | _ => RCrash CrUnknownTypeKind
  end.
Proof. destruct it as [a n args ds [l|]|n ds|on ds l]; reflexivity. Qed.

Definition composite (sch : schema) (tn : string) : Prop :=
  (exists fs k, lookup tn sch = Some (DObject fs k)) \/ (exists ms, lookup tn sch = Some (DUnion ms)).

(** What the harness's walk of a built schema guarantees: field types and union members are defined,
    union members are objects. *)
Definition schema_closed (sch : schema) : Prop :=
  (forall tn fs k f ft, lookup tn sch = Some (DObject fs k) -> lookup f fs = Some ft -> lookup (named_of ft) sch <> None) /\
  (forall tn ms m, lookup tn sch = Some (DUnion ms) -> In m ms -> exists fs k, lookup m sch = Some (DObject fs k)).

Lemma typename_field_nocrash args sub st : good any (typename_field args sub st).
Proof. unfold typename_field. destruct (negb (is_nil_args args)); [exact I|]. destruct sub; exact I. Qed.

Lemma prep_list_good sch (item : string -> bool -> pstate -> titem -> res pstate) tn st l :
  lookup tn sch <> None ->
  (composite sch tn -> forall b st0 x, In x l -> good any (item tn b st0 x)) ->
  good any (prep_list sch item tn st l).
Proof.
  intros Hn Hc. unfold prep_list. destruct (lookup tn sch) as [[|vs|fs k|ms]|] eqn:E; try exact I; try congruence.
  - apply two_pass_good; [|exact I]. intros b st0 x Hin _. apply Hc; auto. left; eauto.
  - apply two_pass_rev_good; [|exact I]. intros b st0 x Hin _. apply Hc; auto. right; eauto.
Qed.

Lemma pq_item_good v fuel : forall sch tbl d, schema_closed sch -> topo tbl d -> List.length d < fuel ->
  forall it tn b st, composite sch tn -> incl (item_spreads it) d -> good any (pq_item v fuel sch tbl tn b st it).
Proof.
  induction fuel as [|f IHf]; intros sch tbl d [Hc1 Hc2] Ht Hlen; [lia|].
  induction it using titem_ind'; intros tn b st Hcomp Hs; rewrite pq_unfold.
  - (* leaf field *)
    destruct Hcomp as [[fs [k E]]|[ms E]]; rewrite E.
    + destruct b; [|exact I]. destruct (String.eqb n "__typename"); [apply typename_field_nocrash|].
      destruct (lookup n fs) as [ft|] eqn:Ef; [|exact I].
      pose proof (Hc1 tn fs k n ft E Ef) as Hn. unfold prep_leaf.
      destruct (lookup (named_of ft) sch) as [[| | |]|]; try exact I. congruence.
    + destruct b; [|exact I]. destruct (String.eqb n "__typename"); [apply typename_field_nocrash|exact I].
  - (* field with sub-selection *)
    destruct Hcomp as [[fs [k E]]|[ms E]]; rewrite E.
    + destruct b; [|exact I]. destruct (String.eqb n "__typename"); [apply typename_field_nocrash|].
      destruct (lookup n fs) as [ft|] eqn:Ef; [|exact I].
      apply prep_list_good; [eapply Hc1; eauto|].
      intros Hcomp' b0 st0 x Hin. rewrite Forall_forall in H. apply H; auto.
      simpl in Hs. eapply incl_flat_map_in; eauto.
    + destruct b; [|exact I]. destruct (String.eqb n "__typename"); [apply typename_field_nocrash|exact I].
  - (* spread *)
    assert (Hn : In n d) by (apply Hs; simpl; auto).
    destruct (topo_split tbl d n Ht Hn) as [d2 [on [body [Hl [Hi [Ht2 Hlen2]]]]]].
    destruct Hcomp as [[fs [k E]]|[ms E]]; rewrite E.
    + destruct b; [exact I|]. rewrite Hl. destruct (fix21 v && pmem (tn, n) (p_seen st)); [exact I|].
      apply prep_list_good; [congruence|].
      intros Hcomp' b0 st0 x Hin. apply (IHf sch tbl d2); auto; [split; auto | lia|].
      eapply incl_flat_map_in; eauto.
    + destruct b; [exact I|]. rewrite Hl. destruct (mem on ms) eqn:Em; [|exact I].
      destruct (fix21 v && pmem (on, n) (p_seen st)); [exact I|].
      apply mem_In in Em. destruct (Hc2 tn ms on E Em) as [fs' [k' E']].
      apply prep_list_good; [congruence|].
      intros Hcomp' b0 st0 x Hin. apply (IHf sch tbl d2); auto; [split; auto | lia|].
      eapply incl_flat_map_in; eauto.
  - (* inline fragment *)
    destruct Hcomp as [[fs [k E]]|[ms E]]; rewrite E.
    + destruct b; [exact I|].
      apply prep_list_good; [congruence|].
      intros Hcomp' b0 st0 x Hin. rewrite Forall_forall in H. apply H; auto.
      simpl in Hs. eapply incl_flat_map_in; eauto.
    + destruct b; [exact I|]. destruct (mem on ms) eqn:Em; [|exact I].
      apply mem_In in Em. destruct (Hc2 tn ms on E Em) as [fs' [k' E']].
      apply prep_list_good; [congruence|].
      intros Hcomp' b0 st0 x Hin. rewrite Forall_forall in H. apply H; auto.
      simpl in Hs. eapply incl_flat_map_in; eauto.
Qed.

Lemma prepare_nocrash v sch root q :
  certified q -> schema_closed sch -> lookup root sch <> None -> is_crash (prepare v sch root q) = false.
Proof.
  intros [d [T1 [T2 [T3 T4]]]] Hsc Hroot. unfold prepare, prepare_run.
  assert (Hg : good any (prep_list sch (pq_item v (S (List.length (q_frags q))) sch (q_frags q)) root
                                   {| p_seen := []; p_cost := 0 |} (q_sel q))).
  { apply prep_list_good; auto. intros Hcomp b st x Hin.
    apply (pq_item_good v (S (List.length (q_frags q))) sch (q_frags q) d); auto; [lia|].
    intros y Hy. apply T3. apply T4. apply in_flat_map. exists x; auto. }
  destruct (prep_list sch (pq_item v (S (List.length (q_frags q))) sch (q_frags q)) root {| p_seen := []; p_cost := 0 |} (q_sel q));
    simpl in *; try contradiction; auto.
Qed.
