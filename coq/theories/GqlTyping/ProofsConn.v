From Coq Require Import List String Bool.
From Thunder Require Import Lib.Json GqlTyping.Conn.
Import ListNotations.
Open Scope string_scope.
Open Scope list_scope.

Lemma lookup_remove_other {A} id id' (l : list (string * A)) : id' <> id -> lookup id' (remove_key id l) = lookup id' l.
Proof.
  intros Hne. induction l as [|[k v] t IH]; simpl; auto.
  destruct (String.eqb id k) eqn:E1.
  - apply String.eqb_eq in E1; subst. destruct (String.eqb id' k) eqn:E2; auto.
    apply String.eqb_eq in E2; congruence.
  - simpl. destruct (String.eqb id' k); auto.
Qed.

Lemma lookup_remove_same {A} id (l : list (string * A)) : lookup id (remove_key id l) = None.
Proof.
  induction l as [|[k v] t IH]; simpl; auto.
  destruct (String.eqb id k) eqn:E1; auto. simpl. rewrite E1. auto.
Qed.

(** With the recover in place, whatever the resolvers of request [id] do: the connection stays alive,
    every other subscription is exactly as before, and everything written carries [id]. *)
Lemma contained c id o :
  let c' := run_request true c id o in
  alive c' = alive c /\
  (forall id', id' <> id -> lookup id' (subs c') = lookup id' (subs c)) /\
  exists written, outbox c' = outbox c ++ written /\ Forall (fun e => e_id e = id) written.
Proof.
  unfold run_request. destruct (alive c) eqn:Ea; simpl.
  2: { repeat split; auto. exists []; rewrite app_nil_r; auto. }
  destruct (lookup id (subs c)) as [s|] eqn:El.
  2: { rewrite Ea. repeat split; auto. exists []; rewrite app_nil_r; auto. }
  destruct o as [v|safe|]; simpl.
  - destruct (s_mutation s); simpl; repeat split; auto.
    + intros id' Hne. apply lookup_remove_other; auto.
    + eexists; split; [reflexivity|]. repeat constructor.
    + intros id' Hne. destruct (String.eqb id' id) eqn:E; [apply String.eqb_eq in E; congruence|].
      apply lookup_remove_other; auto.
    + eexists; split; [reflexivity|]. repeat constructor.
  - destruct (s_mutation s || s_initial s); simpl; repeat split; auto.
    + intros id' Hne. apply lookup_remove_other; auto.
    + eexists; split; [reflexivity|]. repeat constructor.
    + exists []; rewrite app_nil_r; auto.
  - destruct (s_mutation s || s_initial s); simpl; repeat split; auto.
    + intros id' Hne. apply lookup_remove_other; auto.
    + eexists; split; [reflexivity|]. repeat constructor.
    + exists []; rewrite app_nil_r; auto.
Qed.

(** A panicking first run fails exactly that request: one error envelope with the sanitised text, and
    the subscription is gone. *)
Lemma panic_fails_only_its_request c id s :
  alive c = true -> lookup id (subs c) = Some s -> s_initial s = true ->
  let c' := run_request true c id OPanic in
  outbox c' = outbox c ++ [{| e_id := id; e_type := EError; e_msg := JStr "Internal server error" |}] /\
  lookup id (subs c') = None /\ alive c' = true.
Proof.
  intros Ha Hl Hi. unfold run_request. rewrite Ha, Hl. simpl. rewrite Hi, orb_true_r. simpl.
  repeat split; auto. apply lookup_remove_same.
Qed.

(** Without the recover the same panic takes the connection (and every other subscription) down. *)
Lemma without_recover_not_contained :
  exists c id id', id' <> id /\ lookup id' (subs c) <> None /\
                   let c' := run_request false c id OPanic in alive c' = false /\ lookup id' (subs c') = None.
Proof.
  exists {| alive := true; subs := [("1", {| s_mutation := false; s_initial := true; s_prev := None |});
                                   ("2", {| s_mutation := false; s_initial := false; s_prev := Some JNull |})];
            outbox := [] |}, "1", "2".
  repeat split; simpl; try discriminate.
Qed.
