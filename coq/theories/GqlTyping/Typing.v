(** C14: what introspection advertises, well-typed abstract data, a tiny reference evaluator, and
    conformance of a response to the advertised types.  PrepareQuery itself is [prepare] of Parse.v. *)
From Coq Require Import List ZArith String Bool Arith.
From Thunder Require Import Lib.Json GqlTyping.Types GqlTyping.Parse.
Import ListNotations.
Open Scope string_scope.
Open Scope list_scope.

(** * Advertised schema: introspection prints the same graph of types; object fields, enum values and
    union members sorted by name (the harness's walk sorts them the same way); key fields are not
    part of it. *)
Definition advertised_def (d : tdef) : tdef :=
  match d with
  | DObject fs _ => DObject fs None
  | d => d
  end.
Definition advertised (sch : schema) : schema := map (fun e => (fst e, advertised_def (snd e))) sch.

Fixpoint tref_eqb (a b : tref) : bool :=
  match a, b with
  | TNamed x, TNamed y => String.eqb x y
  | TList x, TList y => tref_eqb x y
  | TNonNull x, TNonNull y => tref_eqb x y
  | _, _ => false
  end.

Fixpoint list_eqb {A} (eq : A -> A -> bool) (a b : list A) : bool :=
  match a, b with
  | [], [] => true
  | x :: a', y :: b' => eq x y && list_eqb eq a' b'
  | _, _ => false
  end.

Definition tdef_eqb (a b : tdef) : bool :=
  match a, b with
  | DScalar, DScalar => true
  | DEnum x, DEnum y => list_eqb String.eqb x y
  | DObject x kx, DObject y ky =>
      list_eqb (fun p q => String.eqb (fst p) (fst q) && tref_eqb (snd p) (snd q)) x y &&
      match kx, ky with None, None => true | Some a, Some b => String.eqb a b | _, _ => false end
  | DUnion x, DUnion y => list_eqb String.eqb x y
  | _, _ => false
  end.

Definition schema_eqb (a b : schema) : bool :=
  list_eqb (fun p q => String.eqb (fst p) (fst q) && tdef_eqb (snd p) (snd q)) a b.

(** * The scalar table (schemabuilder/build.go `scalars`, plus text marshalers = "string") *)
Inductive jkind := KBool | KNumber | KString.

Definition scalar_table : list (string * jkind) :=
  [("bool", KBool); ("int", KNumber); ("int8", KNumber); ("int16", KNumber); ("int32", KNumber); ("int64", KNumber);
   ("uint", KNumber); ("uint8", KNumber); ("uint16", KNumber); ("uint32", KNumber); ("uint64", KNumber);
   ("float32", KNumber); ("float64", KNumber); ("string", KString); ("Time", KString); ("bytes", KString)].

Definition scalar_kind (name : string) : option jkind := lookup name scalar_table.

Definition json_has_kind (k : jkind) (j : json) : bool :=
  match k, j with
  | KBool, JBool _ => true
  | KNumber, JNum _ => true
  | KString, JStr _ => true
  | _, _ => false
  end.

Definition scalars_in_table (sch : schema) : bool :=
  forallb (fun e => match snd e with DScalar => match scalar_kind (fst e) with Some _ => true | None => false end | _ => true end) sch.

(** Field types and union members are defined; union members are objects (decidable form of
    [schema_closed] of ProofsExec.v). *)
Definition is_object (sch : schema) (n : string) : bool :=
  match lookup n sch with Some (DObject _ _) => true | _ => false end.
Definition schema_closedb (sch : schema) : bool :=
  forallb (fun e => match snd e with
                    | DObject fs _ => forallb (fun f => match lookup (named_of (snd f)) sch with Some _ => true | None => false end) fs
                    | DUnion ms => forallb (is_object sch) ms
                    | _ => true
                    end) sch.

(** * Abstract data: what the resolvers returned, already unwrapped *)
Inductive value : Type :=
| VNull                                  (* nil pointer / nil interface *)
| VScalar (j : json)
| VEnum (s : string)
| VList (l : list value)
| VObj (tn : string) (fs : list (string * value)).   (* an object of type tn; for a union: its member *)

(** * Selection expanded for an object of type [tn]: the fields that apply, in order
    (object types: every fragment applies, as in resolveObjectBatch/Flatten; under a union: the
    fragments on the runtime member). *)
Definition sfield := (string * string * option (list titem))%type.   (* alias, name, sub-selection *)

Fixpoint ex_item (fuel : nat) (tbl : ftable) : bool -> list sfield -> titem -> res (list sfield) :=
  match fuel with
  | 0 => fun _ _ _ => RCrash CrStack
  | S f =>
      fix item (fields : bool) (acc : list sfield) (it : titem) {struct it} : res (list sfield) :=
        match it with
        | TField alias name _ _ sub => if fields then ROk (acc ++ [(alias, name, sub)]) else ROk acc
        | TInline _ _ sub => if fields then ROk acc else two_pass item acc sub
        | TSpread name _ =>
            if fields then ROk acc
            else match lookup name tbl with
                 | None => RCrash CrDanglingFragment
                 | Some (_, body) => two_pass (ex_item f tbl) acc body
                 end
        end
  end.

Definition expand_obj (tbl : ftable) (items : list titem) : res (list sfield) :=
  two_pass (ex_item (S (List.length tbl)) tbl) [] items.

(** Under a union whose runtime member is [m]. *)
Definition ux_item (tbl : ftable) (m : string) (fields : bool) (acc : list sfield) (it : titem) : res (list sfield) :=
  match it with
  | TField alias name _ _ sub => if fields then ROk (acc ++ [(alias, name, sub)]) else ROk acc
  | TInline on _ sub =>
      if fields then ROk acc
      else if String.eqb on m then
             match expand_obj tbl sub with ROk l => ROk (acc ++ l) | RErr e => RErr e | RCrash c => RCrash c end
           else ROk acc
  | TSpread name _ =>
      if fields then ROk acc
      else match lookup name tbl with
           | None => RCrash CrDanglingFragment
           | Some (on, body) =>
               if String.eqb on m then
                 match expand_obj tbl body with ROk l => ROk (acc ++ l) | RErr e => RErr e | RCrash c => RCrash c end
               else ROk acc
           end
  end.
Definition expand_union (tbl : ftable) (m : string) (items : list titem) : res (list sfield) :=
  two_pass_rev (ux_item tbl m) [] items.

(** * Reference evaluator.  [EShape] = execution fails for a type/shape reason. *)
Inductive eres : Type := EOk (j : json) | EShape | EFuel.

Section Eval.
  Variable sch : schema.
  Variable tbl : ftable.

  Fixpoint eval (fuel : nat) (t : tref) (sel : option (list titem)) (v : value) : eres :=
    match fuel with
    | 0 => EFuel
    | S f =>
        match t with
        | TNonNull t' => eval f t' sel v
        | TList t' =>
            match v with
            | VNull => EOk (JArr [])         (* a nil slice renders as an empty list *)
            | VList l =>
                (fix go (l : list value) : eres :=
                   match l with
                   | [] => EOk (JArr [])
                   | x :: r => match eval f t' sel x, go r with
                               | EOk j, EOk (JArr js) => EOk (JArr (j :: js))
                               | EShape, _ => EShape | _, EShape => EShape
                               | _, _ => EFuel
                               end
                   end) l
            | _ => EShape
            end
        | TNamed n =>
            match lookup n sch with
            | None => EShape
            | Some DScalar =>
                match sel, v with
                | Some _, _ => EShape
                | None, VNull => EOk JNull
                | None, VScalar j => EOk j
                | None, _ => EShape
                end
            | Some (DEnum _) =>
                match sel, v with
                | Some _, _ => EShape
                | None, VNull => EOk JNull
                | None, VEnum s => EOk (JStr s)
                | None, _ => EShape
                end
            | Some (DObject fs _) =>
                match sel, v with
                | None, _ => EShape
                | Some _, VNull => EOk JNull
                | Some items, VObj tn flds =>
                    match expand_obj tbl items with
                    | ROk sfs => eval_fields f n fs flds sfs
                    | _ => EShape
                    end
                | Some _, _ => EShape
                end
            | Some (DUnion ms) =>
                match sel, v with
                | None, _ => EShape
                | Some _, VNull => EOk JNull
                | Some items, VObj m flds =>
                    match lookup m sch, expand_union tbl m items with
                    | Some (DObject fs _), ROk sfs => eval_fields f m fs flds sfs
                    | _, _ => EShape
                    end
                | Some _, _ => EShape
                end
            end
        end
    end
  with eval_fields (fuel : nat) (tn : string) (fs : list (string * tref)) (flds : list (string * value))
                   (sfs : list sfield) : eres :=
    match fuel with
    | 0 => EFuel
    | S f =>
        match sfs with
        | [] => EOk (JObj [])
        | (alias, name, sub) :: r =>
            let here :=
              if String.eqb name "__typename" then
                match sub with None => EOk (JStr tn) | Some _ => EShape end
              else match lookup name fs, lookup name flds with
                   | Some ft, Some v' => eval f ft sub v'
                   | _, _ => EShape            (* field not in the type / not in the data *)
                   end in
            match here, eval_fields f tn fs flds r with
            | EOk j, EOk (JObj kvs) => EOk (JObj ((alias, j) :: kvs))
            | EShape, _ => EShape | _, EShape => EShape
            | _, _ => EFuel
            end
        end
    end.
End Eval.

(** * Conformance of a JSON value to an advertised type under a selection *)
Section Conforms.
  Variable sch : schema.   (* the advertised schema *)
  Variable tbl : ftable.

  (** [entry]: list entries are advertised non-null by thunder but may be null. *)
  Inductive conforms : bool -> tref -> option (list titem) -> json -> Prop :=
  | cf_nonnull : forall entry t sel j, (j <> JNull \/ entry = true) -> conforms entry t sel j -> conforms entry (TNonNull t) sel j
  | cf_list : forall entry t sel js, Forall (conforms true t sel) js -> conforms entry (TList t) sel (JArr js)
  | cf_null : forall entry n sel, conforms entry (TNamed n) sel JNull
  | cf_scalar : forall entry n k j, lookup n sch = Some DScalar -> scalar_kind n = Some k -> json_has_kind k j = true ->
                                    conforms entry (TNamed n) None j
  | cf_enum : forall entry n vs s, lookup n sch = Some (DEnum vs) -> In s vs -> conforms entry (TNamed n) None (JStr s)
  | cf_object : forall entry n fs k items sfs kvs,
      lookup n sch = Some (DObject fs k) -> expand_obj tbl items = ROk sfs ->
      conforms_fields n fs sfs kvs -> conforms entry (TNamed n) (Some items) (JObj kvs)
  | cf_union : forall entry n ms m fs k items sfs kvs,
      lookup n sch = Some (DUnion ms) -> In m ms -> lookup m sch = Some (DObject fs k) ->
      expand_union tbl m items = ROk sfs ->
      conforms_fields m fs sfs kvs -> conforms entry (TNamed n) (Some items) (JObj kvs)
  (** fields exactly as selected: same aliases, in order, each value conforming to its field's type *)
  with conforms_fields : string -> list (string * tref) -> list sfield -> list (string * json) -> Prop :=
  | cff_nil : forall tn fs, conforms_fields tn fs [] []
  | cff_typename : forall tn fs alias r kvs,
      conforms_fields tn fs r kvs -> conforms_fields tn fs ((alias, "__typename", None) :: r) ((alias, JStr tn) :: kvs)
  | cff_field : forall tn fs alias name sub ft j r kvs,
      name <> "__typename" -> lookup name fs = Some ft -> conforms false ft sub j ->
      conforms_fields tn fs r kvs -> conforms_fields tn fs ((alias, name, sub) :: r) ((alias, j) :: kvs).
End Conforms.
