(** C14: graphql/introspection/introspection.go as an executable model – what ComputeSchemaJSON prints
    for a built schema (kinds, ofType chains cut at the depth of the TypeRef fragment of the introspection
    query, fields with their arguments, inputFields, enumValues, possibleTypes; everything sorted by name
    as introspection.go sorts it) – and the reader a client applies to that JSON to learn the types.

    The built schema is richer here than [Types.schema]: fields carry their arguments, input objects are
    types, enum values carry the description introspection prints, objects and unions their description.
    [erase] forgets that and gives the [schema] validation and execution are modelled over. *)
From Coq Require Import List ZArith String Bool Arith.
From Thunder Require Import Lib.Json GqlTyping.Types GqlTyping.Parse.
Import ListNotations.
Open Scope string_scope.
Open Scope list_scope.

Definition xargs := list (string * tref).

Inductive xdef : Type :=
| XScalar
| XEnum (values : list (string * string))                       (* name, description (fmt %v of the Go value) *)
| XObject (desc : string) (fields : list (string * (tref * xargs))) (key : option string)
| XUnion (desc : string) (members : list string)
| XInput (fields : list (string * tref)).

Definition xschema := list (string * xdef).

(** ** What validation and execution see of it *)
Definition erase_def (d : xdef) : option tdef :=
  match d with
  | XScalar => Some DScalar
  | XEnum vs => Some (DEnum (map fst vs))
  | XObject _ fs k => Some (DObject (map (fun f => (fst f, fst (snd f))) fs) k)
  | XUnion _ ms => Some (DUnion ms)
  | XInput _ => None
  end.

Fixpoint erase (x : xschema) : schema :=
  match x with
  | [] => []
  | (n, d) :: r => match erase_def d with Some d' => (n, d') :: erase r | None => erase r end
  end.

(** ** registerType: kind, name, ofType *)
Definition kind_of (x : xschema) (n : string) : string :=
  match lookup n x with
  | Some XScalar => "SCALAR"
  | Some (XEnum _) => "ENUM"
  | Some (XObject _ _ _) => "OBJECT"
  | Some (XUnion _ _) => "UNION"
  | Some (XInput _) => "INPUT_OBJECT"
  | None => ""
  end.

(** The TypeRef fragment of introspection_query.go: kind, name and ofType nested [ref_depth] levels
    deep; the innermost level selects kind and name only. *)
Definition ref_depth : nat := 8.

Fixpoint ref_json (x : xschema) (k : nat) (t : tref) : json :=
  match k with
  | 0 => JNull
  | S k' =>
      let kind := match t with TNamed n => kind_of x n | TList _ => "LIST" | TNonNull _ => "NON_NULL" end in
      let name := match t with TNamed n => JStr n | _ => JNull end in
      JObj ([("kind", JStr kind); ("name", name)] ++
            match k' with
            | 0 => []
            | _ => [("ofType", match t with TNamed _ => JNull | TList t' => ref_json x k' t' | TNonNull t' => ref_json x k' t' end)]
            end)
  end.

(** sort.Slice by name: names are keys of Go maps, hence distinct; the order of equal names does not arise. *)
Definition by_name {A} (l : list (string * A)) : list (string * A) := sort_kv l.
Definition sort_names (l : list string) : list string := map fst (sort_kv (map (fun s => (s, tt)) l)).

Definition input_value_json (x : xschema) (a : string * tref) : json :=
  JObj [("defaultValue", JNull); ("description", JStr ""); ("name", JStr (fst a)); ("type", ref_json x ref_depth (snd a))].

Definition field_json (x : xschema) (f : string * (tref * xargs)) : json :=
  JObj [("args", JArr (map (input_value_json x) (by_name (snd (snd f)))));
        ("deprecationReason", JStr ""); ("description", JStr ""); ("isDeprecated", JBool false);
        ("name", JStr (fst f)); ("type", ref_json x ref_depth (fst (snd f)))].

Definition enum_value_json (v : string * string) : json :=
  JObj [("deprecationReason", JStr ""); ("description", JStr (snd v)); ("isDeprecated", JBool false); ("name", JStr (fst v))].

Definition type_json (x : xschema) (e : string * xdef) : json :=
  let '(n, d) := e in
  JObj [("description", JStr (match d with XObject s _ _ => s | XUnion s _ => s | _ => "" end));
        ("enumValues", JArr (match d with XEnum vs => map enum_value_json (by_name vs) | _ => [] end));
        ("fields", JArr (match d with XObject _ fs _ => map (field_json x) (by_name fs) | _ => [] end));
        ("inputFields", JArr (match d with XInput fs => map (input_value_json x) (by_name fs) | _ => [] end));
        ("interfaces", JArr []);
        ("kind", JStr (kind_of x n));
        ("name", JStr n);
        ("possibleTypes", JArr (match d with XUnion _ ms => map (fun m => ref_json x ref_depth (TNamed m)) (sort_names ms) | _ => [] end))].

(** __schema.types of the introspection result. *)
Definition introspect_types (x : xschema) : json := JArr (map (type_json x) (by_name x)).

(** ** The reader: from the printed JSON back to types (what a client, the federation gateway's
    schema syncer or the harness's conformance oracle does with it). *)
Definition jfield (k : string) (j : json) : option json :=
  match j with JObj l => lookup k l | _ => None end.
Definition jstr (o : option json) : option string :=
  match o with Some (JStr s) => Some s | _ => None end.

Fixpoint mapo {A B} (f : A -> option B) (l : list A) : option (list B) :=
  match l with
  | [] => Some []
  | a :: r => match f a, mapo f r with Some b, Some bs => Some (b :: bs) | _, _ => None end
  end.
Definition read_list {A} (f : json -> option A) (o : option json) : option (list A) :=
  match o with Some (JArr l) => mapo f l | _ => None end.

Fixpoint read_ref (k : nat) (j : json) : option tref :=
  match k with
  | 0 => None
  | S k' =>
      match jstr (jfield "kind" j) with
      | None => None
      | Some kind =>
          if String.eqb kind "NON_NULL" then
            match jfield "ofType" j with Some o => option_map TNonNull (read_ref k' o) | None => None end
          else if String.eqb kind "LIST" then
            match jfield "ofType" j with Some o => option_map TList (read_ref k' o) | None => None end
          else option_map TNamed (jstr (jfield "name" j))
      end
  end.

Definition read_input_value (j : json) : option (string * tref) :=
  match jstr (jfield "name" j), jfield "type" j with
  | Some n, Some t => option_map (fun t' => (n, t')) (read_ref ref_depth t)
  | _, _ => None
  end.

Definition read_field (j : json) : option (string * (tref * xargs)) :=
  match jstr (jfield "name" j), jfield "type" j, read_list read_input_value (jfield "args" j) with
  | Some n, Some t, Some args => option_map (fun t' => (n, (t', args))) (read_ref ref_depth t)
  | _, _, _ => None
  end.

Definition read_enum_value (j : json) : option (string * string) :=
  match jstr (jfield "name" j), jstr (jfield "description" j) with
  | Some n, Some d => Some (n, d)
  | _, _ => None
  end.

Definition read_member (j : json) : option string := jstr (jfield "name" j).

Definition read_type (j : json) : option (string * xdef) :=
  match jstr (jfield "kind" j), jstr (jfield "name" j), jstr (jfield "description" j) with
  | Some kind, Some n, Some desc =>
      if String.eqb kind "SCALAR" then Some (n, XScalar)
      else if String.eqb kind "ENUM" then option_map (fun vs => (n, XEnum vs)) (read_list read_enum_value (jfield "enumValues" j))
      else if String.eqb kind "OBJECT" then option_map (fun fs => (n, XObject desc fs None)) (read_list read_field (jfield "fields" j))
      else if String.eqb kind "UNION" then option_map (fun ms => (n, XUnion desc ms)) (read_list read_member (jfield "possibleTypes" j))
      else if String.eqb kind "INPUT_OBJECT" then option_map (fun fs => (n, XInput fs)) (read_list read_input_value (jfield "inputFields" j))
      else None
  | _, _, _ => None
  end.

Definition read_types (j : json) : option xschema := read_list read_type (Some j).

(** ** What the reader must arrive at: the same types, listed in introspection's order, without the
    key-field marks (internal to the executor). *)
Definition norm_def (d : xdef) : xdef :=
  match d with
  | XScalar => XScalar
  | XEnum vs => XEnum (by_name vs)
  | XObject s fs _ => XObject s (map (fun f => (fst f, (fst (snd f), by_name (snd (snd f))))) (by_name fs)) None
  | XUnion s ms => XUnion s (sort_names ms)
  | XInput fs => XInput (by_name fs)
  end.
Definition xnormalize (x : xschema) : xschema := map (fun e => (fst e, norm_def (snd e))) (by_name x).

(** ** Well-formedness of a built schema, decidable: distinct type names, distinct field / argument names
    (they are keys of Go maps), every type reference at most [ref_depth - 1] wrappers deep (what the
    TypeRef fragment can print), every referenced name defined. *)
Definition ref_ok (x : xschema) (t : tref) : bool :=
  Nat.ltb (wrappers t) ref_depth && match lookup (named_of t) x with Some _ => true | None => false end.

(** The type of an output field names an output type (an input object is a type of arguments only). *)
Definition out_ref_ok (x : xschema) (t : tref) : bool :=
  ref_ok x t && match lookup (named_of t) x with Some (XInput _) => false | _ => true end.

Definition def_ok (x : xschema) (d : xdef) : bool :=
  match d with
  | XScalar => true
  | XEnum vs => nodup_keys (map fst vs)
  | XObject _ fs _ =>
      nodup_keys (map fst fs) &&
      forallb (fun f => out_ref_ok x (fst (snd f)) && nodup_keys (map fst (snd (snd f))) &&
                        forallb (fun a => ref_ok x (snd a)) (snd (snd f))) fs
  | XUnion _ ms => nodup_keys ms && forallb (fun m => match lookup m x with Some (XObject _ _ _) => true | _ => false end) ms
  | XInput fs => nodup_keys (map fst fs) && forallb (fun a => ref_ok x (snd a)) fs
  end.

Definition xwf (x : xschema) : bool :=
  nodup_keys (map fst x) && forallb (fun e => def_ok x (snd e)) x.

(** Example used by Props/C14.v. *)
Definition ex_x : xschema :=
  [("Query", XObject "" [("o", (TNamed "Obj", [("id", TNonNull (TNamed "int64")); ("f", TNamed "In")])); ("n", (TNonNull (TNamed "int64"), []))] None);
   ("Obj", XObject "an object" [("tags", (TNonNull (TList (TNonNull (TNamed "string"))), [])); ("shade", (TNonNull (TNamed "Shade"), []));
                                ("u", (TNamed "U", []))] (Some "tags"));
   ("U", XUnion "" ["Obj"]);
   ("Shade", XEnum [("LIGHT", "0"); ("DARK", "2")]);
   ("In", XInput [("x", TNamed "string")]);
   ("int64", XScalar); ("string", XScalar)].
