(* C20 (with C05) - batch.Invoke under a limiter: the composition projects onto both components (so every
   theorem of either carries over), the link invariant, and deadlock freedom: from every reachable state of the
   composition, with a limit of at least one, the cooperative continuation (calls in progress go on, every
   holder is released once, Many returns) has an enabled step until everything is over, and it is over after at
   most [mu] steps. *)
From Coq Require Import List Arith Bool Lia ZifyBool ZifyNat.
From Thunder Require Limiter.Model Batch.Model Batch.Proofs.
From Thunder Require Import Limiter.Proofs Limiter.ModelBatch.
Import ListNotations.

Module BP := Thunder.Batch.Proofs.

(* ---- 1. projections ---- *)

Lemma cstep_proj : forall fx cs l cs', cstep fx cs l = Some cs' ->
  L.run fx (lim cs) (lproj1 cs l) = Some (lim cs') /\ B.run (bat cs) (bproj1 l) = Some (bat cs').
Proof.
  intros fx cs l cs' H. destruct l as [ll|fid argv sh c h|bl]; cbn [cstep lproj1 bproj1] in *.
  - match type of H with (if ?g then _ else _) = _ => destruct g; [|discriminate] end.
    destruct (L.step fx (lim cs) ll) as [ls'|] eqn:E; [|discriminate]. injection H as <-. simpl. rewrite E. auto.
  - destruct (holder_ok (lim cs) h); [|discriminate].
    destruct (B.step (bat cs) (B.LJoin fid argv sh c)) as [bs'|] eqn:E; [|discriminate].
    destruct (B.lookup fid sh (B.pending (bat cs))) as [gi|] eqn:P.
    + destruct (L.step fx (lim cs) (L.LNewBlock h)) as [ls'|] eqn:E2; [|discriminate]. injection H as <-.
      cbn [lim bat L.run B.run]. rewrite E, E2. auto.
    + injection H as <-. cbn [lim bat L.run B.run]. rewrite E. auto.
  - match type of H with (if ?g then _ else _) = _ => destruct g; [|discriminate] end.
    destruct (B.step (bat cs) bl) as [bs'|] eqn:E; [|discriminate]. injection H as <-. simpl. rewrite E. auto.
Qed.

Lemma brun_app : forall tr1 tr2 s, B.run s (tr1 ++ tr2) = match B.run s tr1 with Some s1 => B.run s1 tr2 | None => None end.
Proof. induction tr1 as [|l tr1 IH]; intros; simpl; auto. destruct (B.step s l); auto. Qed.

Lemma crun_proj : forall fx tr cs cs', crun fx cs tr = Some cs' ->
  L.run fx (lim cs) (lproj fx cs tr) = Some (lim cs') /\ B.run (bat cs) (bproj tr) = Some (bat cs').
Proof.
  intros fx. induction tr as [|l tr IH]; intros cs cs' H; simpl in H.
  - injection H as <-. simpl. auto.
  - destruct (cstep fx cs l) as [cs1|] eqn:E; [|discriminate].
    destruct (cstep_proj _ _ _ _ E) as [A1 A2]. destruct (IH _ _ H) as [B1 B2].
    cbn [lproj bproj]. rewrite E. rewrite run_app, brun_app, A1, A2. auto.
Qed.

Lemma crun_app : forall fx tr1 tr2 cs, crun fx cs (tr1 ++ tr2) = match crun fx cs tr1 with Some c1 => crun fx c1 tr2 | None => None end.
Proof. induction tr1 as [|l tr1 IH]; intros; simpl; auto. destruct (cstep fx cs l); auto. Qed.

(* reachable states of the composition *)
Definition Reach (n : nat) (mss : list nat) (cs : cstate) : Prop := exists tr, crun true (cinit n mss) tr = Some cs.

Lemma reach_step : forall n mss cs l cs', Reach n mss cs -> cstep true cs l = Some cs' -> Reach n mss cs'.
Proof.
  intros n mss cs l cs' [tr R] S. exists (tr ++ [l]). rewrite crun_app, R. simpl. rewrite S. reflexivity.
Qed.

Lemma reach_components : forall n mss cs, Reach n mss cs ->
  (exists ltr, L.run true (L.init n) ltr = Some (lim cs)) /\ (exists btr, B.run (B.init mss) btr = Some (bat cs)).
Proof.
  intros n mss cs [tr R]. destruct (crun_proj _ _ _ _ R) as [A1 A2]. split; eexists; eauto.
Qed.

(* ---- 2. the link invariant ---- *)

(* the program counter belongs to a TemporarilyRelease call on a context whose innermost holder is [ho] *)
Definition pc_for (ho : option nat) (p : L.pc) : bool :=
  match p with
  | L.B0 k | L.B1 k | L.B2 k | L.B3 k | L.B3s k | L.B3f k | L.B4 k =>
      match ho with Some h => Nat.eqb k h | None => false end
  | L.PF o => match o, ho with Some k, Some h => Nat.eqb k h | None, None => true | _, _ => false end
  | L.BDone => true
  | _ => false
  end.

(* f has returned *)
Definition past_f (p : L.pc) : bool :=
  match p with L.B3 _ | L.B3s _ | L.B3f _ | L.B4 _ | L.BDone => true | _ => false end.

Record LInv (cs : cstate) : Prop := mkLInv {
  lk_len : length (links cs) = length (B.callers (bat cs));
  lk_thr : forall ci k t, nth_error (links cs) ci = Some k -> k_thread k = Some t ->
     waiter_of cs t = Some ci /\
     exists p, nth_error (L.threads (lim cs)) t = Some p /\ pc_for (k_holder k) p = true /\
               (past_f p = true -> caller_done (bat cs) ci = true) /\
               (forall c, nth_error (B.callers (bat cs)) ci = Some c -> B.c_ret c <> None -> p = L.BDone)
}.

Ltac thr_case t :=
  match goal with
  | Hn : nth_error ?l t = Some ?p, E : nth_error ?l ?t0 = Some ?a |- context[nth_error (L.upd ?l ?t0 ?x) t] =>
      let Q := fresh "Q" in
      destruct (Nat.eq_dec t0 t) as [Q|Q];
      [ subst t0; rewrite (nth_error_upd_same _ _ _ _ x E);
        let Z := fresh "Z" in assert (Z : a = p) by congruence; subst p
      | rewrite (nth_error_upd_other _ l t0 t x Q) ]
  end.

Lemma thread_step : forall fx s l s' t p, L.step fx s l = Some s' -> nth_error (L.threads s) t = Some p ->
  exists p', nth_error (L.threads s') t = Some p' /\
    (forall ho, pc_for ho p = true -> pc_for ho p' = true) /\
    (past_f p' = true -> past_f p = true \/ l = L.LFRet t \/ l = L.LFPanic t) /\
    (p = L.BDone -> p' = L.BDone).
Proof.
  intros fx s l s' t p H Hn.
  destruct l; step_cases H;
    try (exists p; split; [first [exact Hn | apply nth_error_app_old; exact Hn]|]; split; [|split]; auto; fail);
    thr_case t;
    try (exists p; split; [exact Hn|]; split; [|split]; auto; fail);
    (eexists; split; [reflexivity|]; split; [|split];
     [ intros ho; destruct ho; cbn [pc_for]; auto; try discriminate
     | cbn [past_f]; intro; auto; try discriminate
     | intro; discriminate ]).
Qed.

Lemma waiter_from_app : forall ks k i t,
  waiter_from (ks ++ [k]) i t =
  match waiter_from ks i t with
  | Some c => Some c
  | None => match k_thread k with
            | Some t' => if Nat.eqb t' t then Some (i + length ks) else None
            | None => None
            end
  end.
Proof.
  induction ks as [|a ks IH]; intros k i t; simpl.
  - rewrite Nat.add_0_r. reflexivity.
  - destruct (k_thread a) as [t'|].
    + destruct (Nat.eqb t' t); auto. rewrite IH. replace (S i + length ks) with (i + S (length ks)) by lia. reflexivity.
    + rewrite IH. replace (S i + length ks) with (i + S (length ks)) by lia. reflexivity.
Qed.

Lemma waiter_from_none : forall ks i t0,
  (forall ci k t, nth_error ks ci = Some k -> k_thread k = Some t -> t <> t0) -> waiter_from ks i t0 = None.
Proof.
  induction ks as [|a ks IH]; intros i t0 Hn; simpl; auto.
  destruct (k_thread a) as [t'|] eqn:E.
  - destruct (Nat.eqb_spec t' t0) as [->|N]; [exfalso; eapply (Hn 0 a t0); eauto|].
    apply IH. intros ci k t A B. apply (Hn (S ci) k t); auto.
  - apply IH. intros ci k t A B. apply (Hn (S ci) k t); auto.
Qed.

Lemma waiter_from_some : forall ks i t c, waiter_from ks i t = Some c ->
  i <= c /\ exists k, nth_error ks (c - i) = Some k /\ k_thread k = Some t.
Proof.
  induction ks as [|a ks IH]; intros i t c H; simpl in H; [discriminate|].
  destruct (k_thread a) as [t'|] eqn:E.
  - destruct (Nat.eqb_spec t' t) as [->|N].
    + injection H as <-. split; [lia|]. rewrite Nat.sub_diag. exists a. auto.
    + destruct (IH _ _ _ H) as [A [k [B C]]]. split; [lia|]. exists k. split; auto.
      replace (c - i) with (S (c - S i)) by lia. exact B.
  - destruct (IH _ _ _ H) as [A [k [B C]]]. split; [lia|]. exists k. split; auto.
    replace (c - i) with (S (c - S i)) by lia. exact B.
Qed.

(* facts about Batch.Model.step used by the composition *)

Lemma join_facts : forall bs f a sh c bs', B.step bs (B.LJoin f a sh c) = Some bs' ->
  exists newc, B.callers bs' = B.callers bs ++ [newc] /\ B.c_ret newc = None /\
    length (B.groups bs) <= length (B.groups bs') /\
    (forall ci, caller_done bs ci = true -> caller_done bs' ci = true).
Proof.
  intros bs f a sh c bs' H. unfold B.step in H.
  destruct (B.lookup f sh (B.pending bs)) as [gi|] eqn:P.
  - destruct (nth_error (B.groups bs) gi) as [g|] eqn:G; [|discriminate]. injection H as <-.
    eexists. cbn [B.callers B.groups]. split; [reflexivity|]. split; [reflexivity|].
    split; [rewrite length_upd; lia|].
    intros ci D. unfold caller_done in *. cbn [B.callers B.groups].
    destruct (nth_error (B.callers bs) ci) as [cl|] eqn:C; [|discriminate].
    rewrite (nth_error_app_old _ _ _ _ _ C).
    destruct (Nat.eq_dec gi (B.c_gid cl)) as [Q|Q].
    + subst gi. rewrite G in D. erewrite nth_error_upd_same by eauto. exact D.
    + rewrite nth_error_upd_other by auto. exact D.
  - injection H as <-. eexists. cbn [B.callers B.groups]. split; [reflexivity|]. split; [reflexivity|].
    split; [rewrite app_length; lia|].
    intros ci D. unfold caller_done in *. cbn [B.callers B.groups].
    destruct (nth_error (B.callers bs) ci) as [cl|] eqn:C; [|discriminate].
    rewrite (nth_error_app_old _ _ _ _ _ C).
    destruct (nth_error (B.groups bs) (B.c_gid cl)) as [g|] eqn:G; [|discriminate].
    rewrite (nth_error_app_old _ _ _ _ _ G). exact D.
Qed.

Lemma done_false_of_gwf : forall ms g, BP.gwf ms g ->
  B.g_phase g = B.Open \/ B.g_phase g = B.Woken \/ B.g_phase g = B.Unpub -> B.g_done g = false.
Proof.
  intros ms g [_ W] P. destruct (B.g_phase g); try tauto; destruct P as [P|[P|P]]; try discriminate.
Qed.

Ltac bstep_cases H :=
  unfold B.step in H; dmatch H; injection H as <-;
  cbn [B.maxsizes B.pending B.groups B.callers B.set_group] in *.

Lemma caller_done_step : forall bs l bs' ci, BP.Inv bs -> B.step bs l = Some bs' ->
  caller_done bs ci = true -> caller_done bs' ci = true.
Proof.
  intros bs l bs' ci HI H D.
  destruct l as [f a sh c|g|g c|g|g o|g|g|c0];
    try (destruct (join_facts _ _ _ _ _ _ H) as [nc [_ [_ [_ M]]]]; auto; fail);
    unfold caller_done in *;
    destruct (nth_error (B.callers bs) ci) as [cl|] eqn:C; try discriminate;
    destruct (nth_error (B.groups bs) (B.c_gid cl)) as [g0|] eqn:G0; try discriminate;
    bstep_cases H; rewrite ?C;
    try (match goal with
         | E : nth_error (B.groups bs) ?gi = Some ?gg |- context[nth_error (L.upd (B.groups bs) ?gi ?x) (B.c_gid cl)] =>
             destruct (Nat.eq_dec gi (B.c_gid cl)) as [Q|Q];
             [ subst gi; rewrite (nth_error_upd_same _ _ _ _ x E);
               assert (gg = g0) by congruence; subst gg; cbn [B.g_done B.with_phase];
               try exact D;
               try (exfalso;
                    pose proof (done_false_of_gwf _ _ (BP.iD _ HI _ _ G0)) as F;
                    rewrite F in D; [discriminate | tauto])
             | rewrite (nth_error_upd_other _ _ gi (B.c_gid cl) x Q); rewrite G0; exact D ]
         end).
  1,2: reflexivity.
  (* LReturn *)
  match goal with
  | E : nth_error (B.callers bs) ?c0 = Some ?c |- context[L.upd (B.callers bs) ?c0 ?x] =>
      destruct (Nat.eq_dec c0 ci) as [Q|Q];
      [ subst c0; rewrite (nth_error_upd_same _ _ _ _ x E); assert (c = cl) by congruence; subst c;
        cbn [B.c_gid]; rewrite G0; exact D
      | rewrite (nth_error_upd_other _ _ c0 ci x Q); rewrite C, G0; exact D ]
  end.
Qed.

Lemma ret_step : forall bs l bs' ci c', B.step bs l = Some bs' ->
  nth_error (B.callers bs') ci = Some c' -> B.c_ret c' <> None ->
  l = B.LReturn ci \/ exists c, nth_error (B.callers bs) ci = Some c /\ B.c_ret c <> None.
Proof.
  intros bs l bs' ci c' H N R.
  destruct l as [f a sh c|g|g c|g|g o|g|g|c0].
  - destruct (join_facts _ _ _ _ _ _ H) as [nc [E [RN _]]]. rewrite E in N.
    apply nth_error_app_last in N. destruct N as [[_ N]|[_ ->]]; [right; eauto | congruence].
  - bstep_cases H; right; eauto.
  - bstep_cases H; right; eauto.
  - bstep_cases H; right; eauto.
  - bstep_cases H; right; eauto.
  - bstep_cases H; right; eauto.
  - bstep_cases H; right; eauto.
  - destruct (Nat.eq_dec c0 ci) as [->|Q]; [left; reflexivity|]. right.
    bstep_cases H. rewrite nth_error_upd_other in N by auto. eauto.
Qed.

Lemma linv_init : forall n mss, LInv (cinit n mss).
Proof. intros. constructor; simpl; auto. intros ci k t H. destruct ci; discriminate. Qed.

Lemma linv_step : forall fx cs l cs', LInv cs -> BP.Inv (bat cs) -> cstep fx cs l = Some cs' -> LInv cs'.
Proof.
  intros fx cs l cs' [HL HT] HB H. destruct l as [ll|fid argv sh c h|bl]; cbn [cstep] in H.
  - (* a limiter operation *)
    match type of H with (if ?g then _ else _) = _ => destruct g eqn:G; [|discriminate] end.
    destruct (L.step fx (lim cs) ll) as [ls'|] eqn:E; [|discriminate]. injection H as <-.
    constructor; cbn [lim bat links]; auto.
    intros ci k t N K. destruct (HT ci k t N K) as [W [p [P [F [D R]]]]]. split; [exact W|].
    destruct (thread_step _ _ _ _ _ _ E P) as [p' [P' [F' [D' R']]]].
    exists p'. split; [exact P'|]. split; [auto|]. split.
    + intro Q. destruct (D' Q) as [Q1|[Q1|Q1]]; [auto| |]; subst ll; rewrite W in G; [exact G|discriminate].
    + intros c0 C0 R0. rewrite (R _ C0 R0) in *. apply R'. reflexivity.
  - (* Invoke's first section *)
    destruct (holder_ok (lim cs) h) eqn:HO; [|discriminate].
    destruct (B.step (bat cs) (B.LJoin fid argv sh c)) as [bs'|] eqn:E; [|discriminate].
    destruct (join_facts _ _ _ _ _ _ E) as [nc [EC [RN [_ DM]]]].
    assert (OLD : forall ls' k', (forall t p, nth_error (L.threads (lim cs)) t = Some p -> nth_error (L.threads ls') t = Some p) ->
              (forall t0, k_thread k' = Some t0 -> t0 = length (L.threads (lim cs))) ->
              forall ci k t, nth_error (links cs) ci = Some k -> k_thread k = Some t ->
              waiter_from (links cs ++ [k']) 0 t = Some ci /\
              exists p, nth_error (L.threads ls') t = Some p /\ pc_for (k_holder k) p = true /\
                (past_f p = true -> caller_done bs' ci = true) /\
                (forall c0, nth_error (B.callers bs') ci = Some c0 -> B.c_ret c0 <> None -> p = L.BDone)).
    { intros ls' k' TH KN ci k t N K. destruct (HT ci k t N K) as [W [p [P [F [D R]]]]]. split.
      - rewrite waiter_from_app. unfold waiter_of in W. rewrite W. reflexivity.
      - exists p. split; [auto|]. split; [auto|]. split; [auto|].
        intros c0 C0. apply R. rewrite EC in C0. apply nth_error_app_last in C0.
        destruct C0 as [[_ C0]|[C1 _]]; [exact C0|].
        assert (ci < length (links cs)) by (apply nth_error_Some; congruence). lia. }
    assert (FRESH : waiter_from (links cs) 0 (length (L.threads (lim cs))) = None).
    { apply waiter_from_none. intros ci k t N K. destruct (HT ci k t N K) as [_ [p [P _]]].
      assert (t < length (L.threads (lim cs))) by (apply nth_error_Some; congruence). lia. }
    destruct (B.lookup fid sh (B.pending (bat cs))) as [gi|] eqn:P.
    + destruct (L.step fx (lim cs) (L.LNewBlock h)) as [ls'|] eqn:E2; [|discriminate]. injection H as <-.
      assert (TH : L.threads ls' = L.threads (lim cs) ++ [match h with Some k => L.B0 k | None => L.PF None end]).
      { unfold L.step in E2. destruct h as [k|].
        - destruct (k <? length (L.holders (lim cs))); [|discriminate]. injection E2 as <-. reflexivity.
        - injection E2 as <-. reflexivity. }
      constructor; cbn [lim bat links].
      * rewrite app_length, EC, app_length, HL. reflexivity.
      * intros ci k t N K. unfold waiter_of. cbn [links].
        apply nth_error_app_last in N. destruct N as [[_ N]|[N1 N2]].
        { eapply OLD; eauto.
          - intros t0 p0 Q. rewrite TH. apply nth_error_app_old. exact Q.
          - cbn [k_thread]. intros t0 Q. congruence. }
        { subst k. cbn [k_thread k_holder] in *. injection K as <-. split.
          - rewrite waiter_from_app, FRESH. cbn [k_thread]. rewrite Nat.eqb_refl. f_equal. lia.
          - rewrite TH. eexists. split; [apply nth_error_app_new|].
            split; [destruct h; cbn [pc_for]; auto; apply Nat.eqb_refl|].
            split; [destruct h; cbn [past_f]; discriminate|].
            intros c0 C0 R0. exfalso. rewrite EC, N1, HL in C0. rewrite nth_error_app_new in C0. congruence. }
    + injection H as <-. constructor; cbn [lim bat links].
      * rewrite app_length, EC, app_length, HL. reflexivity.
      * intros ci k t N K. unfold waiter_of. cbn [links].
        apply nth_error_app_last in N. destruct N as [[_ N]|[N1 N2]].
        { eapply OLD; eauto. cbn [k_thread]. discriminate. }
        { subst k. discriminate. }
  - (* another section of Invoke *)
    match type of H with (if ?g then _ else _) = _ => destruct g eqn:G; [|discriminate] end.
    destruct (B.step (bat cs) bl) as [bs'|] eqn:E; [|discriminate]. injection H as <-.
    assert (LEN : length (B.callers bs') = length (B.callers (bat cs))).
    { destruct bl; try discriminate G; bstep_cases E; rewrite ?length_upd; reflexivity. }
    constructor; cbn [lim bat links]; [congruence|].
    intros ci k t N K. destruct (HT ci k t N K) as [W [p [P [F [D R]]]]]. split; [exact W|].
    exists p. split; [exact P|]. split; [exact F|]. split.
    + intro Q. eapply caller_done_step; eauto.
    + intros c0 C0 R0. destruct (ret_step _ _ _ _ _ E C0 R0) as [->|[c1 [C1 R1]]]; [|eauto].
      rewrite N, K, P in G. destruct p; try discriminate G. reflexivity.
Qed.

Lemma reach_inv : forall n mss cs, Reach n mss cs -> LInv cs /\ BP.Inv (bat cs).
Proof.
  intros n mss cs [tr R].
  assert (G : forall tr c0 c1, LInv c0 /\ BP.Inv (bat c0) -> crun true c0 tr = Some c1 -> LInv c1 /\ BP.Inv (bat c1)).
  { clear. induction tr as [|l tr IH]; intros c0 c1 [A B] H; simpl in H.
    - injection H as <-. auto.
    - destruct (cstep true c0 l) as [c2|] eqn:E; [|discriminate]. apply (IH c2 c1); auto. split.
      + eapply linv_step; eauto.
      + destruct (cstep_proj _ _ _ _ E) as [_ P]. eapply BP.run_invariant; [|exact B|exact P].
        intros; eapply BP.inv_step; eauto. }
  apply (G tr (cinit n mss)); auto. split; [apply linv_init|apply BP.inv_init].
Qed.

(* ---- 3. every cooperative step decreases the measure ---- *)

Lemma sumf_app : forall A (f : A -> nat) l1 l2, sumf f (l1 ++ l2) = sumf f l1 + sumf f l2.
Proof. induction l1; simpl; intros; [reflexivity | rewrite IHl1; lia]. Qed.

Lemma sumf_upd : forall A (f : A -> nat) l i a x,
  nth_error l i = Some a -> sumf f (L.upd l i x) + f a = sumf f l + f x.
Proof.
  induction l as [|b l IH]; intros i a x H.
  - destruct i; discriminate.
  - destruct i; simpl in *.
    + injection H as ->. lia.
    + specialize (IH _ _ x H). lia.
Qed.

Lemma sumf_ext : forall A (f g : A -> nat) l, (forall a, f a = g a) -> sumf f l = sumf g l.
Proof. induction l as [|b l IH]; simpl; intros H; [reflexivity|]. rewrite H, (IH H). reflexivity. Qed.

Lemma seqn_S : forall k i, seqn i (S k) = seqn i k ++ [i + k].
Proof.
  induction k as [|k IH]; intros i.
  - simpl. rewrite Nat.add_0_r. reflexivity.
  - change (seqn i (S (S k))) with (i :: seqn (S i) (S k)). rewrite IH. simpl. do 3 f_equal. lia.
Qed.

Lemma in_seqn : forall k i x, In x (seqn i k) <-> i <= x < i + k.
Proof.
  induction k as [|k IH]; intros i x; simpl.
  - lia.
  - rewrite IH. lia.
Qed.

Lemma sumf_change_one : forall (f f' : nat -> nat) h k i,
  (forall j, j <> h -> f' j = f j) -> i <= h < i + k ->
  sumf f' (seqn i k) + f h = sumf f (seqn i k) + f' h.
Proof.
  induction k as [|k IH]; intros i Hd Hr; [lia|].
  simpl. destruct (Nat.eq_dec i h) as [->|N].
  - assert (E : sumf f' (seqn (S h) k) = sumf f (seqn (S h) k)).
    { clear IH Hr. generalize (S h) (Nat.lt_succ_diag_r h). induction k as [|k IH]; intros i Hi; simpl; auto.
      rewrite Hd by lia. rewrite IH by lia. reflexivity. }
    lia.
  - rewrite (Hd i N). specialize (IH (S i) Hd ltac:(lia)). lia.
Qed.

Lemma existsb_upd_eq : forall A (f : A -> bool) l i a x,
  nth_error l i = Some a -> f x = f a -> existsb f (L.upd l i x) = existsb f l.
Proof.
  induction l as [|b l IH]; intros i a x H E; destruct i; simpl in *; try discriminate.
  - injection H as ->. rewrite E. reflexivity.
  - rewrite (IH _ _ _ H E). reflexivity.
Qed.

Lemma muL_upd : forall ths t a x n,
  nth_error ths t = Some a -> (forall j, L.release_called j x = L.release_called j a) ->
  sumf rank_pc (L.upd ths t x) + sumf (unrel (L.upd ths t x)) (seqn 0 n) + rank_pc a =
  sumf rank_pc ths + sumf (unrel ths) (seqn 0 n) + rank_pc x.
Proof.
  intros ths t a x n H R. pose proof (sumf_upd _ rank_pc _ _ _ x H).
  rewrite (sumf_ext _ (unrel (L.upd ths t x)) (unrel ths)); [lia|].
  intro j. unfold unrel. rewrite (existsb_upd_eq _ _ _ _ _ x H (R j)). reflexivity.
Qed.

Lemma unrel_le : forall ths h, unrel ths h <= 3.
Proof. intros. unfold unrel. destruct (existsb _ _); lia. Qed.

Lemma muL_step : forall s l s', L.step true s l = Some s' -> coopL s l = true -> muL s' < muL s.
Proof.
  intros s l s' H C. unfold muL.
  destruct l; try discriminate C; step_cases H; rewrite ?length_upd;
    try (match goal with
         | E : nth_error (L.threads s) ?t = Some ?a |- context[L.upd (L.threads s) ?t ?x] =>
             pose proof (muL_upd _ _ _ x (length (L.holders s)) E ltac:(intro; reflexivity)) as U;
             cbn [rank_pc] in U; lia
         end).
  - (* LNewRelease *)
    cbn [coopL] in C. apply negb_true_iff in C. apply Nat.ltb_lt in E.
    rewrite sumf_app. cbn [sumf rank_pc].
    pose proof (sumf_change_one (unrel (L.threads s)) (unrel (L.threads s ++ [L.R0 h])) h (length (L.holders s)) 0) as U.
    assert (U1 : unrel (L.threads s) h = 3) by (unfold unrel; rewrite C; reflexivity).
    assert (U2 : unrel (L.threads s ++ [L.R0 h]) h = 0).
    { unfold unrel. rewrite existsb_app. cbn [existsb L.release_called]. rewrite Nat.eqb_refl, orb_true_r. reflexivity. }
    rewrite U1, U2 in U. specialize (U ltac:(intros j N; unfold unrel; rewrite existsb_app; cbn [existsb L.release_called];
                                               destruct (Nat.eqb_spec h j); [congruence|]; rewrite !orb_false_r; reflexivity) ltac:(lia)).
    lia.
  - (* LAcqSend *)
    rewrite app_length. cbn [length]. rewrite Nat.add_1_r, seqn_S, sumf_app. cbn [sumf].
    match goal with
    | E : nth_error (L.threads s) ?t = Some ?a |- context[L.upd (L.threads s) ?t ?x] =>
        pose proof (muL_upd _ _ _ x (length (L.holders s)) E ltac:(intro; reflexivity)) as U;
        pose proof (unrel_le (L.upd (L.threads s) t x) (0 + length (L.holders s)));
        cbn [rank_pc] in U; lia
    end.
Qed.

Definition muB_grank_phase : forall g p, B.g_done g = false ->
  grank (B.with_phase g p) = match p with B.Open => 4 | B.Woken => 3 | B.Unpub => 2 | B.Ran | B.Cancelled => 1 end.
Proof. intros g p D. unfold grank. cbn. rewrite D. reflexivity. Qed.

Lemma muB_step : forall bs l bs', BP.Inv bs -> B.step bs l = Some bs' -> coopB l = true -> muB bs' < muB bs.
Proof.
  intros bs l bs' HI H C. unfold muB.
  destruct l as [f a sh c|g|g c|g|g o|g|g|c0]; try discriminate C; bstep_cases H;
    try (match goal with
         | E : nth_error (B.groups bs) ?gi = Some ?gg |- context[L.upd (B.groups bs) ?gi ?x] =>
             pose proof (sumf_upd _ grank _ _ _ x E) as U;
             pose proof (BP.iD _ HI _ _ E) as W;
             assert (GR : grank x < grank gg);
             [ unfold grank; cbn [B.g_done B.g_phase B.with_phase];
               try (rewrite (done_false_of_gwf _ _ W) by tauto);
               repeat match goal with E0 : _ = _ |- _ => rewrite E0 end; lia
             | lia ]
         end).
  (* LReturn *)
  match goal with
  | |- context[L.upd (B.callers bs) c0 ?x] => pose proof (sumf_upd _ crank _ _ _ x E) as U; change (crank x) with 0 in U
  end.
  assert (C1 : crank c = 1) by (unfold crank; rewrite E0; reflexivity). lia.
Qed.

Lemma mu_step : forall cs l cs', BP.Inv (bat cs) -> coop cs l = true -> cstep true cs l = Some cs' -> mu cs' < mu cs.
Proof.
  intros cs l cs' HB C H. unfold mu. destruct l as [ll|fid argv sh c h|bl]; cbn [cstep coop] in *; try discriminate C.
  - match type of H with (if ?g then _ else _) = _ => destruct g; [|discriminate] end.
    destruct (L.step true (lim cs) ll) as [ls'|] eqn:E; [|discriminate]. injection H as <-. cbn [lim bat].
    pose proof (muL_step _ _ _ E C). lia.
  - match type of H with (if ?g then _ else _) = _ => destruct g; [|discriminate] end.
    destruct (B.step (bat cs) bl) as [bs'|] eqn:E; [|discriminate]. injection H as <-. cbn [lim bat].
    pose proof (muB_step _ _ _ HB E C). lia.
Qed.

(* ---- 4. two more invariants of the limiter (repaired order) ---- *)

(* the repaired re-acquire never stands between a successful CAS and its send *)
Lemma no_b4_run : forall n tr s, L.run true (L.init n) tr = Some s -> L.count L.at_b4 (L.threads s) = 0.
Proof.
  intros n tr s H. apply (run_invariant true (fun s => L.count L.at_b4 (L.threads s) = 0)) with (tr := tr) (s := L.init n); auto.
  intros s0 l s1 Hs Hst.
  destruct l; step_cases Hst; rewrite ?count_app; cbn [L.count L.at_b4]; upd_facts; lia.
Qed.

(* a release call past its Swap works on a released holder *)
Definition swapped (h : nat) (p : L.pc) : bool :=
  match p with L.R1 k | L.RDone k _ => Nat.eqb k h | _ => false end.

Definition rdone_rel (s : L.state) : Prop :=
  forall t p h, nth_error (L.threads s) t = Some p -> swapped h p = true -> nth_error (L.holders s) h = Some L.Rel.

Lemma rdone_rel_step : forall s l s', rdone_rel s -> L.step true s l = Some s' -> rdone_rel s'.
Proof.
  intros s l s' Hinv H t p h Hn Hs.
  assert (OLD : forall p0, nth_error (L.threads s) t = Some p0 -> swapped h p0 = true -> nth_error (L.holders s') h = Some L.Rel).
  { intros p0 A B. eapply released_final_step; [|exact H]. eapply Hinv; eauto. }
  destruct l; step_cases H;
    try (apply nth_error_app_last in Hn; destruct Hn as [[_ Hn]|[_ ->]]; [eapply OLD; eauto | discriminate Hs]);
    try (eapply OLD; eauto; fail);
    match type of Hn with
    | nth_error (L.upd ?l ?t0 ?x) t = Some p =>
        match goal with
        | E : nth_error l t0 = Some ?a |- _ =>
            destruct (Nat.eq_dec t0 t) as [Q|Q];
            [ subst t0; rewrite (nth_error_upd_same _ _ _ _ x E) in Hn; injection Hn as <-;
              cbn [swapped] in Hs; try discriminate Hs; apply Nat.eqb_eq in Hs; subst;
              first [ eapply nth_error_upd_same; eassumption
                    | eapply OLD; [eassumption | cbn [swapped]; apply Nat.eqb_refl]
                    | idtac ]
            | rewrite nth_error_upd_other in Hn by assumption; eapply OLD; eauto ]
        end
    end.
Qed.

Lemma rdone_rel_run : forall n tr s, L.run true (L.init n) tr = Some s -> rdone_rel s.
Proof.
  intros n tr s H. apply (run_invariant true rdone_rel) with (tr := tr) (s := L.init n); auto.
  - intros; eapply rdone_rel_step; eauto.
  - intros t p h Hn. destruct t; discriminate.
Qed.

(* ---- 5. no enabled cooperative step: everything is over ---- *)

Lemma in_cand_rel : forall cs h, h < length (L.holders (lim cs)) -> In (CL (L.LNewRelease h)) (candidates cs).
Proof.
  intros cs h H. unfold candidates. apply in_or_app. left. apply (in_map (fun h => CL (L.LNewRelease h))). apply in_seqn. lia.
Qed.

Lemma in_cand_thr : forall cs t l, t < length (L.threads (lim cs)) ->
  In l [CL (L.LAcqNoLimiter t); CL (L.LAcqCtxDone t); CL (L.LRelSwap t); CL (L.LRelRecv t);
        CL (L.LBlkCas t); CL (L.LBlkRecv t); CL (L.LBlkCas2 t); CL (L.LBlkGiveBack t);
        CL (L.LFRet t); CL (L.LBlkSend t); CL (L.LAcqSend t)] -> In l (candidates cs).
Proof.
  intros cs t l H I. unfold candidates. apply in_or_app. right. apply in_or_app. left.
  apply in_flat_map. exists t. split; [apply in_seqn; lia | exact I].
Qed.

Lemma in_cand_grp : forall cs g l, g < length (B.groups (bat cs)) ->
  In l [CB (B.LWake g B.CInterval); CB (B.LUnpublish g); CB (B.LRun g B.OErr); CB (B.LCancel g); CB (B.LDone g)] ->
  In l (candidates cs).
Proof.
  intros cs g l H I. unfold candidates. apply in_or_app. right. apply in_or_app. right. apply in_or_app. left.
  apply in_flat_map. exists g. split; [apply in_seqn; lia | exact I].
Qed.

Lemma in_cand_ret : forall cs c, c < length (B.callers (bat cs)) -> In (CB (B.LReturn c)) (candidates cs).
Proof.
  intros cs c H. unfold candidates. apply in_or_app. right. apply in_or_app. right. apply in_or_app. right.
  apply (in_map (fun c => CB (B.LReturn c))). apply in_seqn. lia.
Qed.

Lemma count_zero_of_forall : forall A (f : A -> bool) l, (forall i a, nth_error l i = Some a -> f a = false) -> L.count f l = 0.
Proof.
  induction l as [|b l IH]; intros H; simpl; auto.
  rewrite (H 0 b eq_refl). simpl. apply IH. intros i a Hn. apply (H (S i)). exact Hn.
Qed.

Lemma forallb_of_nth : forall A (f : A -> bool) l, (forall i a, nth_error l i = Some a -> f a = true) -> forallb f l = true.
Proof.
  induction l as [|b l IH]; intros H; simpl; auto.
  rewrite (H 0 b eq_refl). simpl. apply IH. intros i a Hn. apply (H (S i)). exact Hn.
Qed.

Lemma stuck_is_over : forall n mss cs, Reach n mss cs -> 1 <= n -> find_step cs = None -> cterminal cs = true.
Proof.
  intros n mss cs R N1 F.
  destruct (reach_inv _ _ _ R) as [[HL HT] HB].
  destruct (reach_components _ _ _ R) as [[ltr LR] _].
  pose proof (acct_run _ _ _ LR) as [AC1 AC2]. pose proof (wf_run _ _ _ _ LR) as WF.
  pose proof (no_b4_run _ _ _ LR) as NB4. pose proof (rdone_rel_run _ _ _ LR) as RR.
  pose proof (cap_run _ _ _ _ LR) as CAP.
  assert (NT : forall l, In l (candidates cs) -> coop cs l = true -> cstep true cs l = None).
  { intros l I C. pose proof (find_none _ _ F l I) as T. unfold try_label in T. rewrite C in T.
    destruct (cstep true cs l); [discriminate|reflexivity]. }
  (* every holder's release function has been called *)
  assert (D1 : forall h, h < length (L.holders (lim cs)) -> existsb (L.release_called h) (L.threads (lim cs)) = true).
  { intros h Hh. destruct (existsb (L.release_called h) (L.threads (lim cs))) eqn:E; auto. exfalso.
    pose proof (NT _ (in_cand_rel cs h Hh)) as X. cbn [coop coopL cstep] in X. rewrite E in X. specialize (X eq_refl).
    unfold L.step in X. apply Nat.ltb_lt in Hh. rewrite Hh in X. discriminate. }
  (* every group is done *)
  assert (D3 : forall gi g, nth_error (B.groups (bat cs)) gi = Some g -> B.g_done g = true).
  { intros gi g G. destruct (B.g_done g) eqn:Dn; auto. exfalso.
    assert (Lg : gi < length (B.groups (bat cs))) by (apply nth_error_Some; congruence).
    assert (X : forall l, In l [CB (B.LWake gi B.CInterval); CB (B.LUnpublish gi); CB (B.LRun gi B.OErr); CB (B.LCancel gi); CB (B.LDone gi)] ->
                cstep true cs l = None).
    { intros l I. apply NT; [eapply in_cand_grp; eauto|]. simpl in I.
      destruct I as [<-|[<-|[<-|[<-|[<-|[]]]]]]; reflexivity. }
    destruct (B.g_phase g) eqn:P.
    - specialize (X (CB (B.LWake gi B.CInterval)) ltac:(simpl; intuition)). cbn [cstep] in X. unfold B.step in X. rewrite G, P in X. discriminate.
    - specialize (X (CB (B.LUnpublish gi)) ltac:(simpl; intuition)). cbn [cstep] in X. unfold B.step in X. rewrite G, P in X. discriminate.
    - destruct (B.g_ctxc g) eqn:C.
      + specialize (X (CB (B.LCancel gi)) ltac:(simpl; intuition)). cbn [cstep] in X. unfold B.step in X. rewrite G, P, C in X. discriminate.
      + specialize (X (CB (B.LRun gi B.OErr)) ltac:(simpl; intuition)). cbn [cstep] in X. unfold B.step in X. rewrite G, P, C in X. discriminate.
    - specialize (X (CB (B.LDone gi)) ltac:(simpl; intuition)). cbn [cstep] in X. unfold B.step in X. rewrite G, P, Dn in X. discriminate.
    - specialize (X (CB (B.LDone gi)) ltac:(simpl; intuition)). cbn [cstep] in X. unfold B.step in X. rewrite G, P, Dn in X. discriminate. }
  assert (CD : forall ci c, nth_error (B.callers (bat cs)) ci = Some c -> caller_done (bat cs) ci = true).
  { intros ci c C. unfold caller_done. rewrite C. destruct (BP.iA _ HB _ _ C) as [g [G _]]. rewrite G. eapply D3; eauto. }
  (* what the limiter calls still in progress can be *)
  assert (S3 : forall t p, nth_error (L.threads (lim cs)) t = Some p ->
                L.done_pc p = true \/ p = L.A0 true false \/ exists h, p = L.B3 h).
  { intros t p P.
    assert (Lt : t < length (L.threads (lim cs))) by (apply nth_error_Some; congruence).
    assert (X : forall ll, In (CL ll) [CL (L.LAcqNoLimiter t); CL (L.LAcqCtxDone t); CL (L.LRelSwap t); CL (L.LRelRecv t);
                   CL (L.LBlkCas t); CL (L.LBlkRecv t); CL (L.LBlkCas2 t); CL (L.LBlkGiveBack t);
                   CL (L.LFRet t); CL (L.LBlkSend t); CL (L.LAcqSend t)] -> coopL (lim cs) ll = true ->
                cstep true cs (CL ll) = None).
    { intros ll I C. apply NT; [eapply in_cand_thr; eauto | exact C]. }
    assert (FR : cstep true cs (CL (L.LFRet t)) = None) by (apply X; simpl; intuition).
    cbn [cstep] in FR.
    assert (GD : match waiter_of cs t with Some ci => caller_done (bat cs) ci | None => true end = true).
    { destruct (waiter_of cs t) as [ci|] eqn:W; auto. unfold waiter_of in W.
      destruct (waiter_from_some _ _ _ _ W) as [_ [k [K1 K2]]]. rewrite Nat.sub_0_r in K1.
      assert (ci < length (B.callers (bat cs))) by (rewrite <- HL; apply nth_error_Some; congruence).
      destruct (nth_error (B.callers (bat cs)) ci) as [c|] eqn:C; [eapply CD; eauto|].
      apply nth_error_None in C. lia. }
    rewrite GD in FR.
    destruct p as [lm c|o|h|h|h b|h|h|h|h|h|h|h|o|]; try (left; reflexivity).
    - destruct lm.
      + destruct c; [|right; left; reflexivity]. exfalso.
        specialize (X (L.LAcqCtxDone t) ltac:(simpl; intuition) eq_refl). cbn [cstep] in X. unfold L.step in X. rewrite P in X. discriminate.
      + exfalso. specialize (X (L.LAcqNoLimiter t) ltac:(simpl; intuition) eq_refl). cbn [cstep] in X. unfold L.step in X. rewrite P in X. discriminate.
    - exfalso. destruct (atomics_enabled_lemma _ _ _ t h LR) as [A _]. destruct (A P) as [s' S'].
      specialize (X (L.LRelSwap t) ltac:(simpl; intuition) eq_refl). cbn [cstep] in X. rewrite S' in X. discriminate.
    - exfalso. destruct (receives_never_block_lemma _ _ _ t h LR) as [A _]. destruct (A P) as [s' S'].
      specialize (X (L.LRelRecv t) ltac:(simpl; intuition) eq_refl). cbn [cstep] in X. rewrite S' in X. discriminate.
    - exfalso. destruct (atomics_enabled_lemma _ _ _ t h LR) as [_ [A _]]. destruct (A P) as [s' S'].
      specialize (X (L.LBlkCas t) ltac:(simpl; intuition) eq_refl). cbn [cstep] in X. rewrite S' in X. discriminate.
    - exfalso. destruct (receives_never_block_lemma _ _ _ t h LR) as [_ [A _]]. destruct (A P) as [s' S'].
      specialize (X (L.LBlkRecv t) ltac:(simpl; intuition) eq_refl). cbn [cstep] in X. rewrite S' in X. discriminate.
    - exfalso. unfold L.step in FR. rewrite P in FR. discriminate.
    - right. right. eauto.
    - exfalso. destruct (atomics_enabled_lemma _ _ _ t h LR) as [_ [_ A]]. destruct (A P) as [s' S'].
      specialize (X (L.LBlkCas2 t) ltac:(simpl; intuition) eq_refl). cbn [cstep] in X. rewrite S' in X. discriminate.
    - exfalso. destruct (receives_never_block_lemma _ _ _ t h LR) as [_ [_ A]]. destruct (A P) as [s' S'].
      specialize (X (L.LBlkGiveBack t) ltac:(simpl; intuition) eq_refl). cbn [cstep] in X. rewrite S' in X. discriminate.
    - exfalso. pose proof (count_zero_forall _ _ _ NB4 _ _ P) as Z. discriminate Z.
    - exfalso. unfold L.step in FR. rewrite P in FR. discriminate. }
  (* the channel is empty *)
  assert (S4 : L.chan (lim cs) = 0).
  { unfold L.owed in AC1. rewrite AC1.
    assert (Z1 : L.count L.tok_pc (L.threads (lim cs)) = 0).
    { apply count_zero_of_forall. intros t p P. destruct (S3 _ _ P) as [Dp|[->|[h ->]]]; auto. destruct p; auto; discriminate. }
    assert (Z2 : L.count L.is_acq (L.holders (lim cs)) = 0).
    { apply count_zero_of_forall. intros h st Hh.
      assert (Lh : h < length (L.holders (lim cs))) by (apply nth_error_Some; congruence).
      pose proof (D1 h Lh) as Ex. apply existsb_exists in Ex. destruct Ex as [p [Ip Rp]].
      apply In_nth_error in Ip. destruct Ip as [t P].
      assert (Sw : swapped h p = true).
      { destruct (S3 _ _ P) as [Dp|[->|[h' ->]]]; try discriminate Rp. destruct p; try discriminate Rp; try discriminate Dp. exact Rp. }
      rewrite (RR _ _ _ P Sw) in Hh. injection Hh as <-. reflexivity. }
    lia. }
  (* so every limiter call has returned *)
  assert (S5 : forall t p, nth_error (L.threads (lim cs)) t = Some p -> L.done_pc p = true).
  { intros t p P. destruct (S3 _ _ P) as [Dp|[->|[h ->]]]; auto; exfalso;
      assert (Lt : t < length (L.threads (lim cs))) by (apply nth_error_Some; congruence).
    - pose proof (NT (CL (L.LAcqSend t)) ltac:(eapply in_cand_thr; eauto; simpl; intuition) eq_refl) as X.
      cbn [cstep] in X. unfold L.step in X. rewrite P, S4, CAP in X.
      destruct (0 <? n) eqn:Z; [discriminate|]. apply Nat.ltb_ge in Z. lia.
    - pose proof (NT (CL (L.LBlkSend t)) ltac:(eapply in_cand_thr; eauto; simpl; intuition) eq_refl) as X.
      cbn [cstep] in X. unfold L.step in X. rewrite P, S4, CAP in X.
      destruct (0 <? n) eqn:Z; [discriminate|]. apply Nat.ltb_ge in Z. lia. }
  (* and every Invoke *)
  assert (S6 : forall ci c, nth_error (B.callers (bat cs)) ci = Some c -> B.c_ret c <> None).
  { intros ci c C Rn.
    assert (Lc : ci < length (B.callers (bat cs))) by (apply nth_error_Some; congruence).
    pose proof (NT _ (in_cand_ret cs ci Lc) eq_refl) as X. cbn [cstep] in X.
    destruct (nth_error (links cs) ci) as [k|] eqn:K; [|apply nth_error_None in K; lia].
    assert (G : match k_thread k with
                | Some t => match nth_error (L.threads (lim cs)) t with Some p => is_bdone p | None => false end
                | None => true end = true).
    { destruct (k_thread k) as [t|] eqn:Kt; auto. destruct (HT _ _ _ K Kt) as [_ [p [P [Fp _]]]]. rewrite P.
      pose proof (S5 _ _ P) as Dp. destruct p; try discriminate Dp; try discriminate Fp; try reflexivity. }
    rewrite G in X. destruct (BP.iA _ HB _ _ C) as [g [Gg _]].
    unfold B.step in X. rewrite C, Rn, Gg, (D3 _ _ Gg) in X. discriminate. }
  unfold cterminal. rewrite !andb_true_iff. split; [split|].
  - unfold L.quiescent. apply forallb_of_nth. exact S5.
  - unfold B.all_returned. apply forallb_of_nth. intros ci c C. pose proof (S6 _ _ C). destruct (B.c_ret c); congruence.
  - unfold all_released. apply forallb_forall. intros h Ih. apply in_seqn in Ih. apply D1. lia.
Qed.

(* ---- 6. deadlock freedom ---- *)

Lemma find_step_sound : forall cs l, find_step cs = Some l ->
  coop cs l = true /\ exists cs', cstep true cs l = Some cs'.
Proof.
  intros cs l F. apply find_some in F. destruct F as [_ T]. unfold try_label in T.
  apply andb_true_iff in T. destruct T as [C S]. split; auto.
  destruct (cstep true cs l) as [cs'|]; [eauto|discriminate].
Qed.

Lemma complete_spec : forall n mss, 1 <= n -> forall fuel cs, Reach n mss cs -> mu cs <= fuel ->
  coop_run cs (fst (complete fuel cs)) = Some (snd (complete fuel cs)) /\
  cterminal (snd (complete fuel cs)) = true /\
  length (fst (complete fuel cs)) <= mu cs.
Proof.
  intros n mss N1. induction fuel as [|k IH]; intros cs R M.
  - simpl. split; [reflexivity|]. split; [|lia].
    destruct (find_step cs) as [l|] eqn:F; [|eapply stuck_is_over; eauto].
    exfalso. destruct (find_step_sound _ _ F) as [C [cs' S]].
    destruct (reach_inv _ _ _ R) as [_ HB]. pose proof (mu_step _ _ _ HB C S). lia.
  - cbn [complete]. destruct (find_step cs) as [l|] eqn:F.
    + destruct (find_step_sound _ _ F) as [C [cs' S]]. rewrite S.
      destruct (reach_inv _ _ _ R) as [_ HB]. pose proof (mu_step _ _ _ HB C S) as D.
      destruct (IH cs' (reach_step _ _ _ _ _ R S) ltac:(lia)) as [I1 [I2 I3]].
      destruct (complete k cs') as [tr e] eqn:CE. cbn [fst snd] in *.
      split; [|split; [exact I2 | simpl; lia]].
      cbn [coop_run]. rewrite C, S. exact I1.
    + simpl. split; [reflexivity|]. split; [eapply stuck_is_over; eauto | lia].
Qed.

(* from every reachable state of batch.Invoke under a limiter of size >= 1 the cooperative continuation reaches
   the end: no reachable state is a deadlock *)
Lemma deadlock_free_lemma : forall n mss tr cs,
  1 <= n -> crun true (cinit n mss) tr = Some cs ->
  exists tr' cs', coop_run cs tr' = Some cs' /\ length tr' <= mu cs /\ cterminal cs' = true /\
                  (tr', cs') = complete (mu cs) cs.
Proof.
  intros n mss tr cs N1 R.
  destruct (complete_spec n mss N1 (mu cs) cs (ex_intro _ tr R) (le_n _)) as [A [B C]].
  exists (fst (complete (mu cs) cs)), (snd (complete (mu cs) cs)).
  split; auto. split; auto. split; auto. destruct (complete (mu cs) cs); reflexivity.
Qed.

(* a cooperative continuation is a schedule of the composition *)
Lemma coop_run_is_run : forall tr cs cs', coop_run cs tr = Some cs' -> crun true cs tr = Some cs'.
Proof.
  induction tr as [|l tr IH]; intros cs cs' H; simpl in *; auto.
  destruct (coop cs l); [|discriminate]. destruct (cstep true cs l); [|discriminate]. auto.
Qed.

(* local form: a reachable state that is not over has an enabled step of a call already in progress or of a first
   release call *)
Lemma no_stuck_state_lemma : forall n mss tr cs,
  1 <= n -> crun true (cinit n mss) tr = Some cs -> cterminal cs = false ->
  exists l cs', coop cs l = true /\ cstep true cs l = Some cs' /\ mu cs' < mu cs.
Proof.
  intros n mss tr cs N1 R T. destruct (find_step cs) as [l|] eqn:F.
  - destruct (find_step_sound _ _ F) as [C [cs' S]]. exists l, cs'. split; auto. split; auto.
    destruct (reach_inv _ _ _ (ex_intro _ tr R)) as [_ HB]. eapply mu_step; eauto.
  - rewrite (stuck_is_over n mss cs (ex_intro _ tr R) N1 F) in T. discriminate.
Qed.

(* ---- 7. safety of the composition: both components' theorems, and what links them ---- *)

Lemma pc_for_active : forall h p, pc_for (Some h) p = true -> p <> L.BDone -> L.block_active h p = true.
Proof.
  intros h p F N. destruct p; cbn [pc_for L.block_active] in *; try discriminate F; try exact F; try congruence.
Qed.

Lemma composed_safety_lemma : forall n mss tr cs,
  crun true (cinit n mss) tr = Some cs ->
  (* the limiter's accounting and bounds, batch callers included *)
  L.chan (lim cs) = L.owed (lim cs) /\ L.chan (lim cs) <= n /\
  L.believes_running (lim cs) <= n /\ L.count L.is_acq (L.holders (lim cs)) <= n /\ L.running (lim cs) <= n /\
  (* a caller that joined a group is inside TemporarilyRelease on the holder of its context until that call has
     returned: it is not among the goroutines that believe they run *)
  (forall ci k h t p, nth_error (links cs) ci = Some k -> k_holder k = Some h -> k_thread k = Some t ->
     nth_error (L.threads (lim cs)) t = Some p -> p <> L.BDone ->
     L.block_active h p = true /\ existsb (L.block_active h) (L.threads (lim cs)) = true) /\
  (* it waits for exactly its own group: the function it passed returns only when that group is done *)
  (forall ci k t p, nth_error (links cs) ci = Some k -> k_thread k = Some t ->
     nth_error (L.threads (lim cs)) t = Some p -> past_f p = true -> caller_done (bat cs) ci = true).
Proof.
  intros n mss tr cs R. pose proof (ex_intro (fun tr => crun true (cinit n mss) tr = Some cs) tr R) as RR.
  destruct (reach_components _ _ _ RR) as [[ltr LR] _]. destruct (reach_inv _ _ _ RR) as [[HL HT] HB].
  destruct (token_accounting_lemma _ _ _ LR) as [T1 T2]. destruct (running_le_limit_lemma _ _ _ LR) as [R1 [R2 R3]].
  repeat (split; [assumption|]). split.
  - intros ci k h t p K Kh Kt P NB. destruct (HT _ _ _ K Kt) as [_ [p' [P' [F _]]]].
    assert (p' = p) by congruence. subst p'. rewrite Kh in F. pose proof (pc_for_active _ _ F NB) as A. split; auto.
    apply existsb_exists. exists p. split; auto. eapply nth_error_In; eauto.
  - intros ci k t p K Kt P PF. destruct (HT _ _ _ K Kt) as [_ [p' [P' [_ [D _]]]]].
    assert (p' = p) by congruence. subst p'. auto.
Qed.

Lemma all_rel_count : forall l, (forall h st, nth_error l h = Some st -> st = L.Rel) -> L.count L.is_acq l = 0.
Proof.
  induction l as [|st l IH]; simpl; intros Ha; auto.
  rewrite (Ha 0 st eq_refl). simpl. apply IH. intros h st' Hn. apply (Ha (S h)). exact Hn.
Qed.

(* no token is lost through any exit of Invoke *)
Lemma invoke_exit_lemma : forall n mss tr cs,
  crun true (cinit n mss) tr = Some cs ->
  (* whatever a caller that joined a group returned (value, Many's error, the panic or wrong-length error, the
     context error), its TemporarilyRelease call had returned before: the token was re-taken or the holder found
     released *)
  (forall ci c r k t, nth_error (B.callers (bat cs)) ci = Some c -> B.c_ret c = Some r ->
     nth_error (links cs) ci = Some k -> k_thread k = Some t -> nth_error (L.threads (lim cs)) t = Some L.BDone) /\
  (* when every call has returned, the channel holds exactly the tokens of the holders not yet released and no
     holder is left blocked *)
  (L.quiescent (lim cs) = true ->
     L.chan (lim cs) = L.count L.is_acq (L.holders (lim cs)) /\
     forall h, nth_error (L.holders (lim cs)) h <> Some L.Blk) /\
  (* and at the end of a cooperative continuation the full capacity is free *)
  (cterminal cs = true ->
     L.chan (lim cs) = 0 /\ (forall h st, nth_error (L.holders (lim cs)) h = Some st -> st = L.Rel) /\
     forall ci c, nth_error (B.callers (bat cs)) ci = Some c -> B.c_ret c <> None).
Proof.
  intros n mss tr cs R. pose proof (ex_intro (fun tr => crun true (cinit n mss) tr = Some cs) tr R) as RR.
  destruct (reach_components _ _ _ RR) as [[ltr LR] _]. destruct (reach_inv _ _ _ RR) as [[HL HT] HB].
  split; [|split].
  - intros ci c r k t C Rt K Kt. destruct (HT _ _ _ K Kt) as [_ [p [P [_ [_ B]]]]].
    rewrite (B c C ltac:(congruence)) in P. exact P.
  - intro Q. destruct (quiescent_lemma _ _ _ LR Q) as [Q1 [Q2 _]]. auto.
  - intro T. unfold cterminal in T. rewrite !andb_true_iff in T. destruct T as [[Q AR] RL].
    assert (AllRel : forall h st, nth_error (L.holders (lim cs)) h = Some st -> st = L.Rel).
    { intros h st Hh. assert (Lh : h < length (L.holders (lim cs))) by (apply nth_error_Some; congruence).
      unfold all_released in RL. rewrite forallb_forall in RL. specialize (RL h ltac:(apply in_seqn; lia)).
      apply existsb_exists in RL. destruct RL as [p [Ip Rp]]. apply In_nth_error in Ip. destruct Ip as [t P].
      pose proof (forallb_nth _ _ _ Q _ _ P) as Dp.
      assert (Sw : swapped h p = true) by (destruct p; try discriminate Rp; try discriminate Dp; exact Rp).
      pose proof (rdone_rel_run _ _ _ LR _ _ _ P Sw). congruence. }
    destruct (quiescent_lemma _ _ _ LR Q) as [Q1 _]. split; [|split; [exact AllRel|]].
    + rewrite Q1. apply all_rel_count. exact AllRel.
    + intros ci c C. unfold B.all_returned in AR. pose proof (forallb_nth _ _ _ AR _ _ C) as X. cbv beta in X.
      destruct (B.c_ret c); [discriminate|discriminate X].
Qed.

(* C05's statement about return values holds under a limiter as it stands *)
Lemma composed_return_value_lemma : forall n mss tr cs ci cl r,
  crun true (cinit n mss) tr = Some cs -> nth_error (B.callers (bat cs)) ci = Some cl -> B.c_ret cl = Some r ->
  exists g, nth_error (B.groups (bat cs)) (B.c_gid cl) = Some g /\ B.g_done g = true /\
            nth_error (B.g_args g) (B.c_index cl) = Some ci /\
            ((exists e, B.g_err g = Some e /\ r = B.RErr e) \/
             (B.g_err g = None /\ B.g_many g = Some (B.g_args g) /\
              exists rs v, B.g_res g = Some rs /\ length rs = length (B.g_args g) /\
                           nth_error rs (B.c_index cl) = Some v /\ r = B.RVal v)).
Proof.
  intros n mss tr cs ci cl r R C Rt. destruct (crun_proj _ _ _ _ R) as [_ BR].
  exact (BP.return_value_lemma mss (bproj tr) (bat cs) ci cl r BR C Rt).
Qed.

Lemma composed_projection_lemma : forall fx n mss tr cs,
  crun fx (cinit n mss) tr = Some cs ->
  L.run fx (L.init n) (lproj fx (cinit n mss) tr) = Some (lim cs) /\
  B.run (B.init mss) (bproj tr) = Some (bat cs).
Proof. intros. apply (crun_proj fx tr (cinit n mss) cs). assumption. Qed.
