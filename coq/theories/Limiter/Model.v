(* C20 - concurrency limiter: labelled transition system of
   /repo/concurrencylimiter/concurrencylimiter.go (DESIGN.md Appendix A.1).

   Executable definitions only.  One label per atomic operation of the Go code:
   a channel send / receive on limiter.ch, the Swap in holder.release, the two
   CompareAndSwaps in holder.block, the ctx.Done branch of Acquire's select.
   "Every schedule" = every list of labels.  The client is maximally general:
   any goroutine may call Acquire, the release function of any existing holder,
   or TemporarilyRelease on any existing holder, at any time, any number of
   times (labels LNew...), and any Acquire's context may be cancelled at any
   time (LCancel).

   The boolean [fx] selects the order of the two operations of block's deferred
   re-acquire:  fx = true  is the repaired code (send, then CAS blocked->acquired,
   token given back when the CAS fails),  fx = false  the original code (CAS,
   then send). *)
From Coq Require Import List Arith Bool.
Import ListNotations.

Inductive status := Acq | Blk | Rel.

(* program counters; [h] is the index of the holder the call works on *)
Inductive pc :=
| A0 (lim cancelled : bool)   (* Acquire, before the select (lim = false: context without limiter) *)
| ADone (h : option nat)      (* Acquire returned: Some h = holder h created, None = no-op release func *)
| R0 (h : nat)                (* release, before Swap(status, released) *)
| R1 (h : nat)                (* Swap returned acquired; before <-ch *)
| RDone (h : nat) (took : bool) (* release returned; took = it received a token *)
| B0 (h : nat)                (* block, before CAS acquired->blocked *)
| B1 (h : nat)                (* CAS succeeded; before <-ch *)
| B2 (h : nat)                (* token given up, f running *)
| B3 (h : nat)                (* f returned; before the first operation of the deferred re-acquire *)
| B3s (h : nat)               (* repaired code: token sent, before CAS blocked->acquired *)
| B3f (h : nat)               (* repaired code: that CAS failed, before giving the token back *)
| B4 (h : nat)                (* original code: CAS blocked->acquired succeeded, before ch<- *)
| PF (h : option nat)         (* f running without a token given up (first CAS failed / context has no holder) *)
| BDone.                      (* block returned *)

Record state := mkState {
  cap : nat;                  (* capacity of limiter.ch *)
  chan : nat;                 (* len(limiter.ch) *)
  holders : list status;      (* holder.status, by holder index *)
  threads : list pc           (* calls in progress or finished, by thread index *)
}.

Inductive label :=
| LNewAcquire (lim cancelled : bool)  (* a goroutine enters Acquire *)
| LNewRelease (h : nat)               (* a goroutine calls holder h's release function *)
| LNewBlock (h : option nat)          (* a goroutine calls TemporarilyRelease on a context with holder h / without holder *)
| LCancel (t : nat)                   (* the context of Acquire call t is cancelled *)
| LAcqSend (t : nat)                  (* select: ch <- struct{}{}          [chan < cap] *)
| LAcqCtxDone (t : nat)               (* select: <-ctx.Done()              [cancelled] *)
| LAcqNoLimiter (t : nat)             (* no limiter in the context: return *)
| LRelSwap (t : nat)                  (* atomic.SwapInt64(&status, released) *)
| LRelRecv (t : nat)                  (* <-ch                              [chan > 0] *)
| LBlkCas (t : nat)                   (* CAS(&status, acquired, blocked) *)
| LBlkRecv (t : nat)                  (* <-ch                              [chan > 0] *)
| LFRet (t : nat)                     (* f returns *)
| LFPanic (t : nat)                   (* f panics: block() unwinds, its deferred re-acquire runs exactly as after a return
                                         (the panic itself is the client's business: recovered further up or not) *)
| LBlkSend (t : nat)                  (* ch <- struct{}{} of the re-acquire [chan < cap] *)
| LBlkCas2 (t : nat)                  (* CAS(&status, blocked, acquired) *)
| LBlkGiveBack (t : nat).             (* repaired code only: <-ch after a failed CAS [chan > 0] *)

Fixpoint upd {A} (l : list A) (i : nat) (x : A) : list A :=
  match l, i with
  | [], _ => []
  | _ :: t, O => x :: t
  | a :: t, S j => a :: upd t j x
  end.

Definition init (n : nat) : state := mkState n 0 [] [].

Definition set_thread (s : state) (t : nat) (p : pc) : state :=
  mkState (cap s) (chan s) (holders s) (upd (threads s) t p).

Definition add_thread (s : state) (p : pc) : state :=
  mkState (cap s) (chan s) (holders s) (threads s ++ [p]).

Definition step (fx : bool) (s : state) (l : label) : option state :=
  match l with
  | LNewAcquire lim cancelled => Some (add_thread s (A0 lim cancelled))
  | LNewRelease h =>
      if h <? length (holders s) then Some (add_thread s (R0 h)) else None
  | LNewBlock (Some h) =>
      if h <? length (holders s) then Some (add_thread s (B0 h)) else None
  | LNewBlock None => Some (add_thread s (PF None))
  | LCancel t =>
      match nth_error (threads s) t with
      | Some (A0 lim _) => Some (set_thread s t (A0 lim true))
      | _ => None
      end
  | LAcqSend t =>
      match nth_error (threads s) t with
      | Some (A0 true _) =>
          if chan s <? cap s then
            Some (mkState (cap s) (S (chan s)) (holders s ++ [Acq])
                          (upd (threads s) t (ADone (Some (length (holders s))))))
          else None
      | _ => None
      end
  | LAcqCtxDone t =>
      match nth_error (threads s) t with
      | Some (A0 true true) => Some (set_thread s t (ADone None))
      | _ => None
      end
  | LAcqNoLimiter t =>
      match nth_error (threads s) t with
      | Some (A0 false _) => Some (set_thread s t (ADone None))
      | _ => None
      end
  | LRelSwap t =>
      match nth_error (threads s) t with
      | Some (R0 h) =>
          match nth_error (holders s) h with
          | Some Acq => Some (mkState (cap s) (chan s) (upd (holders s) h Rel) (upd (threads s) t (R1 h)))
          | Some _ => Some (mkState (cap s) (chan s) (upd (holders s) h Rel) (upd (threads s) t (RDone h false)))
          | None => None
          end
      | _ => None
      end
  | LRelRecv t =>
      match nth_error (threads s) t with
      | Some (R1 h) =>
          match chan s with
          | S c => Some (mkState (cap s) c (holders s) (upd (threads s) t (RDone h true)))
          | O => None
          end
      | _ => None
      end
  | LBlkCas t =>
      match nth_error (threads s) t with
      | Some (B0 h) =>
          match nth_error (holders s) h with
          | Some Acq => Some (mkState (cap s) (chan s) (upd (holders s) h Blk) (upd (threads s) t (B1 h)))
          | Some _ => Some (set_thread s t (PF (Some h)))
          | None => None
          end
      | _ => None
      end
  | LBlkRecv t =>
      match nth_error (threads s) t with
      | Some (B1 h) =>
          match chan s with
          | S c => Some (mkState (cap s) c (holders s) (upd (threads s) t (B2 h)))
          | O => None
          end
      | _ => None
      end
  | LFRet t | LFPanic t =>
      match nth_error (threads s) t with
      | Some (B2 h) => Some (set_thread s t (B3 h))
      | Some (PF _) => Some (set_thread s t BDone)
      | _ => None
      end
  | LBlkSend t =>
      match nth_error (threads s) t with
      | Some (B3 h) =>
          if fx then
            if chan s <? cap s then
              Some (mkState (cap s) (S (chan s)) (holders s) (upd (threads s) t (B3s h)))
            else None
          else None
      | Some (B4 h) =>
          if fx then None else
            if chan s <? cap s then
              Some (mkState (cap s) (S (chan s)) (holders s) (upd (threads s) t BDone))
            else None
      | _ => None
      end
  | LBlkCas2 t =>
      match nth_error (threads s) t with
      | Some (B3s h) =>
          if fx then
            match nth_error (holders s) h with
            | Some Blk => Some (mkState (cap s) (chan s) (upd (holders s) h Acq) (upd (threads s) t BDone))
            | Some _ => Some (set_thread s t (B3f h))
            | None => None
            end
          else None
      | Some (B3 h) =>
          if fx then None else
            match nth_error (holders s) h with
            | Some Blk => Some (mkState (cap s) (chan s) (upd (holders s) h Acq) (upd (threads s) t (B4 h)))
            | Some _ => Some (set_thread s t BDone)
            | None => None
            end
      | _ => None
      end
  | LBlkGiveBack t =>
      match nth_error (threads s) t with
      | Some (B3f h) =>
          if fx then
            match chan s with
            | S c => Some (mkState (cap s) c (holders s) (upd (threads s) t BDone))
            | O => None
            end
          else None
      | _ => None
      end
  end.

Fixpoint run (fx : bool) (s : state) (tr : list label) : option state :=
  match tr with
  | [] => Some s
  | l :: t => match step fx s l with
              | Some s' => run fx s' t
              | None => None
              end
  end.

(* ---- observables used by the theorems ---- *)

Fixpoint count {A} (f : A -> bool) (l : list A) : nat :=
  match l with
  | [] => 0
  | a :: t => (if f a then 1 else 0) + count f t
  end.

Definition is_acq (st : status) : bool := match st with Acq => true | _ => false end.
Definition is_rel (st : status) : bool := match st with Rel => true | _ => false end.

(* threads for which one token sits in the channel although their holder's status is not (yet / any more) Acq *)
Definition tok_pc (p : pc) : bool :=
  match p with R1 _ | B1 _ | B3s _ | B3f _ => true | _ => false end.

(* original code: the thread has set status to Acq but its token is not in the channel yet *)
Definition at_b4 (p : pc) : bool := match p with B4 _ => true | _ => false end.

(* number of tokens the channel must hold: DESIGN A.1 "owed" (B4 threads are subtracted by
   the equation [chan + count at_b4 = owed] in the original code; the repaired code has none) *)
Definition owed (s : state) : nat := count is_acq (holders s) + count tok_pc (threads s).

(* the call works on holder h and is inside TemporarilyRelease with the token given up (B1..B4) *)
Definition inside_block (h : nat) (p : pc) : bool :=
  match p with
  | B1 k | B2 k | B3 k | B3s k | B3f k | B4 k => Nat.eqb k h
  | _ => false
  end.

Fixpoint count_running (hs : list status) (i : nat) (ths : list pc) : nat :=
  match hs with
  | [] => 0
  | st :: t => (if is_acq st && negb (existsb (inside_block i) ths) then 1 else 0) + count_running t (S i) ths
  end.

(* holders whose status is acquired and on which no goroutine is inside TemporarilyRelease *)
Definition running (s : state) : nat := count_running (holders s) 0 (threads s).

Definition done_pc (p : pc) : bool :=
  match p with ADone _ | RDone _ _ | BDone => true | _ => false end.

Definition quiescent (s : state) : bool := forallb done_pc (threads s).

(* client-side view, independent of the status words: a call on holder h that has started and not returned *)
Definition release_called (h : nat) (p : pc) : bool :=
  match p with R0 k | R1 k | RDone k _ => Nat.eqb k h | _ => false end.
Definition block_active (h : nat) (p : pc) : bool :=
  match p with
  | B0 k | B1 k | B2 k | B3 k | B3s k | B3f k | B4 k => Nat.eqb k h
  | PF (Some k) => Nat.eqb k h
  | _ => false
  end.

Fixpoint count_believes (k : nat) (i : nat) (ths : list pc) : nat :=
  match k with
  | O => 0
  | S k' => (if negb (existsb (release_called i) ths) && negb (existsb (block_active i) ths) then 1 else 0)
            + count_believes k' (S i) ths
  end.

(* goroutines' own view: holders returned by Acquire whose release function has not been called and on
   which no TemporarilyRelease call is in progress *)
Definition believes_running (s : state) : nat := count_believes (length (holders s)) 0 (threads s).

(* release calls on holder h that received (or are about to receive) a token *)
Definition rel_took (h : nat) (p : pc) : bool :=
  match p with R1 k | RDone k true => Nat.eqb k h | _ => false end.

(* ---- trace conformance: replay of what the instrumented implementation did ---- *)

Definition pc_code (p : pc) : nat :=
  match p with
  | A0 _ _ => 0 | ADone (Some _) => 1 | ADone None => 2
  | R0 _ => 3 | R1 _ => 4 | RDone _ _ => 5
  | B0 _ => 6 | B1 _ => 7 | B2 _ => 8 | B3 _ => 9 | B3s _ => 10 | B3f _ => 11 | B4 _ => 12
  | PF _ => 13 | BDone => 14
  end.

Definition label_thread (s : state) (l : label) : nat :=
  match l with
  | LNewAcquire _ _ | LNewRelease _ | LNewBlock _ => length (threads s)
  | LCancel t | LAcqSend t | LAcqCtxDone t | LAcqNoLimiter t | LRelSwap t | LRelRecv t
  | LBlkCas t | LBlkRecv t | LFRet t | LFPanic t | LBlkSend t | LBlkCas2 t | LBlkGiveBack t => t
  end.

(* one observed event: the operation, the program counter the goroutine was seen at afterwards,
   len(ch) seen afterwards (None when the harness could not read it at that point) *)
Definition event := (label * nat * option nat)%type.

Definition opt_nat_ok (o : option nat) (n : nat) : bool :=
  match o with None => true | Some m => Nat.eqb m n end.

(* the replay of observed events, for one or several limiters, is in Limiter/ModelMulti.v *)

(* the witness of DESIGN section 8, F11 (limit 1): H acquires, enters block (CAS, receive), G2 acquires,
   H's f returns and its CAS blocked->acquired succeeds, R calls H's release: Swap sees acquired and
   receives G2's token, G3 acquires: two holders acquired with limit 1. *)
Definition f11_trace : list label :=
  [ LNewAcquire true false; LAcqSend 0;          (* H *)
    LNewBlock (Some 0); LBlkCas 1; LBlkRecv 1;   (* H: TemporarilyRelease *)
    LNewAcquire true false; LAcqSend 2;          (* G2 *)
    LFRet 1; LBlkCas2 1;                         (* H: f returns, CAS ok, not yet sent *)
    LNewRelease 0; LRelSwap 3; LRelRecv 3;       (* R: release of H takes G2's token *)
    LNewAcquire true false; LAcqSend 4 ].        (* G3 *)
