(* C20 (with C05) - batch.Func.Invoke running under a concurrency limiter: the composition of the two
   transition systems Limiter/Model.v and Batch/Model.v.  Executable definitions only.

   batch.go, end of Invoke: the creator of a batch group runs the group itself (select, second mutex section,
   Many, close(doneCh)) and never touches the limiter; every other caller waits inside

       concurrencylimiter.TemporarilyRelease(ctx, func() { <-bg.doneCh })

   i.e. it calls holder.block on the innermost holder of ITS context (or f directly when the context carries no
   holder), and the function it passes returns exactly when its group's doneCh is closed.  Only after that
   call returned (token re-taken, or found released) does Invoke read bg.err / bg.result[index] and return.

   The composed state is a limiter state, a batch state and one link per batch caller (the holder of the
   caller's context; the limiter thread of its TemporarilyRelease call when it joined an existing group).  The
   limiter keeps its maximally general client: besides the batch callers any goroutine may call Acquire, any
   holder's release function or TemporarilyRelease at any time (labels CL), so what Many does with the limiter,
   who else shares a holder, and when the holder of a waiting caller is released are all arbitrary.  The
   synchronisation between the two systems is exactly:
     - CJoin: Invoke's first mutex section; a caller that found a group enters block() (thread at B0 / PF);
     - the f of a batch waiter returns (LFRet) only when its group is done, and never panics;
     - a waiter's LReturn happens only after its block() call returned (BDone). *)
From Coq Require Import List Arith Bool.
From Thunder Require Limiter.Model Batch.Model.
Import ListNotations.

Module L := Thunder.Limiter.Model.
Module B := Thunder.Batch.Model.

Record link := mkLink {
  k_holder : option nat;    (* innermost holder of the caller's context *)
  k_thread : option nat     (* limiter thread of its TemporarilyRelease call; None for the creator of a group *)
}.

Record cstate := mkC { lim : L.state; bat : B.state; links : list link }.

Inductive clabel :=
| CL (l : L.label)                                            (* an operation of the limiter, by anyone *)
| CJoin (fid argv shard : nat) (cancelled : bool) (h : option nat)
                                                              (* Invoke's first mutex section, on a context whose holder is h *)
| CB (l : B.label).                                           (* the other sections of Invoke (LJoin is not allowed here) *)

Definition cinit (n : nat) (mss : list nat) : cstate := mkC (L.init n) (B.init mss) [].

(* the batch caller whose TemporarilyRelease call is limiter thread t *)
Fixpoint waiter_from (ks : list link) (i t : nat) : option nat :=
  match ks with
  | [] => None
  | k :: r => match k_thread k with
              | Some t' => if Nat.eqb t' t then Some i else waiter_from r (S i) t
              | None => waiter_from r (S i) t
              end
  end.
Definition waiter_of (cs : cstate) (t : nat) : option nat := waiter_from (links cs) 0 t.

(* doneCh of the group caller ci belongs to is closed *)
Definition caller_done (bs : B.state) (ci : nat) : bool :=
  match nth_error (B.callers bs) ci with
  | Some c => match nth_error (B.groups bs) (B.c_gid c) with
              | Some g => B.g_done g
              | None => false
              end
  | None => false
  end.

Definition holder_ok (ls : L.state) (h : option nat) : bool :=
  match h with Some k => k <? length (L.holders ls) | None => true end.

Definition is_bdone (p : L.pc) : bool := match p with L.BDone => true | _ => false end.

Definition cstep (fx : bool) (cs : cstate) (l : clabel) : option cstate :=
  match l with
  | CL ll =>
      let guard :=
        match ll with
        | L.LFRet t => match waiter_of cs t with Some ci => caller_done (bat cs) ci | None => true end
        | L.LFPanic t => match waiter_of cs t with Some _ => false | None => true end   (* <-bg.doneCh cannot panic *)
        | _ => true
        end in
      if guard then
        match L.step fx (lim cs) ll with
        | Some ls' => Some (mkC ls' (bat cs) (links cs))
        | None => None
        end
      else None
  | CJoin fid argv sh cancelled h =>
      if holder_ok (lim cs) h then
        match B.step (bat cs) (B.LJoin fid argv sh cancelled) with
        | Some bs' =>
            match B.lookup fid sh (B.pending (bat cs)) with
            | None =>       (* created the group: runs it, no limiter operation *)
                Some (mkC (lim cs) bs' (links cs ++ [mkLink h None]))
            | Some _ =>     (* joined: TemporarilyRelease(ctx, wait for doneCh) *)
                match L.step fx (lim cs) (L.LNewBlock h) with
                | Some ls' => Some (mkC ls' bs' (links cs ++ [mkLink h (Some (length (L.threads (lim cs))))]))
                | None => None
                end
            end
        | None => None
        end
      else None
  | CB bl =>
      let guard :=
        match bl with
        | B.LJoin _ _ _ _ => false
        | B.LReturn ci =>
            match nth_error (links cs) ci with
            | Some k => match k_thread k with
                        | Some t => match nth_error (L.threads (lim cs)) t with
                                    | Some p => is_bdone p
                                    | None => false
                                    end
                        | None => true
                        end
            | None => false
            end
        | _ => true
        end in
      if guard then
        match B.step (bat cs) bl with
        | Some bs' => Some (mkC (lim cs) bs' (links cs))
        | None => None
        end
      else None
  end.

Fixpoint crun (fx : bool) (cs : cstate) (tr : list clabel) : option cstate :=
  match tr with
  | [] => Some cs
  | l :: t => match cstep fx cs l with
              | Some cs' => crun fx cs' t
              | None => None
              end
  end.

(* ---- what each component sees of a composed step ---- *)

Definition lproj1 (cs : cstate) (l : clabel) : list L.label :=
  match l with
  | CL ll => [ll]
  | CJoin fid _ sh _ h => match B.lookup fid sh (B.pending (bat cs)) with Some _ => [L.LNewBlock h] | None => [] end
  | CB _ => []
  end.

Definition bproj1 (l : clabel) : list B.label :=
  match l with
  | CL _ => []
  | CJoin fid argv sh c _ => [B.LJoin fid argv sh c]
  | CB bl => [bl]
  end.

Fixpoint lproj (fx : bool) (cs : cstate) (tr : list clabel) : list L.label :=
  match tr with
  | [] => []
  | l :: t => lproj1 cs l ++ match cstep fx cs l with Some cs' => lproj fx cs' t | None => [] end
  end.

Fixpoint bproj (tr : list clabel) : list B.label :=
  match tr with
  | [] => []
  | l :: t => bproj1 l ++ bproj t
  end.

(* ---- the cooperative continuation: calls in progress go on, every holder's release function is called once,
        Many returns, nobody new arrives, nothing is cancelled ---- *)

Definition coopL (ls : L.state) (l : L.label) : bool :=
  match l with
  | L.LNewRelease h => negb (existsb (L.release_called h) (L.threads ls))
  | L.LNewAcquire _ _ | L.LNewBlock _ | L.LCancel _ | L.LFPanic _ => false
  | _ => true
  end.

Definition coopB (l : B.label) : bool :=
  match l with B.LJoin _ _ _ _ | B.LCtxCancel _ => false | _ => true end.

Definition coop (cs : cstate) (l : clabel) : bool :=
  match l with
  | CL ll => coopL (lim cs) ll
  | CJoin _ _ _ _ _ => false
  | CB bl => coopB bl
  end.

Fixpoint coop_run (cs : cstate) (tr : list clabel) : option cstate :=
  match tr with
  | [] => Some cs
  | l :: t => if coop cs l then
                match cstep true cs l with
                | Some cs' => coop_run cs' t
                | None => None
                end
              else None
  end.

Fixpoint seqn (i k : nat) : list nat := match k with O => [] | S k' => i :: seqn (S i) k' end.

(* the labels a cooperative continuation could take next *)
Definition candidates (cs : cstate) : list clabel :=
  map (fun h => CL (L.LNewRelease h)) (seqn 0 (length (L.holders (lim cs)))) ++
  flat_map (fun t => [CL (L.LAcqNoLimiter t); CL (L.LAcqCtxDone t); CL (L.LRelSwap t); CL (L.LRelRecv t);
                      CL (L.LBlkCas t); CL (L.LBlkRecv t); CL (L.LBlkCas2 t); CL (L.LBlkGiveBack t);
                      CL (L.LFRet t); CL (L.LBlkSend t); CL (L.LAcqSend t)])
           (seqn 0 (length (L.threads (lim cs)))) ++
  flat_map (fun g => [CB (B.LWake g B.CInterval); CB (B.LUnpublish g); CB (B.LRun g B.OErr); CB (B.LCancel g); CB (B.LDone g)])
           (seqn 0 (length (B.groups (bat cs)))) ++
  map (fun c => CB (B.LReturn c)) (seqn 0 (length (B.callers (bat cs)))).

Definition try_label (cs : cstate) (l : clabel) : bool :=
  coop cs l && match cstep true cs l with Some _ => true | None => false end.

Definition find_step (cs : cstate) : option clabel := find (try_label cs) (candidates cs).

(* everything is over: every limiter call returned, every Invoke returned, every holder's release function was called *)
Definition all_released (ls : L.state) : bool :=
  forallb (fun h => existsb (L.release_called h) (L.threads ls)) (seqn 0 (length (L.holders ls))).

Definition cterminal (cs : cstate) : bool :=
  L.quiescent (lim cs) && B.all_returned (bat cs) && all_released (lim cs).

(* drive the state to its end by always taking the first enabled cooperative label *)
Fixpoint complete (fuel : nat) (cs : cstate) : list clabel * cstate :=
  match fuel with
  | O => ([], cs)
  | S k => match find_step cs with
           | Some l => match cstep true cs l with
                       | Some cs' => let '(tr, e) := complete k cs' in (l :: tr, e)
                       | None => ([], cs)
                       end
           | None => ([], cs)
           end
  end.

(* ---- the measure that every cooperative step decreases ---- *)

Definition rank_pc (p : L.pc) : nat :=
  match p with
  | L.A0 _ _ => 5 | L.ADone _ => 0
  | L.R0 _ => 2 | L.R1 _ => 1 | L.RDone _ _ => 0
  | L.B0 _ => 7 | L.B1 _ => 6 | L.B2 _ => 5 | L.B3 _ => 4 | L.B3s _ => 3 | L.B3f _ => 2 | L.B4 _ => 1
  | L.PF _ => 1 | L.BDone => 0
  end.

Fixpoint sumf {A} (f : A -> nat) (l : list A) : nat :=
  match l with [] => 0 | a :: t => f a + sumf f t end.

Definition unrel (ths : list L.pc) (h : nat) : nat := if existsb (L.release_called h) ths then 0 else 3.

Definition grank (g : B.group) : nat :=
  if B.g_done g then 0 else match B.g_phase g with B.Open => 4 | B.Woken => 3 | B.Unpub => 2 | B.Ran | B.Cancelled => 1 end.

Definition crank (c : B.caller) : nat := match B.c_ret c with Some _ => 0 | None => 1 end.

Definition muL (ls : L.state) : nat :=
  sumf rank_pc (L.threads ls) + sumf (unrel (L.threads ls)) (seqn 0 (length (L.holders ls))).

Definition muB (bs : B.state) : nat := sumf grank (B.groups bs) + sumf crank (B.callers bs).

Definition mu (cs : cstate) : nat := muL (lim cs) + muB (bat cs).

(* ---- trace conformance: replay of a controlled execution of real Invoke calls under a real limiter ---- *)

(* what the harness saw after a step: program counter of the limiter thread concerned and len(ch) (limiter
   labels), or the batch observation *)
Inductive cobs :=
| OL (code : nat) (len : option nat)
| OB (o : B.obs)
| OJ (o : B.obs) (code : option nat).   (* CJoin: the join observation, and the pc of the new block() thread of a joiner *)

Definition cevent := (clabel * cobs)%type.

Record cflags := mkCF { cf_pc : bool; cf_len : bool; cf_obs : bool; cf_prog : bool; cf_acq : bool }.

Definition cobs_ok (fl : cflags) (cs cs' : cstate) (l : clabel) (o : cobs) : cflags :=
  (* progress: the state the implementation was seen in is either over or has an enabled cooperative step *)
  let prog := cf_prog fl && (Nat.eqb (L.cap (lim cs')) 0 || cterminal cs' ||
                             match find_step cs' with Some _ => true | None => false end) in
  let acq := cf_acq fl && (L.count L.is_acq (L.holders (lim cs')) <=? L.cap (lim cs')) in
  match l, o with
  | CL ll, OL code len =>
      let p_ok := match nth_error (L.threads (lim cs')) (L.label_thread (lim cs) ll) with
                  | Some p => Nat.eqb (L.pc_code p) code
                  | None => false
                  end in
      mkCF (cf_pc fl && p_ok) (cf_len fl && L.opt_nat_ok len (L.chan (lim cs'))) (cf_obs fl) prog acq
  | CJoin fid argv sh c h, OJ ob code =>
      let p_ok := match code, nth_error (links cs') (length (links cs)) with
                  | None, Some k => match k_thread k with None => true | Some _ => false end
                  | Some cd, Some k => match k_thread k with
                                       | Some t => match nth_error (L.threads (lim cs')) t with
                                                   | Some p => Nat.eqb (L.pc_code p) cd
                                                   | None => false
                                                   end
                                       | None => false
                                       end
                  | _, None => false
                  end in
      mkCF (cf_pc fl && p_ok) (cf_len fl) (cf_obs fl && B.obs_ok (bat cs) (bat cs') (B.LJoin fid argv sh c) ob) prog acq
  | CB bl, OB ob => mkCF (cf_pc fl) (cf_len fl) (cf_obs fl && B.obs_ok (bat cs) (bat cs') bl ob) prog acq
  | _, _ => mkCF false (cf_len fl) (cf_obs fl) prog acq
  end.

Fixpoint creplay (fx : bool) (evs : list cevent) (cs : cstate) (fl : cflags) : option cstate * cflags :=
  match evs with
  | [] => (Some cs, fl)
  | (l, o) :: t =>
      match cstep fx cs l with
      | None => (None, fl)
      | Some cs' => creplay fx t cs' (cobs_ok fl cs cs' l o)
      end
  end.

Record ccase := mk_ccase {
  cc_fx : bool;
  cc_cap : nat;
  cc_maxsizes : list nat;
  cc_events : list cevent;
  cc_final_len : nat;            (* len(ch) at the end of the run *)
  cc_quiescent : bool;           (* every goroutine returned *)
  cc_free : option nat;          (* tokens obtainable without blocking after every release function was called *)
  cc_over : bool                 (* the harness counted more than cap goroutines in their critical sections *)
}.

(* component codes (offset 10 in the C20 check): 11 an event is not an enabled step of the composition; 12 program
   counter; 13 len(ch); 14 final len(ch); 15 quiescence / every Invoke returned; 16 capacity after releasing
   everything; 17 over-admission seen although the model's count stayed within the limit; 18 a batch observable
   (group, index, created/joined, roll-over, arguments seen by Many, value returned) differs; 19 a state the
   implementation went through has no enabled cooperative step although it is not over, or the end state cannot
   be completed *)
Definition check_ccase (c : ccase) : list nat :=
  match creplay (cc_fx c) (cc_events c) (cinit (cc_cap c) (cc_maxsizes c)) (mkCF true true true true true) with
  | (None, _) => [11]
  | (Some cs, fl) =>
      let ls := lim cs in
      (if cf_pc fl then [] else [12]) ++
      (if cf_len fl then [] else [13]) ++
      (if Nat.eqb (L.chan ls) (cc_final_len c) then [] else [14]) ++
      (if Bool.eqb (L.quiescent ls && B.all_returned (bat cs)) (cc_quiescent c) then [] else [15]) ++
      (match cc_free c with
       | None => []
       | Some free => if Nat.eqb (L.cap ls - (L.chan ls - L.count L.is_acq (L.holders ls))) free then [] else [16]
       end) ++
      (if cc_over c && cf_acq fl then [17] else []) ++
      (if cf_obs fl then [] else [18]) ++
      (if cf_prog fl && (Nat.eqb (cc_cap c) 0 || cterminal (snd (complete (mu cs) cs))) then [] else [19])
  end.

Fixpoint cmismatches_from_sparse (_ : nat) (cs : list (nat * ccase)) : list (nat * list nat) :=
  match cs with
  | [] => []
  | (i, c) :: t => match check_ccase c with
                   | [] => cmismatches_from_sparse 0 t
                   | l => (i, l) :: cmismatches_from_sparse 0 t
                   end
  end.
