(* C20 - the context chain refines the product of single-limiter systems (so every limiter of a chain keeps its own
   accounting and bound), Acquire / TemporarilyRelease touch exactly the innermost limiter / holder of their
   context, and both calls are enabled on every context that exists. *)
From Coq Require Import List Arith Bool Lia ZifyBool ZifyNat.
From Thunder Require Import Limiter.Model Limiter.Proofs Limiter.ModelMulti Limiter.ProofsMulti Limiter.ModelChain.
Import ListNotations.

(* ---- 1. a limiter created later is a limiter that was there from the start and untouched ---- *)

Lemma upd_app_l : forall A (l : list A) i x y, i < length l -> upd (l ++ [y]) i x = upd l i x ++ [y].
Proof.
  induction l as [|a l IH]; intros i x y H; simpl in *; [lia|].
  destruct i; simpl; auto. rewrite IH by lia. reflexivity.
Qed.

Lemma mstep_app : forall fx ms ml ms' s, mstep fx ms ml = Some ms' -> mstep fx (ms ++ [s]) ml = Some (ms' ++ [s]).
Proof.
  intros fx ms ml ms' s H. unfold mstep in *.
  destruct (nth_error ms (fst ml)) as [si|] eqn:E; [|discriminate].
  rewrite (nth_error_app_old _ _ _ _ _ E). destruct (step fx si (snd ml)) as [si'|]; [|discriminate].
  injection H as <-. rewrite upd_app_l; auto. apply nth_error_Some. congruence.
Qed.

Lemma mrun_app_component : forall fx tr ms ms' s, mrun fx ms tr = Some ms' -> mrun fx (ms ++ [s]) tr = Some (ms' ++ [s]).
Proof.
  intros fx. induction tr as [|l tr IH]; intros ms ms' s H; simpl in *.
  - injection H as <-. reflexivity.
  - destruct (mstep fx ms l) as [m1|] eqn:E; [|discriminate]. rewrite (mstep_app _ _ _ _ s E). apply IH. exact H.
Qed.

Lemma mrun_app : forall fx tr1 tr2 ms, mrun fx ms (tr1 ++ tr2) = match mrun fx ms tr1 with Some m1 => mrun fx m1 tr2 | None => None end.
Proof. induction tr1 as [|l tr1 IH]; intros; simpl; auto. destruct (mstep fx ms l); auto. Qed.

Lemma mstep_length : forall fx ms ml ms', mstep fx ms ml = Some ms' -> length ms' = length ms.
Proof.
  intros fx ms ml ms' H. unfold mstep in H. destruct (nth_error ms (fst ml)); [|discriminate].
  destruct (step fx s (snd ml)); [|discriminate]. injection H as <-. apply length_upd.
Qed.

(* ---- 2. refinement ---- *)

Lemma kstep_proj : forall fx ks kl ks', kstep fx ks kl = Some ks' ->
  match kl with
  | KWith _ n => km ks' = km ks ++ [init n]
  | _ => mrun fx (km ks) (kproj1 ks kl) = Some (km ks')
  end.
Proof.
  intros fx ks kl ks' H. destruct kl as [c n|c b|c|l op]; cbn [kstep kproj1] in *.
  - destruct (nth_error (kctxs ks) c); [|discriminate]. injection H as <-. reflexivity.
  - destruct (nth_error (kctxs ks) c) as [cx|]; [|discriminate].
    destruct (limiter_of cx) as [l|];
      match type of H with match mstep ?f ?m ?x with _ => _ end = _ => destruct (mstep f m x) as [ms'|] eqn:E; [|discriminate] end;
      injection H as <-; simpl; rewrite E; reflexivity.
  - destruct (nth_error (kctxs ks) c) as [cx|]; [|discriminate].
    destruct (holder_of cx) as [[l h]|];
      match type of H with match mstep ?f ?m ?x with _ => _ end = _ => destruct (mstep f m x) as [ms'|] eqn:E; [|discriminate] end;
      injection H as <-; simpl; rewrite E; reflexivity.
  - destruct op; try discriminate H;
      (destruct (mstep fx (km ks) (l, _)) as [ms'|] eqn:E; [|discriminate]);
      simpl; rewrite E; try (injection H as <-; reflexivity).
    destruct (acq_ctx l t (kacq ks)) as [c|]; [destruct (nth_error (kctxs ks) c)|]; injection H as <-; reflexivity.
Qed.

Lemma chain_refines_lemma : forall fx n tr ks, krun fx (kinit n) tr = Some ks ->
  exists caps mtr, mrun fx (minit caps) mtr = Some (km ks) /\ length caps = length (km ks) /\ nth_error caps 0 = Some n.
Proof.
  intros fx n tr ks H.
  assert (G : forall tr k0 k1, (exists caps mtr, mrun fx (minit caps) mtr = Some (km k0) /\ length caps = length (km k0) /\ nth_error caps 0 = Some n) ->
              krun fx k0 tr = Some k1 ->
              exists caps mtr, mrun fx (minit caps) mtr = Some (km k1) /\ length caps = length (km k1) /\ nth_error caps 0 = Some n).
  { clear. induction tr as [|kl tr IH]; intros k0 k1 I H; simpl in H.
    - injection H as <-. exact I.
    - destruct (kstep fx k0 kl) as [k2|] eqn:E; [|discriminate]. apply (IH k2 k1); auto.
      destruct I as [caps [mtr [R [L Z]]]]. pose proof (kstep_proj _ _ _ _ E) as P.
      destruct kl as [c m|c b|c|l op].
      + exists (caps ++ [m]), mtr. rewrite P. unfold minit. rewrite map_app. split.
        * apply mrun_app_component. exact R.
        * rewrite !app_length, L. split; [reflexivity|]. destruct caps; [discriminate Z|exact Z].
      + exists caps, (mtr ++ kproj1 k0 (KAcquire c b)). rewrite mrun_app, R. split; [exact P|].
        assert (length (km k2) = length (km k0)).
        { clear - P. revert P. generalize (kproj1 k0 (KAcquire c b)) (km k0). induction l as [|a l IH]; intros m P; simpl in P.
          - injection P as <-. reflexivity.
          - destruct (mstep fx m a) eqn:E; [|discriminate]. rewrite (IH _ P). eapply mstep_length; eauto. }
        split; [congruence|exact Z].
      + exists caps, (mtr ++ kproj1 k0 (KBlock c)). rewrite mrun_app, R. split; [exact P|].
        assert (length (km k2) = length (km k0)).
        { clear - P. revert P. generalize (kproj1 k0 (KBlock c)) (km k0). induction l as [|a l IH]; intros m P; simpl in P.
          - injection P as <-. reflexivity.
          - destruct (mstep fx m a) eqn:E; [|discriminate]. rewrite (IH _ P). eapply mstep_length; eauto. }
        split; [congruence|exact Z].
      + exists caps, (mtr ++ kproj1 k0 (KOp l op)). rewrite mrun_app, R. split; [exact P|].
        assert (length (km k2) = length (km k0)).
        { clear - P. cbn [kproj1 mrun] in P. destruct (mstep fx (km k0) (l, op)) eqn:E; [|discriminate].
          injection P as <-. eapply mstep_length; eauto. }
        split; [congruence|exact Z]. }
  apply (G tr (kinit n) ks); auto. exists [n], []. simpl. auto.
Qed.

(* every limiter of the chain keeps its own accounting and bound *)
Lemma chain_safety_lemma : forall n tr ks l s,
  krun true (kinit n) tr = Some ks -> nth_error (km ks) l = Some s ->
  chan s = owed s /\ chan s <= cap s /\ believes_running s <= cap s /\ count is_acq (holders s) <= cap s /\ running s <= cap s /\
  (quiescent s = true -> chan s = count is_acq (holders s)) /\
  (forall h, count (rel_took h) (threads s) <= 1) /\
  (forall h, count (blk_owner h) (threads s) <= 1) /\
  (l = 0 -> cap s = n).
Proof.
  intros n tr ks l s H S. destruct (chain_refines_lemma _ _ _ _ H) as [caps [mtr [R [L Z]]]].
  destruct (nth_error caps l) as [m|] eqn:C.
  2:{ apply nth_error_None in C. assert (l < length (km ks)) by (apply nth_error_Some; congruence). lia. }
  destruct (nested_limiters_lemma _ _ _ _ R) as [_ P]. destruct (P l m C) as [s0 [E RR]].
  assert (s0 = s) by congruence. subst s0. pose proof (cap_run _ _ _ _ RR) as CP.
  destruct (nested_safety_lemma _ _ _ _ _ _ R C S) as [A1 [A2 [A3 [A4 [A5 [A6 A7]]]]]].
  destruct (token_accounting_lemma _ _ _ RR) as [_ T2].
  rewrite CP. repeat (split; auto). intros ->. congruence.
Qed.

(* ---- 3. resolution ---- *)

Lemma mstep_only : forall fx ms l op ms', mstep fx ms (l, op) = Some ms' ->
  (forall j, j <> l -> nth_error ms' j = nth_error ms j) /\
  exists s s', nth_error ms l = Some s /\ nth_error ms' l = Some s' /\ step fx s op = Some s'.
Proof.
  intros fx ms l op ms' H. unfold mstep in H. cbn [fst snd] in H.
  destruct (nth_error ms l) as [s|] eqn:E; [|discriminate]. destruct (step fx s op) as [s'|] eqn:St; [|discriminate].
  injection H as <-. split.
  - intros j N. apply nth_error_upd_other. auto.
  - exists s, s'. split; auto. split; auto. eapply nth_error_upd_same; eauto.
Qed.

(* Acquire uses the innermost limiter of its context and nothing else: an inner With shadows the outer ones *)
Lemma acquire_resolution_lemma : forall fx ks c b ks' cx l,
  kstep fx ks (KAcquire c b) = Some ks' -> nth_error (kctxs ks) c = Some cx -> limiter_of cx = Some l ->
  (forall j, j <> l -> nth_error (km ks') j = nth_error (km ks) j) /\
  exists s s', nth_error (km ks) l = Some s /\ nth_error (km ks') l = Some s' /\
               threads s' = threads s ++ [A0 true b] /\ chan s' = chan s /\ holders s' = holders s.
Proof.
  intros fx ks c b ks' cx l H C L. cbn [kstep] in H. rewrite C, L in H.
  destruct (mstep fx (km ks) (l, LNewAcquire true b)) as [ms'|] eqn:E; [|discriminate]. injection H as <-. cbn [km].
  destruct (mstep_only _ _ _ _ _ E) as [O [s [s' [S [S' St]]]]]. split; auto.
  exists s, s'. split; auto. split; auto. unfold step in St. injection St as <-. auto.
Qed.

(* TemporarilyRelease acts on the innermost holder of its context - of whichever limiter that holder is *)
Lemma block_resolution_lemma : forall fx ks c ks' cx l h,
  kstep fx ks (KBlock c) = Some ks' -> nth_error (kctxs ks) c = Some cx -> holder_of cx = Some (l, h) ->
  (forall j, j <> l -> nth_error (km ks') j = nth_error (km ks) j) /\
  exists s s', nth_error (km ks) l = Some s /\ nth_error (km ks') l = Some s' /\
               threads s' = threads s ++ [B0 h] /\ chan s' = chan s /\ holders s' = holders s.
Proof.
  intros fx ks c ks' cx l h H C L. cbn [kstep] in H. rewrite C, L in H.
  destruct (mstep fx (km ks) (l, LNewBlock (Some h))) as [ms'|] eqn:E; [|discriminate]. injection H as <-. cbn [km].
  destruct (mstep_only _ _ _ _ _ E) as [O [s [s' [S [S' St]]]]]. split; auto.
  exists s, s'. split; auto. split; auto. unfold step in St. destruct (h <? length (holders s)); [|discriminate].
  injection St as <-. auto.
Qed.

(* the contexts With and a successful Acquire return *)
Lemma new_contexts_lemma : forall fx ks,
  (forall c n cx ks', kstep fx ks (KWith c n) = Some ks' -> nth_error (kctxs ks) c = Some cx ->
     exists cx', nth_error (kctxs ks') (length (kctxs ks)) = Some cx' /\
                 limiter_of cx' = Some (length (km ks)) /\ holder_of cx' = holder_of cx /\
                 nth_error (km ks') (length (km ks)) = Some (init n)) /\
  (forall l t c cx ks', kstep fx ks (KOp l (LAcqSend t)) = Some ks' -> acq_ctx l t (kacq ks) = Some c ->
     nth_error (kctxs ks) c = Some cx ->
     exists cx', nth_error (kctxs ks') (length (kctxs ks)) = Some cx' /\
                 limiter_of cx' = limiter_of cx /\ holder_of cx' = Some (l, nholders (km ks) l)).
Proof.
  intros fx ks. split.
  - intros c n cx ks' H C. cbn [kstep] in H. rewrite C in H. injection H as <-. cbn [kctxs km].
    eexists. split; [apply nth_error_app_new|]. split; [reflexivity|]. split; [reflexivity|]. apply nth_error_app_new.
  - intros l t c cx ks' H A C. cbn [kstep] in H.
    destruct (mstep fx (km ks) (l, LAcqSend t)) as [ms'|]; [|discriminate]. rewrite A, C in H. injection H as <-. cbn [kctxs].
    eexists. split; [apply nth_error_app_new|]. split; reflexivity.
Qed.

(* ---- 4. contexts stay valid; Acquire and TemporarilyRelease are enabled on every context ---- *)

Definition frame_ok (ms : mstate) (f : frame) : Prop :=
  match f with
  | FLim l => l < length ms
  | FHold l h => h < nholders ms l
  end.

Definition KWf (ks : kstate) : Prop :=
  1 <= length (km ks) /\ forall c cx f, nth_error (kctxs ks) c = Some cx -> In f cx -> frame_ok (km ks) f.

Lemma holders_mono_step : forall fx s l s', step fx s l = Some s' -> length (holders s) <= length (holders s').
Proof. intros fx s l s' H. destruct l; step_cases H; rewrite ?length_upd, ?app_length; simpl; lia. Qed.

Lemma frame_ok_mstep : forall fx ms ml ms' f, mstep fx ms ml = Some ms' -> frame_ok ms f -> frame_ok ms' f.
Proof.
  intros fx ms [l op] ms' f H F. pose proof (mstep_length _ _ _ _ H) as L.
  destruct (mstep_only _ _ _ _ _ H) as [O [s [s' [S [S' St]]]]]. destruct f as [l0|l0 h]; simpl in *; [lia|].
  unfold nholders in *. destruct (Nat.eq_dec l0 l) as [->|N].
  - rewrite S in F. rewrite S'. pose proof (holders_mono_step _ _ _ _ St). lia.
  - rewrite (O _ N). exact F.
Qed.

Lemma frame_ok_app : forall ms s f, frame_ok ms f -> frame_ok (ms ++ [s]) f.
Proof.
  intros ms s f F. destruct f as [l|l h]; simpl in *; [rewrite app_length; simpl; lia|].
  unfold nholders in *. destruct (nth_error ms l) as [x|] eqn:E; [|lia]. rewrite (nth_error_app_old _ _ _ _ _ E). exact F.
Qed.

Lemma kwf_init : forall n, KWf (kinit n).
Proof.
  intros n. split; [simpl; lia|]. intros c cx f C I. destruct c as [|[|c]]; simpl in C; try (destruct c; discriminate).
  - injection C as <-. destruct I as [<-|[]]. simpl. lia.
  - injection C as <-. destruct I.
Qed.

Lemma kwf_step : forall fx ks kl ks', KWf ks -> kstep fx ks kl = Some ks' -> KWf ks'.
Proof.
  intros fx ks kl ks' [W0 W] H. destruct kl as [c n|c b|c|l op]; cbn [kstep] in H.
  - destruct (nth_error (kctxs ks) c) as [cx|] eqn:C; [|discriminate]. injection H as <-. split; cbn [km kctxs].
    + rewrite app_length. lia.
    + intros c0 cx0 f C0 I. apply nth_error_app_last in C0. destruct C0 as [[_ C0]|[_ ->]].
      * apply frame_ok_app. eapply W; eauto.
      * destruct I as [<-|I]; [simpl; rewrite app_length; simpl; lia|]. apply frame_ok_app. eapply W; eauto.
  - destruct (nth_error (kctxs ks) c) as [cx|]; [|discriminate].
    destruct (limiter_of cx) as [l|];
      match type of H with match mstep ?f ?m ?x with _ => _ end = _ => destruct (mstep f m x) as [ms'|] eqn:E; [|discriminate] end;
      injection H as <-; (split; cbn [km kctxs]; [rewrite (mstep_length _ _ _ _ E); exact W0|]);
      intros c0 cx0 f C0 I; eapply frame_ok_mstep; eauto.
  - destruct (nth_error (kctxs ks) c) as [cx|]; [|discriminate].
    destruct (holder_of cx) as [[l h]|];
      match type of H with match mstep ?f ?m ?x with _ => _ end = _ => destruct (mstep f m x) as [ms'|] eqn:E; [|discriminate] end;
      injection H as <-; (split; cbn [km kctxs]; [rewrite (mstep_length _ _ _ _ E); exact W0|]);
      intros c0 cx0 f C0 I; eapply frame_ok_mstep; eauto.
  - assert (G : forall ms', mstep fx (km ks) (l, op) = Some ms' -> KWf (mkK ms' (kctxs ks) (kacq ks))).
    { intros ms' E. split; cbn [km kctxs]; [rewrite (mstep_length _ _ _ _ E); exact W0|].
      intros c0 cx0 f C0 I. eapply frame_ok_mstep; eauto. }
    destruct op as [lm cc|h|h|t|t|t|t|t|t|t|t|t|t|t|t|t]; try discriminate H;
      (destruct (mstep fx (km ks) (l, _)) as [ms'|] eqn:E; [|discriminate]);
      try (injection H as <-; apply G; reflexivity).
    destruct (acq_ctx l t (kacq ks)) as [c|]; [destruct (nth_error (kctxs ks) c) as [cx|] eqn:C|];
      injection H as <-; try (apply G; reflexivity).
    destruct (G _ eq_refl) as [G0 G1]. split; [exact G0|]. cbn [km kctxs] in *.
    intros c0 cx0 f C0 I. apply nth_error_app_last in C0. destruct C0 as [[_ C0]|[_ ->]]; [eapply G1; eauto|].
    destruct I as [<-|I]; [|eapply G1; eauto].
    (* the new holder exists in the new state *)
    destruct (mstep_only _ _ _ _ _ E) as [_ [s [s' [S [S' St]]]]]. simpl. unfold nholders. rewrite S, S'.
    unfold step in St. dmatch St. injection St as <-. cbn [holders]. rewrite app_length. simpl. lia.
Qed.

Lemma kwf_run : forall fx n tr ks, krun fx (kinit n) tr = Some ks -> KWf ks.
Proof.
  intros fx n tr ks H.
  assert (G : forall tr k0 k1, KWf k0 -> krun fx k0 tr = Some k1 -> KWf k1).
  { clear. induction tr as [|kl tr IH]; intros k0 k1 W H; simpl in H.
    - injection H as <-. exact W.
    - destruct (kstep fx k0 kl) as [k2|] eqn:E; [|discriminate]. eapply IH; [|exact H]. eapply kwf_step; eauto. }
  eapply G; [apply kwf_init|exact H].
Qed.

Lemma limiter_of_in : forall cx l, limiter_of cx = Some l -> In (FLim l) cx.
Proof. induction cx as [|[l0|l0 h0] cx IH]; simpl; intros l H; try discriminate; [injection H as ->; auto | right; auto]. Qed.

Lemma holder_of_in : forall cx l h, holder_of cx = Some (l, h) -> In (FHold l h) cx.
Proof. induction cx as [|[l0|l0 h0] cx IH]; simpl; intros l h H; try discriminate; [right; auto | injection H as -> ->; auto]. Qed.

Lemma chain_calls_enabled_lemma : forall fx n tr ks c cx,
  krun fx (kinit n) tr = Some ks -> nth_error (kctxs ks) c = Some cx ->
  (forall b, exists ks', kstep fx ks (KAcquire c b) = Some ks') /\ (exists ks', kstep fx ks (KBlock c) = Some ks').
Proof.
  intros fx n tr ks c cx H C. destruct (kwf_run _ _ _ _ H) as [W0 W]. split.
  - intros b. cbn [kstep]. rewrite C.
    assert (E : forall l lim, l < length (km ks) -> exists ms', mstep fx (km ks) (l, LNewAcquire lim b) = Some ms').
    { intros l lim Hl. unfold mstep. cbn [fst snd]. destruct (nth_error (km ks) l) as [s|] eqn:S; [|apply nth_error_None in S; lia].
      eexists. reflexivity. }
    destruct (limiter_of cx) as [l|] eqn:L.
    + pose proof (W _ _ _ C (limiter_of_in _ _ L)) as F. simpl in F. destruct (E l true F) as [ms' M]. rewrite M. eauto.
    + destruct (E 0 false ltac:(lia)) as [ms' M]. rewrite M. eauto.
  - cbn [kstep]. rewrite C. destruct (holder_of cx) as [[l h]|] eqn:L.
    + pose proof (W _ _ _ C (holder_of_in _ _ _ L)) as F. simpl in F. unfold nholders in F.
      unfold mstep. cbn [fst snd]. destruct (nth_error (km ks) l) as [s|] eqn:S; [|lia].
      unfold step. apply Nat.ltb_lt in F. rewrite F. eauto.
    + unfold mstep. cbn [fst snd]. destruct (nth_error (km ks) 0) as [s|] eqn:S; [|apply nth_error_None in S; lia].
      unfold step. eauto.
Qed.
