(* C20 - a chain of limiters is the product of single-limiter systems. *)
From Coq Require Import List Arith Bool Lia ZifyBool ZifyNat.
From Thunder Require Import Limiter.Model Limiter.Proofs Limiter.ModelMulti.
Import ListNotations.

Lemma mrun_proj : forall fx tr ms ms',
  mrun fx ms tr = Some ms' ->
  length ms' = length ms /\
  forall i s, nth_error ms i = Some s ->
    exists s', nth_error ms' i = Some s' /\ run fx s (proj i tr) = Some s'.
Proof.
  intros fx. induction tr as [|[j l] tr IH]; intros ms ms' H; simpl in H.
  - injection H as <-. split; auto. intros i s Hs. exists s. split; auto.
  - unfold mstep in H. cbn [fst snd] in H.
    destruct (nth_error ms j) as [sj|] eqn:Ej; [|discriminate].
    destruct (step fx sj l) as [sj'|] eqn:Es; [|discriminate].
    destruct (IH _ _ H) as [L P]. rewrite length_upd in L. split; auto.
    intros i s Hs. cbn [proj]. destruct (Nat.eqb_spec j i) as [->|N].
    + assert (s = sj) by congruence. subst s.
      destruct (P i sj' (nth_error_upd_same _ _ _ _ sj' Ej)) as [s' [N' R']].
      exists s'. split; auto. simpl. rewrite Es. exact R'.
    + apply P. rewrite nth_error_upd_other by auto. exact Hs.
Qed.

Lemma nested_limiters_lemma : forall fx caps tr ms,
  mrun fx (minit caps) tr = Some ms ->
  length ms = length caps /\
  forall i n, nth_error caps i = Some n ->
    exists s, nth_error ms i = Some s /\ run fx (init n) (proj i tr) = Some s.
Proof.
  intros fx caps tr ms H. destruct (mrun_proj _ _ _ _ H) as [L P]. split.
  - rewrite L. unfold minit. apply map_length.
  - intros i n Hn. apply P. unfold minit. apply map_nth_error. exact Hn.
Qed.

Lemma nested_safety_lemma : forall caps tr ms i n s,
  mrun true (minit caps) tr = Some ms -> nth_error caps i = Some n -> nth_error ms i = Some s ->
  chan s = owed s /\ believes_running s <= n /\ count is_acq (holders s) <= n /\ running s <= n /\
  (quiescent s = true -> chan s = count is_acq (holders s)) /\
  (forall h, count (rel_took h) (threads s) <= 1) /\
  (forall h, count (blk_owner h) (threads s) <= 1).
Proof.
  intros caps tr ms i n s H Hn Hs. destruct (nested_limiters_lemma _ _ _ _ H) as [_ P].
  destruct (P i n Hn) as [s0 [E R]]. assert (s0 = s) by congruence. subst s0.
  destruct (token_accounting_lemma _ _ _ R) as [T1 _].
  destruct (running_le_limit_lemma _ _ _ R) as [R1 [R2 R3]].
  split; auto. split; auto. split; auto. split; auto. split; [|split].
  - intro Q. destruct (quiescent_lemma _ _ _ R Q) as [Q1 _]. exact Q1.
  - intro h. destruct (release_idempotent_lemma _ _ _ R) as [I1 _]. auto.
  - intro h. destruct (shared_context_lemma _ _ _ h R) as [S1 _]. auto.
Qed.
