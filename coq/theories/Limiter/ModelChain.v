(* C20 - the context chain: which limiter an Acquire uses and which holder a TemporarilyRelease acts on.
   Executable definitions only.

   concurrencylimiter.go keeps two values in a context: With(ctx, n) = context.WithValue(ctx, limiterKey{}, new
   limiter) and, when Acquire takes a token, context.WithValue(ctx, holderKey{}, new holder).  ctx.Value returns the
   INNERMOST binding of a key: Acquire uses the innermost limiter (an inner With shadows the outer one),
   TemporarilyRelease the innermost holder - which may be a holder of an OUTER limiter when a With came after the
   Acquire; a release function is a closure on its holder and needs no context.

   A context is the list of its bindings, innermost first.  The state is the product of the limiters created so far
   (Limiter/ModelMulti.v, one component per With in creation order, component 0 = the base limiter), the contexts
   created so far (context 0 = the base context, context 1 = a context without limiter), and for every Acquire call
   in progress the context it was called with.  Client labels name a CONTEXT; the model resolves it. *)
From Coq Require Import List Arith Bool.
From Thunder Require Import Limiter.Model Limiter.ModelMulti.
Import ListNotations.

Inductive frame := FLim (l : nat) | FHold (l h : nat).
Definition ctx := list frame.

Fixpoint limiter_of (c : ctx) : option nat :=
  match c with
  | [] => None
  | FLim l :: _ => Some l
  | FHold _ _ :: r => limiter_of r
  end.

Fixpoint holder_of (c : ctx) : option (nat * nat) :=
  match c with
  | [] => None
  | FHold l h :: _ => Some (l, h)
  | FLim _ :: r => holder_of r
  end.

Record kstate := mkK {
  km : mstate;
  kctxs : list ctx;
  kacq : list (nat * nat * nat)    (* Acquire calls: (limiter, thread) was called with context c *)
}.

Inductive klabel :=
| KWith (c n : nat)               (* With(context c, n): a new limiter, a new context *)
| KAcquire (c : nat) (cancelled : bool)   (* a goroutine calls Acquire(context c) *)
| KBlock (c : nat)                (* a goroutine calls TemporarilyRelease(context c, f) *)
| KOp (l : nat) (op : label).     (* any other operation, on limiter l: the atomic operations of calls in progress,
                                     a call of a holder's release function, a cancellation *)

Definition kinit (n : nat) : kstate := mkK [init n] [[FLim 0]; []] [].

Fixpoint acq_ctx (l t : nat) (a : list (nat * nat * nat)) : option nat :=
  match a with
  | [] => None
  | (l', t', c) :: r => if Nat.eqb l l' && Nat.eqb t t' then Some c else acq_ctx l t r
  end.

Definition nthreads (ms : mstate) (l : nat) : nat :=
  match nth_error ms l with Some s => length (threads s) | None => 0 end.
Definition nholders (ms : mstate) (l : nat) : nat :=
  match nth_error ms l with Some s => length (holders s) | None => 0 end.

Definition kstep (fx : bool) (ks : kstate) (kl : klabel) : option kstate :=
  match kl with
  | KWith c n =>
      match nth_error (kctxs ks) c with
      | Some cx => Some (mkK (km ks ++ [init n]) (kctxs ks ++ [FLim (length (km ks)) :: cx]) (kacq ks))
      | None => None
      end
  | KAcquire c cancelled =>
      match nth_error (kctxs ks) c with
      | Some cx =>
          let '(l, lim) := match limiter_of cx with Some l => (l, true) | None => (0, false) end in
          match mstep fx (km ks) (l, LNewAcquire lim cancelled) with
          | Some ms' => Some (mkK ms' (kctxs ks) ((l, nthreads (km ks) l, c) :: kacq ks))
          | None => None
          end
      | None => None
      end
  | KBlock c =>
      match nth_error (kctxs ks) c with
      | Some cx =>
          let '(l, h) := match holder_of cx with Some (l, h) => (l, Some h) | None => (0, None) end in
          match mstep fx (km ks) (l, LNewBlock h) with
          | Some ms' => Some (mkK ms' (kctxs ks) (kacq ks))
          | None => None
          end
      | None => None
      end
  | KOp l op =>
      match op with
      | LNewAcquire _ _ | LNewBlock _ => None     (* these name a context: KAcquire / KBlock *)
      | _ =>
          match mstep fx (km ks) (l, op) with
          | Some ms' =>
              match op with
              | LAcqSend t =>
                  (* Acquire returns context.WithValue(ctx, holderKey{}, h) for the context it was called with *)
                  match acq_ctx l t (kacq ks) with
                  | Some c => match nth_error (kctxs ks) c with
                              | Some cx => Some (mkK ms' (kctxs ks ++ [FHold l (nholders (km ks) l) :: cx]) (kacq ks))
                              | None => Some (mkK ms' (kctxs ks) (kacq ks))
                              end
                  | None => Some (mkK ms' (kctxs ks) (kacq ks))
                  end
              | _ => Some (mkK ms' (kctxs ks) (kacq ks))
              end
          | None => None
          end
      end
  end.

Fixpoint krun (fx : bool) (ks : kstate) (tr : list klabel) : option kstate :=
  match tr with
  | [] => Some ks
  | l :: t => match kstep fx ks l with
              | Some ks' => krun fx ks' t
              | None => None
              end
  end.

(* the product-model labels a chain label stands for *)
Definition kproj1 (ks : kstate) (kl : klabel) : list mlabel :=
  match kl with
  | KWith _ _ => []
  | KAcquire c cancelled =>
      match nth_error (kctxs ks) c with
      | Some cx => match limiter_of cx with
                   | Some l => [(l, LNewAcquire true cancelled)]
                   | None => [(0, LNewAcquire false cancelled)]
                   end
      | None => []
      end
  | KBlock c =>
      match nth_error (kctxs ks) c with
      | Some cx => match holder_of cx with
                   | Some (l, h) => [(l, LNewBlock (Some h))]
                   | None => [(0, LNewBlock None)]
                   end
      | None => []
      end
  | KOp l op => [(l, op)]
  end.

(* ---- trace conformance ---- *)

(* operation, program counter seen afterwards, len(ch) of the limiter concerned seen afterwards *)
Definition kevent := (klabel * nat * option nat)%type.

(* the limiter and thread an operation concerns, in the state before it *)
Definition kwhere (ks : kstate) (kl : klabel) : option (nat * nat) :=
  match kl with
  | KWith _ _ => None
  | KAcquire c _ =>
      match nth_error (kctxs ks) c with
      | Some cx => let l := match limiter_of cx with Some l => l | None => 0 end in Some (l, nthreads (km ks) l)
      | None => None
      end
  | KBlock c =>
      match nth_error (kctxs ks) c with
      | Some cx => let l := match holder_of cx with Some (l, _) => l | None => 0 end in Some (l, nthreads (km ks) l)
      | None => None
      end
  | KOp l op => match nth_error (km ks) l with Some s => Some (l, label_thread s op) | None => None end
  end.

Fixpoint kreplay (fx : bool) (evs : list kevent) (ks : kstate) (fl : mflags) : option kstate * mflags :=
  match evs with
  | [] => (Some ks, fl)
  | (kl, code, olen) :: t =>
      match kstep fx ks kl with
      | None => (None, fl)
      | Some ks' =>
          let '(p_ok, l_ok, a_ok) :=
            match kwhere ks kl with
            | None => (true, true, true)
            | Some (l, th) =>
                match nth_error (km ks') l with
                | Some s' =>
                    (match nth_error (threads s') th with Some p => Nat.eqb (pc_code p) code | None => false end,
                     opt_nat_ok olen (chan s'),
                     count is_acq (holders s') <=? cap s')
                | None => (false, false, false)
                end
            end in
          kreplay fx t ks' (mkFlags (f_pc fl && p_ok) (f_len fl && l_ok) (f_acq fl && a_ok))
      end
  end.

Record kcase := mk_kcase {
  kk_fx : bool;
  kk_cap : nat;                      (* capacity of the base limiter *)
  kk_events : list kevent;
  kk_final_lens : list nat;          (* len(ch) of every limiter, in creation order, at the end of the run *)
  kk_quiescent : bool;
  kk_free : option (list nat);
  kk_over : bool
}.

(* component codes as in the single-limiter check: 1 an event is not an enabled step (this includes: the
   implementation resolved a context to another limiter / holder than its innermost one); 2 predicted pc; 3 predicted
   len(ch); 4 final len(ch) of some limiter; 5 quiescence; 6 capacity of some limiter after releasing everything;
   7 over-admission seen by the harness only *)
Definition check_kcase (c : kcase) : list nat :=
  match kreplay (kk_fx c) (kk_events c) (kinit (kk_cap c)) (mkFlags true true true) with
  | (None, _) => [1]
  | (Some ks, fl) =>
      let ms := km ks in
      (if f_pc fl then [] else [2]) ++
      (if f_len fl then [] else [3]) ++
      (if list_nat_eqb (map chan ms) (kk_final_lens c) then [] else [4]) ++
      (if Bool.eqb (forallb quiescent ms) (kk_quiescent c) then [] else [5]) ++
      (match kk_free c with
       | None => []
       | Some free =>
           if list_nat_eqb (map (fun s => cap s - (chan s - count is_acq (holders s))) ms) free then [] else [6]
       end) ++
      (if kk_over c && f_acq fl then [7] else [])
  end.

Fixpoint kmismatches_from_sparse (_ : nat) (cs : list (nat * kcase)) : list (nat * list nat) :=
  match cs with
  | [] => []
  | (i, c) :: t => match check_kcase c with
                   | [] => kmismatches_from_sparse 0 t
                   | l => (i, l) :: kmismatches_from_sparse 0 t
                   end
  end.
