(* C20 - invariants of the limiter transition system, by induction over label lists. *)
From Coq Require Import List Arith Bool Lia ZifyBool ZifyNat.
From Thunder Require Import Limiter.Model.
Import ListNotations.

Definition b2n (b : bool) : nat := if b then 1 else 0.

(* ---- lists ---- *)

Lemma count_app : forall A (f : A -> bool) l1 l2, count f (l1 ++ l2) = count f l1 + count f l2.
Proof. induction l1; simpl; intros; [reflexivity | rewrite IHl1; lia]. Qed.

Lemma count_upd : forall A (f : A -> bool) l i a x,
  nth_error l i = Some a -> count f (upd l i x) + b2n (f a) = count f l + b2n (f x).
Proof.
  induction l as [|b l IH]; intros i a x H.
  - destruct i; discriminate.
  - destruct i; simpl in *.
    + injection H as ->. unfold b2n. destruct (f a), (f x); lia.
    + specialize (IH _ _ x H). lia.
Qed.

Lemma count_pos : forall A (f : A -> bool) l i a, nth_error l i = Some a -> f a = true -> 1 <= count f l.
Proof.
  induction l as [|b l IH]; intros i a H Hf.
  - destruct i; discriminate.
  - destruct i; simpl in *.
    + injection H as ->. rewrite Hf. lia.
    + specialize (IH _ _ H Hf). lia.
Qed.

Lemma count_zero_forall : forall A (f : A -> bool) l, count f l = 0 -> forall i a, nth_error l i = Some a -> f a = false.
Proof.
  intros A f l H i a Hn. destruct (f a) eqn:E; [|reflexivity].
  pose proof (count_pos _ f l i a Hn E). lia.
Qed.

Lemma length_upd : forall A (l : list A) i x, length (upd l i x) = length l.
Proof. induction l; destruct i; simpl; intros; auto. Qed.

Lemma nth_error_upd_same : forall A (l : list A) i a x, nth_error l i = Some a -> nth_error (upd l i x) i = Some x.
Proof.
  induction l as [|b l IH]; intros i a x H; destruct i; simpl in *; try discriminate; auto.
  eapply IH; eauto.
Qed.

Lemma nth_error_upd_other : forall A (l : list A) i j x, i <> j -> nth_error (upd l i x) j = nth_error l j.
Proof.
  induction l as [|b l IH]; intros i j x H; destruct i, j; simpl in *; auto; try congruence.
Qed.

Lemma upd_same : forall A (l : list A) i a, nth_error l i = Some a -> upd l i a = l.
Proof.
  induction l as [|b l IH]; intros i a H; destruct i; simpl in *; try discriminate.
  - injection H as ->. reflexivity.
  - f_equal. auto.
Qed.

Lemma existsb_app_l : forall A (f : A -> bool) l l', existsb f l = true -> existsb f (l ++ l') = true.
Proof. intros. rewrite existsb_app, H. reflexivity. Qed.

Lemma existsb_upd_keep : forall A (f : A -> bool) l i a x,
  nth_error l i = Some a -> (f a = true -> f x = true) -> existsb f l = true -> existsb f (upd l i x) = true.
Proof.
  induction l as [|b l IH]; intros i a x Hn Hax He.
  - discriminate.
  - destruct i; simpl in *.
    + injection Hn as ->. destruct (f a); [rewrite Hax; auto|]. simpl in He. destruct (f x); auto.
    + destruct (f b); auto. simpl in *. eapply IH; eauto.
Qed.

Lemma existsb_upd_new : forall A (f : A -> bool) l i a x,
  nth_error l i = Some a -> f x = true -> existsb f (upd l i x) = true.
Proof.
  induction l as [|b l IH]; intros i a x Hn Hx; destruct i; simpl in *; try discriminate.
  - rewrite Hx. reflexivity.
  - destruct (f b); auto. simpl. eapply IH; eauto.
Qed.

Lemma existsb_false_nth : forall A (f : A -> bool) l, existsb f l = false -> forall i a, nth_error l i = Some a -> f a = false.
Proof.
  induction l as [|b l IH]; intros He i a Hn; destruct i; simpl in *; try discriminate.
  - injection Hn as ->. destruct (f a); auto.
  - destruct (f b); try discriminate. eapply IH; eauto.
Qed.

Lemma existsb_upd_false : forall A (f : A -> bool) l i x,
  existsb f l = false -> f x = false -> existsb f (upd l i x) = false.
Proof.
  induction l as [|b l IH]; intros i x He Hx; destruct i; simpl in *; auto.
  - destruct (f b); try discriminate. rewrite Hx. auto.
  - destruct (f b); try discriminate. simpl. auto.
Qed.

Lemma nth_error_app_last : forall A (l : list A) x i a,
  nth_error (l ++ [x]) i = Some a -> (i < length l /\ nth_error l i = Some a) \/ (i = length l /\ a = x).
Proof.
  intros A l x i a H. destruct (Nat.lt_ge_cases i (length l)) as [L|L].
  - left. split; auto. rewrite nth_error_app1 in H; auto.
  - right. rewrite nth_error_app2 in H; auto.
    destruct (i - length l) as [|k] eqn:E; simpl in H.
    + injection H as <-. split; auto. lia.
    + destruct k; discriminate.
Qed.

(* ---- running a trace; invariants by induction over the label list ---- *)

Lemma run_invariant : forall fx (P : state -> Prop),
  (forall s l s', P s -> step fx s l = Some s' -> P s') ->
  forall tr s s', P s -> run fx s tr = Some s' -> P s'.
Proof.
  intros fx P Hstep. induction tr as [|l tr IH]; intros s s' Hs Hr; simpl in Hr.
  - injection Hr as <-. exact Hs.
  - destruct (step fx s l) as [s1|] eqn:E; [|discriminate]. eapply IH; [|exact Hr]. eapply Hstep; eauto.
Qed.

Lemma run_app : forall fx tr1 tr2 s, run fx s (tr1 ++ tr2) = match run fx s tr1 with Some s1 => run fx s1 tr2 | None => None end.
Proof.
  induction tr1 as [|l tr1 IH]; intros; simpl; auto. destruct (step fx s l); auto.
Qed.

(* case analysis of one step: destruct every match / if in the hypothesis *)
Ltac dmatch H :=
  repeat match type of H with
  | context[match ?x with _ => _ end] => let E := fresh "E" in destruct x eqn:E; try discriminate H
  end.

Ltac step_cases H :=
  unfold step in H; dmatch H; injection H as <-;
  cbn [cap chan holders threads set_thread add_thread] in *.

(* replace every [count f (upd l i x)] by a variable constrained by count_upd *)
Ltac upd_facts :=
  repeat match goal with
  | E : nth_error ?l ?i = Some ?a |- context[count ?f (upd ?l ?i ?x)] =>
      let U := fresh "U" in
      pose proof (count_upd _ f l i a x E) as U;
      cbn [b2n is_acq is_rel tok_pc at_b4 done_pc] in U;
      generalize dependent (count f (upd l i x)); intros
  end.

(* ---- 1. token accounting (repaired code) ---- *)

Definition acct (s : state) : Prop := chan s = owed s /\ chan s <= cap s.

Lemma acct_step : forall s l s', acct s -> step true s l = Some s' -> acct s'.
Proof.
  intros s l s' [Hc Hle] H. unfold acct, owed in *.
  destruct l; step_cases H; rewrite ?count_app; cbn [count is_acq tok_pc]; upd_facts; lia.
Qed.

Lemma cap_step : forall fx s l s', step fx s l = Some s' -> cap s' = cap s.
Proof.
  intros fx s l s' H. destruct l; step_cases H; reflexivity.
Qed.

Lemma cap_run : forall fx n tr s, run fx (init n) tr = Some s -> cap s = n.
Proof.
  intros fx n tr s H.
  apply (run_invariant fx (fun s => cap s = n)) with (tr := tr) (s := init n); auto.
  intros s0 l s1 Hs0 Hst. rewrite (cap_step _ _ _ _ Hst). exact Hs0.
Qed.

Lemma acct_run : forall n tr s, run true (init n) tr = Some s -> acct s.
Proof.
  intros n tr s H. apply (run_invariant true acct) with (tr := tr) (s := init n); auto.
  - intros; eapply acct_step; eauto.
  - unfold acct, owed; simpl; lia.
Qed.

Lemma token_accounting_lemma : forall n tr s,
  run true (init n) tr = Some s -> chan s = owed s /\ chan s <= n.
Proof.
  intros n tr s H. destruct (acct_run _ _ _ H) as [A B]. rewrite (cap_run _ _ _ _ H) in B. auto.
Qed.

(* ---- 2. at most [cap] holders acquired / running ---- *)

Lemma count_running_le : forall ths hs i, count_running hs i ths <= count is_acq hs.
Proof.
  induction hs as [|st hs IH]; intros i; simpl; [lia|].
  specialize (IH (S i)). destruct (is_acq st), (existsb (inside_block i) ths); simpl; lia.
Qed.

Lemma acq_le_chan : forall s, acct s -> count is_acq (holders s) <= chan s.
Proof. intros s [A _]. unfold owed in A. lia. Qed.

(* ---- 3. status words and calls in progress agree ---- *)

Definition blk_owner (h : nat) (p : pc) : bool :=
  match p with B1 k | B2 k | B3 k | B3s k => Nat.eqb k h | _ => false end.

(* released => its release function was called; blocked => exactly the call that gave the token up is still inside *)
Definition coh (s : state) : Prop :=
  forall h st, nth_error (holders s) h = Some st ->
    (st = Rel -> existsb (release_called h) (threads s) = true) /\
    (st = Blk -> existsb (blk_owner h) (threads s) = true).

Ltac norm_holders Hn :=
  match type of Hn with
  | nth_error (upd ?l ?h ?x) ?h0 = Some ?st0 =>
      match goal with
      | E : nth_error l h = Some _ |- _ =>
          let Q := fresh "Q" in
          destruct (Nat.eq_dec h h0) as [Q|Q];
          [ subst h0; rewrite (nth_error_upd_same _ _ _ _ x E) in Hn; injection Hn as <-
          | rewrite nth_error_upd_other in Hn by assumption ]
      end
  | nth_error (_ ++ [_]) _ = Some _ =>
      apply nth_error_app_last in Hn; destruct Hn as [[_ Hn]|[_ ->]]
  | _ => idtac
  end.

Ltac side_cond :=
  cbn [release_called blk_owner block_active inside_block rel_took];
  let Hx := fresh "Hx" in
  intro Hx; try assumption; try discriminate Hx;
  try (apply Nat.eqb_eq in Hx; subst; congruence).

Ltac thread_goal :=
  match goal with
  | |- existsb _ (_ ++ _) = true => apply existsb_app_l; auto
  | |- existsb _ (upd _ _ _) = true =>
      first [ eapply existsb_upd_new; [eassumption | cbn [release_called blk_owner]; apply Nat.eqb_refl]
            | eapply existsb_upd_keep; [eassumption | side_cond | auto] ]
  end.

Lemma coh_step : forall s l s', coh s -> step true s l = Some s' -> coh s'.
Proof.
  intros s l s' Hcoh H. unfold coh in *.
  destruct l; step_cases H; intros h0 st0 Hn; norm_holders Hn;
    try (split; discriminate);
    try (destruct (Hcoh _ _ Hn) as [HR HB]);
    (split; intro Hst; try discriminate Hst; try specialize (HR Hst); try specialize (HB Hst); thread_goal).
Qed.

Lemma coh_run : forall n tr s, run true (init n) tr = Some s -> coh s.
Proof.
  intros n tr s H. apply (run_invariant true coh) with (tr := tr) (s := init n); auto.
  - intros; eapply coh_step; eauto.
  - intros h st Hn. destruct h; discriminate.
Qed.

(* a holder whose release function was never called and on which no TemporarilyRelease is in progress is acquired *)
Lemma blk_owner_active : forall h p, blk_owner h p = true -> block_active h p = true.
Proof. intros h p; destruct p; simpl; auto; discriminate. Qed.

Lemma existsb_impl : forall A (f g : A -> bool) l, (forall a, f a = true -> g a = true) -> existsb f l = true -> existsb g l = true.
Proof.
  induction l as [|b l IH]; simpl; intros Hi He; [discriminate|].
  destruct (f b) eqn:E; [rewrite (Hi _ E); reflexivity|]. simpl in He. rewrite (IH Hi He). apply orb_true_r.
Qed.

Lemma count_believes_le : forall ths hs i,
  (forall k st, nth_error hs k = Some st ->
      (st = Rel -> existsb (release_called (i + k)) ths = true) /\
      (st = Blk -> existsb (block_active (i + k)) ths = true)) ->
  count_believes (length hs) i ths <= count is_acq hs.
Proof.
  induction hs as [|st hs IH]; intros i Hc; simpl; [lia|].
  assert (IH' : count_believes (length hs) (S i) ths <= count is_acq hs).
  { apply IH. intros k st' Hk. specialize (Hc (S k) st' Hk). replace (S i + k) with (i + S k) by lia. exact Hc. }
  destruct (Hc 0 st eq_refl) as [HR HB]. rewrite Nat.add_0_r in HR, HB.
  destruct st; simpl.
  - destruct (negb _ && negb _); simpl; lia.
  - rewrite (HB eq_refl). rewrite andb_false_r. lia.
  - rewrite (HR eq_refl). simpl. lia.
Qed.

Lemma believes_le_acq : forall s, coh s -> believes_running s <= count is_acq (holders s).
Proof.
  intros s Hc. unfold believes_running. apply count_believes_le. intros k st Hk. simpl.
  destruct (Hc _ _ Hk) as [HR HB]. split; auto.
  intro E. eapply existsb_impl; [|exact (HB E)]. apply blk_owner_active.
Qed.

Lemma running_le_limit_lemma : forall n tr s,
  run true (init n) tr = Some s ->
  believes_running s <= n /\ count is_acq (holders s) <= n /\ running s <= n.
Proof.
  intros n tr s H.
  pose proof (acct_run _ _ _ H) as A. pose proof (coh_run _ _ _ H) as C.
  pose proof (acq_le_chan _ A) as L. destruct A as [_ A2]. rewrite (cap_run _ _ _ _ H) in A2.
  pose proof (believes_le_acq _ C). pose proof (count_running_le (threads s) (holders s) 0).
  unfold running. lia.
Qed.

(* ---- 4. quiescence ---- *)

Lemma forallb_nth : forall A (f : A -> bool) l, forallb f l = true -> forall i a, nth_error l i = Some a -> f a = true.
Proof.
  induction l as [|b l IH]; intros Hf i a Hn; destruct i; simpl in *; try discriminate;
    apply andb_true_iff in Hf; destruct Hf as [F1 F2].
  - injection Hn as <-. exact F1.
  - eapply IH; eauto.
Qed.

Lemma forallb_count_zero : forall A (f g : A -> bool) l,
  forallb f l = true -> (forall a, f a = true -> g a = false) -> count g l = 0.
Proof.
  induction l as [|b l IH]; simpl; intros Hf Hi; auto.
  apply andb_true_iff in Hf. destruct Hf as [F1 F2]. rewrite (Hi _ F1). simpl. auto.
Qed.

Lemma forallb_existsb_false : forall A (f g : A -> bool) l,
  forallb f l = true -> (forall a, f a = true -> g a = false) -> existsb g l = false.
Proof.
  induction l as [|b l IH]; simpl; intros Hf Hi; auto.
  apply andb_true_iff in Hf. destruct Hf as [F1 F2]. rewrite (Hi _ F1). simpl. auto.
Qed.

Lemma quiescent_lemma : forall n tr s,
  run true (init n) tr = Some s -> quiescent s = true ->
  chan s = count is_acq (holders s) /\
  (forall h, nth_error (holders s) h <> Some Blk) /\
  (forall h, nth_error (holders s) h = Some Rel -> existsb (release_called h) (threads s) = true) /\
  ((forall h st, nth_error (holders s) h = Some st -> st = Rel) -> chan s = 0).
Proof.
  intros n tr s H Q. unfold quiescent in Q.
  destruct (acct_run _ _ _ H) as [A _]. pose proof (coh_run _ _ _ H) as C. unfold owed in A.
  assert (Z : count tok_pc (threads s) = 0).
  { eapply forallb_count_zero; [exact Q|]. intros a; destruct a; simpl; auto; discriminate. }
  assert (E1 : chan s = count is_acq (holders s)) by lia.
  split; [exact E1|]. split; [|split].
  - intros h Hn. destruct (C _ _ Hn) as [_ HB]. specialize (HB eq_refl).
    assert (F : existsb (blk_owner h) (threads s) = false).
    { eapply forallb_existsb_false; [exact Q|]. intros a; destruct a; simpl; auto; discriminate. }
    congruence.
  - intros h Hn. destruct (C _ _ Hn) as [HR _]. auto.
  - intros Hall. rewrite E1. clear - Hall.
    assert (G : forall l, (forall h st, nth_error l h = Some st -> st = Rel) -> count is_acq l = 0).
    { induction l as [|st l IH]; simpl; intros Ha; auto.
      rewrite (Ha 0 st eq_refl). simpl. apply IH. intros h st' Hn. apply (Ha (S h)). exact Hn. }
    apply G. exact Hall.
Qed.

(* ---- 5. release is idempotent ---- *)

(* per holder at most one release call ever receives a token, and then the holder is released for good *)
Definition rel_once (s : state) : Prop :=
  forall h, count (rel_took h) (threads s) <= 1 /\
            (1 <= count (rel_took h) (threads s) -> nth_error (holders s) h = Some Rel).

Ltac upd_facts_h :=
  repeat match goal with
  | E : nth_error ?l ?i = Some ?a |- context[count ?f (upd ?l ?i ?x)] =>
      let U := fresh "U" in
      pose proof (count_upd _ f l i a x E) as U;
      cbn [b2n rel_took] in U;
      generalize dependent (count f (upd l i x)); intros
  end.

Lemma rel_once_step : forall s l s', rel_once s -> step true s l = Some s' -> rel_once s'.
Proof.
  intros s l s' Hinv H. unfold rel_once in *.
  destruct l; step_cases H; intros h0; destruct (Hinv h0) as [A B];
    assert (D : count (rel_took h0) (threads s) = 0 \/ nth_error (holders s) h0 = Some Rel)
      by (destruct (count (rel_took h0) (threads s)); [left; reflexivity | right; apply B; lia]);
    rewrite ?count_app; cbn [count rel_took]; upd_facts_h;
    repeat match goal with
    | U : context[Nat.eqb ?a ?b] |- _ => destruct (Nat.eqb_spec a b); [subst|]
    end; cbn [b2n] in *;
    (split; [ try lia; try (destruct D as [D|D]; [lia|congruence]) | intro G ]);
    try (assert (B' : nth_error (holders s) h0 = Some Rel) by (apply B; lia));
    try (rewrite nth_error_app1 by (apply nth_error_Some; congruence));
    try assumption;
    try (exfalso; assert (nth_error (holders s) h0 = Some Rel) by (apply B; lia); congruence);
    try (match goal with
         | |- nth_error (upd ?l ?h ?x) ?h0 = Some Rel =>
             destruct (Nat.eq_dec h h0) as [Q|Q];
             [ subst; first [ eapply nth_error_upd_same; eassumption
                            | exfalso; assert (nth_error l h0 = Some Rel) by (apply B; lia); congruence ]
             | rewrite nth_error_upd_other by assumption; apply B; lia ]
         end).
Qed.

Lemma rel_once_run : forall n tr s, run true (init n) tr = Some s -> rel_once s.
Proof.
  intros n tr s H. apply (run_invariant true rel_once) with (tr := tr) (s := init n); auto.
  - intros; eapply rel_once_step; eauto.
  - intros h. simpl. split; [lia|intro; lia].
Qed.

(* statuses: released is final *)
Lemma released_final_step : forall s l s' h,
  nth_error (holders s) h = Some Rel -> step true s l = Some s' -> nth_error (holders s') h = Some Rel.
Proof.
  intros s l s' h Hr H.
  destruct l; step_cases H; auto;
    try (rewrite nth_error_app1 by (apply nth_error_Some; congruence); assumption);
    match goal with
    | |- nth_error (upd ?l ?k ?x) h = _ =>
        destruct (Nat.eq_dec k h) as [Q|Q];
        [ subst; first [ eapply nth_error_upd_same; eassumption | congruence ]
        | rewrite nth_error_upd_other by assumption; assumption ]
    end.
Qed.

Lemma release_idempotent_lemma : forall n tr s,
  run true (init n) tr = Some s ->
  (* at most one call of holder h's release function ever takes a token out of the channel *)
  (forall h, count (rel_took h) (threads s) <= 1) /\
  (* a release call that finds the holder released changes neither the channel nor any status, and returns *)
  (forall t h, nth_error (threads s) t = Some (R0 h) -> nth_error (holders s) h = Some Rel ->
     step true s (LRelSwap t) = Some (set_thread s t (RDone h false))) /\
  (* once released, always released: later calls all take that branch *)
  (forall h l s', nth_error (holders s) h = Some Rel -> step true s l = Some s' -> nth_error (holders s') h = Some Rel) /\
  (* in particular TemporarilyRelease on a released holder gives nothing up and changes nothing: f runs as it is *)
  (forall t h, nth_error (threads s) t = Some (B0 h) -> nth_error (holders s) h = Some Rel ->
     step true s (LBlkCas t) = Some (set_thread s t (PF (Some h)))).
Proof.
  intros n tr s H. split; [|split; [|split]].
  - intros h. destruct (rel_once_run _ _ _ H h); auto.
  - intros t h Ht Hh. unfold step. rewrite Ht, Hh. unfold set_thread. rewrite (upd_same _ _ _ _ Hh). reflexivity.
  - intros h l s' Hr Hs. eapply released_final_step; eauto.
  - intros t h Ht Hh. unfold step. rewrite Ht, Hh. reflexivity.
Qed.

(* ---- 6. enabledness: what can never block ---- *)

Definition pc_holder (p : pc) : option nat :=
  match p with
  | ADone o | PF o => o
  | R0 h | R1 h | RDone h _ | B0 h | B1 h | B2 h | B3 h | B3s h | B3f h | B4 h => Some h
  | A0 _ _ | BDone => None
  end.

Definition wf (s : state) : Prop :=
  forall t p h, nth_error (threads s) t = Some p -> pc_holder p = Some h -> h < length (holders s).

Lemma wf_step : forall fx s l s', wf s -> step fx s l = Some s' -> wf s'.
Proof.
  intros fx s l s' Hwf H. unfold wf in *.
  destruct l; step_cases H; intros t0 p0 h0 Hn Hp;
    rewrite ?app_length, ?length_upd; cbn [length];
    try (apply nth_error_app_last in Hn; destruct Hn as [[_ Hn]|[_ ->]];
         [ eapply Hwf; eauto
         | cbn [pc_holder] in Hp; try discriminate Hp; injection Hp as <-;
           match goal with E : (_ <? _) = true |- _ => apply Nat.ltb_lt in E; exact E end ]);
    match goal with
    | Hn : nth_error (upd ?l ?t ?x) t0 = Some p0, E : nth_error ?l ?t = Some ?a |- _ =>
        destruct (Nat.eq_dec t t0) as [Q|Q];
        [ subst t0; rewrite (nth_error_upd_same _ _ _ _ x E) in Hn; injection Hn as <-;
          cbn [pc_holder] in Hp; try discriminate Hp;
          try (injection Hp as <-; try lia; assert (L := Hwf _ _ _ E eq_refl); lia)
        | rewrite nth_error_upd_other in Hn by assumption;
          assert (L := Hwf _ _ _ Hn Hp); lia ]
    end.
Qed.

Lemma wf_run : forall fx n tr s, run fx (init n) tr = Some s -> wf s.
Proof.
  intros fx n tr s H. apply (run_invariant fx wf) with (tr := tr) (s := init n); auto.
  - intros; eapply wf_step; eauto.
  - intros t p h Hn. destruct t; discriminate.
Qed.

Lemma acquire_nonblocking_lemma : forall fx s t lim c,
  nth_error (threads s) t = Some (A0 lim c) -> lim = false \/ c = true ->
  exists l s', step fx s l = Some s' /\ nth_error (threads s') t = Some (ADone None) /\
               chan s' = chan s /\ holders s' = holders s.
Proof.
  intros fx s t lim c Ht Hc. destruct lim.
  - destruct Hc as [Hc|Hc]; [discriminate|]. subst c.
    exists (LAcqCtxDone t), (set_thread s t (ADone None)). unfold step. rewrite Ht.
    split; [reflexivity|]. split; [|split; reflexivity]. simpl. eapply nth_error_upd_same; eauto.
  - exists (LAcqNoLimiter t), (set_thread s t (ADone None)). unfold step. rewrite Ht.
    split; [reflexivity|]. split; [|split; reflexivity]. simpl. eapply nth_error_upd_same; eauto.
Qed.

(* a goroutine that is about to receive from the channel never waits: its token is there *)
Lemma receives_never_block_lemma : forall n tr s t h,
  run true (init n) tr = Some s ->
  (nth_error (threads s) t = Some (R1 h) -> exists s', step true s (LRelRecv t) = Some s') /\
  (nth_error (threads s) t = Some (B1 h) -> exists s', step true s (LBlkRecv t) = Some s') /\
  (nth_error (threads s) t = Some (B3f h) -> exists s', step true s (LBlkGiveBack t) = Some s').
Proof.
  intros n tr s t h H. destruct (acct_run _ _ _ H) as [A _]. unfold owed in A.
  repeat split; intro Ht; pose proof (count_pos _ tok_pc _ _ _ Ht eq_refl) as P;
    unfold step; rewrite Ht; destruct (chan s) eqn:E; try lia; eexists; reflexivity.
Qed.

(* the Swap and the CompareAndSwaps are always enabled (they refer to an existing holder) *)
Lemma atomics_enabled_lemma : forall n tr s t h,
  run true (init n) tr = Some s ->
  (nth_error (threads s) t = Some (R0 h) -> exists s', step true s (LRelSwap t) = Some s') /\
  (nth_error (threads s) t = Some (B0 h) -> exists s', step true s (LBlkCas t) = Some s') /\
  (nth_error (threads s) t = Some (B3s h) -> exists s', step true s (LBlkCas2 t) = Some s').
Proof.
  intros n tr s t h H. pose proof (wf_run _ _ _ _ H) as W.
  repeat split; intro Ht; pose proof (W _ _ _ Ht eq_refl) as L;
    apply nth_error_Some in L; unfold step; rewrite Ht;
    destruct (nth_error (holders s) h) as [[| |]|] eqn:E; try congruence; eexists; reflexivity.
Qed.

(* ---- 7. the original order (CAS, then send) ---- *)

Lemma original_refuted_lemma :
  exists n tr s, run false (init n) tr = Some s /\
                 n < running s /\ n < believes_running s /\ chan s <> owed s.
Proof.
  exists 1, f11_trace.
  eexists. split; [vm_compute; reflexivity|]. vm_compute. repeat split; lia.
Qed.

(* the same label list is not a behaviour of the repaired code: its 9th label (CAS before send) is not enabled *)
Lemma f11_not_a_trace_of_repaired : run true (init 1) f11_trace = None.
Proof. vm_compute. reflexivity. Qed.

Lemma nth_error_app_old : forall A (l : list A) x i a, nth_error l i = Some a -> nth_error (l ++ [x]) i = Some a.
Proof. intros. rewrite nth_error_app1; auto. apply nth_error_Some. congruence. Qed.

Lemma nth_error_app_new : forall A (l : list A) x, nth_error (l ++ [x]) (length l) = Some x.
Proof. intros. rewrite nth_error_app2 by lia. rewrite Nat.sub_diag. reflexivity. Qed.

(* ---- 8. shared contexts: concurrent TemporarilyRelease calls on one holder (what batch.Invoke's waiters do when
        they share a context) - at most one of them has the token given up, the others run f as they are ---- *)

Definition blk_unique (s : state) : Prop :=
  forall h, count (blk_owner h) (threads s) <= 1 /\
            (1 <= count (blk_owner h) (threads s) ->
             nth_error (holders s) h = Some Blk \/ nth_error (holders s) h = Some Rel).

Ltac upd_facts_b :=
  repeat match goal with
  | E : nth_error ?l ?i = Some ?a |- context[count ?f (upd ?l ?i ?x)] =>
      let U := fresh "U" in
      pose proof (count_upd _ f l i a x E) as U;
      cbn [b2n blk_owner] in U;
      generalize dependent (count f (upd l i x)); intros
  end.

Ltac holder_goal B :=
  match goal with
  | |- nth_error (holders _) _ = _ \/ _ => apply B; lia
  | |- nth_error (_ ++ [_]) _ = _ \/ _ =>
      let K := fresh "K" in
      assert (K := B ltac:(lia)); destruct K as [K|K]; [left|right]; apply nth_error_app_old; exact K
  | |- nth_error (upd ?l ?h ?x) ?h0 = _ \/ _ =>
      let Q := fresh "Q" in
      destruct (Nat.eq_dec h h0) as [Q|Q];
      [ subst;
        first [ left; eapply nth_error_upd_same; eassumption
              | right; eapply nth_error_upd_same; eassumption
              | exfalso; lia
              | exfalso; let K := fresh "K" in assert (K := B ltac:(lia)); destruct K; congruence ]
      | rewrite nth_error_upd_other by assumption; apply B; lia ]
  end.

Lemma blk_unique_step : forall s l s', blk_unique s -> step true s l = Some s' -> blk_unique s'.
Proof.
  intros s l s' Hinv H. unfold blk_unique in *.
  destruct l; step_cases H; intros h0; destruct (Hinv h0) as [A B];
    assert (D : count (blk_owner h0) (threads s) = 0 \/
                (nth_error (holders s) h0 = Some Blk \/ nth_error (holders s) h0 = Some Rel))
      by (destruct (count (blk_owner h0) (threads s)); [left; reflexivity | right; apply B; lia]);
    rewrite ?count_app; cbn [count blk_owner]; upd_facts_b;
    repeat match goal with
    | U : context[Nat.eqb ?a ?b] |- _ => destruct (Nat.eqb_spec a b); [subst|]
    end; cbn [b2n] in *;
    (split; [ try lia; try (destruct D as [D|[D|D]]; [lia|congruence|congruence]) | intro G; try holder_goal B ]).
Qed.

Lemma blk_unique_run : forall n tr s, run true (init n) tr = Some s -> blk_unique s.
Proof.
  intros n tr s H. apply (run_invariant true blk_unique) with (tr := tr) (s := init n); auto.
  - intros; eapply blk_unique_step; eauto.
  - intros h. simpl. split; [lia|intro; lia].
Qed.

Lemma shared_context_lemma : forall n tr s h,
  run true (init n) tr = Some s ->
  (* at most one TemporarilyRelease call per holder is between giving the token up and re-acquiring it *)
  count (blk_owner h) (threads s) <= 1 /\
  (* while there is one, the holder is not acquired ... *)
  (1 <= count (blk_owner h) (threads s) -> nth_error (holders s) h = Some Blk \/ nth_error (holders s) h = Some Rel) /\
  (* ... so every further TemporarilyRelease on the same holder runs f without touching the channel *)
  (forall t, 1 <= count (blk_owner h) (threads s) -> nth_error (threads s) t = Some (B0 h) ->
     step true s (LBlkCas t) = Some (set_thread s t (PF (Some h)))).
Proof.
  intros n tr s h H. destruct (blk_unique_run _ _ _ H h) as [A B]. split; auto. split; auto.
  intros t G Ht. unfold step. rewrite Ht. destruct (B G) as [K|K]; rewrite K; reflexivity.
Qed.

(* ---- 9. a panic in the function passed to TemporarilyRelease ---- *)

(* block()'s re-acquire is deferred: whether f returns or panics, the same operations follow *)
Lemma panic_same_as_return_lemma : forall fx s t, step fx s (LFPanic t) = step fx s (LFRet t).
Proof. reflexivity. Qed.
