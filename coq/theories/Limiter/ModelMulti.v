(* C20 - several limiters on one context chain (concurrencylimiter.With called on a context that already
   carries a limiter).  Executable definitions only.

   A holder keeps a pointer to the limiter it was acquired from (holder.l), and release / block only touch
   h.l.ch and h.status.  Which limiter an Acquire uses (the innermost one of its context) and which holder a
   TemporarilyRelease acts on (the innermost holder of its context, possibly a holder of an OUTER limiter)
   is decided by the client's context chain; the single-limiter model already lets any call act on any
   holder, so a chain of limiters is the product of single-limiter systems: one component per limiter, a
   label says which component it belongs to. *)
From Coq Require Import List Arith Bool.
From Thunder Require Import Limiter.Model.
Import ListNotations.

Definition mstate := list state.
Definition mlabel := (nat * label)%type.

Definition minit (caps : list nat) : mstate := map init caps.

Definition mstep (fx : bool) (ms : mstate) (ml : mlabel) : option mstate :=
  match nth_error ms (fst ml) with
  | Some s => match step fx s (snd ml) with
              | Some s' => Some (upd ms (fst ml) s')
              | None => None
              end
  | None => None
  end.

Fixpoint mrun (fx : bool) (ms : mstate) (tr : list mlabel) : option mstate :=
  match tr with
  | [] => Some ms
  | l :: t => match mstep fx ms l with
              | Some ms' => mrun fx ms' t
              | None => None
              end
  end.

(* the labels of component i, in order *)
Fixpoint proj (i : nat) (tr : list mlabel) : list label :=
  match tr with
  | [] => []
  | (j, l) :: t => if Nat.eqb j i then l :: proj i t else proj i t
  end.

(* ---- trace conformance ---- *)

(* limiter, operation, program counter seen afterwards, len(ch) of that limiter seen afterwards *)
Definition mevent := (nat * label * nat * option nat)%type.

Record mflags := mkFlags { f_pc : bool; f_len : bool; f_acq : bool }.

Fixpoint mreplay (fx : bool) (evs : list mevent) (ms : mstate) (fl : mflags) : option mstate * mflags :=
  match evs with
  | [] => (Some ms, fl)
  | (i, l, code, olen) :: t =>
      match nth_error ms i with
      | None => (None, fl)
      | Some s =>
          match step fx s l with
          | None => (None, fl)
          | Some s' =>
              let p_ok := match nth_error (threads s') (label_thread s l) with
                          | Some p => Nat.eqb (pc_code p) code
                          | None => false
                          end in
              mreplay fx t (upd ms i s')
                (mkFlags (f_pc fl && p_ok) (f_len fl && opt_nat_ok olen (chan s'))
                         (f_acq fl && (count is_acq (holders s') <=? cap s')))
          end
      end
  end.

Record mcase := mk_mcase {
  mk_fx : bool;                      (* which order of operations the instrumented block() showed *)
  mk_caps : list nat;                (* capacities, in the order the limiters were first used *)
  mk_events : list mevent;
  mk_final_lens : list nat;          (* len(ch) of every limiter at the end of the run *)
  mk_quiescent : bool;               (* every call had returned *)
  mk_free : option (list nat);       (* tokens the harness could take from every limiter without blocking after
                                        calling every release function *)
  mk_over : bool                     (* the harness saw more than cap goroutines of one limiter in their
                                        critical sections *)
}.

Fixpoint list_nat_eqb (a b : list nat) : bool :=
  match a, b with
  | [], [] => true
  | x :: a', y :: b' => Nat.eqb x y && list_nat_eqb a' b'
  | _, _ => false
  end.

(* component codes as in the single-limiter check: 1 an event is not an enabled step; 2 predicted pc;
   3 predicted len(ch); 4 final len(ch) of some limiter; 5 quiescence; 6 capacity of some limiter after
   releasing everything; 7 the harness saw over-admission although every component's count of acquired
   holders stayed within its capacity *)
Definition check_mcase (c : mcase) : list nat :=
  match mreplay (mk_fx c) (mk_events c) (minit (mk_caps c)) (mkFlags true true true) with
  | (None, _) => [1]
  | (Some ms, fl) =>
      (if f_pc fl then [] else [2]) ++
      (if f_len fl then [] else [3]) ++
      (if list_nat_eqb (map chan ms) (mk_final_lens c) then [] else [4]) ++
      (if Bool.eqb (forallb quiescent ms) (mk_quiescent c) then [] else [5]) ++
      (match mk_free c with
       | None => []
       | Some free =>
           if list_nat_eqb (map (fun s => cap s - (chan s - count is_acq (holders s))) ms) free then [] else [6]
       end) ++
      (if mk_over c && f_acq fl then [7] else [])
  end.

Fixpoint mmismatches_from_sparse (_ : nat) (cs : list (nat * mcase)) : list (nat * list nat) :=
  match cs with
  | [] => []
  | (i, c) :: t => match check_mcase c with
                   | [] => mmismatches_from_sparse 0 t
                   | l => (i, l) :: mmismatches_from_sparse 0 t
                   end
  end.
