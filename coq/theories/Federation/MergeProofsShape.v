(** mergeTypeRefs as an algebra: a type reference is its skeleton ([erase]: the NON_NULLs removed) plus, per
    list-nesting level, the number of NON_NULL wrappers ([nnc]); the merge succeeds iff the skeletons are equal
    (and the named type is of a known kind) and then takes the level-wise max (inputs) / min (outputs).
    Consequences: the n-ary fold of mergeTypeRefs does not depend on the order AT ALL (failure included), and
    compatibility with a third reference is preserved by merging. *)
From Coq Require Import List String Bool Arith Lia Permutation.
From Thunder Require Import Lib.Json Federation.Merge Federation.MergeProofsBase Federation.MergeProofsTref
  Federation.MergeProofsNary.
Import ListNotations.
Open Scope string_scope.
Open Scope list_scope.

(** ** folds of a commutative, right-commutative partial operation do not depend on the order *)
Definition obind {T U} (o : option T) (f : T -> option U) : option U :=
  match o with Some x => f x | None => None end.

Lemma option_ext : forall {T} (o1 o2 : option T), (forall c, o1 = Some c <-> o2 = Some c) -> o1 = o2.
Proof.
  intros T [x|] [y|] H; auto.
  - symmetry. apply (proj1 (H x)). reflexivity.
  - symmetry. apply (proj1 (H x)). reflexivity.
  - apply (proj2 (H y)). reflexivity.
Qed.

Section FullPerm.
  Context {T : Type}.
  Variable op : T -> T -> option T.
  Hypothesis op_comm : forall a b, op a b = op b a.
  Hypothesis op_rc : forall m x y, obind (op m x) (fun k => op k y) = obind (op m y) (fun k => op k x).

  Lemma ofold_none : forall l, obind (@None T) (fun a => ofold op a l) = None.
  Proof. reflexivity. Qed.

  Lemma ofold_perm_tail : forall l l', Permutation l l' -> forall acc, ofold op acc l = ofold op acc l'.
  Proof.
    intros l l' H. induction H as [|x l l' _ IH|x y l|l l' l'' _ IH1 _ IH2]; intros acc; simpl; auto.
    - destruct (op acc x); auto.
    - pose proof (op_rc acc y x) as R. unfold obind in R.
      destruct (op acc y) as [k|]; destruct (op acc x) as [k'|]; simpl in *.
      + rewrite R. reflexivity.
      + rewrite R. reflexivity.
      + rewrite <- R. reflexivity.
      + reflexivity.
    - rewrite IH1. apply IH2.
  Qed.

  Lemma ofold_swap_head : forall x y t, ofold op x (y :: t) = ofold op y (x :: t).
  Proof. intros x y t. simpl. rewrite (op_comm x y). reflexivity. Qed.

  Theorem oslice_perm_full : forall X X', Permutation X X' -> oslice op X = oslice op X'.
  Proof.
    intros [|x xs] [|x' xs'] H.
    - reflexivity.
    - apply Permutation_nil in H. discriminate.
    - apply Permutation_sym, Permutation_nil in H. discriminate.
    - simpl. assert (Hin : In x' (x :: xs)) by (eapply Permutation_in; [apply Permutation_sym; exact H | left; reflexivity]).
      destruct Hin as [->|Hin].
      + apply ofold_perm_tail. eapply Permutation_cons_inv; exact H.
      + apply in_split in Hin as [l1 [l2 E]]. subst xs.
        assert (P1 : Permutation (l1 ++ x' :: l2) (x' :: l1 ++ l2)) by (apply Permutation_sym, Permutation_middle).
        rewrite (ofold_perm_tail _ _ P1 x), ofold_swap_head.
        apply ofold_perm_tail. apply Permutation_cons_inv with (a := x').
        eapply perm_trans; [|exact H]. eapply perm_trans; [apply perm_swap|]. apply perm_skip. apply Permutation_sym. exact P1.
  Qed.
End FullPerm.

(** ** skeleton and NON_NULL counts *)
Fixpoint erase (t : tref) : tref :=
  match t with
  | TNamed k n => TNamed k n
  | TList t' => TList (erase t')
  | TNonNull t' => erase t'
  end.

Definition known_root (t : tref) : bool := known_named_kind (fst (root_tref t)).

Fixpoint nnc (t : tref) : list nat :=
  match t with
  | TNamed _ _ => [0]
  | TList t' => 0 :: nnc t'
  | TNonNull t' => match nnc t' with h :: r => S h :: r | [] => [] end
  end.

Lemma nnc_cons : forall t, exists h r, nnc t = h :: r /\ (is_nonnull t = false -> h = 0).
Proof.
  induction t as [k n|t IH|t IH]; simpl; eauto.
  destruct IH as [h [r [E _]]]. rewrite E. exists (S h), r. split; auto. discriminate.
Qed.

Lemma root_erase : forall t, root_tref (erase t) = root_tref t.
Proof. induction t; simpl; auto. Qed.

Lemma known_root_erase : forall a b, erase a = erase b -> known_root a = known_root b.
Proof. intros a b H. unfold known_root. rewrite <- (root_erase a), <- (root_erase b), H. reflexivity. Qed.

Lemma tref_ext : forall a b, erase a = erase b -> nnc a = nnc b -> a = b.
Proof.
  induction a as [k n|a IH|a IH]; intros b He Hn.
  - destruct b as [k' n'|b|b]; simpl in *; try discriminate; auto.
    destruct (nnc_cons b) as [h [r [E _]]]. rewrite E in Hn. discriminate.
  - destruct b as [k' n'|b|b]; simpl in *; try discriminate.
    + inversion He. inversion Hn. f_equal. apply IH; auto.
    + destruct (nnc_cons b) as [h [r [E _]]]. rewrite E in Hn. discriminate.
  - destruct (nnc_cons a) as [h [r [E _]]]. simpl in Hn. rewrite E in Hn.
    destruct b as [k' n'|b|b]; simpl in *; try discriminate.
    destruct (nnc_cons b) as [h' [r' [E' _]]]. rewrite E' in Hn. inversion Hn; subst.
    f_equal. apply IH; auto. congruence.
Qed.

Fixpoint zipn (f : nat -> nat -> nat) (l1 l2 : list nat) : list nat :=
  match l1, l2 with
  | x :: t1, y :: t2 => f x y :: zipn f t1 t2
  | _, _ => []
  end.

Definition nop (is_input : bool) : nat -> nat -> nat := if is_input then Nat.max else Nat.min.

Lemma nop_rc : forall i a b c, nop i (nop i a b) c = nop i (nop i a c) b.
Proof. intros [] a b c; simpl; lia. Qed.

Lemma zipn_rc : forall f, (forall a b c, f (f a b) c = f (f a c) b) ->
  forall m x y, zipn f (zipn f m x) y = zipn f (zipn f m y) x.
Proof.
  intros f Hf. induction m as [|a m IH]; intros [|b x] [|c y]; simpl; auto.
  rewrite (Hf a b c), (IH x y). reflexivity.
Qed.

(** ** mergeTypeRefs in terms of skeleton and counts *)
Lemma merge_tref_char : forall i a b c, merge_tref i a b = Some c ->
  erase a = erase b /\ known_root a = true /\ erase c = erase a /\ nnc c = zipn (nop i) (nnc a) (nnc b).
Proof.
  intros i a b. pattern a, b. apply merge_tref_ind2; clear a b.
  - intros ka na kb nb c H. rewrite merge_tref_eq in H.
    destruct (String.eqb ka kb && known_named_kind ka && String.eqb na nb) eqn:E; [|discriminate].
    inversion H; subst c. apply andb_prop in E as [E1 E3]. apply andb_prop in E1 as [E1 E2].
    apply String.eqb_eq in E1, E3. subst. unfold known_root. simpl. repeat split; auto. destruct i; reflexivity.
  - intros ka na b c H. rewrite merge_tref_eq in H. discriminate.
  - intros a kb nb c H. rewrite merge_tref_eq in H. discriminate.
  - intros a b IH c H. rewrite merge_tref_eq in H. destruct (merge_tref i a b) as [m|] eqn:E; [|discriminate].
    inversion H; subst c. destruct (IH m eq_refl) as [H1 [H2 [H3 H4]]]. simpl. rewrite H4.
    repeat split; auto; try congruence. destruct i; reflexivity.
  - intros a b IH c H. rewrite merge_tref_eq in H. apply wrap_nn_some in H as [m [Hm ->]].
    destruct (IH m Hm) as [H1 [H2 [H3 H4]]]. simpl.
    destruct (nnc_cons a) as [ha [ra [Ea _]]], (nnc_cons b) as [hb [rb [Eb _]]]. rewrite Ea, Eb in *. simpl in H4. rewrite H4.
    repeat split; auto. destruct i; reflexivity.
  - intros a b Hb IH c H. rewrite merge_tref_eq in H.
    assert (H' : wrap_nn i (merge_tref i a b) = Some c) by (destruct b; simpl in Hb; try discriminate; exact H).
    apply wrap_nn_some in H' as [m [Hm ->]]. destruct (IH m Hm) as [H1 [H2 [H3 H4]]].
    destruct (nnc_cons a) as [ha [ra [Ea _]]], (nnc_cons b) as [hb [rb [Eb Hhb]]]. specialize (Hhb Hb). subst hb.
    simpl. rewrite Ea, Eb in *. simpl in H4.
    repeat split; auto.
    + destruct i; simpl; auto.
    + destruct i; simpl; rewrite H4; simpl; f_equal; lia.
  - intros a b Ha IH c H. rewrite merge_tref_eq in H.
    assert (H' : wrap_nn i (merge_tref i a b) = Some c) by (destruct a; simpl in Ha; try discriminate; exact H).
    apply wrap_nn_some in H' as [m [Hm ->]]. destruct (IH m Hm) as [H1 [H2 [H3 H4]]].
    destruct (nnc_cons a) as [ha [ra [Ea Hha]]], (nnc_cons b) as [hb [rb [Eb _]]]. specialize (Hha Ha). subst ha.
    simpl. rewrite Ea, Eb in *. simpl in H4.
    repeat split; auto.
    + destruct i; simpl; auto.
    + destruct i; simpl; rewrite H4; simpl; f_equal; lia.
Qed.

Lemma merge_tref_succeeds : forall i a b, erase a = erase b -> known_root a = true ->
  exists c, merge_tref i a b = Some c.
Proof.
  intros i a b. pattern a, b. apply merge_tref_ind2; clear a b.
  - intros ka na kb nb He Hk. simpl in He. inversion He; subst. unfold known_root in Hk. simpl in Hk.
    rewrite merge_tref_eq, !String.eqb_refl, Hk. simpl. eauto.
  - intros ka na b He. discriminate.
  - intros a kb nb He. discriminate.
  - intros a b IH He Hk. simpl in He. inversion He as [He']. destruct (IH He' Hk) as [m Hm].
    rewrite merge_tref_eq, Hm. simpl. eauto.
  - intros a b IH He Hk. simpl in He. destruct (IH He Hk) as [m Hm]. rewrite merge_tref_eq, Hm. simpl. eauto.
  - intros a b Hb IH He Hk. simpl in He. destruct (IH He Hk) as [m Hm]. rewrite merge_tref_eq.
    destruct b; simpl in Hb; try discriminate; rewrite Hm; simpl; eauto.
  - intros a b Ha IH He Hk. simpl in He. destruct (IH He Hk) as [m Hm]. rewrite merge_tref_eq.
    destruct a; simpl in Ha; try discriminate; rewrite Hm; simpl; eauto.
Qed.

Lemma compat_tref_iff : forall i a b, compat (merge_tref i) a b <-> erase a = erase b /\ known_root a = true.
Proof.
  intros i a b. unfold compat. split.
  - intros H. destruct (merge_tref i a b) as [c|] eqn:E; [|congruence].
    destruct (merge_tref_char _ _ _ _ E) as [H1 [H2 _]]. auto.
  - intros [H1 H2]. destruct (merge_tref_succeeds i a b H1 H2) as [c E]. rewrite E. discriminate.
Qed.

(** compatibility is preserved by merging *)
Lemma merge_tref_closed : forall i, closedP (merge_tref i) (fun _ => True).
Proof.
  intros i a y z _ _ H. split; auto. intros c _ Ca Cy.
  destruct (merge_tref_char _ _ _ _ H) as [H1 [H2 [H3 _]]].
  apply compat_tref_iff in Ca as [Ea Ka]. apply compat_tref_iff. split; [congruence|].
  rewrite (known_root_erase z a H3). exact Ka.
Qed.

(** right-commutativity, as an equality of options *)
Lemma merge_tref_rc_half : forall i m x y c,
  obind (merge_tref i m x) (fun k => merge_tref i k y) = Some c ->
  obind (merge_tref i m y) (fun k => merge_tref i k x) = Some c.
Proof.
  intros i m x y c H. destruct (merge_tref i m x) as [k|] eqn:E1; [|discriminate]. simpl in H.
  destruct (merge_tref_char _ _ _ _ E1) as [A1 [A2 [A3 A4]]].
  destruct (merge_tref_char _ _ _ _ H) as [B1 [B2 [B3 B4]]].
  destruct (merge_tref_succeeds i m y) as [k' E2]; [congruence | exact A2 |].
  destruct (merge_tref_char _ _ _ _ E2) as [C1 [C2 [C3 C4]]].
  destruct (merge_tref_succeeds i k' x) as [c' E3]; [congruence | rewrite (known_root_erase k' m C3); exact A2 |].
  destruct (merge_tref_char _ _ _ _ E3) as [D1 [D2 [D3 D4]]].
  rewrite E2. simpl. rewrite E3. f_equal. apply tref_ext; [congruence|].
  rewrite D4, C4, B4, A4. apply zipn_rc. apply nop_rc.
Qed.

Lemma merge_tref_rc : forall i m x y,
  obind (merge_tref i m x) (fun k => merge_tref i k y) = obind (merge_tref i m y) (fun k => merge_tref i k x).
Proof. intros i m x y. apply option_ext. intros c. split; apply merge_tref_rc_half. Qed.

(** The n-ary fold of mergeTypeRefs is invariant under permutation, failure included. *)
Theorem merge_trefs_perm_full : forall i X X', Permutation X X' ->
  oslice (merge_tref i) X = oslice (merge_tref i) X'.
Proof. intros i. apply oslice_perm_full; [apply merge_tref_comm | apply merge_tref_rc]. Qed.

Lemma merge_trefs_ofold : forall i l t, merge_trefs i t l = ofold (merge_tref i) t l.
Proof. intros i l. induction l as [|x r IH]; intros t; simpl; auto. destruct (merge_tref i t x); auto. Qed.

Lemma merge_tref_perm_inv : forall i G, perm_inv (merge_tref i) G.
Proof. intros i G X X' y y' _ HP H H'. rewrite (merge_trefs_perm_full i X X' HP) in H. congruence. Qed.

(** NON_NULL at the top of a merged input type comes from one of the sides *)
Lemma merge_tref_nonnull : forall i a b c, merge_tref i a b = Some c ->
  is_nonnull c = nn_op i (is_nonnull a) (is_nonnull b).
Proof.
  intros i a b c H. destruct (merge_tref_levels _ _ _ _ H) as [_ Z].
  destruct (levels_cons a) as [ha [ra [Ea Ha]]], (levels_cons b) as [hb [rb [Eb Hb]]], (levels_cons c) as [hc [rc [Ec Hc]]].
  rewrite Ea, Eb, Ec in Z. simpl in Z. inversion Z. congruence.
Qed.
