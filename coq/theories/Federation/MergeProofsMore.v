(** Strict validity implies what thunder accepts; completeness of the union at field level; the
    nullability rule at schema level; witnesses for the two defects of the union / of the fold order. *)
From Coq Require Import List String Bool Arith Lia ZArith.
From Thunder Require Import Lib.Json Federation.Merge Federation.MergeProofsBase Federation.MergeProofsTref
  Federation.MergeProofs Federation.MergeProofsValid.
Import ListNotations.
Open Scope string_scope.
Open Scope list_scope.

(** ** strict => lax *)
Section Mono.
  Variable sok : string -> json -> bool.
  Variable s : schema.

  Lemma valid_value_mono : forall v t, valid_value sok true s v t = true -> valid_value sok false s v t = true.
  Proof.
    induction v using json_ind'; intros t; induction t as [k n|t' IHt|t' IHt];
      rewrite (valid_value_eq sok true), (valid_value_eq sok false); auto;
      try (intros Hv; apply andb_prop in Hv as [H1 H2]; rewrite H1; simpl; auto; fail).
    - (* array / list *)
      intros Hv. eapply forallb_Forall_impl; [exact H | | exact Hv]. intros x Px Hx. apply Px; exact Hx.
    - (* object / named *)
      intros Hv. apply andb_prop in Hv as [Hk Hv]. rewrite Hk. simpl.
      destruct (find_type s n) as [ty|]; [|discriminate].
      apply andb_prop in Hv as [Hv Hreq]. apply andb_prop in Hv as [Hki Hkeys]. rewrite Hki, Hreq, andb_true_r. simpl. clear Hreq.
      revert Hkeys. induction H as [|[key x] rest Px _ IHrest]; simpl; auto.
      intros Hk2. apply andb_prop in Hk2 as [Hx Hrest]. rewrite (IHrest Hrest), andb_true_r.
      destruct (find_ifield (t_inputs ty) key); [|reflexivity]. apply Px; exact Hx.
  Qed.

  Lemma valid_args_mono : forall decl args, valid_args sok true s decl args = true -> valid_args sok false s decl args = true.
  Proof.
    intros decl args H. unfold valid_args in *. apply andb_prop in H as [H1 H2]. rewrite H2, andb_true_r.
    eapply forallb_impl_in; [|exact H1]. intros kv _ Hkv. cbv beta in Hkv |- *.
    destruct (find_ifield decl (fst kv)); [|simpl in Hkv; discriminate]. apply valid_value_mono; exact Hkv.
  Qed.

  Lemma valid_sel_mono : forall q ty, valid_sel sok true s ty q = true -> valid_sel sok false s ty q = true.
  Proof.
    induction q using sel_ind'; intros ty Hv; simpl in Hv |- *;
      destruct (find_type s ty) as [t|]; try discriminate.
    - destruct (String.eqb (t_kind t) "OBJECT").
      + destruct (String.eqb n "__typename"); auto.
        destruct (find_field (t_fields t) n) as [f|]; [|discriminate].
        apply andb_prop in Hv as [Hargs Hrest]. rewrite (valid_args_mono _ _ Hargs). simpl.
        destruct (root_tref (f_type f)) as [k rn].
        destruct (is_leaf_kind k); auto. destruct (is_composite_kind k); auto.
        destruct subs as [|s0 subs']; auto.
        eapply forallb_Forall_impl; [exact H | | exact Hrest]. intros x Px Hx. apply Px; exact Hx.
      + destruct (String.eqb (t_kind t) "UNION"); auto.
    - destruct (String.eqb (t_kind t) "OBJECT").
      + apply andb_prop in Hv as [H1 H2]. simpl.
        eapply forallb_Forall_impl; [exact H | | exact H2]. intros x Px Hx. apply Px; exact Hx.
      + destruct (String.eqb (t_kind t) "UNION"); auto.
        destruct (existsb (fun p => String.eqb (fst p) on) (t_possible t)); [|discriminate].
        eapply forallb_Forall_impl; [exact H | | exact Hv]. intros x Px Hx. apply Px; exact Hx.
  Qed.

  Theorem valid_query_mono : forall q, valid_query sok true s q = true -> valid_query sok false s q = true.
  Proof.
    intros q H. unfold valid_query, valid_sels in *. destruct q; [discriminate|].
    eapply forallb_impl_in; [|exact H]. intros x _ Hx. apply valid_sel_mono; exact Hx.
  Qed.
End Mono.

(** ** completeness of the union at field level *)
Lemma findn_exists : forall {A} (name : A -> string) n l x, In x l -> name x = n -> exists y, findn name n l = Some y.
Proof.
  intros A name n l x Hin Hn. destruct (findn name n l) as [y|] eqn:E; eauto.
  exfalso. eapply find_none in E; [|exact Hin]. simpl in E. rewrite Hn, String.eqb_refl in E. discriminate.
Qed.

Lemma union_fields_complete : forall a b r, NoDup (map f_name a) -> NoDup (map f_name b) ->
  merge_fields Union a b = Some r ->
  forall f x, (find_field a f = Some x \/ find_field b f = Some x) -> exists z, find_field r f = Some z.
Proof.
  intros a b r Ha Hb H f x Hx. rewrite merge_fields_unfold in H.
  pose proof (merged_both f_name (keep_if_union Union) (field_pair Union) (field_pair_name Union) a b r Ha Hb H) as Hboth.
  pose proof (merged_left_only f_name (keep_if_union Union) (field_pair Union) (keep_if_union_name f_name Union) a b r Ha Hb H) as Hleft.
  pose proof (merged_right_only f_name (keep_if_union Union) (field_pair Union) (keep_if_union_name f_name Union) a b r Ha Hb H) as Hright.
  rewrite !find_field_findn in *.
  destruct (findn f_name f a) as [xa|] eqn:Ea; destruct (findn f_name f b) as [xb|] eqn:Eb.
  - destruct (Hboth f xa xb Ea Eb) as [z [_ [Hz Hn]]]. eapply findn_exists; eauto.
  - destruct (Hleft f xa Ea Eb) as [Hs|[z [_ [Hz Hn]]]]; [simpl in Hs; discriminate | eapply findn_exists; eauto].
  - destruct (Hright f xb Ea Eb) as [Hs|[z [_ [Hz Hn]]]]; [simpl in Hs; discriminate | eapply findn_exists; eauto].
  - destruct Hx; discriminate.
Qed.

Theorem union_complete : forall a b m, wf_schema a = true -> wf_schema b = true ->
  merge_schemas Union a b = Some m ->
  forall ty f, (has_field a ty f = true \/ has_field b ty f = true) -> has_field m ty f = true.
Proof.
  intros a b m Wa Wb H ty f Hf.
  pose proof (wf_schema_names a Wa) as Na. pose proof (wf_schema_names b Wb) as Nb.
  pose proof (merge_schemas_wf _ _ _ _ Wa Wb H) as Wm. pose proof (wf_schema_names m Wm) as Nm.
  unfold merge_schemas in H.
  pose proof (merged_both t_name (keep_if_union Union) (merge_types Union) (merge_types_name Union) a b m Na Nb H) as Hboth.
  pose proof (merged_left_only t_name (keep_if_union Union) (merge_types Union) (keep_if_union_name t_name Union) a b m Na Nb H) as Hleft.
  pose proof (merged_right_only t_name (keep_if_union Union) (merge_types Union) (keep_if_union_name t_name Union) a b m Na Nb H) as Hright.
  unfold has_field in *. rewrite !find_type_findn in *.
  destruct (findn t_name ty a) as [ta|] eqn:Ea; destruct (findn t_name ty b) as [tb|] eqn:Eb.
  - destruct (Hboth ty ta tb Ea Eb) as [z [Hp [Hz Hn]]].
    rewrite (findn_in t_name ty m z Nm Hz Hn).
    destruct (merge_types_inv _ _ _ _ Hp) as [Kab [Kz [Hobj _]]].
    assert (Ka : t_kind ta = "OBJECT").
    { destruct Hf as [Hf|Hf]; apply andb_prop in Hf as [Hk _]; apply String.eqb_eq in Hk; congruence. }
    rewrite Kz, Ka. simpl. specialize (Hobj Ka).
    apply findn_some in Ea as [Ia _]. apply findn_some in Eb as [Ib _].
    destruct (wf_type_parts ta (wf_schema_type a ta Wa Ia)) as [Fa _].
    destruct (wf_type_parts tb (wf_schema_type b tb Wb Ib)) as [Fb _].
    assert (Hex : exists x, find_field (t_fields ta) f = Some x \/ find_field (t_fields tb) f = Some x).
    { destruct Hf as [Hf|Hf]; apply andb_prop in Hf as [_ Hf].
      - destruct (find_field (t_fields ta) f) as [x|]; [eauto|discriminate].
      - destruct (find_field (t_fields tb) f) as [x|]; [eauto|discriminate]. }
    destruct Hex as [x Hx]. destruct (union_fields_complete _ _ _ Fa Fb Hobj f x Hx) as [z' Hz']. rewrite Hz'. reflexivity.
  - destruct Hf as [Hf|Hf]; [|discriminate].
    destruct (Hleft ty ta Ea Eb) as [Hs|[z [Hs [Hz Hn]]]]; [simpl in Hs; discriminate|].
    simpl in Hs. inversion Hs; subst z. rewrite (findn_in t_name ty m ta Nm Hz Hn). exact Hf.
  - destruct Hf as [Hf|Hf]; [discriminate|].
    destruct (Hright ty tb Ea Eb) as [Hs|[z [Hs [Hz Hn]]]]; [simpl in Hs; discriminate|].
    simpl in Hs. inversion Hs; subst z. rewrite (findn_in t_name ty m tb Nm Hz Hn). exact Hf.
  - destruct Hf; discriminate.
Qed.

Theorem union_slice_complete : forall l acc m, wf_schema acc = true -> (forall v, In v l -> wf_schema v = true) ->
  merge_fold Union acc l = Some m ->
  forall v ty f, In v (acc :: l) -> has_field v ty f = true -> has_field m ty f = true.
Proof.
  induction l as [|s t IH]; simpl; intros acc m Wacc Wl H v ty f Hv Hf.
  - inversion H; subst. destruct Hv as [->|[]]. exact Hf.
  - destruct (merge_schemas Union acc s) as [acc'|] eqn:E; [|discriminate].
    assert (Ws : wf_schema s = true) by (apply Wl; left; reflexivity).
    assert (Wacc' : wf_schema acc' = true) by (apply (merge_schemas_wf _ _ _ _ Wacc Ws E)).
    assert (Wt : forall w, In w t -> wf_schema w = true) by (intros w Hw; apply Wl; right; exact Hw).
    destruct Hv as [->|[->|Hv]].
    + apply (IH acc' m Wacc' Wt H acc' ty f (or_introl eq_refl)).
      apply (union_complete _ _ _ Wacc Ws E). left; exact Hf.
    + apply (IH acc' m Wacc' Wt H acc' ty f (or_introl eq_refl)).
      apply (union_complete _ _ _ Wacc Ws E). right; exact Hf.
    + apply (IH acc' m Wacc' Wt H v ty f (or_intror Hv) Hf).
Qed.

(** ** the nullability rule at schema level (either mode): a field both sides have is NON_NULL, level by
    level, iff both sides are; an argument both sides have is NON_NULL iff either side is. *)
Theorem merged_field_nullability : forall md a b m ty ta tb f fa fb,
  wf_schema a = true -> wf_schema b = true -> merge_schemas md a b = Some m ->
  find_type a ty = Some ta -> find_type b ty = Some tb -> t_kind ta = "OBJECT" ->
  find_field (t_fields ta) f = Some fa -> find_field (t_fields tb) f = Some fb ->
  exists mt mf, find_type m ty = Some mt /\ find_field (t_fields mt) f = Some mf /\
    levels (f_type mf) = zipb andb (levels (f_type fa)) (levels (f_type fb)) /\
    forall x xa xb, find_ifield (f_args fa) x = Some xa -> find_ifield (f_args fb) x = Some xb ->
      exists mx, find_ifield (f_args mf) x = Some mx /\
                 levels (if_type mx) = zipb orb (levels (if_type xa)) (levels (if_type xb)).
Proof.
  intros md a b m ty ta tb f fa fb Wa Wb H Ea Eb Ka Efa Efb.
  pose proof (wf_schema_names a Wa) as Na. pose proof (wf_schema_names b Wb) as Nb.
  pose proof (merge_schemas_wf _ _ _ _ Wa Wb H) as Wm. pose proof (wf_schema_names m Wm) as Nm.
  unfold merge_schemas in H. rewrite find_type_findn in Ea, Eb.
  destruct (merged_both t_name (keep_if_union md) (merge_types md) (merge_types_name md) a b m Na Nb H ty ta tb Ea Eb)
    as [mt [Hp [Hz Hn]]].
  exists mt. rewrite find_type_findn, (findn_in t_name ty m mt Nm Hz Hn).
  destruct (merge_types_inv _ _ _ _ Hp) as [Kab [Kz [Hobj _]]]. specialize (Hobj Ka).
  apply findn_some in Ea as [Ia _]. apply findn_some in Eb as [Ib _].
  destruct (wf_type_parts ta (wf_schema_type a ta Wa Ia)) as [Fa [Aa _]].
  destruct (wf_type_parts tb (wf_schema_type b tb Wb Ib)) as [Fb [Ab _]].
  destruct (wf_type_parts mt (wf_schema_type m mt Wm Hz)) as [Fm [Am _]].
  rewrite merge_fields_unfold in Hobj. rewrite find_field_findn in Efa, Efb.
  destruct (merged_both f_name (keep_if_union md) (field_pair md) (field_pair_name md) _ _ _ Fa Fb Hobj f fa fb Efa Efb)
    as [mf [Hpf [Hzf Hnf]]].
  exists mf. split; [reflexivity|]. split; [rewrite find_field_findn; apply findn_in; auto|].
  unfold field_pair in Hpf. destruct (merge_tref false (f_type fa) (f_type fb)) as [t|] eqn:Et; [|discriminate].
  destruct (merge_input_fields md (f_args fa) (f_args fb)) as [args|] eqn:Eargs; [|discriminate].
  inversion Hpf; subst mf; simpl. split; [apply (merge_tref_levels _ _ _ _ Et)|].
  intros x xa xb Exa Exb. rewrite merge_input_fields_unfold in Eargs.
  apply findn_some in Efa as [Ifa _]. apply findn_some in Efb as [Ifb _].
  rewrite find_ifield_findn in Exa, Exb.
  destruct (merged_both if_name (ifield_single md) ifield_pair ifield_pair_name _ _ _ (Aa fa Ifa) (Ab fb Ifb) Eargs x xa xb Exa Exb)
    as [mx [Hpx [Hzx Hnx]]].
  exists mx. split.
  - rewrite find_ifield_findn. apply findn_in; auto. apply (Am _ Hzf).
  - unfold ifield_pair in Hpx. destruct (merge_tref true (if_type xa) (if_type xb)) as [tx|] eqn:Etx; [|discriminate].
    inversion Hpx; subst mx; simpl. apply (merge_tref_levels _ _ _ _ Etx).
Qed.

(** ** witnesses *)
Definition INT := TNamed "SCALAR" "int64".
Definition sc_int := mk_itype "int64" "SCALAR" [] [] [] [] [].
Definition query_of (fs : list field) := mk_itype "Query" "OBJECT" fs [] [] [] [].

(** DESIGN F17: two services serve Query.f; only the second knows the optional argument a.  The union
    offers f(a); the query f(a: 1) is valid against the union but not against the first service. *)
Definition f17_s1 : schema := [sc_int; query_of [mk_field "f" INT []]].
Definition f17_s2 : schema := [sc_int; query_of [mk_field "f" INT [mk_ifield "a" INT]]].
Definition f17_q : list sel := [SField "f" "f" [("a", JNum 1%Z)] []].

Theorem union_keeps_unknown_argument : exists a b m q,
  wf_schema a = true /\ wf_schema b = true /\ closed a = true /\ closed b = true /\
  merge_schemas Union a b = Some m /\ has_field a "Query" "f" = true /\
  valid_query thunder_scalar_ok true m q = true /\ valid_query thunder_scalar_ok true a q = false /\
  valid_query thunder_scalar_ok false a q = false.
Proof.
  exists f17_s1, f17_s2, [query_of [mk_field "f" INT [mk_ifield "a" INT]]; sc_int], f17_q.
  vm_compute. repeat split; reflexivity.
Qed.

(** The fold order decides whether an incompatible version set is rejected. *)
Definition ord_v1 : schema := [sc_int; query_of [mk_field "f" INT [mk_ifield "a" (TNonNull INT)]; mk_field "h" INT []]].
Definition ord_v2 : schema := [sc_int; query_of [mk_field "f" INT []; mk_field "h" INT []]].
Definition ord_v3 : schema := [sc_int; query_of [mk_field "g" INT []; mk_field "h" INT []]].

Theorem intersection_error_depends_on_order : exists v1 v2 v3 m,
  wf_schema v1 = true /\ wf_schema v2 = true /\ wf_schema v3 = true /\
  merge_slice Intersection [v1; v3; v2] = Some m /\ merge_slice Intersection [v1; v2; v3] = None.
Proof.
  exists ord_v1, ord_v2, ord_v3, [query_of [mk_field "h" INT []]; sc_int].
  vm_compute. repeat split; reflexivity.
Qed.
