(** mergeSameAlias, as repaired, loses no sub-selection (and, as it was, does). *)
From Coq Require Import List String Bool Arith ZArith Ascii Lia.
From Thunder Require Import Lib.Json Federation.Normalize.
Import ListNotations.
Open Scope string_scope.
Open Scope list_scope.

Lemma str_ltb_irrefl : forall s, str_ltb s s = false.
Proof.
  induction s as [|c s IH]; simpl; auto.
  rewrite Nat.ltb_irrefl. exact IH.
Qed.

Definition has_alias (a : string) (n : node) : bool := String.eqb (n_alias n) a.

(** the sub-selections given, in order, to alias [a] in the selection list [l] *)
Definition subs_of (a : string) (l : list node) : list node :=
  List.concat (map n_subs (filter (has_alias a) l)).

(** a selection without a selection set carries no sub-selections *)
Definition hs_ok (n : node) : Prop :=
  match n with NField _ _ _ _ _ hs subs => hs = false -> subs = [] | NFrag _ _ _ => True end.

(** ** the sort is stable: per alias, the order of the selections is unchanged *)
Lemma insert_alias_filter : forall a n l,
  filter (has_alias a) (insert_alias n l) =
  if has_alias a n then n :: filter (has_alias a) l else filter (has_alias a) l.
Proof.
  intros a n l. induction l as [|x t IH]; simpl.
  - destruct (has_alias a n); reflexivity.
  - destruct (str_ltb (n_alias x) (n_alias n)) eqn:E; simpl.
    + rewrite IH. destruct (has_alias a n) eqn:En; auto.
      destruct (has_alias a x) eqn:Ex; auto.
      (* both have alias a: then alias x < alias x, impossible *)
      unfold has_alias in En, Ex. apply String.eqb_eq in En, Ex. rewrite En, Ex, str_ltb_irrefl in E. discriminate.
    + destruct (has_alias a n); reflexivity.
Qed.

Lemma sort_alias_filter : forall a l, filter (has_alias a) (sort_alias l) = filter (has_alias a) l.
Proof.
  intros a l. induction l as [|x t IH]; simpl; auto.
  rewrite insert_alias_filter, IH. destruct (has_alias a x); reflexivity.
Qed.

Lemma subs_of_sort : forall a l, subs_of a (sort_alias l) = subs_of a l.
Proof. intros. unfold subs_of. rewrite sort_alias_filter. reflexivity. Qed.

(** ** folding one selection into the group head keeps every sub-selection *)
Lemma merge_into_subs : forall c x c', hs_ok x ->
  merge_into false c x = Some c' -> n_alias c' = n_alias c /\ n_subs c' = n_subs c ++ n_subs x.
Proof.
  intros c x c' Hx H. destruct c as [al nm args ak dirs hs subs|]; destruct x as [al' nm' args' ak' dirs' hs' subs'|];
    simpl in H; try discriminate.
  destruct (negb (String.eqb nm nm')); [discriminate|].
  destruct (negb (args_eqb args args')); [discriminate|].
  destruct hs'.
  - destruct hs; [|discriminate]. inversion H; subst. simpl. auto.
  - inversion H; subst. simpl in *. rewrite (Hx eq_refl), app_nil_r. auto.
Qed.

Lemma subs_of_cons : forall a x l,
  subs_of a (x :: l) = (if has_alias a x then n_subs x else []) ++ subs_of a l.
Proof. intros. unfold subs_of. simpl. destruct (has_alias a x); reflexivity. Qed.

Lemma merge_sorted_subs : forall l cur r, Forall hs_ok l ->
  merge_sorted false cur l = Some r ->
  forall a, subs_of a r = subs_of a (match cur with Some c => c :: l | None => l end).
Proof.
  induction l as [|x t IH]; intros cur r Hok H a; simpl in H.
  - inversion H; subst. destruct cur; reflexivity.
  - inversion Hok as [|? ? Hx Ht]; subst. destruct cur as [c|].
    + destruct (String.eqb (n_alias c) (n_alias x)) eqn:E.
      * destruct (merge_into false c x) as [c'|] eqn:Em; [|discriminate].
        destruct (merge_into_subs _ _ _ Hx Em) as [Ha Hs].
        rewrite (IH (Some c') r Ht H a). rewrite !subs_of_cons.
        apply String.eqb_eq in E. unfold has_alias. rewrite Ha, <- E.
        destruct (String.eqb (n_alias c) a); [rewrite Hs, app_assoc|]; reflexivity.
      * destruct (merge_sorted false (Some x) t) as [r'|] eqn:Er; [|discriminate].
        inversion H; subst r. rewrite subs_of_cons, (IH (Some x) r' Ht Er a), (subs_of_cons a c). reflexivity.
    + apply (IH (Some x) r Ht H a).
Qed.

Lemma Forall_insert_alias : forall (P : node -> Prop) n l, P n -> Forall P l -> Forall P (insert_alias n l).
Proof.
  intros P n l Hn Hl. induction Hl as [|x t Hx Ht IH]; simpl; auto.
  destruct (str_ltb (n_alias x) (n_alias n)); auto.
Qed.

Lemma Forall_sort_alias : forall (P : node -> Prop) l, Forall P l -> Forall P (sort_alias l).
Proof.
  intros P l H. induction H as [|x t Hx Ht IH]; simpl; auto. apply Forall_insert_alias; auto.
Qed.

(** mergeSameAlias as repaired: every alias ends up with exactly the sub-selections the query gave it, in
    the order the query gave them. *)
Theorem merge_same_alias_keeps_subs : forall l r, Forall hs_ok l ->
  merge_same_alias false l = Some r -> forall a, subs_of a r = subs_of a l.
Proof.
  intros l r Hok H a. unfold merge_same_alias in H.
  rewrite (merge_sorted_subs _ None r (Forall_sort_alias _ _ Hok) H a). apply subs_of_sort.
Qed.

(** mergeSameAlias as it was (DESIGN F15): self{p} self{ self{p} self{q} } -- merging the two `self`
    drops the second inner `self`, and with it q. *)
Definition f15_fld (n : string) (subs : list node) : node :=
  NField n n (JObj []) "" [] (match subs with [] => false | _ => true end) subs.
Definition f15_l : list node :=
  [f15_fld "self" [f15_fld "p" []]; f15_fld "self" [f15_fld "self" [f15_fld "p" []]; f15_fld "self" [f15_fld "q" []]]].

Theorem merge_same_alias_original_loses : exists l r a,
  Forall hs_ok l /\ merge_same_alias true l = Some r /\ subs_of a r <> subs_of a l.
Proof.
  exists f15_l,
         [f15_fld "self" [f15_fld "p" []; f15_fld "self" [f15_fld "p" []]]],
         "self".
  split; [|split].
  - repeat constructor; simpl; intros; try reflexivity; try discriminate.
  - vm_compute. reflexivity.
  - vm_compute. intros H. discriminate.
Qed.

(** ** flattenFragments collects exactly the fields GraphQL's CollectFields collects *)
From Thunder Require Import Federation.Merge Federation.Planner Federation.Executor.

Section NodeInd.
  Variable P : node -> Prop.
  Hypothesis Hf : forall al nm args ak dirs hs subs, Forall P subs -> P (NField al nm args ak dirs hs subs).
  Hypothesis Hg : forall on dirs subs, Forall P subs -> P (NFrag on dirs subs).
  Fixpoint node_ind' (n : node) : P n :=
    match n with
    | NField al nm args ak dirs hs subs =>
        Hf al nm args ak dirs hs subs
           ((fix go (l : list node) : Forall P l :=
               match l with [] => Forall_nil _ | x :: t => Forall_cons _ (node_ind' x) (go t) end) subs)
    | NFrag on dirs subs =>
        Hg on dirs subs
           ((fix go (l : list node) : Forall P l :=
               match l with [] => Forall_nil _ | x :: t => Forall_cons _ (node_ind' x) (go t) end) subs)
    end.
End NodeInd.

Definition incl_node (n : node) : bool :=
  match n with NField _ _ _ _ dirs _ _ => should_include dirs | NFrag _ _ _ => true end.

Lemma concat_opt_Forall2 : forall {A} (l : list (option (list A))) r,
  concat_opt l = Some r -> exists cs, Forall2 (fun o c => o = Some c) l cs /\ r = List.concat cs.
Proof.
  intros A l. induction l as [|x t IH]; intros r H; simpl in H.
  - inversion H. exists []. split; constructor.
  - destruct x as [a|]; [|discriminate]. destruct (concat_opt t) as [b|] eqn:E; [|discriminate].
    inversion H; subst. destruct (IH b eq_refl) as [cs [F ->]]. exists (a :: cs). split; [constructor; auto | reflexivity].
Qed.

Lemma filter_concat : forall {A} (f : A -> bool) (l : list (list A)),
  filter f (List.concat l) = List.concat (map (filter f) l).
Proof. intros A f l. induction l as [|x t IH]; simpl; auto. rewrite filter_app, IH. reflexivity. Qed.

Lemma filter_incl_fields : forall l, filter incl_node (fields_of l) = filter incl_field l.
Proof.
  induction l as [|x t IH]; simpl; auto. unfold fields_of in *. simpl.
  destruct x; simpl; [|exact IH]. destruct (should_include dirs); simpl; rewrite IH; reflexivity.
Qed.

Lemma incl_field_idem : forall l, filter incl_node (filter incl_field l) = filter incl_field l.
Proof.
  induction l as [|x t IH]; simpl; auto. destruct x; simpl; [|exact IH].
  destruct (should_include dirs) eqn:E; simpl; [rewrite E, IH; reflexivity | exact IH].
Qed.

Section Collect.
  Variable prune : bool.
  Variable g : gschema.
  Variable obj : string.

  Lemma own_fields_incl : forall l, filter incl_node (own_fields prune l) = filter incl_field l.
  Proof. intros l. unfold own_fields. destruct prune; [apply incl_field_idem | apply filter_incl_fields]. Qed.

  Lemma contribs_collect : forall subs cs,
    Forall (fun n => forall c, frag_contrib_gen prune g obj n = Some c -> filter incl_node c = collect_frag g obj n) subs ->
    Forall2 (fun o c => o = Some c) (map (frag_contrib_gen prune g obj) subs) cs ->
    List.concat (map (filter incl_node) cs) = List.concat (map (collect_frag g obj) subs).
  Proof.
    intros subs cs H. revert cs. induction H as [|x t Hx Ht IH]; intros cs F; simpl in F.
    - inversion F. reflexivity.
    - inversion F as [|? c ? cs' Hc F']; subst. simpl. rewrite (Hx c Hc), (IH cs' F'). reflexivity.
  Qed.

  Lemma contrib_collect : forall n c, frag_contrib_gen prune g obj n = Some c -> filter incl_node c = collect_frag g obj n.
  Proof.
    induction n using node_ind'; intros c Hc; simpl in Hc |- *.
    - inversion Hc; reflexivity.
    - destruct (should_include dirs); [|inversion Hc; reflexivity].
      destruct (applies g obj on) as [[|]|]; [| inversion Hc; reflexivity | discriminate].
      destruct (concat_opt (map (frag_contrib_gen prune g obj) subs)) as [rest|] eqn:Er; [|discriminate].
      inversion Hc; subst c. apply concat_opt_Forall2 in Er as [cs [F ->]].
      rewrite filter_app, own_fields_incl, filter_concat, (contribs_collect subs cs H F). reflexivity.
  Qed.

  (** flattenFragments, when it succeeds, yields -- after dropping the selections @skip/@include exclude (which
      the code before the repair left to planObject, after the grouping by alias) -- exactly the fields
      CollectFields yields, in the same order. *)
  Theorem flatten_frags_gen_collects : forall l flat, flatten_frags_gen prune g obj l = Some flat ->
    filter incl_node flat = collect_all g obj l.
  Proof.
    intros l flat H. unfold flatten_frags_gen in H.
    destruct (concat_opt (map (frag_contrib_gen prune g obj) l)) as [rest|] eqn:Er; [|discriminate].
    inversion H; subst flat. apply concat_opt_Forall2 in Er as [cs [F ->]].
    unfold collect_all. rewrite filter_app, own_fields_incl, filter_concat. f_equal.
    apply contribs_collect; auto. clear. induction l; constructor; auto. intros c Hc. apply contrib_collect; exact Hc.
  Qed.
End Collect.

(** as repaired, flattenFragments only yields selections their own directives keep: it IS CollectFields *)
Lemma all_incl_filter : forall l, Forall (fun n => incl_node n = true) l -> filter incl_node l = l.
Proof. intros l H. induction H as [|x t Hx _ IH]; simpl; [reflexivity|]. rewrite Hx, IH. reflexivity. Qed.

Lemma incl_field_node : forall l, Forall (fun n => incl_node n = true) (filter incl_field l).
Proof.
  intros l. apply Forall_forall. intros x Hx. apply filter_In in Hx as [_ Hx]. destruct x; simpl in *; [exact Hx | discriminate].
Qed.

Lemma Forall_concat_nodes : forall (P : node -> Prop) (ls : list (list node)), Forall (Forall P) ls -> Forall P (List.concat ls).
Proof. intros P ls H. induction H as [|x t Hx _ IH]; simpl; [constructor | apply Forall_app; auto]. Qed.

Lemma frag_contrib_incl : forall g obj n c, frag_contrib g obj n = Some c -> Forall (fun n => incl_node n = true) c.
Proof.
  intros g obj. induction n using node_ind'; intros c Hc; unfold frag_contrib in Hc; simpl in Hc.
  - inversion Hc; constructor.
  - destruct (should_include dirs); [|inversion Hc; constructor].
    destruct (applies g obj on) as [[|]|]; [| inversion Hc; constructor | discriminate].
    destruct (concat_opt (map (frag_contrib_gen true g obj) subs)) as [rest|] eqn:Er; [|discriminate].
    inversion Hc; subst c. apply Forall_app. split; [apply incl_field_node|].
    apply concat_opt_Forall2 in Er as [cs [F ->]]. apply Forall_concat_nodes.
    clear Hc. revert cs F. induction H as [|x t Hx _ IH]; intros cs F; simpl in F; inversion F; subst; constructor; auto.
Qed.

Theorem flatten_frags_collects : forall g obj l flat, flatten_frags g obj l = Some flat -> flat = collect_all g obj l.
Proof.
  intros g obj l flat H. rewrite <- (flatten_frags_gen_collects true g obj l flat H). symmetry. apply all_incl_filter.
  unfold flatten_frags, flatten_frags_gen in H.
  destruct (concat_opt (map (frag_contrib_gen true g obj) l)) as [rest|] eqn:Er; [|discriminate].
  inversion H; subst flat. apply Forall_app. split; [apply incl_field_node|].
  apply concat_opt_Forall2 in Er as [cs [F ->]]. apply Forall_concat_nodes.
  clear H. revert cs F. induction l as [|x t IH]; intros cs F; simpl in F; inversion F; subst; constructor; auto.
  eapply frag_contrib_incl; eauto.
Qed.
