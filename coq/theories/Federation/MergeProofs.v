(** Schema-level theorems about the merge: what an intersection offers is offered by both sides
    ([refines]), validity of queries is preserved from the intersection to every version (binary and
    n-ary), well-formedness is preserved, the union keeps every field. *)
From Coq Require Import List String Bool Arith Lia Permutation.
From Thunder Require Import Lib.Json Federation.Merge Federation.MergeProofsBase Federation.MergeProofsTref.
Import ListNotations.
Open Scope string_scope.
Open Scope list_scope.

(** ** small helpers *)
Lemma forallb_Forall_impl : forall {A} (P : A -> Prop) (f g : A -> bool) l,
  Forall P l -> (forall x, P x -> f x = true -> g x = true) -> forallb f l = true -> forallb g l = true.
Proof.
  intros A P f g l HF Himp. induction HF as [|x t Hx HF IH]; simpl; auto.
  intros H. apply andb_prop in H as [H1 H2]. rewrite (Himp x Hx H1), IH; auto.
Qed.

Lemma forallb_impl_in : forall {A} (f g : A -> bool) l,
  (forall x, In x l -> f x = true -> g x = true) -> forallb f l = true -> forallb g l = true.
Proof.
  intros A f g l Himp H. apply forallb_forall. intros x Hx. apply Himp; auto.
  eapply forallb_forall in H; eauto.
Qed.

(** ** induction principle for selections *)
Section SelInd.
  Variable P : sel -> Prop.
  Hypothesis Hf : forall al n args subs, Forall P subs -> P (SField al n args subs).
  Hypothesis Hg : forall on subs, Forall P subs -> P (SFrag on subs).
  Fixpoint sel_ind' (q : sel) : P q :=
    match q with
    | SField al n args subs =>
        Hf al n args subs ((fix go (l : list sel) : Forall P l :=
                              match l with [] => Forall_nil _ | x :: t => Forall_cons _ (sel_ind' x) (go t) end) subs)
    | SFrag on subs =>
        Hg on subs ((fix go (l : list sel) : Forall P l :=
                       match l with [] => Forall_nil _ | x :: t => Forall_cons _ (sel_ind' x) (go t) end) subs)
    end.
End SelInd.

(** ** well-formedness in Prop form *)
Lemma wf_schema_names : forall s, wf_schema s = true -> NoDup (map t_name s).
Proof. intros s H. apply andb_prop in H as [H _]. apply nodup_str_NoDup; exact H. Qed.

Lemma wf_schema_type : forall s t, wf_schema s = true -> In t s -> wf_type t = true.
Proof. intros s t H Hin. apply andb_prop in H as [_ H]. eapply forallb_forall in H; eauto. Qed.

Lemma wf_type_parts : forall t, wf_type t = true ->
  NoDup (map f_name (t_fields t)) /\ (forall f, In f (t_fields t) -> NoDup (map if_name (f_args f))) /\
  NoDup (map if_name (t_inputs t)) /\ NoDup (map fst (t_possible t)) /\ NoDup (t_enums t) /\
  NoDup (map fst (t_interfaces t)).
Proof.
  intros t H. unfold wf_type in H.
  repeat (apply andb_prop in H as [H ?]).
  repeat split; try (apply nodup_str_NoDup; assumption).
  intros f Hf. eapply forallb_forall in H4; eauto. apply nodup_str_NoDup; exact H4.
Qed.

Lemma find_type_findn : forall s n, find_type s n = findn t_name n s.
Proof. reflexivity. Qed.
Lemma find_field_findn : forall s n, find_field s n = findn f_name n s.
Proof. reflexivity. Qed.
Lemma find_ifield_findn : forall s n, find_ifield s n = findn if_name n s.
Proof. reflexivity. Qed.

(** ** name preservation of the per-kind merge functions *)
Lemma keep_if_union_name : forall {A} (name : A -> string) m (x y : A),
  keep_if_union m x = Some (Some y) -> name y = name x.
Proof. intros A name m x y H. destruct m; simpl in H; inversion H; reflexivity. Qed.

Definition ifield_single (m : mode) (x : ifield) : option (option ifield) :=
  if is_nonnull (if_type x) then None else keep_if_union m x.
Definition ifield_pair (x y : ifield) : option ifield :=
  option_map (mk_ifield (if_name x)) (merge_tref true (if_type x) (if_type y)).

Lemma merge_input_fields_unfold : forall m a b,
  merge_input_fields m a b = merge_by_name if_name (ifield_single m) ifield_pair a b.
Proof. reflexivity. Qed.

Lemma ifield_single_name : forall m x y, ifield_single m x = Some (Some y) -> if_name y = if_name x.
Proof.
  intros m x y H. unfold ifield_single in H. destruct (is_nonnull (if_type x)); [discriminate|].
  eapply keep_if_union_name in H; eauto.
Qed.
Lemma ifield_pair_name : forall x y z, ifield_pair x y = Some z -> if_name z = if_name x.
Proof.
  intros x y z H. unfold ifield_pair in H. destruct (merge_tref true (if_type x) (if_type y)); inversion H; reflexivity.
Qed.

Definition field_pair (m : mode) (x y : field) : option field :=
  match merge_tref false (f_type x) (f_type y), merge_input_fields m (f_args x) (f_args y) with
  | Some t, Some args => Some (mk_field (f_name x) t args)
  | _, _ => None
  end.
Lemma merge_fields_unfold : forall m a b,
  merge_fields m a b = merge_by_name f_name (keep_if_union m) (field_pair m) a b.
Proof. reflexivity. Qed.
Lemma field_pair_name : forall m x y z, field_pair m x y = Some z -> f_name z = f_name x.
Proof.
  intros m x y z H. unfold field_pair in H.
  destruct (merge_tref false (f_type x) (f_type y)); [|discriminate].
  destruct (merge_input_fields m (f_args x) (f_args y)); inversion H; reflexivity.
Qed.

Lemma merge_types_name : forall m x y z, merge_types m x y = Some z -> t_name z = t_name x.
Proof.
  intros m x y z H. unfold merge_types in H.
  destruct (negb (String.eqb (t_kind x) (t_kind y))); [discriminate|].
  repeat match type of H with
         | (if ?c then _ else _) = Some _ => destruct c
         | option_map _ ?o = Some _ => destruct o; simpl in H
         end; inversion H; reflexivity.
Qed.

(** ** what each side of an intersection provides *)
Definition sub_input (md ad : list ifield) : Prop :=
  (forall mi, In mi md -> exists ai, find_ifield ad (if_name mi) = Some ai /\ in_le (if_type mi) (if_type ai)) /\
  (forall ai, In ai ad -> is_nonnull (if_type ai) = true ->
     exists mi, In mi md /\ if_name mi = if_name ai /\ is_nonnull (if_type mi) = true).

Lemma merge_inputs_sub : forall a b r, NoDup (map if_name a) -> NoDup (map if_name b) ->
  merge_input_fields Intersection a b = Some r -> sub_input r a /\ sub_input r b.
Proof.
  intros a b r Ha Hb Hm. rewrite merge_input_fields_unfold in Hm.
  pose proof (merged_origin if_name (ifield_single Intersection) ifield_pair
                (ifield_single_name Intersection) ifield_pair_name a b r Ha Hb Hm) as Horig.
  pose proof (merged_both if_name (ifield_single Intersection) ifield_pair
                ifield_pair_name a b r Ha Hb Hm) as Hboth.
  pose proof (merged_left_only if_name (ifield_single Intersection) ifield_pair
                (ifield_single_name Intersection) a b r Ha Hb Hm) as Hleft.
  pose proof (merged_right_only if_name (ifield_single Intersection) ifield_pair
                (ifield_single_name Intersection) a b r Ha Hb Hm) as Hright.
  assert (Hsingle : forall x z, ifield_single Intersection x = Some (Some z) -> False).
  { intros x z H. unfold ifield_single in H. destruct (is_nonnull (if_type x)); simpl in H; discriminate. }
  assert (Hpair : forall x y z, ifield_pair x y = Some z ->
                    in_le (if_type z) (if_type x) /\ in_le (if_type z) (if_type y)).
  { intros x y z H. unfold ifield_pair in H. destruct (merge_tref true (if_type x) (if_type y)) as [t|] eqn:E; [|discriminate].
    inversion H; subst z. simpl. apply merge_tref_input_le; exact E. }
  split; split.
  - intros mi Hmi. destruct (Horig mi Hmi) as [[x [y [Hx [Hy Hp]]]]|[[x [_ [_ Hs]]]|[y [_ [_ Hs]]]]].
    + exists x. split; [exact Hx | apply (proj1 (Hpair x y mi Hp))].
    + exfalso; eapply Hsingle; eauto.
    + exfalso; eapply Hsingle; eauto.
  - intros ai Hai Hnn.
    assert (Hfa : findn if_name (if_name ai) a = Some ai) by (apply findn_in; auto).
    destruct (findn if_name (if_name ai) b) as [y|] eqn:Eb.
    + destruct (Hboth _ _ _ Hfa Eb) as [z [Hp [Hz Hn]]]. exists z. split; auto. split; auto.
      eapply in_le_nonnull; [apply (proj1 (Hpair ai y z Hp)) | exact Hnn].
    + destruct (Hleft _ _ Hfa Eb) as [Hs|[z [Hs _]]]; unfold ifield_single in Hs; rewrite Hnn in Hs; discriminate.
  - intros mi Hmi. destruct (Horig mi Hmi) as [[x [y [Hx [Hy Hp]]]]|[[x [_ [_ Hs]]]|[y [_ [_ Hs]]]]].
    + exists y. split; [exact Hy | apply (proj2 (Hpair x y mi Hp))].
    + exfalso; eapply Hsingle; eauto.
    + exfalso; eapply Hsingle; eauto.
  - intros bi Hbi Hnn.
    assert (Hfb : findn if_name (if_name bi) b = Some bi) by (apply findn_in; auto).
    destruct (findn if_name (if_name bi) a) as [x|] eqn:Ea.
    + destruct (Hboth _ _ _ Ea Hfb) as [z [Hp [Hz Hn]]]. exists z. split; auto. split; auto.
      eapply in_le_nonnull; [apply (proj2 (Hpair x bi z Hp)) | exact Hnn].
    + destruct (Hright _ _ Ea Hfb) as [Hs|[z [Hs _]]]; unfold ifield_single in Hs; rewrite Hnn in Hs; discriminate.
Qed.

(** [refines m a]: everything a query can rely on in [m] is provided by [a]. *)
Definition refines (m a : schema) : Prop :=
  forall n mt, find_type m n = Some mt ->
  exists ta, find_type a n = Some ta /\ t_kind ta = t_kind mt /\
    (t_kind mt = "OBJECT" ->
       forall mf, In mf (t_fields mt) ->
       exists af, find_field (t_fields ta) (f_name mf) = Some af /\
                  root_tref (f_type af) = root_tref (f_type mf) /\ sub_input (f_args mf) (f_args af)) /\
    (t_kind mt = "INPUT_OBJECT" -> sub_input (t_inputs mt) (t_inputs ta)) /\
    (t_kind mt = "UNION" -> forall p, In p (t_possible mt) -> exists p', In p' (t_possible ta) /\ fst p' = fst p) /\
    (t_kind mt = "ENUM" -> incl (t_enums mt) (t_enums ta)).

(** inversion of mergeTypes *)
Lemma merge_types_inv : forall m x y z, merge_types m x y = Some z ->
  t_kind x = t_kind y /\ t_kind z = t_kind x /\
  (t_kind x = "OBJECT" -> merge_fields m (t_fields x) (t_fields y) = Some (t_fields z)) /\
  (t_kind x = "INPUT_OBJECT" -> merge_input_fields m (t_inputs x) (t_inputs y) = Some (t_inputs z)) /\
  (t_kind x = "UNION" -> merge_prefs m (t_possible x) (t_possible y) = Some (t_possible z)) /\
  (t_kind x = "ENUM" -> merge_enums m (t_enums x) (t_enums y) = Some (t_enums z)).
Proof.
  intros m x y z H. unfold merge_types in H.
  destruct (String.eqb (t_kind x) (t_kind y)) eqn:Ek; simpl in H; [|discriminate].
  apply String.eqb_eq in Ek. split; auto.
  destruct (String.eqb (t_kind x) "INPUT_OBJECT") eqn:E1.
  { apply String.eqb_eq in E1. destruct (merge_input_fields m (t_inputs x) (t_inputs y)) eqn:E; simpl in H; inversion H; subst z; simpl.
    rewrite E1. repeat split; auto; intros; discriminate. }
  destruct (String.eqb (t_kind x) "OBJECT") eqn:E2.
  { apply String.eqb_eq in E2. destruct (merge_fields m (t_fields x) (t_fields y)) eqn:E; simpl in H; inversion H; subst z; simpl.
    rewrite E2. repeat split; auto; intros; discriminate. }
  destruct (String.eqb (t_kind x) "UNION") eqn:E3.
  { apply String.eqb_eq in E3. destruct (merge_prefs m (t_possible x) (t_possible y)) eqn:E; simpl in H; inversion H; subst z; simpl.
    rewrite E3. repeat split; auto; intros; discriminate. }
  destruct (String.eqb (t_kind x) "INTERFACE") eqn:E4.
  { apply String.eqb_eq in E4. destruct (merge_prefs m (t_interfaces x) (t_interfaces y)) eqn:E; simpl in H; inversion H; subst z; simpl.
    rewrite E4. repeat split; auto; intros; discriminate. }
  destruct (String.eqb (t_kind x) "ENUM") eqn:E5.
  { apply String.eqb_eq in E5. destruct (merge_enums m (t_enums x) (t_enums y)) eqn:E; simpl in H; inversion H; subst z; simpl.
    rewrite E5. repeat split; auto; intros; discriminate. }
  destruct (String.eqb (t_kind x) "SCALAR") eqn:E6; [|discriminate].
  apply String.eqb_eq in E6. inversion H; subst z; simpl. rewrite E6. repeat split; auto; intros; discriminate.
Qed.

Lemma keep_intersection_none : forall {A} (x z : A), keep_if_union Intersection x = Some (Some z) -> False.
Proof. intros A x z H. simpl in H. discriminate. Qed.

Theorem intersection_refines : forall a b m, wf_schema a = true -> wf_schema b = true ->
  merge_schemas Intersection a b = Some m -> refines m a /\ refines m b.
Proof.
  intros a b m Wa Wb Hm.
  pose proof (wf_schema_names a Wa) as Na. pose proof (wf_schema_names b Wb) as Nb.
  pose proof (merged_origin t_name (keep_if_union Intersection) (merge_types Intersection)
                (keep_if_union_name t_name Intersection) (merge_types_name Intersection) a b m Na Nb Hm) as Horig.
  assert (Hboth : forall n mt, find_type m n = Some mt ->
            exists ta tb, find_type a n = Some ta /\ find_type b n = Some tb /\ In ta a /\ In tb b /\
                          merge_types Intersection ta tb = Some mt).
  { intros n mt Hf. rewrite find_type_findn in Hf. apply findn_some in Hf as [Hin Hn]. subst n.
    destruct (Horig mt Hin) as [[x [y [Hx [Hy Hp]]]]|[[x [_ [_ Hs]]]|[y [_ [_ Hs]]]]].
    - exists x, y. repeat split; auto; eapply findn_some; eauto.
    - exfalso; eapply keep_intersection_none; eauto.
    - exfalso; eapply keep_intersection_none; eauto. }
  split; intros n mt Hf; destruct (Hboth n mt Hf) as [ta [tb [Ha [Hb [Ia [Ib Hp]]]]]];
    destruct (merge_types_inv _ _ _ _ Hp) as [Kab [Kz [Hobj [Hinp [Hun Hen]]]]];
    destruct (wf_type_parts ta (wf_schema_type a ta Wa Ia)) as [Fa [Aa [Ina [Pa [Ea _]]]]];
    destruct (wf_type_parts tb (wf_schema_type b tb Wb Ib)) as [Fb [Ab [Inb [Pb [Eb _]]]]].
  - exists ta. split; auto. split; [congruence|]. split; [|split; [|split]].
    + intros K mf Hmf. rewrite Kz in K. specialize (Hobj K). rewrite merge_fields_unfold in Hobj.
      destruct (merged_origin f_name (keep_if_union Intersection) (field_pair Intersection)
                  (keep_if_union_name f_name Intersection) (field_pair_name Intersection) _ _ _ Fa Fb Hobj mf Hmf)
        as [[x [y [Hx [Hy Hpf]]]]|[[x [_ [_ Hs]]]|[y [_ [_ Hs]]]]];
        try (exfalso; eapply keep_intersection_none; eauto; fail).
      exists x. split; [exact Hx|]. unfold field_pair in Hpf.
      destruct (merge_tref false (f_type x) (f_type y)) as [t|] eqn:Et; [|discriminate].
      destruct (merge_input_fields Intersection (f_args x) (f_args y)) as [args|] eqn:Eargs; [|discriminate].
      inversion Hpf; subst mf; simpl. split.
      * symmetry. apply (merge_tref_root _ _ _ _ Et).
      * apply findn_some in Hx as [Hx _]. apply findn_some in Hy as [Hy _].
        apply (merge_inputs_sub _ _ _ (Aa x Hx) (Ab y Hy) Eargs).
    + intros K. rewrite Kz in K. apply (merge_inputs_sub _ _ _ Ina Inb (Hinp K)).
    + intros K p Hp'. rewrite Kz in K. specialize (Hun K).
      destruct (merged_origin fst (keep_if_union Intersection) (fun x _ => Some x)
                  (keep_if_union_name fst Intersection) (fun x y z H => f_equal fst (eq_sym (f_equal (fun o => match o with Some v => v | None => x end) H)))
                  _ _ _ Pa Pb Hun p Hp')
        as [[x [y [Hx [Hy Hpf]]]]|[[x [_ [_ Hs]]]|[y [_ [_ Hs]]]]];
        try (exfalso; eapply keep_intersection_none; eauto; fail).
      apply findn_some in Hx as [Hx Hn]. exists x. auto.
    + intros K e He. rewrite Kz in K. specialize (Hen K).
      destruct (merged_origin (fun x : string => x) (keep_if_union Intersection) (fun x _ => Some x)
                  (keep_if_union_name (fun x : string => x) Intersection)
                  (fun x y z H => eq_sym (f_equal (fun o => match o with Some v => v | None => x end) H))
                  _ _ _ ltac:(rewrite map_id; exact Ea) ltac:(rewrite map_id; exact Eb) Hen e He)
        as [[x [y [Hx [Hy Hpf]]]]|[[x [_ [_ Hs]]]|[y [_ [_ Hs]]]]];
        try (exfalso; eapply keep_intersection_none; eauto; fail).
      apply findn_some in Hx as [Hx Hn]. simpl in Hn. subst x. exact Hx.
  - exists tb. split; auto. split; [congruence|]. split; [|split; [|split]].
    + intros K mf Hmf. rewrite Kz in K. specialize (Hobj K). rewrite merge_fields_unfold in Hobj.
      destruct (merged_origin f_name (keep_if_union Intersection) (field_pair Intersection)
                  (keep_if_union_name f_name Intersection) (field_pair_name Intersection) _ _ _ Fa Fb Hobj mf Hmf)
        as [[x [y [Hx [Hy Hpf]]]]|[[x [_ [_ Hs]]]|[y [_ [_ Hs]]]]];
        try (exfalso; eapply keep_intersection_none; eauto; fail).
      exists y. split; [exact Hy|]. unfold field_pair in Hpf.
      destruct (merge_tref false (f_type x) (f_type y)) as [t|] eqn:Et; [|discriminate].
      destruct (merge_input_fields Intersection (f_args x) (f_args y)) as [args|] eqn:Eargs; [|discriminate].
      inversion Hpf; subst mf; simpl. split.
      * symmetry. apply (merge_tref_root _ _ _ _ Et).
      * apply findn_some in Hx as [Hx _]. apply findn_some in Hy as [Hy _].
        apply (merge_inputs_sub _ _ _ (Aa x Hx) (Ab y Hy) Eargs).
    + intros K. rewrite Kz in K. apply (merge_inputs_sub _ _ _ Ina Inb (Hinp K)).
    + intros K p Hp'. rewrite Kz in K. specialize (Hun K).
      destruct (merged_origin fst (keep_if_union Intersection) (fun x _ => Some x)
                  (keep_if_union_name fst Intersection) (fun x y z H => f_equal fst (eq_sym (f_equal (fun o => match o with Some v => v | None => x end) H)))
                  _ _ _ Pa Pb Hun p Hp')
        as [[x [y [Hx [Hy Hpf]]]]|[[x [_ [_ Hs]]]|[y [_ [_ Hs]]]]];
        try (exfalso; eapply keep_intersection_none; eauto; fail).
      apply findn_some in Hy as [Hy Hn]. exists y. auto.
    + intros K e He. rewrite Kz in K. specialize (Hen K).
      destruct (merged_origin (fun x : string => x) (keep_if_union Intersection) (fun x _ => Some x)
                  (keep_if_union_name (fun x : string => x) Intersection)
                  (fun x y z H => eq_sym (f_equal (fun o => match o with Some v => v | None => x end) H))
                  _ _ _ ltac:(rewrite map_id; exact Ea) ltac:(rewrite map_id; exact Eb) Hen e He)
        as [[x [y [Hx [Hy Hpf]]]]|[[x [_ [_ Hs]]]|[y [_ [_ Hs]]]]];
        try (exfalso; eapply keep_intersection_none; eauto; fail).
      apply findn_some in Hy as [Hy Hn]. simpl in Hn. subst y. exact Hy.
Qed.
