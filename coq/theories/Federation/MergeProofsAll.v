(** MergeIntrospectionSchemas ([merge_all]: per service the intersection of its versions in version-name order,
    then the union of the services in service-name order) and naming: two inputs with the same schemas, grouped
    the same way, under any names and in any order ([svc_equiv]) give
    - the same schema whenever both are accepted (the code as it is), and
    - the same outcome, refusal included, once every pair is checked first (patches/C09-fix-1). *)
From Coq Require Import List String Bool Arith Lia Permutation.
From Thunder Require Import Lib.Json Federation.Merge Federation.MergeProofsBase Federation.MergeProofsTref
  Federation.MergeProofs Federation.MergeProofsValid Federation.MergeProofsComm Federation.MergeProofsNary
  Federation.MergeProofsShape Federation.MergeProofsPerm Federation.MergeProofsPairs.
Import ListNotations.
Open Scope string_scope.
Open Scope list_scope.

(** ** sort_kv permutes *)
Lemma insert_kv_perm : forall {A} (kv : string * A) l, Permutation (insert_kv kv l) (kv :: l).
Proof.
  intros A kv l. induction l as [|y t IH]; simpl; auto.
  destruct (str_ltb (fst y) (fst kv)); auto.
  eapply perm_trans; [apply perm_skip; exact IH | apply perm_swap].
Qed.

Lemma sort_kv_perm : forall {A} (l : list (string * A)), Permutation (sort_kv l) l.
Proof.
  intros A l. unfold sort_kv. induction l as [|x t IH]; simpl; auto.
  eapply perm_trans; [apply insert_kv_perm | apply perm_skip; exact IH].
Qed.

Lemma Forall2_flip' : forall {A B} (R : A -> B -> Prop) l l', Forall2 R l l' -> Forall2 (fun b a => R a b) l' l.
Proof. intros A B R l l' H. induction H; constructor; auto. Qed.

(** ** map_opt and permutations *)
Lemma map_opt_perm_full : forall {A B} (h : A -> option B) l l2, Permutation l l2 ->
  match map_opt h l, map_opt h l2 with
  | Some r, Some r2 => Permutation r r2
  | None, None => True
  | _, _ => False
  end.
Proof.
  intros A B h l l2 H. induction H as [|x l l' _ IH|x y l|l l' l'' _ IH1 _ IH2]; simpl.
  - constructor.
  - destruct (h x); destruct (map_opt h l), (map_opt h l'); simpl; auto.
  - destruct (h x), (h y), (map_opt h l); simpl; auto. apply perm_swap.
  - destruct (map_opt h l), (map_opt h l'), (map_opt h l''); simpl in *; auto; try contradiction.
    eapply perm_trans; eauto.
Qed.

Lemma map_opt_forall2_full : forall {A B} (R : A -> A -> Prop) (h : A -> option B) l2 l',
  Forall2 R l2 l' -> (forall x y, In x l2 -> R x y -> h x = h y) -> map_opt h l2 = map_opt h l'.
Proof.
  intros A B R h l2 l' H. induction H as [|x y l2 l' Rxy _ IH]; intros Hh; simpl; auto.
  rewrite (Hh x y (or_introl eq_refl) Rxy), IH; auto. intros a b Ia. apply Hh. right; exact Ia.
Qed.

Lemma map_opt_forall2 : forall {A B} (R : A -> A -> Prop) (h : A -> option B) l2 l' r2 r',
  Forall2 R l2 l' -> (forall x y u v, In x l2 -> R x y -> h x = Some u -> h y = Some v -> u = v) ->
  map_opt h l2 = Some r2 -> map_opt h l' = Some r' -> r2 = r'.
Proof.
  intros A B R h l2 l' r2 r' H. revert r2 r'. induction H as [|x y l2 l' Rxy _ IH]; intros r2 r' Hh H2 H'; simpl in *.
  - congruence.
  - destruct (h x) as [u|] eqn:Ex; [|discriminate]. destruct (map_opt h l2) as [t2|] eqn:E2; [|discriminate].
    destruct (h y) as [v|] eqn:Ey; [|discriminate]. destruct (map_opt h l') as [t'|] eqn:E'; [|discriminate].
    inversion H2; inversion H'; subst. f_equal.
    + apply (Hh x y u v); auto.
    + apply IH; auto. intros a b ua va Ia. apply Hh. right; exact Ia.
Qed.

Lemma map_opt_in : forall {A B} (h : A -> option B) l r u, map_opt h l = Some r -> In u r ->
  exists x, In x l /\ h x = Some u.
Proof.
  intros A B h l. induction l as [|x t IH]; intros r u H Hu; simpl in H.
  - inversion H; subst. contradiction.
  - destruct (h x) as [v|] eqn:Ex; [|discriminate]. destruct (map_opt h t) as [r0|] eqn:E; [|discriminate].
    inversion H; subst. destruct Hu as [<-|Hu]; [exists x; simpl; auto|].
    destruct (IH r0 u eq_refl Hu) as [x' [I1 I2]]. exists x'. simpl. auto.
Qed.

Lemma map_opt_named : forall {A B} (g : string * A -> option B) l,
  option_map (map snd) (map_opt (fun sv => option_map (pair (fst sv)) (g sv)) l) = map_opt g l.
Proof.
  intros A B g l. induction l as [|x t IH]; simpl; auto.
  destruct (g x); simpl; [|reflexivity]. rewrite <- IH.
  destruct (map_opt (fun sv => option_map (pair (fst sv)) (g sv)) t); reflexivity.
Qed.

(** ** where the union-member / interface entries of a merge result come from *)
Definition pref_src (U : itype -> Prop) (x : itype) : Prop :=
  (forall p, In p (t_possible x) -> exists x0, U x0 /\ t_name x0 = t_name x /\ In p (t_possible x0)) /\
  (forall p, In p (t_interfaces x) -> exists x0, U x0 /\ t_name x0 = t_name x /\ In p (t_interfaces x0)).

Lemma merge_prefs_src : forall md a b r p, NoDup (map fst a) -> NoDup (map fst b) ->
  merge_prefs md a b = Some r -> In p r -> In p a \/ In p b.
Proof.
  intros md a b r p Ha Hb H Hp. unfold merge_prefs in H.
  destruct (merged_origin fst (keep_if_union md) (fun x _ => Some x) (keep_if_union_name fst md)
              (fun x y z H => f_equal fst (eq_sym (f_equal (fun o => match o with Some v => v | None => x end) H)))
              a b r Ha Hb H p Hp) as [[x [y [Hx [_ Hpf]]]]|[[x [Hx [_ Hs]]]|[y [_ [Hy Hs]]]]].
  - inversion Hpf; subst. apply findn_some in Hx as [Hx _]. auto.
  - destruct md; simpl in Hs; inversion Hs; subst. apply findn_some in Hx as [Hx _]. auto.
  - destruct md; simpl in Hs; inversion Hs; subst. apply findn_some in Hy as [Hy _]. auto.
Qed.

Lemma merge_types_src : forall md U a b c, wf_type a = true -> wf_type b = true -> t_name a = t_name b ->
  pref_src U a -> pref_src U b -> merge_types md a b = Some c -> pref_src U c.
Proof.
  intros md U a b c Wa Wb Hn [Pa Ja] [Pb Jb] H.
  destruct (wf_type_parts a Wa) as [_ [_ [_ [NPa [_ NJa]]]]]. destruct (wf_type_parts b Wb) as [_ [_ [_ [NPb [_ NJb]]]]].
  destruct (merge_types_shape _ _ _ _ H) as [_ [_ [Nc [[_ [_ [O3 [_ O5]]]] S]]]].
  split; intros p Hp.
  - destruct O3 as [K|E]; [|rewrite E in Hp; contradiction].
    destruct S as [[K' S]|[[K' S]|[[K' S]|[[K' S]|[[K' S]|K']]]]]; try (exfalso; congruence).
    destruct (merge_prefs_src md _ _ _ p NPa NPb S Hp) as [I|I].
    + destruct (Pa p I) as [x0 [U0 [N0 I0]]]. exists x0. repeat split; auto. congruence.
    + destruct (Pb p I) as [x0 [U0 [N0 I0]]]. exists x0. repeat split; auto. congruence.
  - destruct O5 as [K|E]; [|rewrite E in Hp; contradiction].
    destruct S as [[K' S]|[[K' S]|[[K' S]|[[K' S]|[[K' S]|K']]]]]; try (exfalso; congruence).
    destruct (merge_prefs_src md _ _ _ p NJa NJb S Hp) as [I|I].
    + destruct (Ja p I) as [x0 [U0 [N0 I0]]]. exists x0. repeat split; auto. congruence.
    + destruct (Jb p I) as [x0 [U0 [N0 I0]]]. exists x0. repeat split; auto. congruence.
Qed.

Definition schema_src (U : itype -> Prop) (s : schema) : Prop := forall x, In x s -> pref_src U x.

Lemma merge_schemas_src : forall md U a b m, wf_schema a = true -> wf_schema b = true ->
  schema_src U a -> schema_src U b -> merge_schemas md a b = Some m -> schema_src U m.
Proof.
  intros md U a b m Wa Wb Sa Sb H z Hz.
  pose proof (wf_schema_names a Wa) as Na. pose proof (wf_schema_names b Wb) as Nb.
  destruct (merged_origin t_name (keep_if_union md) (merge_types md) (keep_if_union_name t_name md) (merge_types_name md)
              a b m Na Nb H z Hz) as [[x [y [Hx [Hy Hp]]]]|[[x [Hx [_ Hs]]]|[y [_ [Hy Hs]]]]].
  - apply findn_some in Hx as [Ix Nx]. apply findn_some in Hy as [Iy Ny].
    apply (merge_types_src md U x y z); auto; try congruence.
    + apply (wf_schema_type a x Wa Ix).
    + apply (wf_schema_type b y Wb Iy).
  - destruct md; simpl in Hs; inversion Hs; subst. apply findn_some in Hx as [Ix _]. auto.
  - destruct md; simpl in Hs; inversion Hs; subst. apply findn_some in Hy as [Iy _]. auto.
Qed.

Lemma merge_slice_src : forall md U l r, (forall v, In v l -> wf_schema v = true) ->
  (forall v, In v l -> schema_src U v) -> merge_slice md l = Some r -> wf_schema r = true /\ schema_src U r.
Proof.
  intros md U [|s t] r W S H; [discriminate|]. simpl in H.
  assert (G : forall t acc, wf_schema acc = true -> schema_src U acc -> (forall v, In v t -> wf_schema v = true) ->
                (forall v, In v t -> schema_src U v) -> merge_fold md acc t = Some r -> wf_schema r = true /\ schema_src U r).
  { clear. induction t as [|x t IH]; intros acc Wa Sa Wt St Hf; simpl in Hf.
    - inversion Hf; subst. auto.
    - destruct (merge_schemas md acc x) as [a|] eqn:E; [|discriminate].
      apply (IH a); auto.
      + apply (merge_schemas_wf md acc x a); auto. apply Wt; left; reflexivity.
      + apply (merge_schemas_src md U acc x a); auto; [apply Wt | apply St]; left; reflexivity.
      + intros v Hv. apply Wt; right; exact Hv.
      + intros v Hv. apply St; right; exact Hv. }
  apply (G t s); auto.
  - apply W; left; reflexivity.
  - apply S; left; reflexivity.
  - intros v Hv. apply W; right; exact Hv.
  - intros v Hv. apply S; right; exact Hv.
Qed.

(** ** the theorem *)
Definition all_schemas (ss : services) : list schema := flat_map (fun sv => map snd (snd sv)) ss.

Definition same_versions (sv sv' : string * versions) : Prop :=
  Permutation (map snd (snd sv)) (map snd (snd sv')).

(** the same schemas, grouped the same way: services renamed and reordered, versions renamed and reordered *)
Definition svc_equiv (ss ss' : services) : Prop :=
  exists ss2, Permutation ss ss2 /\ Forall2 same_versions ss2 ss'.

Definition svc_schema (rp : bool) (sv : string * versions) : option schema := service_schema_r rp (snd sv).

Lemma merge_all_r_eq : forall rp ss,
  merge_all_r rp ss = match map_opt (svc_schema rp) (sort_kv ss) with Some l => slice_of rp Union l | None => None end.
Proof.
  intros rp ss. unfold merge_all_r, process_versions_r.
  rewrite <- (map_opt_named (svc_schema rp) (sort_kv ss)). unfold svc_schema.
  destruct (map_opt _ (sort_kv ss)); reflexivity.
Qed.

Lemma slice_of_some : forall rp md l r, slice_of rp md l = Some r -> merge_slice md l = Some r.
Proof. intros [] md l r H; simpl in H; auto. apply merge_slice_checked_some; exact H. Qed.

Section Naming.
  Variable ss : services.
  Hypothesis W : forall v, In v (all_schemas ss) -> wf_schema v = true.
  Hypothesis Hag : forall a b, In a (all_schemas ss) -> In b (all_schemas ss) -> schemas_agree a b.

  Definition UT (x : itype) : Prop := exists s, In s (all_schemas ss) /\ In x s.

  Lemma in_all : forall sv v, In sv ss -> In v (map snd (snd sv)) -> In v (all_schemas ss).
  Proof. intros sv v H1 H2. unfold all_schemas. apply in_flat_map. exists sv. auto. Qed.

  Lemma own_src : forall v, In v (all_schemas ss) -> schema_src UT v.
  Proof.
    intros v Hv x Hx. split; intros p Hp; exists x; repeat split; auto; exists v; auto.
  Qed.

  Lemma sorted_versions_perm : forall sv : string * versions, Permutation (map snd (sort_kv (snd sv))) (map snd (snd sv)).
  Proof. intros sv. apply Permutation_map, sort_kv_perm. Qed.

  Lemma svc_schema_ok : forall rp sv u, In sv ss -> svc_schema rp sv = Some u -> wf_schema u = true /\ schema_src UT u.
  Proof.
    intros rp sv u Hsv H. unfold svc_schema, service_schema_r in H. apply slice_of_some in H.
    assert (I : forall v, In v (map snd (sort_kv (snd sv))) -> In v (all_schemas ss)).
    { intros v Hv. apply (in_all sv v Hsv). eapply Permutation_in; [apply sorted_versions_perm | exact Hv]. }
    apply (merge_slice_src Intersection UT (map snd (sort_kv (snd sv))) u
             (fun v Hv => W v (I v Hv)) (fun v Hv => own_src v (I v Hv)) H).
  Qed.

  Lemma results_agree : forall u v, wf_schema u = true -> schema_src UT u -> schema_src UT v -> schemas_agree u v.
  Proof.
    intros u v _ Su Sv x y Hx Hy Hn. destruct (Su x Hx) as [Px Jx]. destruct (Sv y Hy) as [Py Jy].
    split; intros p q Hp Hq Hpq.
    - destruct (Px p Hp) as [x0 [[s [Is Ix0]] [N0 I0]]]. destruct (Py q Hq) as [y0 [[s' [Is' Iy0]] [N0' I0']]].
      destruct (Hag s s' Is Is' x0 y0 Ix0 Iy0 ltac:(congruence)) as [A _]. apply (A p q I0 I0' Hpq).
    - destruct (Jx p Hp) as [x0 [[s [Is Ix0]] [N0 I0]]]. destruct (Jy q Hq) as [y0 [[s' [Is' Iy0]] [N0' I0']]].
      destruct (Hag s s' Is Is' x0 y0 Ix0 Iy0 ltac:(congruence)) as [_ A]. apply (A p q I0 I0' Hpq).
  Qed.

  (** per service: the two version lists are permutations of one another *)
  Lemma versions_perm : forall sv sv', same_versions sv sv' ->
    Permutation (map snd (sort_kv (snd sv))) (map snd (sort_kv (snd sv'))).
  Proof.
    intros sv sv' H. eapply perm_trans; [apply sorted_versions_perm|].
    eapply perm_trans; [exact H|]. apply Permutation_sym, sorted_versions_perm.
  Qed.

  Lemma version_side : forall sv, In sv ss ->
    (forall v, In v (map snd (sort_kv (snd sv))) -> wf_schema v = true) /\
    (forall a b, In a (map snd (sort_kv (snd sv))) -> In b (map snd (sort_kv (snd sv))) -> schemas_agree a b).
  Proof.
    intros sv Hsv.
    assert (I : forall v, In v (map snd (sort_kv (snd sv))) -> In v (all_schemas ss)).
    { intros v Hv. apply (in_all sv v Hsv). eapply Permutation_in; [apply sorted_versions_perm | exact Hv]. }
    split; [intros v Hv; apply W; auto | intros a b Ia Ib; apply Hag; auto].
  Qed.

  Lemma svc_schema_plain : forall sv sv' u v, In sv ss -> same_versions sv sv' ->
    svc_schema false sv = Some u -> svc_schema false sv' = Some v -> u = v.
  Proof.
    intros sv sv' u v Hsv Hsame Hu Hv. destruct (version_side sv Hsv) as [W1 A1].
    apply (merge_slice_perm Intersection _ _ u v W1 A1 (versions_perm sv sv' Hsame) Hu Hv).
  Qed.

  Lemma svc_schema_repaired : forall sv sv', In sv ss -> same_versions sv sv' ->
    svc_schema true sv = svc_schema true sv'.
  Proof.
    intros sv sv' Hsv Hsame. destruct (version_side sv Hsv) as [W1 A1].
    apply (merge_slice_checked_perm Intersection _ _ W1 A1 (versions_perm sv sv' Hsame)).
  Qed.

  Variable ss' : services.
  Hypothesis Heq : svc_equiv ss ss'.

  Lemma sorted_equiv : exists L2, Permutation (sort_kv ss) L2 /\ Forall2 same_versions L2 (sort_kv ss') /\
    forall x, In x L2 -> In x ss.
  Proof.
    destruct Heq as [ss2 [P1 F]].
    apply Forall2_flip' in F.
    destruct (Permutation_Forall2 (Permutation_sym (sort_kv_perm ss')) F) as [L2 [P2 F2]].
    apply Forall2_flip' in F2. exists L2. split; [|split; [exact F2|]].
    - eapply perm_trans; [apply sort_kv_perm|]. eapply perm_trans; eauto.
    - intros x Hx. eapply Permutation_in; [apply Permutation_sym; eapply perm_trans; [exact P1 | exact P2] | exact Hx].
  Qed.

  Lemma per_side : forall rp r1, map_opt (svc_schema rp) (sort_kv ss) = Some r1 ->
    (forall v, In v r1 -> wf_schema v = true) /\ (forall a b, In a r1 -> In b r1 -> schemas_agree a b).
  Proof.
    intros rp r1 H.
    assert (S : forall v, In v r1 -> wf_schema v = true /\ schema_src UT v).
    { intros v Hv. destruct (map_opt_in _ _ _ v H Hv) as [sv [I1 I2]].
      apply (svc_schema_ok rp sv v); auto. eapply Permutation_in; [apply sort_kv_perm | exact I1]. }
    split; [intros v Hv; apply S; exact Hv|].
    intros a b Ia Ib. destruct (S a Ia), (S b Ib). apply results_agree; auto.
  Qed.

  (** the code as it is: if both namings are accepted, the merged schemas are equal *)
  Theorem merge_all_naming : forall r r', merge_all ss = Some r -> merge_all ss' = Some r' -> r = r'.
  Proof.
    intros r r' H H'. change (merge_all_r false ss = Some r) in H. change (merge_all_r false ss' = Some r') in H'.
    rewrite merge_all_r_eq in H, H'.
    destruct (map_opt (svc_schema false) (sort_kv ss)) as [r1|] eqn:E1; [|discriminate].
    destruct (map_opt (svc_schema false) (sort_kv ss')) as [r3|] eqn:E3; [|discriminate].
    destruct sorted_equiv as [L2 [P F]]. destruct F as [F InL2].
    pose proof (map_opt_perm_full (svc_schema false) _ _ P) as M. rewrite E1 in M.
    destruct (map_opt (svc_schema false) L2) as [r2|] eqn:E2; [|contradiction].
    assert (r2 = r3).
    { apply (map_opt_forall2 same_versions (svc_schema false) L2 (sort_kv ss') r2 r3 F); auto.
      intros x y u v Ix Rxy Hu Hv. apply (svc_schema_plain x y u v); auto. }
    subst r3. destruct (per_side false r1 E1) as [W1 A1]. simpl in H, H'.
    apply (merge_slice_perm Union r1 r2 r r' W1 A1 M H H').
  Qed.

  (** with every pair checked first: the outcome, refusal included, is the same *)
  Theorem merge_all_repaired_naming : merge_all_r true ss = merge_all_r true ss'.
  Proof.
    rewrite !merge_all_r_eq.
    destruct sorted_equiv as [L2 [P F]]. destruct F as [F InL2].
    pose proof (map_opt_perm_full (svc_schema true) _ _ P) as M.
    rewrite <- (map_opt_forall2_full same_versions (svc_schema true) L2 (sort_kv ss') F).
    2:{ intros x y Ix Rxy. apply svc_schema_repaired; auto. }
    destruct (map_opt (svc_schema true) (sort_kv ss)) as [r1|] eqn:E1;
      destruct (map_opt (svc_schema true) L2) as [r2|] eqn:E2; try contradiction; auto.
    destruct (per_side true r1 E1) as [W1 A1]. simpl.
    apply (merge_slice_checked_perm Union r1 r2 W1 A1 M).
  Qed.
End Naming.
