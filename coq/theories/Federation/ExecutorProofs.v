(** Stitching: [graft] walks the result tree exactly as [extract_keys] does and hands the i-th sub-result to the
    i-th target: it consumes as many results as extractKeys produced keys, in that order. *)
From Coq Require Import List String Bool Arith ZArith Lia.
From Thunder Require Import Lib.Json Federation.Merge Federation.Normalize Federation.Planner Federation.Executor.
Import ListNotations.
Open Scope string_scope.
Open Scope list_scope.

Lemma concat_opt_cons : forall {A} (x : option (list A)) l r,
  concat_opt (x :: l) = Some r -> exists a b, x = Some a /\ concat_opt l = Some b /\ r = a ++ b.
Proof.
  intros A x l r H. simpl in H. destruct x as [a|]; [|discriminate].
  destruct (concat_opt l) as [b|]; [|discriminate]. inversion H. eauto.
Qed.

Lemma split_length : forall {A} (rs : list A) n m, List.length rs = n + m ->
  exists r1 r2, rs = r1 ++ r2 /\ List.length r1 = n /\ List.length r2 = m.
Proof.
  intros A rs n m H. exists (firstn n rs), (skipn n rs). split; [symmetry; apply firstn_skipn|].
  split; [rewrite firstn_length; lia | rewrite skipn_length; lia].
Qed.

(** ** unfolding equations *)
Lemma extract_keys_arr : forall rep path l,
  extract_keys rep path (JArr l) = concat_opt (map (extract_keys rep path) l).
Proof. intros rep path l. destruct path as [|[name|t] rest]; reflexivity. Qed.

Lemma graft_arr : forall path l rs,
  graft path (JArr l) rs =
  match graft_list (graft path) l rs with Some (l', rs') => Some (JArr l', rs') | None => None end.
Proof. intros path l rs. destruct path as [|[name|t] rest]; reflexivity. Qed.

Lemma extract_keys_nil_obj : forall rep kvs,
  extract_keys rep [] (JObj kvs) = match lookup federation_field kvs with Some k => Some [k] | None => None end.
Proof. reflexivity. Qed.

Lemma extract_keys_field_obj : forall rep name rest kvs,
  extract_keys rep (SField name :: rest) (JObj kvs) =
  match lookup name kvs with None => None | Some next => extract_keys rep rest next end.
Proof. reflexivity. Qed.

Lemma extract_keys_type_obj : forall rep t rest kvs,
  extract_keys rep (SType t :: rest) (JObj kvs) =
  match lookup "__typename" kvs with
  | Some (JStr s) => if String.eqb s t then extract_keys rep rest (JObj kvs) else Some []
  | _ => None
  end.
Proof. reflexivity. Qed.

Lemma graft_nil_obj : forall kvs rs,
  graft [] (JObj kvs) rs =
  match rs with
  | JObj r :: rs' => match merge_result kvs r with Some kvs' => Some (JObj kvs', rs') | None => None end
  | _ => None
  end.
Proof. reflexivity. Qed.

Lemma graft_field_obj : forall name rest kvs rs,
  graft (SField name :: rest) (JObj kvs) rs =
  match lookup name kvs with
  | None => None
  | Some next => match graft rest next rs with
                 | Some (next', rs') => Some (JObj (set_key name next' kvs), rs')
                 | None => None
                 end
  end.
Proof. reflexivity. Qed.

Lemma graft_type_obj : forall t rest kvs rs,
  graft (SType t :: rest) (JObj kvs) rs =
  match lookup "__typename" kvs with
  | Some (JStr s) => if String.eqb s t then graft rest (JObj kvs) rs else Some (JObj kvs, rs)
  | _ => None
  end.
Proof. reflexivity. Qed.

(** ** [graft] consumes exactly as many results as [extract_keys] found keys, from the front *)
Definition consumes (path : list step) (node : json) : Prop :=
  forall ks rs extra node' rest,
    extract_keys true path node = Some ks -> List.length rs = List.length ks ->
    graft path node (rs ++ extra) = Some (node', rest) -> rest = extra.

Lemma consumes_arr : forall path l, Forall (consumes path) l -> consumes path (JArr l).
Proof.
  intros path l HF ks rs extra node' rest Hk Hl Hg.
  rewrite extract_keys_arr in Hk. rewrite graft_arr in Hg.
  destruct (graft_list (graft path) l (rs ++ extra)) as [[l' rs']|] eqn:Eg; [|discriminate].
  inversion Hg; subst node' rest. clear Hg.
  revert ks Hk rs extra l' rs' Hl Eg.
  induction HF as [|e t He Ht IHl]; intros ks Hk rs extra l' rs' Hl Eg; simpl in Hk, Eg.
  - inversion Hk; subst ks. destruct rs; [|discriminate]. inversion Eg; reflexivity.
  - apply concat_opt_cons in Hk as [k1 [k2 [Hk1 [Hk2 ->]]]].
    rewrite app_length in Hl. destruct (split_length rs _ _ Hl) as [r1 [r2 [-> [L1 L2]]]].
    rewrite <- app_assoc in Eg.
    destruct (graft path e (r1 ++ r2 ++ extra)) as [[e' rs1]|] eqn:E1; [|discriminate].
    pose proof (He k1 r1 (r2 ++ extra) e' rs1 Hk1 L1 E1) as ->.
    destruct (graft_list (graft path) t (r2 ++ extra)) as [[t' rs2]|] eqn:E2; [|discriminate].
    inversion Eg; subst. eapply IHl; eauto.
Qed.

Theorem graft_consumes : forall path node, consumes path node.
Proof.
  induction path as [|s rest IHp]; intros node.
  - induction node using json_ind'; try (intros ks rs extra node' rest Hk Hl Hg; simpl in Hk; discriminate).
    + intros ks rs extra node' rest Hk Hl Hg. simpl in Hk, Hg. inversion Hk; subst ks.
      destruct rs; [|discriminate]. inversion Hg; reflexivity.
    + apply consumes_arr; assumption.
    + intros ks rs extra node' rest Hk Hl Hg. rewrite extract_keys_nil_obj in Hk. rewrite graft_nil_obj in Hg.
      destruct (lookup federation_field l) as [k|]; [|discriminate]. inversion Hk; subst ks.
      destruct rs as [|r [|]]; simpl in Hl; try discriminate. simpl in Hg.
      destruct r; try discriminate. destruct (merge_result l l0); [|discriminate]. inversion Hg; reflexivity.
  - destruct s as [name|t].
    + induction node using json_ind';
        try (intros ks rs extra node' rest0 Hk Hl Hg; simpl in Hk, Hg; inversion Hk; subst ks;
             destruct rs; [|discriminate]; inversion Hg; reflexivity).
      * apply consumes_arr; assumption.
      * intros ks rs extra node' rest0 Hk Hl Hg. rewrite extract_keys_field_obj in Hk. rewrite graft_field_obj in Hg.
        destruct (lookup name l) as [next|]; [|discriminate].
        destruct (graft rest next (rs ++ extra)) as [[next' rs']|] eqn:E; [|discriminate].
        inversion Hg; subst. eapply IHp; eauto.
    + induction node using json_ind';
        try (intros ks rs extra node' rest0 Hk Hl Hg; simpl in Hk, Hg; inversion Hk; subst ks;
             destruct rs; [|discriminate]; inversion Hg; reflexivity).
      * apply consumes_arr; assumption.
      * intros ks rs extra node' rest0 Hk Hl Hg. rewrite extract_keys_type_obj in Hk. rewrite graft_type_obj in Hg.
        destruct (lookup "__typename" l) as [[| | |s| |]|]; try discriminate.
        destruct (String.eqb s t).
        -- eapply IHp; eauto.
        -- inversion Hk; subst ks. destruct rs; [|discriminate]. inversion Hg; reflexivity.
Qed.
