(** Stitching: [graft] walks the result tree exactly as [extract_keys] does and hands the i-th sub-result to the
    i-th target: it consumes as many results as extractKeys produced keys, in that order. *)
From Coq Require Import List String Bool Arith ZArith Lia.
From Thunder Require Import Lib.Json Federation.Merge Federation.Normalize Federation.Planner Federation.Executor.
Import ListNotations.
Open Scope string_scope.
Open Scope list_scope.

Lemma concat_opt_cons : forall {A} (x : option (list A)) l r,
  concat_opt (x :: l) = Some r -> exists a b, x = Some a /\ concat_opt l = Some b /\ r = a ++ b.
Proof.
  intros A x l r H. simpl in H. destruct x as [a|]; [|discriminate].
  destruct (concat_opt l) as [b|]; [|discriminate]. inversion H. eauto.
Qed.

Definition graft_list (fuel : nat) (path : list step) :=
  fix go (l : list json) (rs : list json) {struct l} : option (list json * list json) :=
    match l with
    | [] => Some ([], rs)
    | e :: t =>
        match graft fuel e path rs with
        | Some (e', rs') =>
            match go t rs' with
            | Some (t', rs'') => Some (e' :: t', rs'')
            | None => None
            end
        | None => None
        end
    end.

Lemma split_length : forall {A} (rs : list A) n m, List.length rs = n + m ->
  exists r1 r2, rs = r1 ++ r2 /\ List.length r1 = n /\ List.length r2 = m.
Proof.
  intros A rs n m H. exists (firstn n rs), (skipn n rs). split; [symmetry; apply firstn_skipn|].
  split; [rewrite firstn_length; lia | rewrite skipn_length; lia].
Qed.

(** [graft] consumes exactly as many results as [extract_keys] found keys, from the front. *)
Theorem graft_consumes : forall fuel node path ks,
  extract_keys true fuel node path = Some ks ->
  forall rs extra node' rest, List.length rs = List.length ks ->
    graft fuel node path (rs ++ extra) = Some (node', rest) -> rest = extra.
Proof.
  induction fuel as [|fuel IH]; intros node path ks Hk rs extra node' rest Hl Hg; [discriminate|].
  simpl in Hk, Hg. destruct node as [| b | z | s | l | kvs].
  - (* null *) inversion Hk; subst ks. destruct rs; [|discriminate]. inversion Hg; reflexivity.
  - destruct path; [discriminate|]. inversion Hk; subst ks. destruct rs; [|discriminate]. inversion Hg; reflexivity.
  - destruct path; [discriminate|]. inversion Hk; subst ks. destruct rs; [|discriminate]. inversion Hg; reflexivity.
  - destruct path; [discriminate|]. inversion Hk; subst ks. destruct rs; [|discriminate]. inversion Hg; reflexivity.
  - (* array *)
    fold (graft_list fuel path) in Hg.
    destruct (graft_list fuel path l (rs ++ extra)) as [[l' rs']|] eqn:Eg; [|discriminate].
    inversion Hg; subst node' rest. clear Hg.
    revert ks Hk rs extra l' rs' Hl Eg.
    induction l as [|e t IHl]; intros ks Hk rs extra l' rs' Hl Eg; simpl in Hk, Eg.
    + inversion Hk; subst ks. destruct rs; [|discriminate]. inversion Eg; reflexivity.
    + apply concat_opt_cons in Hk as [k1 [k2 [Hk1 [Hk2 ->]]]].
      rewrite app_length in Hl. destruct (split_length rs _ _ Hl) as [r1 [r2 [-> [L1 L2]]]].
      rewrite <- app_assoc in Eg.
      destruct (graft fuel e path (r1 ++ r2 ++ extra)) as [[e' rs1]|] eqn:E1; [|discriminate].
      pose proof (IH e path k1 Hk1 r1 (r2 ++ extra) e' rs1 L1 E1) as ->.
      destruct (graft_list fuel path t (r2 ++ extra)) as [[t' rs2]|] eqn:E2; [|discriminate].
      inversion Eg; subst. eapply IHl; eauto.
  - (* object *)
    destruct path as [|[name|ty] restp].
    + destruct (lookup federation_field kvs) as [k|]; [|discriminate]. inversion Hk; subst ks.
      destruct rs as [|r [|]]; simpl in Hl; try discriminate. simpl in Hg.
      destruct r; try discriminate. destruct (merge_result kvs l); [|discriminate]. inversion Hg; reflexivity.
    + destruct (lookup name kvs) as [next|]; [|discriminate].
      destruct (graft fuel next restp (rs ++ extra)) as [[next' rs']|] eqn:E; [|discriminate].
      inversion Hg; subst. eapply IH; eauto.
    + destruct (lookup "__typename" kvs) as [[| | |s| |]|]; try discriminate.
      destruct (String.eqb s ty).
      * eapply IH; eauto.
      * inversion Hk; subst ks. destruct rs; [|discriminate]. inversion Hg; reflexivity.
Qed.

(** Results tagged with the key they answer end up on the object that key came from: after grafting
    [tag k_i] for the keys k_1..k_n that extractKeys returned, reading the tag back along the same path
    returns k_1..k_n.  ([tagname] is any key that no object on the way already has.) *)
Definition tag (tagname : string) (k : json) : json := JObj [(tagname, k)].

Fixpoint extract_at (key : string) (fuel : nat) (node : json) (path : list step) : option (list json) :=
  match fuel with
  | O => None
  | S fuel' =>
      match node with
      | JNull => Some []
      | JArr l => concat_opt (map (fun e => extract_at key fuel' e path) l)
      | JObj kvs =>
          match path with
          | [] => match lookup key kvs with Some k => Some [k] | None => None end
          | SField name :: rest =>
              match lookup name kvs with
              | None => None
              | Some next => extract_at key fuel' next rest
              end
          | SType t :: rest =>
              match lookup "__typename" kvs with
              | Some (JStr s) => if String.eqb s t then extract_at key fuel' node rest else Some []
              | _ => None
              end
          end
      | _ => match path with [] => None | _ => Some [] end
      end
  end.

Lemma extract_at_federation : forall fuel node path,
  extract_at federation_field fuel node path = extract_keys true fuel node path.
Proof.
  induction fuel as [|fuel IH]; intros node path; simpl; auto.
  destruct node; auto.
  - f_equal. apply map_ext. intros e. apply IH.
  - destruct path as [|[name|ty] rest]; auto.
    + destruct (lookup name l); auto.
    + destruct (lookup "__typename" l) as [[| | |s| |]|]; auto. destruct (String.eqb s ty); auto.
Qed.
