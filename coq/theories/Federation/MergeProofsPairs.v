(** When does the success of mergeSchemaSlice depend on the order?  Never, if every PAIR of the schemas merges:
    compatibility with a third schema is preserved by merging (bottom-up instances of [mrg_closed]), so a
    pairwise compatible list folds successfully in every order -- and by [merge_slice_perm] with the same
    result.  Hence the fold guarded by an all-pairs check ([merge_slice_checked], the reading of
    patches/C09-fix-1) is invariant under permutation, failure included. *)
From Coq Require Import List String Bool Arith Lia Permutation.
From Thunder Require Import Lib.Json Federation.Merge Federation.MergeProofsBase Federation.MergeProofsTref
  Federation.MergeProofs Federation.MergeProofsValid Federation.MergeProofsComm Federation.MergeProofsNary
  Federation.MergeProofsShape Federation.MergeProofsPerm Federation.MergeProofsMore.
Import ListNotations.
Open Scope string_scope.
Open Scope list_scope.

Lemma compat_option_map : forall {T U} (op : T -> T -> option T) (g : U -> U -> option U) (f : U -> T) (k : U -> T -> U),
  (forall a b, g a b = option_map (k a) (op (f a) (f b))) ->
  forall a b, compat g a b <-> compat op (f a) (f b).
Proof.
  intros T U op g f k H a b. unfold compat. rewrite H. destruct (op (f a) (f b)); simpl; split; congruence.
Qed.

(** ** input fields *)
Lemma compat_ifield_iff : forall a b, compat ifield_pair a b <-> compat (merge_tref true) (if_type a) (if_type b).
Proof.
  intros a b. unfold compat, ifield_pair. destruct (merge_tref true (if_type a) (if_type b)); simpl; split; congruence.
Qed.

Lemma ifield_closed : forall n, closedP ifield_pair (fun x => True /\ if_name x = n).
Proof.
  intros n a y z [_ Na] [_ Ny] H. destruct (ifield_pair_hom n a y z Na Ny H) as [Ht Nz].
  split; auto. intros c _ Ca Cy. apply compat_ifield_iff in Ca, Cy. apply compat_ifield_iff.
  destruct (merge_tref_closed true _ _ _ I I Ht) as [_ Hc]. apply Hc; auto.
Qed.

Lemma ifield_bad_mono : forall a y z, True -> True -> if_name a = if_name y -> ifield_pair a y = Some z ->
  if_bad z = true -> if_bad a = true \/ if_bad y = true.
Proof.
  intros a y z _ _ Hn H Hb. destruct (ifield_pair_hom _ a y z eq_refl (eq_sym Hn) H) as [Ht _].
  apply merge_tref_nonnull in Ht. unfold if_bad in *. rewrite Ht in Hb. simpl in Hb. apply orb_prop in Hb. exact Hb.
Qed.

Lemma input_fields_closed : forall md, closedP (merge_input_fields md) GI.
Proof.
  intros md. rewrite merge_input_fields_mrg.
  apply (mrg_closed if_name if_bad ifield_pair md ifield_pair_name (fun _ => True) ifield_closed ifield_bad_mono).
Qed.

(** ** fields *)
Lemma compat_field_iff : forall md a b, compat (field_pair md) a b <->
  compat (merge_tref false) (f_type a) (f_type b) /\ compat (merge_input_fields md) (f_args a) (f_args b).
Proof.
  intros md a b. unfold compat, field_pair.
  destruct (merge_tref false (f_type a) (f_type b)); destruct (merge_input_fields md (f_args a) (f_args b));
    (split; [intros H; split; congruence | intros [H1 H2]; congruence]).
Qed.

Lemma field_closed : forall md n, closedP (field_pair md) (fun x => wf_fieldP x /\ f_name x = n).
Proof.
  intros md n a y z Ia Iy H. destruct (field_pair_hom_type md n a y z Ia Iy H) as [Ht Iz].
  destruct (field_pair_hom_args md n a y z Ia Iy H) as [Ha _].
  split; auto. intros c [Wc _] Ca Cy. apply compat_field_iff in Ca as [Ca1 Ca2]. apply compat_field_iff in Cy as [Cy1 Cy2].
  apply compat_field_iff. split.
  - destruct (merge_tref_closed false _ _ _ I I Ht) as [_ Hc]. apply Hc; auto.
  - destruct (input_fields_closed md _ _ _ (GI_nodup _ (proj1 Ia)) (GI_nodup _ (proj1 Iy)) Ha) as [_ Hc].
    apply Hc; auto. apply GI_nodup. exact Wc.
Qed.

Lemma no_bad_mono : forall {A} (G : A -> Prop) (name : A -> string) (pair : A -> A -> option A) (a y z : A),
  G a -> G y -> name a = name y -> pair a y = Some z -> @no_bad A z = true -> @no_bad A a = true \/ @no_bad A y = true.
Proof. intros. discriminate. Qed.

Lemma fields_closed : forall md, closedP (merge_fields md) GF.
Proof.
  intros md. rewrite merge_fields_mrg.
  apply (mrg_closed f_name no_bad (field_pair md) md (field_pair_name md) wf_fieldP (field_closed md)
           (no_bad_mono wf_fieldP f_name (field_pair md))).
Qed.

(** ** "first one wins" lists *)
Lemma first_closed : forall {A} (G : A -> Prop), closedP (fun (x _ : A) => Some x) G.
Proof.
  intros A G a y z Ga _ H. inversion H; subst. split; auto.
Qed.

Definition GP : list pref -> Prop := GL fst (fun _ => True).
Definition GE : list string -> Prop := GL (fun x : string => x) (fun _ => True).

Lemma prefs_closed : forall md, closedP (merge_prefs md) GP.
Proof.
  intros md. rewrite merge_prefs_mrg.
  apply (mrg_closed fst no_bad (fun x _ => Some x) md
           (fun x y z H => f_equal fst (eq_sym (f_equal (fun o => match o with Some v => v | None => x end) H)))
           (fun _ => True) (fun n => first_closed _) (no_bad_mono (fun _ => True) fst (fun x _ => Some x))).
Qed.

Lemma enums_closed : forall md, closedP (merge_enums md) GE.
Proof.
  intros md. rewrite merge_enums_mrg.
  apply (mrg_closed (fun x : string => x) no_bad (fun x _ => Some x) md
           (fun x y z H => eq_sym (f_equal (fun o => match o with Some v => v | None => x end) H))
           (fun _ => True) (fun n => first_closed _) (no_bad_mono (fun _ => True) (fun x : string => x) (fun x _ => Some x))).
Qed.

(** ** types *)
Definition comp_compat (md : mode) (a c : itype) : Prop :=
  (t_kind a = "INPUT_OBJECT" /\ compat (merge_input_fields md) (t_inputs a) (t_inputs c)) \/
  (t_kind a = "OBJECT" /\ compat (merge_fields md) (t_fields a) (t_fields c)) \/
  (t_kind a = "UNION" /\ compat (merge_prefs md) (t_possible a) (t_possible c)) \/
  (t_kind a = "INTERFACE" /\ compat (merge_prefs md) (t_interfaces a) (t_interfaces c)) \/
  (t_kind a = "ENUM" /\ compat (merge_enums md) (t_enums a) (t_enums c)) \/
  t_kind a = "SCALAR".

Lemma compat_types_iff : forall md a c, compat (merge_types md) a c <-> t_kind c = t_kind a /\ comp_compat md a c.
Proof.
  intros md a c. unfold comp_compat. split.
  - intros H. unfold compat in *. destruct (merge_types md a c) as [z|] eqn:E; [|congruence].
    destruct (merge_types_shape _ _ _ _ E) as [Kc [_ [_ [_ S]]]]. split; auto.
    destruct S as [[K S]|[[K S]|[[K S]|[[K S]|[[K S]|K]]]]];
      [left|right;left|right;right;left|right;right;right;left|right;right;right;right;left|auto 10];
      (split; [exact K|]); unfold compat; rewrite S; discriminate.
  - intros [Kc S]. unfold compat, merge_types. rewrite Kc, String.eqb_refl. simpl.
    destruct S as [[K S]|[[K S]|[[K S]|[[K S]|[[K S]|K]]]]]; rewrite K; simpl; unfold compat in *;
      try (match goal with |- option_map _ ?o <> None => destruct o; simpl; congruence end).
    discriminate.
Qed.

Definition wf_typeP (t : itype) : Prop := wf_type t = true.

Lemma types_closed : forall md n, closedP (merge_types md) (fun x => wf_typeP x /\ t_name x = n).
Proof.
  intros md n a y z [Wa Na] [Wy Ny] H.
  destruct (merge_types_shape _ _ _ _ H) as [Ky [Kz [Nz [_ S]]]].
  split; [split; [exact (merge_types_wf md a y z Wa Wy H) | congruence]|].
  intros c [Wc _] Ca Cy. apply compat_types_iff in Ca as [Kc Sa]. apply compat_types_iff in Cy as [Kc' Sy].
  apply compat_types_iff. split; [congruence|].
  destruct (wf_type_parts a Wa) as [Fa [Aa [Ia [Pa [Ea Ja]]]]].
  destruct (wf_type_parts y Wy) as [Fy [Ay [Iy [Py [Ey Jy]]]]].
  destruct (wf_type_parts c Wc) as [Fc [Ac [Ic [Pc [Ec Jc]]]]].
  assert (GPn : forall l, NoDup (map fst l) -> GP l) by (intros l Hl; split; auto; apply Forall_forall; auto).
  assert (GEn : forall l, NoDup l -> GE l) by (intros l Hl; split; [rewrite map_id; auto | apply Forall_forall; auto]).
  assert (GFn : forall t, wf_type t = true -> GF (t_fields t)).
  { intros t Wt. destruct (wf_type_parts t Wt) as [F1 [F2 _]]. split; auto. apply Forall_forall. exact F2. }
  unfold comp_compat in *. rewrite Kz. rewrite Ky in Sy.
  destruct S as [[K S]|[[K S]|[[K S]|[[K S]|[[K S]|K]]]]];
    destruct Sa as [[K1 Sa]|[[K1 Sa]|[[K1 Sa]|[[K1 Sa]|[[K1 Sa]|K1]]]]]; try (exfalso; congruence);
    destruct Sy as [[K2 Sy]|[[K2 Sy]|[[K2 Sy]|[[K2 Sy]|[[K2 Sy]|K2]]]]]; try (exfalso; congruence).
  - left. split; auto.
    destruct (input_fields_closed md _ _ _ (GI_nodup _ Ia) (GI_nodup _ Iy) S) as [_ Hc]. apply Hc; auto. apply GI_nodup; auto.
  - right; left. split; auto.
    destruct (fields_closed md _ _ _ (GFn a Wa) (GFn y Wy) S) as [_ Hc]. apply Hc; auto.
  - right; right; left. split; auto.
    destruct (prefs_closed md _ _ _ (GPn _ Pa) (GPn _ Py) S) as [_ Hc]. apply Hc; auto.
  - right; right; right; left. split; auto.
    destruct (prefs_closed md _ _ _ (GPn _ Ja) (GPn _ Jy) S) as [_ Hc]. apply Hc; auto.
  - right; right; right; right; left. split; auto.
    destruct (enums_closed md _ _ _ (GEn _ Ea) (GEn _ Ey) S) as [_ Hc]. apply Hc; auto.
  - auto 10.
Qed.

(** ** schemas *)
Definition GW : schema -> Prop := GL t_name wf_typeP.

Lemma GW_wf : forall s, GW s <-> wf_schema s = true.
Proof.
  intros s. unfold GW, GL, wf_typeP, wf_schema. rewrite andb_true_iff, nodup_str_NoDup, forallb_forall, Forall_forall. tauto.
Qed.

Lemma schemas_closed : forall md, closedP (merge_schemas md) GW.
Proof.
  intros md. rewrite merge_schemas_mrg.
  apply (mrg_closed t_name no_bad (merge_types md) md (merge_types_name md) wf_typeP (types_closed md)
           (no_bad_mono wf_typeP t_name (merge_types md))).
Qed.

(** Compatibility with a third schema is preserved by mergeSchemas (either mode). *)
Theorem merge_preserves_compat : forall md a b m c,
  wf_schema a = true -> wf_schema b = true -> wf_schema c = true -> merge_schemas md a b = Some m ->
  merge_schemas md a c <> None -> merge_schemas md b c <> None -> merge_schemas md m c <> None.
Proof.
  intros md a b m c Wa Wb Wc H Ca Cb.
  destruct (schemas_closed md a b m (proj2 (GW_wf a) Wa) (proj2 (GW_wf b) Wb) H) as [_ Hc].
  apply (Hc c (proj2 (GW_wf c) Wc) Ca Cb).
Qed.

(** If every pair merges, the fold succeeds. *)
Theorem pairwise_fold_succeeds : forall md l, l <> [] -> (forall v, In v l -> wf_schema v = true) ->
  allpairs (compat (merge_schemas md)) l -> exists r, merge_slice md l = Some r.
Proof.
  intros md l Hne W HP. rewrite merge_slice_oslice.
  destruct (oslice_succeeds (merge_schemas md) GW (schemas_closed md) l Hne) as [r [Hr _]]; eauto.
  apply Forall_forall. intros s Hs. apply GW_wf. auto.
Qed.

(** ** the guarded fold *)
Lemma all_pairs_ok_iff : forall md l, all_pairs_ok md l = true <-> allpairs (compat (merge_schemas md)) l.
Proof.
  intros md l. induction l as [|x t IH]; simpl; [tauto|].
  rewrite andb_true_iff, IH, forallb_forall, Forall_forall. unfold compat.
  split; intros [H1 H2]; split; auto; intros y Hy; specialize (H1 y Hy); destruct (merge_schemas md x y); simpl in *; congruence.
Qed.

Section Sym.
  Variable md : mode.
  Variable l : list schema.
  Hypothesis W : forall v, In v l -> wf_schema v = true.
  Hypothesis Hag : forall a b, In a l -> In b l -> schemas_agree a b.

  Lemma compat_sym_in : forall a b, In a l -> In b l -> compat (merge_schemas md) a b -> compat (merge_schemas md) b a.
  Proof. intros a b Ia Ib H. unfold compat in *. rewrite <- (merge_schemas_comm md a b); auto. Qed.

  Lemma allpairs_compat_perm : forall l', Permutation l l' ->
    allpairs (compat (merge_schemas md)) l -> allpairs (compat (merge_schemas md)) l'.
  Proof.
    intros l' HP. apply (allpairs_perm (compat (merge_schemas md)) (fun s => In s l)); auto.
    - intros a b Ia Ib. apply compat_sym_in; auto.
    - apply Forall_forall. auto.
  Qed.
End Sym.

(** B: pairwise compatible => every order succeeds, all with the same result. *)
Theorem pairwise_every_order : forall md l l',
  l <> [] -> (forall v, In v l -> wf_schema v = true) -> (forall a b, In a l -> In b l -> schemas_agree a b) ->
  allpairs (compat (merge_schemas md)) l -> Permutation l l' ->
  exists r, merge_slice md l = Some r /\ merge_slice md l' = Some r.
Proof.
  intros md l l' Hne W Hag HP Hperm.
  destruct (pairwise_fold_succeeds md l Hne W HP) as [r Hr].
  assert (W' : forall v, In v l' -> wf_schema v = true).
  { intros v Hv. apply W. eapply Permutation_in; [apply Permutation_sym; exact Hperm | exact Hv]. }
  assert (Hne' : l' <> []).
  { intros E. subst l'. apply Permutation_sym, Permutation_nil in Hperm. contradiction. }
  destruct (pairwise_fold_succeeds md l' Hne' W' (allpairs_compat_perm md l W Hag l' Hperm HP)) as [r' Hr'].
  exists r. split; auto. rewrite Hr'. f_equal. symmetry. exact (merge_slice_perm md l l' r r' W Hag Hperm Hr Hr').
Qed.

(** The guarded fold does not depend on the order at all. *)
Theorem merge_slice_checked_perm : forall md l l',
  (forall v, In v l -> wf_schema v = true) -> (forall a b, In a l -> In b l -> schemas_agree a b) ->
  Permutation l l' -> merge_slice_checked md l = merge_slice_checked md l'.
Proof.
  intros md l l' W Hag Hperm. unfold merge_slice_checked.
  assert (W' : forall v, In v l' -> wf_schema v = true).
  { intros v Hv. apply W. eapply Permutation_in; [apply Permutation_sym; exact Hperm | exact Hv]. }
  assert (Hag' : forall a b, In a l' -> In b l' -> schemas_agree a b).
  { intros a b Ia Ib. apply Hag; eapply Permutation_in; try (apply Permutation_sym; exact Hperm); auto. }
  destruct (all_pairs_ok md l) eqn:E.
  - apply all_pairs_ok_iff in E.
    pose proof (allpairs_compat_perm md l W Hag l' Hperm E) as E'. apply all_pairs_ok_iff in E'. rewrite E'.
    destruct l as [|s t].
    + apply Permutation_nil in Hperm. subst. reflexivity.
    + destruct (pairwise_every_order md (s :: t) l' ltac:(discriminate) W Hag E Hperm) as [r [H1 H2]]. congruence.
  - destruct (all_pairs_ok md l') eqn:E'; auto. exfalso.
    apply all_pairs_ok_iff in E'.
    pose proof (allpairs_compat_perm md l' W' Hag' l (Permutation_sym Hperm) E') as E2. apply all_pairs_ok_iff in E2. congruence.
Qed.

(** What the guard costs: where it accepts, it changes nothing. *)
Lemma merge_slice_checked_some : forall md l r, merge_slice_checked md l = Some r -> merge_slice md l = Some r.
Proof. intros md l r H. unfold merge_slice_checked in H. destruct (all_pairs_ok md l); [exact H | discriminate]. Qed.

(** The converse of B fails: the plain fold can succeed although a pair is incompatible (the field is dropped
    before the incompatible version is seen) -- exactly the sets the guarded fold newly refuses. *)
Theorem pairwise_converse_refuted : exists l r,
  (forall v, In v l -> wf_schema v = true) /\ merge_slice Intersection l = Some r /\
  ~ allpairs (compat (merge_schemas Intersection)) l /\ merge_slice_checked Intersection l = None.
Proof.
  exists [ord_v1; ord_v3; ord_v2], [query_of [mk_field "h" INT []]; sc_int].
  split; [|split; [|split]].
  - intros v [<-|[<-|[<-|[]]]]; reflexivity.
  - reflexivity.
  - intros H. apply all_pairs_ok_iff in H. vm_compute in H. discriminate.
  - reflexivity.
Qed.

(** The same dependence on the order exists in Union mode (service names): a: f(x: Int), b: f(x: Int!), c: f().
    Folded a,b,c the union fails (x is NON_NULL after a+b and c lacks it); folded a,c,b it succeeds.  The pair b,c is
    incompatible, so the guarded fold refuses both orders.  (corpus/C09/order-dependent-error-union.json) *)
Definition uord_a : schema := [sc_int; query_of [mk_field "f" INT [mk_ifield "x" INT]]].
Definition uord_b : schema := [sc_int; query_of [mk_field "f" INT [mk_ifield "x" (TNonNull INT)]]].
Definition uord_c : schema := [sc_int; query_of [mk_field "f" INT []]].

Theorem union_error_depends_on_order : exists a b c m,
  wf_schema a = true /\ wf_schema b = true /\ wf_schema c = true /\
  merge_slice Union [a; c; b] = Some m /\ merge_slice Union [a; b; c] = None /\
  merge_slice_checked Union [a; c; b] = None /\ merge_slice_checked Union [a; b; c] = None.
Proof.
  exists uord_a, uord_b, uord_c, [query_of [mk_field "f" INT [mk_ifield "x" (TNonNull INT)]]; sc_int].
  vm_compute. repeat split; reflexivity.
Qed.
