(** subquery_closed: every selection the planner puts into the sub-plan of a service is a field that service
    serves (or __typename), at every depth, for the sub-plans of sub-plans too. *)
From Coq Require Import List String Bool Arith ZArith Lia.
From Thunder Require Import Lib.Json Federation.Merge Federation.MergeProofsBase Federation.Normalize Federation.Planner.
Import ListNotations.
Open Scope string_scope.
Open Scope list_scope.

Lemma plan_closed_eq : forall g path svc ty sels after,
  plan_closed g (Plan path svc ty sels after) =
  forallb (closed_node g svc (RObj ty)) sels && forallb (plan_closed g) after.
Proof.
  intros. simpl. f_equal.
Qed.

Lemma plan_closed_push : forall g s p, plan_closed g (push_step s p) = plan_closed g p.
Proof. intros g s [path svc ty sels after]. unfold push_step. rewrite !plan_closed_eq. reflexivity. Qed.

Lemma mapo_Forall2 : forall {A B} (f : A -> option B) l r, mapo f l = Some r -> Forall2 (fun x y => f x = Some y) l r.
Proof.
  intros A B f l. induction l as [|x t IH]; intros r H; simpl in H.
  - inversion H. constructor.
  - destruct (f x) as [y|] eqn:E; [|discriminate]. destruct (mapo f t) as [r'|] eqn:E'; [|discriminate].
    inversion H; subst. constructor; auto.
Qed.

Section Closed.
  Variable g : gschema.
  Variable pick : list string -> option string.

  (** [svc] serves every field of the plain object *)
  Definition serves (svc : string) : Prop :=
    forall f rty owners, find_gfield g "Leaf" f = Some (rty, owners) -> In svc owners.

  (** [svc] can be sent selections on [ty]: it has _federation on it -- or [ty] is the plain object and it serves all of it *)
  Definition knows (svc ty : string) : Prop :=
    (ty <> "Leaf" /\ owns g svc ty federation_field = true) \/ (ty = "Leaf" /\ serves svc).

  (** what the federation's own validation guarantees about the services (validateFederatedObjects,
      validateFederationKeys, and a service registering the objects its fields return) *)
  Hypothesis pick_sound : forall l s, pick l = Some s -> In s l.
  Hypothesis keys_served : forall ty svc others,
    ty <> "Leaf" -> owns g svc ty federation_field = true -> closed_node g svc (RObj ty) (key_selection g ty others) = true.
  Hypothesis owner_knows : forall svc ty f, ty <> "Leaf" -> owns g svc ty f = true -> owns g svc ty federation_field = true.
  Hypothesis leaf_no_selector : forall f rty owners, find_gfield g "Leaf" f = Some (rty, owners) -> selector_of g "Leaf" f = None.
  Hypothesis returns_known_obj : forall svc ty f o owners,
    find_gfield g ty f = Some (RObj o, owners) -> In svc owners ->
    ~ (ty = "Query" /\ f = federation_field) -> knows svc o.
  Hypothesis nothing_returns_query : forall ty f o owners,
    find_gfield g ty f = Some (RObj o, owners) -> o <> "Query".
  Hypothesis no_query_member : forall u ms, union_members g u = Some ms -> ~ In "Query" ms.
  Hypothesis returns_known_union : forall svc ty f u owners ms m,
    find_gfield g ty f = Some (RUnion u, owners) -> In svc owners ->
    ~ (ty = "Query" /\ f = federation_field) ->
    union_members g u = Some ms -> In m ms -> knows svc m.

  Definition ctx_known (svc : string) (ty : rtype) : Prop :=
    match ty with
    | RScalar => True
    | RObj o => knows svc o
    | RUnion u => forall ms m, union_members g u = Some ms -> In m ms -> knows svc m
    end.

  Lemma select_service_owner : forall ty cur f owners s,
    select_service g pick ty cur f owners = Some s -> In s owners.
  Proof.
    intros ty cur f owners s H. unfold select_service in H.
    destruct (selector_of g ty f) as [sel|].
    - destruct (existsb (String.eqb sel) owners) eqn:E; [|discriminate]. inversion H; subst. apply existsb_eqb_In; exact E.
    - destruct (existsb (String.eqb cur) owners) eqn:E.
      + inversion H; subst. apply existsb_eqb_In; exact E.
      + apply pick_sound; exact H.
  Qed.

  Lemma target_of_spec : forall obj cur n n' s, target_of g pick obj cur n = Some (n', s) ->
    n' = n /\ exists al nm args ak dirs hs subs, n = NField al nm args ak dirs hs subs /\
      ((nm = "__typename" /\ s = cur) \/
       (exists rty owners, find_gfield g obj nm = Some (rty, owners) /\ In s owners)).
  Proof.
    intros obj cur n n' s H. destruct n as [al nm args ak dirs hs subs|]; simpl in H; [|discriminate].
    destruct (String.eqb nm "__typename") eqn:E.
    - inversion H; subst. split; auto. exists al, nm, args, ak, dirs, hs, subs. split; auto. left.
      apply String.eqb_eq in E. auto.
    - destruct (find_gfield g obj nm) as [[rty owners]|] eqn:Ef; [|discriminate].
      destruct (select_service g pick obj cur nm owners) as [t|] eqn:Es; [|discriminate].
      inversion H; subst. split; auto. exists al, nm, args, ak, dirs, hs, subs. split; auto. right.
      exists rty, owners. split; auto. eapply select_service_owner; eauto.
  Qed.

  (** on the plain object, a service that serves all of it keeps every selection *)
  Lemma leaf_target : forall svc n n' s, serves svc -> target_of g pick "Leaf" svc n = Some (n', s) -> s = svc.
  Proof.
    intros svc n n' s Hserv H. destruct n as [al nm args ak dirs hs subs|]; simpl in H; [|discriminate].
    destruct (String.eqb nm "__typename"); [inversion H; reflexivity|].
    destruct (find_gfield g "Leaf" nm) as [[rty owners]|] eqn:Ef; [|discriminate].
    unfold select_service in H. rewrite (leaf_no_selector _ _ _ Ef) in H.
    pose proof (Hserv _ _ _ Ef) as Hin. apply (proj2 (existsb_eqb_In _ _)) in Hin. rewrite Hin in H. inversion H. reflexivity.
  Qed.

  Lemma in_owners_owns : forall svc ty f rty owners,
    find_gfield g ty f = Some (rty, owners) -> In svc owners -> owns g svc ty f = true.
  Proof. intros. unfold owns. rewrite H. apply existsb_eqb_In; auto. Qed.

  Theorem plan_ty_closed : forall fuel ty sels svc ss afters,
    plan_ty g pick fuel ty sels svc = Some (ss, afters) -> ctx_known svc ty ->
    (ty = RObj "Query" -> forallb not_fed sels = true) ->
    forallb (closed_node g svc ty) ss = true /\ forallb (plan_closed g) afters = true.
  Proof.
    induction fuel as [|fuel IH]; intros ty sels svc ss afters H Hctx Hnf; [discriminate|].
    simpl in H. destruct ty as [|obj|u]; [discriminate| |].
    - (* object *)
      destruct (mapo (target_of g pick obj svc) (filter (included) sels)) as [tagged|] eqn:Et; [|discriminate].
      pose proof (mapo_Forall2 _ _ _ Et) as Ftag.
      assert (Htag : forall n s, In (n, s) tagged -> In n sels /\
                exists al nm args ak dirs hs subs, n = NField al nm args ak dirs hs subs /\
                  ((nm = "__typename" /\ s = svc) \/
                   (exists rty owners, find_gfield g obj nm = Some (rty, owners) /\ In s owners))).
      { assert (Hsub : forall x, In x (filter included sels) -> In x sels) by (intros x Hx; apply filter_In in Hx; tauto).
        clear -Ftag pick_sound Hsub. intros n s Hin. induction Ftag as [|x [n' s'] l l' Hx _ IHF]; [contradiction|].
        destruct Hin as [Heq|Hin]; [|apply IHF; auto; intros y Hy; apply Hsub; right; exact Hy]. inversion Heq; subst.
        destruct (target_of_spec _ _ _ _ _ Hx) as [-> Hs]. split; [apply Hsub; left; reflexivity | exact Hs]. }
      assert (Htar : forall n s, In (n, s) tagged -> exists x, target_of g pick obj svc x = Some (n, s)).
      { clear -Ftag. intros n s Hin. induction Ftag as [|x p l l' Hx _ IHF]; [contradiction|].
        destruct Hin as [<-|Hin]; [exists x; exact Hx | apply IHF; exact Hin]. }
      remember (map fst (filter (fun p => String.eqb (snd p) svc) tagged)) as loc.
      remember (sorted_names (map snd (filter (fun p => negb (String.eqb (snd p) svc)) tagged))) as other_names.
      assert (Hleafnil : obj = "Leaf" -> serves svc -> other_names = []).
      { intros Hl Hserv. destruct other_names as [|o1 orest]; [reflexivity|]. exfalso.
        assert (Hin : In o1 (o1 :: orest)) by (left; reflexivity). rewrite Heqother_names in Hin.
        apply (proj1 (sorted_names_In _ _)) in Hin. apply in_map_iff in Hin as [[n s] [Hs Hin]]. simpl in Hs; subst s.
        apply filter_In in Hin as [Hin Hne]. simpl in Hne. destruct (Htar n o1 Hin) as [x Hx]. rewrite Hl in Hx.
        rewrite (leaf_target _ _ _ _ Hserv Hx) in Hne. rewrite String.eqb_refl in Hne. discriminate. }
      match type of H with match mapo ?f loc with _ => _ end = _ => destruct (mapo f loc) as [planned|] eqn:Ep; [|discriminate];
        pose proof (mapo_Forall2 _ _ _ Ep) as Fpl end.
      match type of H with match mapo ?f other_names with _ => _ end = _ => destruct (mapo f other_names) as [oplans|] eqn:Eo; [|discriminate];
        pose proof (mapo_Forall2 _ _ _ Eo) as Fo end.
      (* local selections *)
      assert (Hloc : forallb (closed_node g svc (RObj obj)) (map fst planned) = true /\
                     forallb (plan_closed g) (List.concat (map snd planned)) = true).
      { assert (Hlocin : forall n, In n loc -> exists s, In (n, s) tagged /\ s = svc).
        { intros n Hn. subst loc. apply in_map_iff in Hn as [[n' s] [Hn Hin]]. simpl in Hn; subst n'.
          apply filter_In in Hin as [Hin Hs]. simpl in Hs. apply String.eqb_eq in Hs. eauto. }
        clear Heqloc Ep H. induction Fpl as [|n [n' af] l l' Hn _ IHF]; simpl; [auto|].
        destruct (Hlocin n (or_introl eq_refl)) as [s [Hin ->]].
        destruct (Htag n svc Hin) as [Hinsels [al [nm [args [ak [dirs [hs [subs [-> Hcase]]]]]]]]].
        destruct IHF as [IH1 IH2]; [intros m Hm; apply Hlocin; right; exact Hm|].
        rewrite forallb_app, IH1, IH2, !andb_true_r.
        destruct hs.
        - destruct (String.eqb nm "__typename") eqn:Etn.
          + (* __typename with a selection set: RScalar cannot be planned *)
            simpl in Hn. destruct fuel; discriminate.
          + destruct Hcase as [[Hc _]|[rty [owners [Hf Hown]]]]; [subst nm; discriminate|].
            rewrite Hf in Hn. simpl in Hn.
            destruct (plan_ty g pick fuel rty subs svc) as [[cs cafters]|] eqn:Ec; [|discriminate].
            inversion Hn; subst n' af.
            assert (Hk : ctx_known svc rty).
            { assert (Hne : ~ (obj = "Query" /\ nm = federation_field)).
              { intros [Hq Hn']. subst obj nm.
                specialize (Hnf eq_refl). eapply forallb_forall in Hnf; [|exact Hinsels]. simpl in Hnf.
                discriminate. }
              destruct rty as [|o|u]; simpl; auto.
              - eapply returns_known_obj; eauto.
              - intros ms m Hu Hm. eapply returns_known_union; eauto. }
            assert (Hq' : rty = RObj "Query" -> forallb not_fed subs = true).
            { intros ->. exfalso. eapply nothing_returns_query; eauto. }
            destruct (IH _ _ _ _ _ Ec Hk Hq') as [C1 C2].
            split.
            * simpl. rewrite Etn, Hf. simpl. rewrite C1, andb_true_r. apply existsb_eqb_In; exact Hown.
            * clear -C2. induction cafters as [|x t IHc]; simpl in *; auto.
              apply andb_prop in C2 as [Cx Ct]. rewrite plan_closed_push, Cx. auto.
        - inversion Hn; subst n' af. split; [|reflexivity]. simpl.
          destruct Hcase as [[-> _]|[rty [owners [Hf Hown]]]]; [reflexivity|].
          rewrite Hf. simpl. rewrite andb_true_r.
          destruct (String.eqb nm "__typename"); auto. simpl. apply existsb_eqb_In; exact Hown. }
      destruct Hloc as [L1 L2].
      (* sub-plans of the other services *)
      assert (Hoth : forallb (plan_closed g) oplans = true).
      { pose proof Hctx as Hctx'. simpl in Hctx'. destruct Hctx' as [[Hnl Hown0]|[Hl Hserv]].
        2:{ rewrite (Hleafnil Hl Hserv) in Fo. inversion Fo. reflexivity. }
        assert (Hon : forall o, In o other_names -> knows o obj).
        { intros o Ho. subst other_names. apply (proj1 (sorted_names_In _ _)) in Ho. apply in_map_iff in Ho as [[n s] [Hs Hin]].
          simpl in Hs; subst s. apply filter_In in Hin as [Hin Hne]. simpl in Hne.
          destruct (Htag n o Hin) as [_ [al [nm [args [ak [dirs [hs [subs [-> Hcase]]]]]]]]].
          destruct Hcase as [[_ ->]|[rty [owners [Hf Hown]]]].
          - rewrite String.eqb_refl in Hne. discriminate.
          - left. split; [exact Hnl|]. eapply owner_knows; [exact Hnl|]. eapply in_owners_owns; eauto. }
        assert (Hosub : forall o, RObj obj = RObj "Query" ->
                  forallb not_fed (map fst (filter (fun p : node * string => String.eqb (snd p) o) tagged)) = true).
        { intros o Hq. apply forallb_forall. intros n Hn. apply in_map_iff in Hn as [[n' s] [Hn' Hin]]. simpl in Hn'; subst n'.
          apply filter_In in Hin as [Hin _]. destruct (Htag n s Hin) as [Hinsels _].
          specialize (Hnf Hq). eapply forallb_forall in Hnf; eauto. }
        clear Heqother_names Eo H Hleafnil. induction Fo as [|o p l l' Hp _ IHF]; simpl; auto.
        rewrite IHF by (intros o' Ho'; apply Hon; right; exact Ho'). rewrite andb_true_r.
        match type of Hp with match plan_ty g pick fuel (RObj obj) ?osels o with _ => _ end = _ =>
          destruct (plan_ty g pick fuel (RObj obj) osels o) as [[os oafters]|] eqn:Ec; [|discriminate] end.
        inversion Hp; subst p.
        destruct (IH _ _ _ _ _ Ec (Hon o (or_introl eq_refl)) (Hosub o)) as [C1 C2].
        rewrite plan_closed_eq, C1, C2. reflexivity. }
      destruct other_names as [|o1 orest].
      + inversion H; subst. auto.
      + destruct (existsb half_fed_sel (map fst planned)); [discriminate|].
        destruct (existsb is_fed_sel (map fst planned)).
        * inversion H; subst. split; auto. rewrite forallb_app, L2, Hoth. reflexivity.
        * inversion H; subst. split.
          -- rewrite forallb_app. apply andb_true_intro. split; [exact L1|].
             change (closed_node g svc (RObj obj) (key_selection g obj (o1 :: orest)) && true = true).
             simpl in Hctx. destruct Hctx as [[Hnl Hown0]|[Hl Hserv]]; [|discriminate (Hleafnil Hl Hserv)].
             rewrite (keys_served obj svc (o1 :: orest) Hnl Hown0). reflexivity.
          -- rewrite forallb_app, L2, Hoth. reflexivity.
    - (* union *)
      destruct (union_members g u) as [ms|] eqn:Eu; [|discriminate].
      match type of H with (if ?c then _ else _) = _ => destruct c eqn:Efields; [discriminate|] end.
      destruct (negb (nodup_str (map n_alias (frags_of sels)))); [discriminate|].
      destruct (negb (forallb (fun n => existsb (String.eqb (n_alias n)) ms) (frags_of sels))) eqn:Emem; [discriminate|].
      apply negb_false_iff in Emem.
      match type of H with match mapo ?f (frags_of sels) with _ => _ end = _ =>
        destruct (mapo f (frags_of sels)) as [planned|] eqn:Ep; [|discriminate];
        pose proof (mapo_Forall2 _ _ _ Ep) as Fpl end.
      inversion H; subst ss afters. clear H.
      assert (Hfr : forallb (closed_node g svc (RUnion u)) (map fst planned) = true /\
                    forallb (plan_closed g) (List.concat (map snd planned)) = true).
      { clear Ep Efields. revert Emem. induction Fpl as [|n [n' af] l l' Hn _ IHF]; intros Emem; simpl; [auto|].
        simpl in Emem. apply andb_prop in Emem as [Em1 Em2]. destruct (IHF Em2) as [I1 I2].
        rewrite forallb_app, I1, I2, !andb_true_r.
        destruct n as [|on dirs body]; [discriminate|].
        destruct (plan_ty g pick fuel (RObj on) body svc) as [[cs cafters]|] eqn:Ec; [|discriminate].
        inversion Hn; subst n' af. simpl in Em1. apply existsb_eqb_In in Em1.
        assert (Hq' : RObj on = RObj "Query" -> forallb not_fed body = true).
        { intros Hq. inversion Hq; subst on. exfalso. eapply no_query_member; eauto. }
        destruct (IH _ _ _ _ _ Ec (Hctx ms on Eu Em1) Hq') as [C1 C2]. split; [exact C1|].
        clear -C2. induction cafters as [|x t IHc]; simpl in *; auto.
        apply andb_prop in C2 as [Cx Ct]. rewrite plan_closed_push, Cx. auto. }
      destruct Hfr as [F1 F2]. split; [|exact F2].
      simpl. rewrite forallb_app, F1, andb_true_r.
      (* the union-level field selections are all __typename *)
      apply forallb_forall. intros n Hn. unfold fields_of in Hn. apply filter_In in Hn as [Hin Hf].
      destruct n as [al nm args ak dirs hs subs|]; [|discriminate]. simpl.
      destruct (String.eqb nm "__typename") eqn:E; auto.
      exfalso. assert (existsb (fun n => match n with NField _ nm _ _ _ _ _ => negb (String.eqb nm "__typename") | _ => false end) sels = true).
      { apply existsb_exists. exists (NField al nm args ak dirs hs subs). split; auto. rewrite E. reflexivity. }
      congruence.
  Qed.

  (** The root: the coordinator serves nothing itself; every sub-plan it dispatches is closed. *)
  Hypothesis coordinator_owns_nothing : forall ty f, owns g coordinator ty f = false.

  Theorem plan_root_closed : forall fuel flat p,
    forallb not_fed flat = true ->
    plan_root g pick fuel flat = Some p -> forallb (plan_closed g) (p_after p) = true.
  Proof.
    intros fuel flat p Hnf H. unfold plan_root in H.
    destruct (plan_ty g pick fuel (RObj "Query") flat coordinator) as [[ss afters]|] eqn:E; [|discriminate].
    inversion H; subst p. simpl. clear H.
    destruct fuel as [|fuel]; [discriminate|]. simpl in E.
    destruct (mapo (target_of g pick "Query" coordinator) (filter included flat)) as [tagged|] eqn:Et; [|discriminate].
    pose proof (mapo_Forall2 _ _ _ Et) as Ftag.
    assert (Htag : forall n s, In (n, s) tagged -> In n flat /\
              exists al nm args ak dirs hs subs, n = NField al nm args ak dirs hs subs /\
                ((nm = "__typename" /\ s = coordinator) \/
                 (exists rty owners, find_gfield g "Query" nm = Some (rty, owners) /\ In s owners))).
    { assert (Hsub : forall x, In x (filter included flat) -> In x flat) by (intros x Hx; apply filter_In in Hx; tauto).
      clear -Ftag pick_sound Hsub. intros n s Hin. induction Ftag as [|x [n' s'] l l' Hx _ IHF]; [contradiction|].
      destruct Hin as [Heq|Hin]; [|apply IHF; auto; intros y Hy; apply Hsub; right; exact Hy]. inversion Heq; subst.
      destruct (target_of_spec _ _ _ _ _ Hx) as [-> Hs]. split; [apply Hsub; left; reflexivity | exact Hs]. }
    remember (map fst (filter (fun p => String.eqb (snd p) coordinator) tagged)) as loc.
    remember (sorted_names (map snd (filter (fun p => negb (String.eqb (snd p) coordinator)) tagged))) as other_names.
    match type of E with match mapo ?f loc with _ => _ end = _ => destruct (mapo f loc) as [planned|] eqn:Ep; [|discriminate];
      pose proof (mapo_Forall2 _ _ _ Ep) as Fpl end.
    match type of E with match mapo ?f other_names with _ => _ end = _ => destruct (mapo f other_names) as [oplans|] eqn:Eo; [|discriminate];
      pose proof (mapo_Forall2 _ _ _ Eo) as Fo end.
    (* local selections of the coordinator are __typename only: no children *)
    assert (L2 : forallb (plan_closed g) (List.concat (map snd planned)) = true).
    { assert (Hlocin : forall n, In n loc -> In (n, coordinator) tagged).
      { intros n Hn. subst loc. apply in_map_iff in Hn as [[n' s] [Hn Hin]]. simpl in Hn; subst n'.
        apply filter_In in Hin as [Hin Hs]. simpl in Hs. apply String.eqb_eq in Hs. subst; auto. }
      clear Heqloc Ep E. induction Fpl as [|n [n' af] l l' Hn _ IHF]; simpl; [auto|].
      rewrite forallb_app, IHF by (intros m Hm; apply Hlocin; right; exact Hm). rewrite andb_true_r.
      destruct (Htag n coordinator (Hlocin n (or_introl eq_refl))) as [_ [al [nm [args [ak [dirs [hs [subs [-> Hcase]]]]]]]]].
      destruct Hcase as [[-> _]|[rty [owners [Hf Hown]]]].
      - destruct hs; simpl in Hn.
        + destruct fuel; discriminate.
        + inversion Hn; subst. reflexivity.
      - pose proof (in_owners_owns _ _ _ _ _ Hf Hown) as Ho. rewrite coordinator_owns_nothing in Ho. discriminate. }
    assert (Hoth : forallb (plan_closed g) oplans = true).
    { assert (Hon : forall o, In o other_names -> knows o "Query").
      { intros o Ho. subst other_names. apply (proj1 (sorted_names_In _ _)) in Ho. apply in_map_iff in Ho as [[n s] [Hs Hin]].
        simpl in Hs; subst s. apply filter_In in Hin as [Hin Hne]. simpl in Hne.
        destruct (Htag n o Hin) as [_ [al [nm [args [ak [dirs [hs [subs [-> Hcase]]]]]]]]].
        destruct Hcase as [[_ ->]|[rty [owners [Hf Hown]]]].
        - rewrite String.eqb_refl in Hne. discriminate.
        - left. split; [discriminate|]. eapply owner_knows; [discriminate|]. eapply in_owners_owns; eauto. }
      assert (Hosub : forall o, RObj "Query" = RObj "Query" ->
                forallb not_fed (map fst (filter (fun p : node * string => String.eqb (snd p) o) tagged)) = true).
      { intros o _. apply forallb_forall. intros n Hn. apply in_map_iff in Hn as [[n' s] [Hn' Hin]]. simpl in Hn'; subst n'.
        apply filter_In in Hin as [Hin _]. destruct (Htag n s Hin) as [Hinflat _].
        eapply forallb_forall in Hnf; eauto. }
      clear Heqother_names Eo E. induction Fo as [|o p l l' Hp _ IHF]; simpl; auto.
      rewrite IHF by (intros o' Ho'; apply Hon; right; exact Ho'). rewrite andb_true_r.
      match type of Hp with match plan_ty g pick fuel (RObj "Query") ?osels o with _ => _ end = _ =>
        destruct (plan_ty g pick fuel (RObj "Query") osels o) as [[os oafters]|] eqn:Ec; [|discriminate] end.
      inversion Hp; subst p.
      destruct (plan_ty_closed _ _ _ _ _ _ Ec (Hon o (or_introl eq_refl)) (Hosub o)) as [C1 C2].
      rewrite plan_closed_eq, C1, C2. reflexivity. }
    destruct other_names as [|o1 orest].
    - inversion E; subst. exact L2.
    - destruct (existsb half_fed_sel (map fst planned)); [discriminate|].
      destruct (existsb is_fed_sel (map fst planned)); inversion E; subst; rewrite forallb_app, L2, Hoth; reflexivity.
  Qed.
End Closed.

Lemma forallb_map' : forall {A B} (f : B -> bool) (h : A -> B) l, forallb f (map h l) = forallb (fun x => f (h x)) l.
Proof. intros A B f h l. induction l as [|x t IH]; simpl; auto. rewrite IH. reflexivity. Qed.

Lemma find_gfield_in : forall g ty f rty owners, find_gfield g ty f = Some (rty, owners) ->
  In (ty, f, rty, owners) (g_fields g).
Proof.
  intros g ty f rty owners H. unfold find_gfield in H.
  destruct (find (fun e => let '(t, n, _, _) := e in String.eqb t ty && String.eqb n f) (g_fields g)) as [[[[t n] r] o]|] eqn:E; [|discriminate].
  inversion H; subst. apply find_some in E as [Hin He]. apply andb_prop in He as [H1 H2].
  apply String.eqb_eq in H1, H2. subst. exact Hin.
Qed.

Lemma owner_in_services : forall g ty f rty owners svc,
  In (ty, f, rty, owners) (g_fields g) -> In svc owners -> In svc (services_of g).
Proof.
  intros g ty f rty owners svc Hin Hs. unfold services_of. apply dedupe_In. apply in_concat.
  exists owners. split; auto. apply in_map_iff. exists (ty, f, rty, owners). auto.
Qed.

Lemma union_members_in : forall g u ms, union_members g u = Some ms -> In (u, ms) (g_unions g).
Proof.
  intros g u ms Hu. unfold union_members in Hu. induction (g_unions g) as [|[k v] t IH]; simpl in Hu; [discriminate|].
  destruct (String.eqb u k) eqn:E.
  - inversion Hu; subst. apply String.eqb_eq in E. subst. left; reflexivity.
  - right. apply IH; exact Hu.
Qed.

Section FromPlain.
  Variable g : gschema.
  Hypothesis Hpl : plain_ok g = true.

  Lemma plain_fields : forall f rty owners, find_gfield g "Leaf" f = Some (rty, owners) ->
    rty = RScalar /\ selector_of g "Leaf" f = None.
  Proof.
    intros f rty owners E. unfold plain_ok in Hpl. apply andb_prop in Hpl as [H _]. apply andb_prop in H as [H _].
    apply find_gfield_in in E. eapply forallb_forall in H; [|exact E]. cbv beta iota zeta in H.
    unfold is_leaf in H. rewrite String.eqb_refl in H. simpl in H. apply andb_prop in H as [H1 H2].
    split; [destruct rty; try discriminate; reflexivity | destruct (selector_of g "Leaf" f); [discriminate | reflexivity]].
  Qed.

  Lemma plain_served : forall ty f owners svc, find_gfield g ty f = Some (RObj "Leaf", owners) -> In svc owners ->
    forall f' rty' owners', find_gfield g "Leaf" f' = Some (rty', owners') -> In svc owners'.
  Proof.
    intros ty f owners svc E Hs f' rty' owners' E'. unfold plain_ok in Hpl. apply andb_prop in Hpl as [H _]. apply andb_prop in H as [_ H].
    apply find_gfield_in in E. eapply forallb_forall in H; [|exact E]. cbv beta iota zeta in H.
    unfold is_leaf in H. rewrite String.eqb_refl in H. simpl in H. eapply forallb_forall in H; [|exact Hs].
    unfold serves_leaf in H. apply find_gfield_in in E'. eapply forallb_forall in H; [|exact E']. cbv beta iota zeta in H.
    unfold is_leaf in H. rewrite String.eqb_refl in H. simpl in H. apply existsb_eqb_In; exact H.
  Qed.

  Lemma plain_not_member : forall u ms, union_members g u = Some ms -> ~ In "Leaf" ms.
  Proof.
    intros u ms Hu. unfold plain_ok in Hpl. apply andb_prop in Hpl as [_ H].
    apply union_members_in in Hu. eapply forallb_forall in H; [|exact Hu]. change (snd (u, ms)) with ms in H.
    apply negb_true_iff in H. intros Hq.
    assert (existsb is_leaf ms = true) by (apply existsb_exists; exists "Leaf"; split; [exact Hq | reflexivity]). congruence.
  Qed.
End FromPlain.

Section FromBool.
  Variable g : gschema.
  Hypothesis Hok : fed_ok g = true.

  Lemma fed_ok_parts :
    (forall ty f rty owners, In (ty, f, rty, owners) (g_fields g) ->
       (forall svc, In svc owners -> (ty <> "Leaf" -> owns g svc ty federation_field = true) /\
          (~ (ty = "Query" /\ f = federation_field) ->
           match rty with
           | RScalar => True
           | RObj o => o <> "Leaf" -> owns g svc o federation_field = true
           | RUnion u => exists ms, union_members g u = Some ms /\ forall m, In m ms -> owns g svc m federation_field = true
           end)) /\
       (forall o, rty = RObj o -> o <> "Query") /\
       (f = federation_field -> ty <> "Query" -> rty = RObj ty)) /\
    (forall ty o ks, In (ty, o, ks) (g_fkeys g) -> ty <> "Query") /\
    (forall u ms, In (u, ms) (g_unions g) -> ~ In "Query" ms) /\
    (forall ty o ks svc, In (ty, o, ks) (g_fkeys g) -> In svc (services_of g) ->
       owns g svc ty federation_field = true -> forall k, In k ks -> owns g svc ty k = true) /\
    ~ In coordinator (services_of g).
  Proof.
    unfold fed_ok in Hok.
    apply andb_prop in Hok as [Hok4 C5]. apply andb_prop in Hok4 as [Hok3 C4].
    apply andb_prop in Hok3 as [Hok2 C3]. apply andb_prop in Hok2 as [C1 C2].
    split; [|split; [|split; [|split]]].
    - intros ty f rty owners Hin. eapply forallb_forall in C1; [|exact Hin]. simpl in C1.
      apply andb_prop in C1 as [C1' Cc]. apply andb_prop in C1' as [Ca Cb]. split; [|split].
      + intros svc Hs. eapply forallb_forall in Ca; [|exact Hs]. apply andb_prop in Ca as [A1 A2]. split.
        { intros Hnl. apply orb_prop in A1 as [A1|A1]; [|exact A1]. unfold is_leaf in A1. apply String.eqb_eq in A1. contradiction. }
        intros Hne. apply orb_prop in A2 as [A2|A2].
        * exfalso. apply Hne. apply andb_prop in A2 as [X Y]. apply String.eqb_eq in X, Y. auto.
        * destruct rty as [|o|u]; auto.
          -- intros Hnl. apply orb_prop in A2 as [A2|A2]; [|exact A2]. unfold is_leaf in A2. apply String.eqb_eq in A2. contradiction.
          -- destruct (union_members g u) as [ms|]; [|discriminate].
             exists ms. split; auto. intros m Hm. eapply forallb_forall in A2; eauto.
      + intros o ->. apply negb_true_iff in Cb. intros ->. rewrite String.eqb_refl in Cb. discriminate.
      + intros -> Hq. rewrite String.eqb_refl in Cc. simpl in Cc.
        destruct (String.eqb ty "Query") eqn:Eq; [apply String.eqb_eq in Eq; contradiction|]. simpl in Cc.
        destruct rty as [|o|u]; try discriminate. apply String.eqb_eq in Cc. subst. reflexivity.
    - intros ty o ks Hin. eapply forallb_forall in C2; [|exact Hin]. cbv beta iota zeta in C2. apply negb_true_iff in C2.
      intros ->. rewrite String.eqb_refl in C2. discriminate.
    - intros u ms Hin. eapply forallb_forall in C3; [|exact Hin]. change (snd (u, ms)) with ms in C3. apply negb_true_iff in C3.
      intros Hq. apply (proj2 (existsb_eqb_In _ _)) in Hq. congruence.
    - intros ty o ks svc Hin Hs Hown k Hk. eapply forallb_forall in C4; [|exact Hin]. simpl in C4.
      eapply forallb_forall in C4; [|exact Hs]. rewrite Hown in C4. simpl in C4. eapply forallb_forall in C4; eauto.
    - intros Hc. apply negb_true_iff in C5. apply (proj2 (existsb_eqb_In _ _)) in Hc. congruence.
  Qed.

  Lemma ok_owner_knows : forall svc ty f, ty <> "Leaf" -> owns g svc ty f = true -> owns g svc ty federation_field = true.
  Proof.
    intros svc ty f Hnl H. unfold owns in H. destruct (find_gfield g ty f) as [[rty owners]|] eqn:E; [|discriminate].
    apply existsb_eqb_In in H. destruct fed_ok_parts as [P1 _].
    destruct (P1 _ _ _ _ (find_gfield_in _ _ _ _ _ E)) as [Ha _]. apply (proj1 (Ha svc H) Hnl).
  Qed.

  Lemma ok_returns_obj : forall svc ty f o owners,
    find_gfield g ty f = Some (RObj o, owners) -> In svc owners ->
    ~ (ty = "Query" /\ f = federation_field) -> o <> "Leaf" -> owns g svc o federation_field = true.
  Proof.
    intros svc ty f o owners E Hs Hne Hnl. destruct fed_ok_parts as [P1 _].
    destruct (P1 _ _ _ _ (find_gfield_in _ _ _ _ _ E)) as [Ha _]. apply (proj2 (Ha svc Hs) Hne Hnl).
  Qed.

  Lemma ok_nothing_returns_query : forall ty f o owners, find_gfield g ty f = Some (RObj o, owners) -> o <> "Query".
  Proof.
    intros ty f o owners E. destruct fed_ok_parts as [P1 _].
    destruct (P1 _ _ _ _ (find_gfield_in _ _ _ _ _ E)) as [_ [Hb _]]. apply (Hb o eq_refl).
  Qed.

  Lemma ok_no_query_member : forall u ms, union_members g u = Some ms -> ~ In "Query" ms.
  Proof.
    intros u ms Hu. destruct fed_ok_parts as [_ [_ [P3 _]]]. unfold union_members in Hu.
    apply (P3 u ms). clear -Hu. induction (g_unions g) as [|[k v] t IH]; simpl in Hu; [discriminate|].
    destruct (String.eqb u k) eqn:E.
    - inversion Hu; subst. apply String.eqb_eq in E. subst. left; reflexivity.
    - right. apply IH; exact Hu.
  Qed.

  Lemma ok_returns_union : forall svc ty f u owners ms m,
    find_gfield g ty f = Some (RUnion u, owners) -> In svc owners ->
    ~ (ty = "Query" /\ f = federation_field) ->
    union_members g u = Some ms -> In m ms -> owns g svc m federation_field = true.
  Proof.
    intros svc ty f u owners ms m E Hs Hne Hu Hm. destruct fed_ok_parts as [P1 _].
    destruct (P1 _ _ _ _ (find_gfield_in _ _ _ _ _ E)) as [Ha _].
    destruct (proj2 (Ha svc Hs) Hne) as [ms' [Hu' Hall]].
    rewrite Hu in Hu'. inversion Hu'; subst. auto.
  Qed.

  Lemma ok_coordinator : forall ty f, owns g coordinator ty f = false.
  Proof.
    intros ty f. unfold owns. destruct (find_gfield g ty f) as [[rty owners]|] eqn:E; auto.
    destruct (existsb (String.eqb coordinator) owners) eqn:Ex; auto.
    apply existsb_eqb_In in Ex. pose proof (owner_in_services _ _ _ _ _ _ (find_gfield_in _ _ _ _ _ E) Ex) as Hin.
    destruct fed_ok_parts as [_ [_ [_ [_ P5]]]]. contradiction.
  Qed.

  Lemma ok_keys_served : forall ty svc others,
    owns g svc ty federation_field = true -> closed_node g svc (RObj ty) (key_selection g ty others) = true.
  Proof.
    intros ty svc others Hk. unfold key_selection. simpl.
    pose proof Hk as Hown. unfold owns in Hk.
    destruct (find_gfield g ty federation_field) as [[rty owners]|] eqn:E; [|discriminate].
    rewrite Hk. simpl.
    destruct fed_ok_parts as [P1 [P2 [_ [P4 _]]]].
    destruct (P1 _ _ _ _ (find_gfield_in _ _ _ _ _ E)) as [_ [_ Hr]].
    apply forallb_forall. intros kn Hkn. apply in_map_iff in Hkn as [k [<- Hkin]].
    apply (proj1 (sorted_names_In _ _)) in Hkin. apply in_concat in Hkin as [ks [Hks Hin]].
    apply in_map_iff in Hks as [o [Hfk _]]. unfold fkeys_of in Hfk.
    destruct (find (fun e => let '(t, s, _) := e in String.eqb t ty && String.eqb s o) (g_fkeys g)) as [[[t s] ks']|] eqn:Ef;
      [|subst ks; contradiction].
    subst ks'. apply find_some in Ef as [Hfin He]. apply andb_prop in He as [He1 _]. apply String.eqb_eq in He1. subst t.
    assert (Hsvc : In svc (services_of g)).
    { apply existsb_eqb_In in Hk. eapply owner_in_services; [apply (find_gfield_in _ _ _ _ _ E)|exact Hk]. }
    rewrite (Hr eq_refl (P2 _ _ _ Hfin)).
    pose proof (P4 _ _ _ svc Hfin Hsvc Hown k Hin) as Hkown.
    unfold owns in Hkown. simpl. destruct (String.eqb k "__typename"); auto. simpl.
    destruct (find_gfield g ty k) as [[rk ok]|]; [|discriminate]. rewrite Hkown. reflexivity.
  Qed.
End FromBool.

(** subquery_closed: for a federation satisfying [fed_ok], any way of choosing among several owners, and a
    (normalised) query that does not itself select the gateway's _federation plumbing field at the root, every
    sub-plan the planner dispatches -- at every depth -- selects only fields its service serves. *)
Theorem subquery_closed : forall g pick fuel flat p,
  fed_ok g = true -> plain_ok g = true -> (forall l s, pick l = Some s -> In s l) ->
  forallb not_fed flat = true ->
  plan_root g pick fuel flat = Some p -> forallb (plan_closed g) (p_after p) = true.
Proof.
  intros g pick fuel flat p Hok Hpl Hpick Hnf H.
  eapply (plan_root_closed g pick Hpick); [ | | | | | | | |exact Hnf|exact H].
  - intros ty svc others Hnl Hk. apply ok_keys_served; assumption.
  - intros svc ty f Hnl Ho. eapply ok_owner_knows; eauto.
  - intros f rty owners E. apply (proj2 (plain_fields g Hpl _ _ _ E)).
  - intros svc ty f o owners E Hs Hne. destruct (string_dec o "Leaf") as [->|Hnl].
    + right. split; [reflexivity|]. intros f' rty' owners' E'. eapply plain_served; eauto.
    + left. split; [exact Hnl|]. eapply ok_returns_obj; eauto.
  - intros ty f o owners E. eapply ok_nothing_returns_query; eauto.
  - intros u ms Hu. eapply ok_no_query_member; eauto.
  - intros svc ty f u owners ms m E Hs Hne Hu Hm. left. split.
    + intros ->. apply (plain_not_member g Hpl u ms Hu Hm).
    + eapply ok_returns_union; eauto.
  - apply ok_coordinator; assumption.
Qed.
