(** Generic facts about the group-by-name merge pattern of Federation/Merge.v. *)
From Coq Require Import List String Bool Arith Permutation Lia.
From Thunder Require Import Lib.Json Federation.Merge.
Import ListNotations.
Open Scope string_scope.
Open Scope list_scope.

(** ** strings and boolean membership *)
Lemma existsb_eqb_In : forall x l, existsb (String.eqb x) l = true <-> In x l.
Proof.
  intros x l. rewrite existsb_exists. split.
  - intros [y [Hy He]]. apply String.eqb_eq in He. subst. exact Hy.
  - intros H. exists x. split; [exact H | apply String.eqb_refl].
Qed.

Lemma existsb_eqb_false : forall x l, existsb (String.eqb x) l = false <-> ~ In x l.
Proof.
  intros x l. split.
  - intros H Hin. apply existsb_eqb_In in Hin. congruence.
  - intros H. destruct (existsb (String.eqb x) l) eqn:E; auto. apply existsb_eqb_In in E. contradiction.
Qed.

Lemma nodup_str_NoDup : forall l, nodup_str l = true <-> NoDup l.
Proof.
  induction l as [|x t IH]; simpl.
  - split; auto using NoDup_nil.
  - rewrite andb_true_iff, negb_true_iff, existsb_eqb_false, IH. split.
    + intros [H1 H2]. constructor; auto.
    + intros H. inversion H; subst. auto.
Qed.

(** ** dedupe / sort *)
Lemma dedupe_In : forall x l, In x (dedupe l) <-> In x l.
Proof.
  intros x l. induction l as [|y t IH]; simpl; [tauto|].
  destruct (existsb (String.eqb y) t) eqn:E.
  - rewrite IH. split; auto. intros [->|H]; auto. apply existsb_eqb_In; exact E.
  - simpl. rewrite IH. tauto.
Qed.

Lemma dedupe_NoDup : forall l, NoDup (dedupe l).
Proof.
  induction l as [|y t IH]; simpl; [constructor|].
  destruct (existsb (String.eqb y) t) eqn:E; auto.
  constructor; auto. rewrite dedupe_In. apply existsb_eqb_false; exact E.
Qed.

Lemma insert_str_perm : forall x l, Permutation (insert_str x l) (x :: l).
Proof.
  intros x l. induction l as [|y t IH]; simpl; auto.
  destruct (str_ltb y x); auto.
  eapply perm_trans; [apply perm_skip; exact IH | apply perm_swap].
Qed.

Lemma sort_str_perm : forall l, Permutation (sort_str l) l.
Proof.
  induction l as [|x t IH]; simpl; auto.
  eapply perm_trans; [apply insert_str_perm | apply perm_skip; exact IH].
Qed.

Lemma sorted_names_In : forall x l, In x (sorted_names l) <-> In x l.
Proof.
  intros x l. unfold sorted_names. split; intros H.
  - apply dedupe_In. eapply Permutation_in; [apply sort_str_perm | exact H].
  - apply dedupe_In in H. eapply Permutation_in; [apply Permutation_sym, sort_str_perm | exact H].
Qed.

Lemma sorted_names_NoDup : forall l, NoDup (sorted_names l).
Proof.
  intros l. unfold sorted_names.
  eapply Permutation_NoDup; [apply Permutation_sym, sort_str_perm | apply dedupe_NoDup].
Qed.

(** ** the by-name merge *)
Section ByName.
  Context {A : Type}.
  Variable name : A -> string.
  Variable single : A -> option (option A).
  Variable pair : A -> A -> option A.
  Hypothesis single_name : forall x y, single x = Some (Some y) -> name y = name x.
  Hypothesis pair_name : forall x y z, pair x y = Some z -> name z = name x.

  Definition findn (n : string) (l : list A) : option A :=
    find (fun x => String.eqb (name x) n) l.

  Lemma findn_some : forall n l x, findn n l = Some x -> In x l /\ name x = n.
  Proof.
    intros n l x H. apply find_some in H as [H1 H2]. apply String.eqb_eq in H2. auto.
  Qed.

  Lemma findn_none : forall n l, findn n l = None -> ~ In n (map name l).
  Proof.
    intros n l H Hin. apply in_map_iff in Hin as [x [Hx Hi]].
    eapply find_none in H; [|exact Hi]. simpl in H. rewrite Hx, String.eqb_refl in H. discriminate.
  Qed.

  Lemma findn_in : forall n l x, NoDup (map name l) -> In x l -> name x = n -> findn n l = Some x.
  Proof.
    intros n l. induction l as [|y t IH]; simpl; intros x Hnd Hin Hn; [contradiction|].
    inversion Hnd as [|? ? Hnot Hnd']; subst.
    destruct Hin as [->|Hin].
    - rewrite String.eqb_refl. reflexivity.
    - destruct (String.eqb (name y) (name x)) eqn:E.
      + apply String.eqb_eq in E. exfalso. apply Hnot. rewrite E. apply in_map; exact Hin.
      + apply IH; auto.
  Qed.

  Lemma group_not_in : forall n l, ~ In n (map name l) -> group name n l = [].
  Proof.
    intros n l. induction l as [|y t IH]; simpl; intros H; auto.
    destruct (String.eqb (name y) n) eqn:E.
    - apply String.eqb_eq in E. exfalso. apply H. left; exact E.
    - apply IH. intros Hin. apply H. right; exact Hin.
  Qed.

  Lemma group_nodup : forall n l, NoDup (map name l) ->
    group name n l = match findn n l with Some x => [x] | None => [] end.
  Proof.
    intros n l. induction l as [|y t IH]; simpl; intros Hnd; auto.
    inversion Hnd as [|? ? Hnot Hnd']; subst.
    unfold findn. simpl. destruct (String.eqb (name y) n) eqn:E.
    - apply String.eqb_eq in E. subst n. rewrite group_not_in; auto.
    - apply IH; auto.
  Qed.

  Lemma group_app : forall n a b, group name n (a ++ b) = group name n a ++ group name n b.
  Proof. intros. unfold group. apply filter_app. Qed.

  Definition single_res (x : A) : option (list A) :=
    match single x with
    | None => None
    | Some None => Some []
    | Some (Some y) => Some [y]
    end.

  Lemma merge_one_spec : forall a b n, NoDup (map name a) -> NoDup (map name b) ->
    merge_one name single pair (a ++ b) n =
    match findn n a, findn n b with
    | Some x, Some y => option_map (fun z => [z]) (pair x y)
    | Some x, None => single_res x
    | None, Some y => single_res y
    | None, None => Some []
    end.
  Proof.
    intros a b n Ha Hb. unfold merge_one. rewrite group_app, (group_nodup n a Ha), (group_nodup n b Hb).
    destruct (findn n a), (findn n b); reflexivity.
  Qed.

  Lemma merge_names_in : forall all ns r n,
    merge_names name single pair all ns = Some r -> In n ns ->
    exists l, merge_one name single pair all n = Some l /\ incl l r.
  Proof.
    intros all ns. induction ns as [|m t IH]; simpl; intros r n H Hin; [contradiction|].
    destruct (merge_one name single pair all m) as [l1|] eqn:E1; [|discriminate].
    destruct (merge_names name single pair all t) as [l2|] eqn:E2; [|discriminate].
    inversion H; subst r. destruct Hin as [->|Hin].
    - exists l1. split; auto. apply incl_appl, incl_refl.
    - destruct (IH l2 n eq_refl Hin) as [l [Hl Hi]]. exists l. split; auto. apply incl_appr; exact Hi.
  Qed.

  Lemma merge_names_elem : forall all ns r z,
    merge_names name single pair all ns = Some r -> In z r ->
    exists n l, In n ns /\ merge_one name single pair all n = Some l /\ In z l.
  Proof.
    intros all ns. induction ns as [|m t IH]; simpl; intros r z H Hin.
    - inversion H; subst. contradiction.
    - destruct (merge_one name single pair all m) as [l1|] eqn:E1; [|discriminate].
      destruct (merge_names name single pair all t) as [l2|] eqn:E2; [|discriminate].
      inversion H; subst r. apply in_app_or in Hin as [Hin|Hin].
      + exists m, l1. auto.
      + destruct (IH l2 z eq_refl Hin) as [n [l [H1 [H2 H3]]]]. exists n, l. auto.
  Qed.

  (** What the merged list contains, in terms of the two inputs. *)
  Section Spec.
    Variables a b r : list A.
    Hypothesis Ha : NoDup (map name a).
    Hypothesis Hb : NoDup (map name b).
    Hypothesis Hm : merge_by_name name single pair a b = Some r.

    Lemma names_cover : forall n, In n (map name (a ++ b)) ->
      exists l, merge_one name single pair (a ++ b) n = Some l /\ incl l r.
    Proof.
      intros n Hn. unfold merge_by_name in Hm.
      eapply merge_names_in; [exact Hm|]. apply sorted_names_In. exact Hn.
    Qed.

    Lemma merged_both : forall n x y, findn n a = Some x -> findn n b = Some y ->
      exists z, pair x y = Some z /\ In z r /\ name z = n.
    Proof.
      intros n x y Hx Hy.
      destruct (names_cover n) as [l [Hl Hi]].
      { rewrite map_app. apply in_or_app. left. apply findn_some in Hx as [H1 H2]. subst n. apply in_map; exact H1. }
      rewrite merge_one_spec, Hx, Hy in Hl by assumption.
      destruct (pair x y) as [z|] eqn:E; [|discriminate]. simpl in Hl. inversion Hl; subst l.
      exists z. split; auto. split; [apply Hi; left; reflexivity|].
      apply pair_name in E. apply findn_some in Hx as [_ Hx]. congruence.
    Qed.

    Lemma merged_left_only : forall n x, findn n a = Some x -> findn n b = None ->
      single x = Some None \/ exists z, single x = Some (Some z) /\ In z r /\ name z = n.
    Proof.
      intros n x Hx Hy.
      destruct (names_cover n) as [l [Hl Hi]].
      { rewrite map_app. apply in_or_app. left. apply findn_some in Hx as [H1 H2]. subst n. apply in_map; exact H1. }
      rewrite merge_one_spec, Hx, Hy in Hl by assumption. unfold single_res in Hl.
      destruct (single x) as [[z|]|] eqn:E; [|auto|discriminate].
      right. inversion Hl; subst l. exists z. split; auto. split; [apply Hi; left; reflexivity|].
      apply single_name in E. apply findn_some in Hx as [_ Hx]. congruence.
    Qed.

    Lemma merged_right_only : forall n y, findn n a = None -> findn n b = Some y ->
      single y = Some None \/ exists z, single y = Some (Some z) /\ In z r /\ name z = n.
    Proof.
      intros n y Hx Hy.
      destruct (names_cover n) as [l [Hl Hi]].
      { rewrite map_app. apply in_or_app. right. apply findn_some in Hy as [H1 H2]. subst n. apply in_map; exact H1. }
      rewrite merge_one_spec, Hx, Hy in Hl by assumption. unfold single_res in Hl.
      destruct (single y) as [[z|]|] eqn:E; [|auto|discriminate].
      right. inversion Hl; subst l. exists z. split; auto. split; [apply Hi; left; reflexivity|].
      apply single_name in E. apply findn_some in Hy as [_ Hy]. congruence.
    Qed.

    (** Every element of the result comes from a pair or from a kept singleton. *)
    Lemma merged_origin : forall z, In z r ->
      (exists x y, findn (name z) a = Some x /\ findn (name z) b = Some y /\ pair x y = Some z) \/
      (exists x, findn (name z) a = Some x /\ findn (name z) b = None /\ single x = Some (Some z)) \/
      (exists y, findn (name z) a = None /\ findn (name z) b = Some y /\ single y = Some (Some z)).
    Proof.
      intros z Hz. unfold merge_by_name in Hm.
      destruct (merge_names_elem _ _ _ z Hm Hz) as [n [l [Hn [Hl Hin]]]].
      rewrite merge_one_spec in Hl by assumption.
      destruct (findn n a) as [x|] eqn:Ex; destruct (findn n b) as [y|] eqn:Ey.
      - destruct (pair x y) as [z'|] eqn:E; [|discriminate]. simpl in Hl. inversion Hl; subst l.
        destruct Hin as [->|[]]. assert (name z = n).
        { apply pair_name in E. apply findn_some in Ex as [_ Ex]. congruence. }
        subst n. left. exists x, y. auto.
      - unfold single_res in Hl. destruct (single x) as [[z'|]|] eqn:E; try discriminate; inversion Hl; subst l.
        + destruct Hin as [->|[]]. assert (name z = n).
          { apply single_name in E. apply findn_some in Ex as [_ Ex]. congruence. }
          subst n. right. left. exists x. auto.
        + contradiction.
      - unfold single_res in Hl. destruct (single y) as [[z'|]|] eqn:E; try discriminate; inversion Hl; subst l.
        + destruct Hin as [->|[]]. assert (name z = n).
          { apply single_name in E. apply findn_some in Ey as [_ Ey]. congruence. }
          subst n. right. right. exists y. auto.
        + contradiction.
      - inversion Hl; subst l. contradiction.
    Qed.
  End Spec.

  (** The result has pairwise distinct names (so it is again a map). *)
  Lemma merge_names_names : forall all ns r,
    (forall n l z, merge_one name single pair all n = Some l -> In z l -> name z = n) ->
    (forall n l, merge_one name single pair all n = Some l -> List.length l <= 1) ->
    NoDup ns -> merge_names name single pair all ns = Some r ->
    NoDup (map name r) /\ forall z, In z r -> In (name z) ns.
  Proof.
    intros all ns. induction ns as [|m t IH]; simpl; intros r Hname Hlen Hnd H.
    - inversion H; subst. split; [constructor | intros z []].
    - destruct (merge_one name single pair all m) as [l1|] eqn:E1; [|discriminate].
      destruct (merge_names name single pair all t) as [l2|] eqn:E2; [|discriminate].
      inversion H; subst r. inversion Hnd as [|? ? Hnot Hnd']; subst.
      destruct (IH l2 Hname Hlen Hnd' eq_refl) as [IH1 IH2].
      split.
      + rewrite map_app. pose proof (Hlen m l1 E1) as Hl.
        destruct l1 as [|z [|z' l1']]; simpl in *; try lia; auto.
        constructor; auto. intros Hin. apply in_map_iff in Hin as [w [Hw Hi]].
        apply IH2 in Hi. rewrite Hw in Hi. rewrite (Hname m [z] z E1) in Hi by (left; reflexivity). contradiction.
      + intros z Hz. apply in_app_or in Hz as [Hz|Hz].
        * left. symmetry. eapply Hname; eauto.
        * right. apply IH2; exact Hz.
  Qed.

  Lemma merge_by_name_nodup : forall a b r,
    NoDup (map name a) -> NoDup (map name b) ->
    merge_by_name name single pair a b = Some r -> NoDup (map name r).
  Proof.
    intros a b r Ha Hb Hm. unfold merge_by_name in Hm.
    eapply (merge_names_names (a ++ b) _ r); [| |apply sorted_names_NoDup|exact Hm].
    - intros n l z Hl Hin. rewrite merge_one_spec in Hl by assumption.
      destruct (findn n a) as [x|] eqn:Ex; destruct (findn n b) as [y|] eqn:Ey.
      + destruct (pair x y) as [z'|] eqn:E; [|discriminate]. inversion Hl; subst l. destruct Hin as [->|[]].
        apply pair_name in E. apply findn_some in Ex as [_ Ex]. congruence.
      + unfold single_res in Hl. destruct (single x) as [[z'|]|] eqn:E; try discriminate; inversion Hl; subst l; [|contradiction].
        destruct Hin as [->|[]]. apply single_name in E. apply findn_some in Ex as [_ Ex]. congruence.
      + unfold single_res in Hl. destruct (single y) as [[z'|]|] eqn:E; try discriminate; inversion Hl; subst l; [|contradiction].
        destruct Hin as [->|[]]. apply single_name in E. apply findn_some in Ey as [_ Ey]. congruence.
      + inversion Hl; subst l. contradiction.
    - intros n l Hl. rewrite merge_one_spec in Hl by assumption.
      destruct (findn n a) as [x|]; destruct (findn n b) as [y|].
      + destruct (pair x y); inversion Hl; subst; simpl; lia.
      + unfold single_res in Hl. destruct (single x) as [[?|]|]; inversion Hl; subst; simpl; lia.
      + unfold single_res in Hl. destruct (single y) as [[?|]|]; inversion Hl; subst; simpl; lia.
      + inversion Hl; subst; simpl; lia.
  Qed.
End ByName.
