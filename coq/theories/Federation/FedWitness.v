(** Concrete instances: a two-service federation over a small world, used for the non-vacuity examples of
    Props/C06.v and for the witnesses of the two defects that were repaired (DESIGN F15, F16). *)
From Coq Require Import List String Bool Arith ZArith.
From Thunder Require Import Lib.Json Federation.Merge Federation.Normalize Federation.Planner Federation.Executor.
Import ListNotations.
Open Scope string_scope.
Open Scope list_scope.

(** Service s1: Query.self : A, Query.many : [A]; A.self : A, A.p.  Service s2: A.q.  Both know A by its id. *)
Definition wg : gschema :=
  mk_gschema ["A"; "Query"] []
    [("A", "id", RScalar, ["s1"; "s2"]); ("A", "_federation", RObj "A", ["s1"; "s2"]);
     ("A", "self", RObj "A", ["s1"]); ("A", "p", RScalar, ["s1"]); ("A", "q", RScalar, ["s2"]);
     ("Query", "self", RObj "A", ["s1"]); ("Query", "many", RObj "A", ["s1"]);
     ("Query", "_federation", RObj "Federation", ["s1"; "s2"])]
    [("A", "s1", ["id"]); ("A", "s2", ["id"])] [] [].

Definition ww : world :=
  mk_world (fun ty id f _ =>
              if String.eqb f "self" then ARef "A" (id + 1)%Z
              else if String.eqb f "p" then AScalar (JNum (10 + id)%Z)
              else if String.eqb f "q" then AScalar (JNum (20 + id)%Z)
              else if String.eqb f "many" then AList [ARef "A" 5%Z; ANull; ARef "A" 7%Z]
              else ANull)
           (fun _ _ => 0%Z).

Definition fld (n : string) (subs : list node) : node :=
  NField n n (JObj []) "" [] (match subs with [] => false | _ => true end) subs.

Definition pick1 (l : list string) : option string := match l with x :: _ => Some x | [] => None end.

(** F15: { self { p } self { self { p } self { q } } } *)
Definition q15 : list node :=
  [fld "self" [fld "p" []]; fld "self" [fld "self" [fld "p" []]; fld "self" [fld "q" []]]].

Definition ans15 : json :=
  JObj [("self", JObj [("p", JNum 11%Z); ("self", JObj [("p", JNum 12%Z); ("q", JNum 22%Z)])])].

Lemma f15_repaired : option_map norm (fed_exec ww wg pick1 false true q15) = Some ans15 /\
                     option_map norm (eval_ref ww wg false 9 "Query" 0%Z q15) = Some ans15.
Proof. vm_compute. split; reflexivity. Qed.

Lemma f15_original : option_map norm (fed_exec ww wg pick1 true true q15) =
                     Some (JObj [("self", JObj [("p", JNum 11%Z); ("self", JObj [("p", JNum 12%Z)])])]).
Proof. vm_compute. reflexivity. Qed.

(** F16: { many { id q } } -- `many` is served by s1 and has a null element; q lives on s2 *)
Definition q16 : list node := [fld "many" [fld "id" []; fld "q" []]].

Definition ans16 : json :=
  JObj [("many", JArr [JObj [("id", JNum 5%Z); ("q", JNum 25%Z)]; JNull; JObj [("id", JNum 7%Z); ("q", JNum 27%Z)]])].

Lemma f16_repaired : option_map norm (fed_exec ww wg pick1 false true q16) = Some ans16 /\
                     option_map norm (eval_ref ww wg false 9 "Query" 0%Z q16) = Some ans16.
Proof. vm_compute. split; reflexivity. Qed.

Lemma f16_original : fed_exec ww wg pick1 false false q16 = None.
Proof. vm_compute. reflexivity. Qed.

(** Repaired by patches/C06-fix-4: { self @skip(if: true) { p }  self { q } } -- the flattener grouped by alias before it looked at the
    directives: the kept `self` was merged into the skipped one and planObject then dropped both. *)
Definition q_excl : list node :=
  [NField "self" "self" (JObj []) "" [("skip", true)] true [fld "p" []]; fld "self" [fld "q" []]].

Definition ans_excl : json := JObj [("self", JObj [("q", JNum 21%Z)])].

Lemma excl_repaired : option_map norm (fed_exec ww wg pick1 false true q_excl) = Some ans_excl /\
                     option_map norm (eval_ref ww wg false 9 "Query" 0%Z q_excl) = Some ans_excl.
Proof. vm_compute. split; reflexivity. Qed.

Lemma excl_original : option_map norm (fed_exec_gen false ww wg pick1 false true q_excl) = Some (JObj []).
Proof. vm_compute. reflexivity. Qed.

(** A federation with a union, keyed objects and a finite table of resolver results, for the non-vacuity of
    the main theorem: Query.u : [U] on s1; A.x on s1, A.y and B.z on s2 -- a hop below each union member. *)
From Thunder Require Import Federation.Premises.

Definition wg2 : gschema :=
  mk_gschema ["A"; "B"; "Query"] [("U", ["A"; "B"])]
    [("A", "id", RScalar, ["s1"; "s2"]); ("A", "_federation", RObj "A", ["s1"; "s2"]);
     ("A", "x", RScalar, ["s1"]); ("A", "y", RScalar, ["s2"]);
     ("B", "id", RScalar, ["s1"; "s2"]); ("B", "_federation", RObj "B", ["s1"; "s2"]); ("B", "z", RScalar, ["s2"]);
     ("Query", "u", RUnion "U", ["s1"]); ("Query", "_federation", RObj "Federation", ["s1"; "s2"])]
    [("A", "s1", ["id"]); ("A", "s2", ["id"]); ("B", "s1", ["id"]); ("B", "s2", ["id"])] [] ["A"; "B"].

Definition calls2 : list (string * Z * string * string * aval) :=
  [("Query", 0%Z, "u", "", AList [AURef "A" 1%Z; AURef "B" 2%Z; ANull; AURef "A" 3%Z]);
   ("A", 1%Z, "x", "", AScalar (JNum 11%Z)); ("A", 1%Z, "y", "", AScalar (JStr "one"));
   ("A", 3%Z, "x", "", ANull); ("A", 3%Z, "y", "", AList [AScalar (JNum 1%Z); ANull]);
   ("B", 2%Z, "z", "", AScalar (JBool true))].

(** { u { ... on A { y @skip(if: true) @include(if: true)  x y } ... on B @include(if: true) { z } ... on A { again: x  z: x @include(if: false) } } } *)
Definition q2 : list node :=
  [NField "u" "u" (JObj []) "" [] true
     [NFrag "A" [] [NField "y" "y" (JObj []) "" [("skip", true); ("include", true)] false []; fld "x" []; fld "y" []];
      NFrag "B" [("include", true)] [fld "z" []];
      NFrag "A" [] [NField "again" "x" (JObj []) "" [] false []; NField "z" "x" (JObj []) "" [("include", false)] false []]]].

Definition ans2 : json :=
  JObj [("u", JArr [JObj [("__key", JNum 1%Z); ("__typename", JStr "A"); ("again", JNum 11%Z); ("x", JNum 11%Z); ("y", JStr "one")];
                    JObj [("__key", JNum 2%Z); ("__typename", JStr "B"); ("z", JBool true)];
                    JNull;
                    JObj [("__key", JNum 3%Z); ("__typename", JStr "A"); ("again", JNull); ("x", JNull);
                          ("y", JArr [JNum 1%Z; JNull])]])].

Lemma witness2 :
  premises wg2 calls2 pick1 q2 = true /\
  option_map norm (fed_exec (world_of calls2 []) wg2 pick1 false true q2) = Some ans2 /\
  option_map norm (eval_ref (world_of calls2 []) wg2 true (2 * depth_list q2 + 4) "Query" 0%Z q2) = Some ans2 /\
  match flatten (2 * depth_list q2 + 4) false wg2 (RObj "Query") (Some q2) with
  | Some (Some flat) =>
      match plan_root wg2 pick1 (2 * (2 * depth_list q2 + 4) + 2) flat with
      | Some (Plan _ _ _ _ [Plan _ "s1" _ _ subs]) => List.length subs = 2   (* one hop to s2 per union member *)
      | _ => False
      end
  | _ => False
  end.
Proof. vm_compute. repeat split; reflexivity. Qed.

(** A federation with the plain (non-federated) object: A.l : [Leaf] on s2 (reached through a hop from s1),
    Query.lf : Leaf on s1; both services registered Leaf (val, tag); no _federation on it, no key. *)
Definition wg3 : gschema :=
  mk_gschema ["A"; "Leaf"; "Query"] []
    [("A", "id", RScalar, ["s1"; "s2"]); ("A", "_federation", RObj "A", ["s1"; "s2"]);
     ("A", "x", RScalar, ["s1"]); ("A", "l", RObj "Leaf", ["s2"]);
     ("Leaf", "tag", RScalar, ["s1"; "s2"]); ("Leaf", "val", RScalar, ["s1"; "s2"]);
     ("Query", "a", RObj "A", ["s1"]); ("Query", "lf", RObj "Leaf", ["s1"]);
     ("Query", "_federation", RObj "Federation", ["s1"; "s2"])]
    [("A", "s1", ["id"]); ("A", "s2", ["id"])] [] ["A"].

Definition calls3 : list (string * Z * string * string * aval) :=
  [("Query", 0%Z, "a", "", AList [ARef "A" 1%Z; ANull; ARef "A" 2%Z]);
   ("Query", 0%Z, "lf", "", ALeaf 7%Z "seven");
   ("A", 1%Z, "x", "", AScalar (JNum 11%Z)); ("A", 1%Z, "l", "", AList [ALeaf 1%Z "one"; ANull; ALeaf 2%Z "two"]);
   ("A", 2%Z, "l", "", ANull)].

(** { lf { v: val  tag  v: val  ... on Leaf { __typename } }  a { x  l { val  w: tag } l { tag @skip(if: true)  val } } } *)
Definition q3 : list node :=
  [NField "lf" "lf" (JObj []) "" [] true
     [NField "v" "val" (JObj []) "" [] false []; fld "tag" []; NField "v" "val" (JObj []) "" [] false [];
      NFrag "Leaf" [] [fld "__typename" []]];
   NField "a" "a" (JObj []) "" [] true
     [fld "x" [];
      NField "l" "l" (JObj []) "" [] true [fld "val" []; NField "w" "tag" (JObj []) "" [] false []];
      NField "l" "l" (JObj []) "" [] true [NField "tag" "tag" (JObj []) "" [("skip", true)] false []; fld "val" []]]].

Definition ans3 : json :=
  JObj [("a", JArr [JObj [("__key", JNum 1%Z);
                          ("l", JArr [JObj [("val", JNum 1%Z); ("w", JStr "one")]; JNull; JObj [("val", JNum 2%Z); ("w", JStr "two")]]);
                          ("x", JNum 11%Z)];
                    JNull;
                    JObj [("__key", JNum 2%Z); ("l", JNull); ("x", JNull)]]);
        ("lf", JObj [("__typename", JStr "Leaf"); ("tag", JStr "seven"); ("v", JNum 7%Z)])].

Lemma witness3 :
  premises wg3 calls3 pick1 q3 = true /\ fed_ok wg3 = true /\ plain_ok wg3 = true /\
  option_map norm (fed_exec (world_of calls3 []) wg3 pick1 false true q3) = Some ans3 /\
  option_map norm (eval_ref (world_of calls3 []) wg3 true (2 * depth_list q3 + 4) "Query" 0%Z q3) = Some ans3 /\
  match flatten (2 * depth_list q3 + 4) false wg3 (RObj "Query") (Some q3) with
  | Some (Some flat) =>
      match plan_root wg3 pick1 (2 * (2 * depth_list q3 + 4) + 2) flat with
      | Some (Plan _ _ _ _ [Plan _ "s1" _ _ [Plan _ "s2" "A" [NField "l" "l" _ _ _ true [_; _]] []]]) => True  (* the hop to s2 carries the leaf selections *)
      | _ => False
      end
  | _ => False
  end.
Proof. vm_compute. repeat split; reflexivity. Qed.
