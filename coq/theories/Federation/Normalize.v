(** Executable model of federation/normalize.go: flattenFragments, mergeSameAlias (as repaired, and as it
    was), flatten.  Definitions only. *)
From Coq Require Import List String Bool Arith ZArith.
From Thunder Require Import Lib.Json.
Import ListNotations.
Open Scope string_scope.
Open Scope list_scope.

(** * Queries as graphql.Parse produces them.
    A selection set is a list of nodes; Go keeps field selections and fragments in two slices, which are the
    two order-preserving filters of the list ([fields_of], [frags_of]).  Named fragment spreads arrive
    inlined as fragments.  [args] is the JSON of UnparsedArgs; [argkey] the canonical rendering of the
    parsed arguments (what the resolver's result depends on); [dirs] the @skip/@include directives with their
    evaluated "if"; [has_sub = false] is a nil SelectionSet. *)
Definition dir := (string * bool)%type.

Inductive node : Type :=
| NField (alias name : string) (args : json) (argkey : string) (dirs : list dir) (has_sub : bool) (subs : list node)
| NFrag (on : string) (dirs : list dir) (subs : list node).

Definition is_field (n : node) : bool := match n with NField _ _ _ _ _ _ _ => true | NFrag _ _ _ => false end.
Definition fields_of (l : list node) : list node := filter is_field l.
Definition frags_of (l : list node) : list node := filter (fun n => negb (is_field n)) l.

Definition n_alias (n : node) : string := match n with NField a _ _ _ _ _ _ => a | NFrag on _ _ => on end.
Definition n_subs (n : node) : list node := match n with NField _ _ _ _ _ _ s => s | NFrag _ _ s => s end.

(** graphql.ShouldIncludeNode (graphql/directive.go:14-31): a (first) @skip with a true condition excludes the
    node; otherwise the (first) @include decides; without either the node is kept. *)
Fixpoint find_dir (name : string) (ds : list dir) : option bool :=
  match ds with
  | [] => None
  | (n, b) :: t => if String.eqb n name then Some b else find_dir name t
  end.
Definition should_include (ds : list dir) : bool :=
  match find_dir "skip" ds with
  | Some true => false
  | _ => match find_dir "include" ds with Some b => b | None => true end
  end.

(** a field selection its own directives keep *)
Definition incl_field (n : node) : bool :=
  match n with NField _ _ _ _ dirs _ _ => should_include dirs | NFrag _ _ _ => false end.

(** * The gateway's view of the merged schema *)
Inductive rtype := RScalar | RObj (n : string) | RUnion (n : string).

Record gschema := mk_gschema {
  g_objects : list string;                               (* OBJECT type names *)
  g_unions : list (string * list string);                (* union -> members, sorted by name *)
  g_fields : list (string * string * rtype * list string); (* (type, field, result type, services that serve it) *)
  g_fkeys : list (string * string * list string);        (* (type, service, federated key fields of that service) *)
  g_selector : list (string * string * string);          (* ServiceSelector: (type, field) -> service *)
  g_keyed : list string                                  (* objects registered with Key("id"): results carry __key *)
}.

Definition find_gfield (g : gschema) (ty f : string) : option (rtype * list string) :=
  match find (fun e => let '(t, n, _, _) := e in String.eqb t ty && String.eqb n f) (g_fields g) with
  | Some (_, _, r, o) => Some (r, o)
  | None => None
  end.

Definition union_members (g : gschema) (u : string) : option (list string) := lookup u (g_unions g).

(** flattener.applies (normalize.go:96-108) *)
Definition applies (g : gschema) (obj on : string) : option bool :=
  if existsb (String.eqb on) (g_objects g) then Some (String.eqb on obj)
  else match union_members g on with
       | Some ms => Some (existsb (String.eqb obj) ms)
       | None => None
       end.

Fixpoint concat_opt {A} (l : list (option (list A))) : option (list A) :=
  match l with
  | [] => Some []
  | None :: _ => None
  | Some a :: t => match concat_opt t with Some b => Some (a ++ b) | None => None end
  end.

(** flattenFragments (normalize.go:113-146): the set's own field selections first -- those their own
    @skip/@include keep ([prune = true]; before the repair every one of them, [prune = false]) --, then,
    fragment by fragment, the flattened content of every included fragment that applies to the object type. *)
Section Frags.
  Variable prune : bool.
  Definition own_fields (l : list node) : list node := if prune then filter incl_field l else fields_of l.

  Fixpoint frag_contrib_gen (g : gschema) (obj : string) (n : node) {struct n} : option (list node) :=
    match n with
    | NField _ _ _ _ _ _ _ => Some []
    | NFrag on dirs subs =>
        if should_include dirs then
          match applies g obj on with
          | None => None
          | Some false => Some []
          | Some true =>
              match concat_opt (map (frag_contrib_gen g obj) subs) with
              | Some rest => Some (own_fields subs ++ rest)
              | None => None
              end
          end
        else Some []
    end.

  Definition flatten_frags_gen (g : gschema) (obj : string) (l : list node) : option (list node) :=
    match concat_opt (map (frag_contrib_gen g obj) l) with
    | Some rest => Some (own_fields l ++ rest)
    | None => None
    end.
End Frags.

Definition frag_contrib := frag_contrib_gen true.
Definition flatten_frags := flatten_frags_gen true.

(** mergeSameAlias (normalize.go:142-202).  Stable sort by alias, then every later selection of an alias is
    folded into the first: name and arguments must agree; its sub-selections are appended.
    [dedupe = true] is the code before the repair: the appended field selections were de-duplicated by alias
    (first one kept).  The repaired code de-duplicates by pointer, which never drops anything in a parsed query. *)
Fixpoint insert_alias (n : node) (l : list node) : list node :=
  match l with
  | [] => [n]
  | x :: t => if str_ltb (n_alias x) (n_alias n) then x :: insert_alias n t else n :: l
  end.
Definition sort_alias (l : list node) : list node := fold_right insert_alias [] l.

Fixpoint dedupe_alias (seen : list string) (l : list node) : list node :=
  match l with
  | [] => []
  | x :: t =>
      if is_field x then
        if existsb (String.eqb (n_alias x)) seen then dedupe_alias seen t
        else x :: dedupe_alias (n_alias x :: seen) t
      else x :: dedupe_alias seen t
  end.

Definition args_eqb (a b : json) : bool := json_eqb (norm a) (norm b).

(** fold one more selection [x] of the same alias into [base] *)
Definition merge_into (dedupe : bool) (base x : node) : option node :=
  match base, x with
  | NField al nm args ak dirs hs subs, NField _ nm' args' _ _ hs' subs' =>
      if negb (String.eqb nm nm') then None
      else if negb (args_eqb args args') then None
      else if hs' then
        if hs then Some (NField al nm args ak dirs hs (subs ++ (if dedupe then dedupe_alias [] subs' else subs')))
        else None
      else Some base
  | _, _ => None
  end.

(** walk the sorted list, carrying the current group head *)
Fixpoint merge_sorted (dedupe : bool) (cur : option node) (l : list node) : option (list node) :=
  match l with
  | [] => Some (match cur with Some c => [c] | None => [] end)
  | x :: t =>
      match cur with
      | None => merge_sorted dedupe (Some x) t
      | Some c =>
          if String.eqb (n_alias c) (n_alias x) then
            match merge_into dedupe c x with
            | Some c' => merge_sorted dedupe (Some c') t
            | None => None
            end
          else
            match merge_sorted dedupe (Some x) t with
            | Some r => Some (c :: r)
            | None => None
            end
      end
  end.

Definition merge_same_alias (dedupe : bool) (l : list node) : option (list node) :=
  merge_sorted dedupe None (sort_alias l).

(** flatten (normalize.go:205-301); fuel bounds the nesting depth of the query. *)
Section Mapo.
  Context {A B : Type}.
  Variable f : A -> option B.
  Fixpoint mapo (l : list A) : option (list B) :=
    match l with
    | [] => Some []
    | x :: t => match f x, mapo t with Some y, Some r => Some (y :: r) | _, _ => None end
    end.
End Mapo.

Fixpoint flatten_gen (prune : bool) (fuel : nat) (dedupe : bool) (g : gschema) (ty : rtype) (sub : option (list node))
  {struct fuel} : option (option (list node)) :=
  match fuel with
  | O => None
  | S fuel' =>
      match ty with
      | RScalar => match sub with None => Some None | Some _ => None end
      | RObj obj =>
          match sub with
          | None => None
          | Some l =>
              match flatten_frags_gen prune g obj l with
              | None => None
              | Some flat =>
                  match merge_same_alias dedupe flat with
                  | None => None
                  | Some merged =>
                      match mapo (fun n =>
                              match n with
                              | NField al nm args ak dirs hs subs =>
                                  let fty := if String.eqb nm "__typename" then Some RScalar
                                             else option_map fst (find_gfield g obj nm) in
                                  match fty with
                                  | None => None
                                  | Some t =>
                                      match flatten_gen prune fuel' dedupe g t (if hs then Some subs else None) with
                                      | Some (Some s') => Some (NField al nm args ak dirs true s')
                                      | Some None => Some (NField al nm args ak dirs false [])
                                      | None => None
                                      end
                                  end
                              | NFrag _ _ _ => None
                              end) merged with
                      | Some children => Some (Some children)
                      | None => None
                      end
                  end
              end
          end
      | RUnion u =>
          match sub, union_members g u with
          | Some l, Some ms =>
              match mapo (fun m =>
                      match flatten_gen prune fuel' dedupe g (RObj m) (Some l) with
                      | Some (Some []) => Some []
                      | Some (Some body) => Some [NFrag m [] body]
                      | _ => None
                      end) ms with
              | Some frs => Some (Some (List.concat frs))
              | None => None
              end
          | _, _ => None
          end
      end
  end.

(** the flattener as repaired: selections excluded by their own directives are dropped before grouping by alias *)
Definition flatten := flatten_gen true.

(** nesting depth of a query: enough fuel for [flatten] *)
Fixpoint depth (n : node) : nat :=
  S (fold_right (fun x d => Nat.max (depth x) d) 0 (n_subs n)).
Definition depth_list (l : list node) : nat := fold_right (fun x d => Nat.max (depth x) d) 0 l.
