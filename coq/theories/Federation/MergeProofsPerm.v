(** n-ary permutation invariance of the SUCCESS outcome of mergeSchemaSlice (either mode): if the fold
    succeeds in two orders of the same schemas, the two results are equal.  (The failure outcome does depend
    on the order: [intersection_error_depends_on_order].)  Bottom-up instances of [mrg_perm_inv]. *)
From Coq Require Import List String Bool Arith Lia Permutation.
From Thunder Require Import Lib.Json Federation.Merge Federation.MergeProofsBase Federation.MergeProofsTref
  Federation.MergeProofs Federation.MergeProofsValid Federation.MergeProofsComm Federation.MergeProofsNary
  Federation.MergeProofsShape.
Import ListNotations.
Open Scope string_scope.
Open Scope list_scope.

Lemma oslice_hom : forall {T U} (op : T -> T -> option T) (op' : U -> U -> option U) (h : T -> U) (Inv : T -> Prop),
  (forall a b c, Inv a -> Inv b -> op a b = Some c -> op' (h a) (h b) = Some (h c) /\ Inv c) ->
  forall X r, Forall Inv X -> oslice op X = Some r -> oslice op' (map h X) = Some (h r) /\ Inv r.
Proof.
  intros T U op op' h Inv Hh [|x xs] r HI H; [discriminate|]. inversion HI; subst.
  simpl in *. eapply ofold_hom; eauto.
Qed.

(** ** the merge functions as instances of the generic by-name merge *)
Definition if_bad (x : ifield) : bool := is_nonnull (if_type x).
Definition no_bad {A} (x : A) : bool := false.

Lemma merge_input_fields_mrg : forall m, merge_input_fields m = mrg if_name if_bad ifield_pair m.
Proof. reflexivity. Qed.
Lemma merge_fields_mrg : forall m, merge_fields m = mrg f_name no_bad (field_pair m) m.
Proof. reflexivity. Qed.
Lemma merge_prefs_mrg : forall m, merge_prefs m = mrg fst no_bad (fun x _ => Some x) m.
Proof. reflexivity. Qed.
Lemma merge_enums_mrg : forall m, merge_enums m = mrg (fun x : string => x) no_bad (fun x _ => Some x) m.
Proof. reflexivity. Qed.
Lemma merge_schemas_mrg : forall m, merge_schemas m = mrg t_name no_bad (merge_types m) m.
Proof. reflexivity. Qed.

Lemma merge_fold_ofold : forall m l acc, merge_fold m acc l = ofold (merge_schemas m) acc l.
Proof. intros m l. induction l as [|s t IH]; intros acc; simpl; auto. destruct (merge_schemas m acc s); auto. Qed.
Lemma merge_slice_oslice : forall m l, merge_slice m l = oslice (merge_schemas m) l.
Proof. intros m [|s t]; simpl; auto. apply merge_fold_ofold. Qed.

(** ** input fields *)
Lemma ifield_ext : forall x y, if_name x = if_name y -> if_type x = if_type y -> x = y.
Proof. intros [] []; simpl; congruence. Qed.

Lemma ifield_pair_hom : forall n a b c, if_name a = n -> if_name b = n -> ifield_pair a b = Some c ->
  merge_tref true (if_type a) (if_type b) = Some (if_type c) /\ if_name c = n.
Proof.
  intros n a b c Ha _ H. unfold ifield_pair in H.
  destruct (merge_tref true (if_type a) (if_type b)) as [t|]; inversion H; subst; simpl. auto.
Qed.

Lemma ifield_perm_inv : forall n, perm_inv ifield_pair (fun x => True /\ if_name x = n).
Proof.
  intros n X X' y y' HG HP H H'.
  assert (HI : Forall (fun x => if_name x = n) X) by (eapply Forall_impl; [|exact HG]; intros a [_ Ha]; exact Ha).
  assert (HI' : Forall (fun x => if_name x = n) X') by (eapply Permutation_Forall; eauto).
  destruct (oslice_hom ifield_pair (merge_tref true) if_type _ (ifield_pair_hom n) X y HI H) as [T1 N1].
  destruct (oslice_hom ifield_pair (merge_tref true) if_type _ (ifield_pair_hom n) X' y' HI' H') as [T2 N2].
  rewrite (merge_trefs_perm_full true _ _ (Permutation_map if_type HP)) in T1.
  apply ifield_ext; congruence.
Qed.

Definition GI : list ifield -> Prop := GL if_name (fun _ => True).

Lemma input_fields_perm_inv : forall md, perm_inv (merge_input_fields md) GI.
Proof.
  intros md. rewrite merge_input_fields_mrg.
  apply (mrg_perm_inv if_name if_bad ifield_pair md ifield_pair_name (fun _ => True) ifield_perm_inv).
Qed.

Lemma GI_nodup : forall l, NoDup (map if_name l) -> GI l.
Proof. intros l H. split; auto. apply Forall_forall. auto. Qed.

(** ** fields *)
Definition wf_fieldP (f : field) : Prop := NoDup (map if_name (f_args f)).

Lemma field_ext : forall x y, f_name x = f_name y -> f_type x = f_type y -> f_args x = f_args y -> x = y.
Proof. intros [] []; simpl; congruence. Qed.

Definition field_inv (n : string) (x : field) : Prop := wf_fieldP x /\ f_name x = n.

Lemma field_pair_inv : forall md a b c, field_pair md a b = Some c ->
  merge_tref false (f_type a) (f_type b) = Some (f_type c) /\
  merge_input_fields md (f_args a) (f_args b) = Some (f_args c) /\ f_name c = f_name a.
Proof.
  intros md a b c H. unfold field_pair in H.
  destruct (merge_tref false (f_type a) (f_type b)) as [t|]; [|discriminate].
  destruct (merge_input_fields md (f_args a) (f_args b)) as [args|]; inversion H; subst; simpl. auto.
Qed.

Lemma field_pair_hom_type : forall md n a b c, field_inv n a -> field_inv n b -> field_pair md a b = Some c ->
  merge_tref false (f_type a) (f_type b) = Some (f_type c) /\ field_inv n c.
Proof.
  intros md n a b c [Wa Na] [Wb Nb] H. destruct (field_pair_inv _ _ _ _ H) as [H1 [H2 H3]].
  split; auto. split; [|congruence]. exact (merge_input_fields_nodup md _ _ _ Wa Wb H2).
Qed.

Lemma field_pair_hom_args : forall md n a b c, field_inv n a -> field_inv n b -> field_pair md a b = Some c ->
  merge_input_fields md (f_args a) (f_args b) = Some (f_args c) /\ field_inv n c.
Proof.
  intros md n a b c Ia Ib H. destruct (field_pair_hom_type md n a b c Ia Ib H) as [_ Ic].
  destruct (field_pair_inv _ _ _ _ H) as [_ [H2 _]]. auto.
Qed.

Lemma field_perm_inv : forall md n, perm_inv (field_pair md) (fun x => wf_fieldP x /\ f_name x = n).
Proof.
  intros md n X X' y y' HG HP H H'.
  assert (HG' : Forall (field_inv n) X') by (eapply Permutation_Forall; eauto).
  destruct (oslice_hom _ _ f_type _ (field_pair_hom_type md n) X y HG H) as [T1 [_ N1]].
  destruct (oslice_hom _ _ f_type _ (field_pair_hom_type md n) X' y' HG' H') as [T2 [_ N2]].
  destruct (oslice_hom _ _ f_args _ (field_pair_hom_args md n) X y HG H) as [A1 _].
  destruct (oslice_hom _ _ f_args _ (field_pair_hom_args md n) X' y' HG' H') as [A2 _].
  rewrite (merge_trefs_perm_full false _ _ (Permutation_map f_type HP)) in T1.
  apply field_ext; try congruence.
  apply (input_fields_perm_inv md (map f_args X) (map f_args X')); auto.
  - apply Forall_forall. intros l Hl. apply in_map_iff in Hl as [f [<- Hf]].
    rewrite Forall_forall in HG. destruct (HG f Hf) as [Wf _]. apply GI_nodup. exact Wf.
  - apply Permutation_map. exact HP.
Qed.

Definition GF : list field -> Prop := GL f_name wf_fieldP.

Lemma fields_perm_inv : forall md, perm_inv (merge_fields md) GF.
Proof.
  intros md. rewrite merge_fields_mrg.
  apply (mrg_perm_inv f_name no_bad (field_pair md) md (field_pair_name md) wf_fieldP (field_perm_inv md)).
Qed.

(** ** "first one wins" lists: possibleTypes, interfaces, enum values *)
Lemma first_ofold : forall {A} (xs : list A) x, ofold (fun x _ => Some x) x xs = Some x.
Proof. intros A xs. induction xs as [|y t IH]; intros x; simpl; auto. Qed.

Lemma first_perm_inv : forall {A} (name : A -> string) (G : A -> Prop),
  (forall p q, G p -> G q -> name p = name q -> p = q) ->
  forall n, perm_inv (fun x _ => Some x) (fun p => G p /\ name p = n).
Proof.
  intros A name G Hfun n X X' y y' HG HP H H'.
  assert (HG' : Forall (fun p => G p /\ name p = n) X') by (eapply Permutation_Forall; eauto).
  destruct X as [|x xs]; [discriminate|]. destruct X' as [|x' xs']; [discriminate|]. simpl in H, H'.
  rewrite first_ofold in H, H'. inversion H; inversion H'; subst.
  inversion HG as [|? ? [G1 N1] _]; subst. inversion HG' as [|? ? [G2 N2] _]; subst. apply Hfun; congruence.
Qed.

Lemma prefs_perm_inv : forall md (G : pref -> Prop), (forall p q, G p -> G q -> fst p = fst q -> p = q) ->
  perm_inv (merge_prefs md) (GL fst G).
Proof.
  intros md G Hfun. rewrite merge_prefs_mrg.
  apply (mrg_perm_inv fst no_bad (fun x _ => Some x) md (fun x y z H => f_equal fst (eq_sym (f_equal (fun o => match o with Some v => v | None => x end) H)))
           G (first_perm_inv fst G Hfun)).
Qed.

Lemma enums_perm_inv : forall md, perm_inv (merge_enums md) (GL (fun x : string => x) (fun _ => True)).
Proof.
  intros md. rewrite merge_enums_mrg.
  apply (mrg_perm_inv (fun x : string => x) no_bad (fun x _ => Some x) md
           (fun x y z H => eq_sym (f_equal (fun o => match o with Some v => v | None => x end) H))
           (fun _ => True) (first_perm_inv (fun x : string => x) (fun _ => True) (fun p q _ _ H => H))).
Qed.

(** ** types *)
Lemma itype_ext : forall x y, t_name x = t_name y -> t_kind x = t_kind y -> t_fields x = t_fields y ->
  t_inputs x = t_inputs y -> t_possible x = t_possible y -> t_enums x = t_enums y ->
  t_interfaces x = t_interfaces y -> x = y.
Proof. intros [] []; simpl; congruence. Qed.

Definition others_nil (k : string) (c : itype) : Prop :=
  (k = "OBJECT" \/ t_fields c = []) /\ (k = "INPUT_OBJECT" \/ t_inputs c = []) /\
  (k = "UNION" \/ t_possible c = []) /\ (k = "ENUM" \/ t_enums c = []) /\ (k = "INTERFACE" \/ t_interfaces c = []).

(** inversion of mergeTypes: which component is merged, and that the others are reset *)
Lemma merge_types_shape : forall md a b c, merge_types md a b = Some c ->
  t_kind b = t_kind a /\ t_kind c = t_kind a /\ t_name c = t_name a /\ others_nil (t_kind a) c /\
  ((t_kind a = "INPUT_OBJECT" /\ merge_input_fields md (t_inputs a) (t_inputs b) = Some (t_inputs c)) \/
   (t_kind a = "OBJECT" /\ merge_fields md (t_fields a) (t_fields b) = Some (t_fields c)) \/
   (t_kind a = "UNION" /\ merge_prefs md (t_possible a) (t_possible b) = Some (t_possible c)) \/
   (t_kind a = "INTERFACE" /\ merge_prefs md (t_interfaces a) (t_interfaces b) = Some (t_interfaces c)) \/
   (t_kind a = "ENUM" /\ merge_enums md (t_enums a) (t_enums b) = Some (t_enums c)) \/
   t_kind a = "SCALAR").
Proof.
  intros md x y z H. unfold merge_types in H. unfold others_nil.
  destruct (String.eqb (t_kind x) (t_kind y)) eqn:Ek; simpl in H; [|discriminate].
  apply String.eqb_eq in Ek. split; auto.
  destruct (String.eqb (t_kind x) "INPUT_OBJECT") eqn:E1.
  { apply String.eqb_eq in E1. destruct (merge_input_fields md (t_inputs x) (t_inputs y)) eqn:E; simpl in H; inversion H; subst z; simpl.
    rewrite E1. repeat split; auto 10. }
  destruct (String.eqb (t_kind x) "OBJECT") eqn:E2.
  { apply String.eqb_eq in E2. destruct (merge_fields md (t_fields x) (t_fields y)) eqn:E; simpl in H; inversion H; subst z; simpl.
    rewrite E2. repeat split; auto 10. }
  destruct (String.eqb (t_kind x) "UNION") eqn:E3.
  { apply String.eqb_eq in E3. destruct (merge_prefs md (t_possible x) (t_possible y)) eqn:E; simpl in H; inversion H; subst z; simpl.
    rewrite E3. repeat split; auto 10. }
  destruct (String.eqb (t_kind x) "INTERFACE") eqn:E4.
  { apply String.eqb_eq in E4. destruct (merge_prefs md (t_interfaces x) (t_interfaces y)) eqn:E; simpl in H; inversion H; subst z; simpl.
    rewrite E4. repeat split; auto 10. }
  destruct (String.eqb (t_kind x) "ENUM") eqn:E5.
  { apply String.eqb_eq in E5. destruct (merge_enums md (t_enums x) (t_enums y)) eqn:E; simpl in H; inversion H; subst z; simpl.
    rewrite E5. repeat split; auto 10. }
  destruct (String.eqb (t_kind x) "SCALAR") eqn:E6; [|discriminate].
  apply String.eqb_eq in E6. inversion H; subst z; simpl. repeat split; auto 10.
Qed.

Definition type_inv (n k : string) (t : itype) : Prop := t_name t = n /\ t_kind t = k.

Lemma merge_types_inv_pres : forall md n k a b c, type_inv n k a -> type_inv n k b -> merge_types md a b = Some c ->
  type_inv n k c.
Proof.
  intros md n k a b c [Na Ka] _ H. destruct (merge_types_shape _ _ _ _ H) as [_ [Kc [Nc _]]]. split; congruence.
Qed.

Lemma oslice_types_kinds : forall md X y, oslice (merge_types md) X = Some y ->
  Forall (fun x => t_kind x = t_kind y) X.
Proof.
  intros md [|x xs] y H; [discriminate|]. simpl in H.
  assert (G : forall l acc, ofold (merge_types md) acc l = Some y ->
                t_kind acc = t_kind y /\ Forall (fun x => t_kind x = t_kind y) l).
  { induction l as [|z l IH]; intros acc Hf; simpl in Hf.
    - inversion Hf; subst. auto.
    - destruct (merge_types md acc z) as [a|] eqn:E; [|discriminate].
      destruct (merge_types_shape _ _ _ _ E) as [Kz [Ka _]]. destruct (IH a Hf) as [I1 I2].
      split; [congruence|]. constructor; auto. congruence. }
  destruct (G xs x H). constructor; auto.
Qed.

(** the component of kind [k], followed through the fold *)
Lemma types_via : forall {C} md (proj : itype -> C) (opC : C -> C -> option C) (n k : string),
  (forall a b c, t_kind a = k -> merge_types md a b = Some c -> opC (proj a) (proj b) = Some (proj c)) ->
  forall X y, Forall (type_inv n k) X -> oslice (merge_types md) X = Some y ->
    oslice opC (map proj X) = Some (proj y).
Proof.
  intros C md proj opC n k Hc X y HI H.
  refine (proj1 (oslice_hom (merge_types md) opC proj (type_inv n k) _ X y HI H)).
  intros a b c Ia Ib Hm. split; [apply Hc; auto; apply Ia | exact (merge_types_inv_pres md n k a b c Ia Ib Hm)].
Qed.

Ltac shape_pick H :=
  destruct H as [[K H]|[[K H]|[[K H]|[[K H]|[[K H]|K]]]]]; try (exfalso; congruence).

Section Types.
  Variable md : mode.
  (** the universe of original types: same-named ones agree on the kinds of their union-member / interface entries *)
  Variable TU : itype -> Prop.
  Hypothesis TU_agree : forall x y, TU x -> TU y -> t_name x = t_name y -> types_agree x y.

  Definition Gt (x : itype) : Prop := wf_type x = true /\ TU x.

  Lemma types_perm_inv : forall n, perm_inv (merge_types md) (fun x => Gt x /\ t_name x = n).
  Proof.
    intros n X X' y y' HG HP H H'.
    assert (HG' : Forall (fun x => Gt x /\ t_name x = n) X') by (eapply Permutation_Forall; eauto).
    destruct X as [|x0 [|x1 xs]]; [discriminate| |].
    { apply Permutation_length_1_inv in HP. subst X'. simpl in *. congruence. }
    destruct X' as [|x0' [|x1' xs']]; [discriminate| |].
    { apply Permutation_sym, Permutation_length_1_inv in HP. discriminate. }
    pose proof (oslice_types_kinds md _ _ H) as K1. pose proof (oslice_types_kinds md _ _ H') as K2.
    assert (Kyy : t_kind y' = t_kind y).
    { rewrite Forall_forall in K1, K2. rewrite <- (K2 x0') by (left; reflexivity).
      apply K1. eapply Permutation_in; [apply Permutation_sym; exact HP | left; reflexivity]. }
    set (k := t_kind y) in *.
    assert (I1 : Forall (type_inv n k) (x0 :: x1 :: xs)).
    { rewrite Forall_forall in *. intros x Hx. split; [apply (HG x Hx) | apply K1; exact Hx]. }
    assert (I2 : Forall (type_inv n k) (x0' :: x1' :: xs')).
    { rewrite Forall_forall in *. intros x Hx. split; [apply (HG' x Hx) | rewrite <- Kyy; apply K2; exact Hx]. }
    destruct (ofold_last_step _ _ _ _ _ H) as [a [b L1]]. destruct (ofold_last_step _ _ _ _ _ H') as [a' [b' L2]].
    destruct (merge_types_shape _ _ _ _ L1) as [_ [Ky [_ [O1 S1]]]].
    destruct (merge_types_shape _ _ _ _ L2) as [_ [Ky' [_ [O2 S2]]]].
    assert (Ny : t_name y = n /\ t_name y' = n).
    { split.
      - eapply (proj2 (oslice_hom _ _ (fun x => x) _ (fun a b c Ia Ib Hm => conj Hm (merge_types_inv_pres md n k a b c Ia Ib Hm)) _ y I1 H)).
      - eapply (proj2 (oslice_hom _ _ (fun x => x) _ (fun a b c Ia Ib Hm => conj Hm (merge_types_inv_pres md n k a b c Ia Ib Hm)) _ y' I2 H')). }
    destruct Ny as [Ny Ny'].
    assert (Ka : t_kind a = k) by (unfold k; congruence). assert (Ka' : t_kind a' = k) by congruence.
    assert (SK : k = "INPUT_OBJECT" \/ k = "OBJECT" \/ k = "UNION" \/ k = "INTERFACE" \/ k = "ENUM" \/ k = "SCALAR").
    { rewrite <- Ka. destruct S1 as [[K _]|[[K _]|[[K _]|[[K _]|[[K _]|K]]]]]; auto 10. }
    rewrite Ka in O1. rewrite Ka' in O2. clear S1 S2 L1 L2 Ka Ka' a b a' b' Ky Ky'.
    assert (Wf : forall Y, Forall (fun x => Gt x /\ t_name x = n) Y -> forall x, In x Y -> wf_type x = true /\ TU x).
    { intros Y HY x Hx. rewrite Forall_forall in HY. destruct (HY x Hx) as [[W T] _]. auto. }
    destruct O1 as [F1 [In1 [P1 [E1 J1]]]]. destruct O2 as [F2 [In2 [P2 [E2 J2]]]].
    destruct SK as [KK|[KK|[KK|[KK|[KK|KK]]]]].
    - (* INPUT_OBJECT *)
      apply itype_ext; try congruence; try (symmetry; exact Kyy);
        try (match goal with |- ?f y = ?f y' => destruct F1, F2, P1, P2, E1, E2, J1, J2; congruence end).
      pose proof (types_via md t_inputs (merge_input_fields md) n k
                    (fun a b c Ka Hm => ltac:(destruct (merge_types_shape _ _ _ _ Hm) as [_ [_ [_ [_ S]]]]; shape_pick S; exact S)) _ _ I1 H) as A1.
      pose proof (types_via md t_inputs (merge_input_fields md) n k
                    (fun a b c Ka Hm => ltac:(destruct (merge_types_shape _ _ _ _ Hm) as [_ [_ [_ [_ S]]]]; shape_pick S; exact S)) _ _ I2 H') as A2.
      refine (input_fields_perm_inv md _ _ _ _ _ (Permutation_map t_inputs HP) A1 A2).
      apply Forall_forall. intros l Hl. apply in_map_iff in Hl as [t [<- Ht]]. apply GI_nodup.
      destruct (wf_type_parts t (proj1 (Wf _ HG t Ht))) as [_ [_ [Hn _]]]. exact Hn.
    - (* OBJECT *)
      apply itype_ext; try congruence; try (symmetry; exact Kyy);
        try (match goal with |- ?f y = ?f y' => destruct In1, In2, P1, P2, E1, E2, J1, J2; congruence end).
      pose proof (types_via md t_fields (merge_fields md) n k
                    (fun a b c Ka Hm => ltac:(destruct (merge_types_shape _ _ _ _ Hm) as [_ [_ [_ [_ S]]]]; shape_pick S; exact S)) _ _ I1 H) as A1.
      pose proof (types_via md t_fields (merge_fields md) n k
                    (fun a b c Ka Hm => ltac:(destruct (merge_types_shape _ _ _ _ Hm) as [_ [_ [_ [_ S]]]]; shape_pick S; exact S)) _ _ I2 H') as A2.
      refine (fields_perm_inv md _ _ _ _ _ (Permutation_map t_fields HP) A1 A2).
      apply Forall_forall. intros l Hl. apply in_map_iff in Hl as [t [<- Ht]].
      destruct (wf_type_parts t (proj1 (Wf _ HG t Ht))) as [Hn [Ha _]]. split; auto. apply Forall_forall. exact Ha.
    - (* UNION *)
      apply itype_ext; try congruence; try (symmetry; exact Kyy);
        try (match goal with |- ?f y = ?f y' => destruct F1, F2, In1, In2, E1, E2, J1, J2; congruence end).
      pose proof (types_via md t_possible (merge_prefs md) n k
                    (fun a b c Ka Hm => ltac:(destruct (merge_types_shape _ _ _ _ Hm) as [_ [_ [_ [_ S]]]]; shape_pick S; exact S)) _ _ I1 H) as A1.
      pose proof (types_via md t_possible (merge_prefs md) n k
                    (fun a b c Ka Hm => ltac:(destruct (merge_types_shape _ _ _ _ Hm) as [_ [_ [_ [_ S]]]]; shape_pick S; exact S)) _ _ I2 H') as A2.
      set (Gp := fun p : pref => exists t, TU t /\ t_name t = n /\ In p (t_possible t)).
      refine (prefs_perm_inv md Gp _ _ _ _ _ _ (Permutation_map t_possible HP) A1 A2).
      + intros p q [t [Tt [Nt Ip]]] [u [Tu [Nu Iq]]] Hpq.
        destruct (TU_agree t u Tt Tu ltac:(congruence)) as [Hp _]. apply (Hp p q Ip Iq Hpq).
      + apply Forall_forall. intros l Hl. apply in_map_iff in Hl as [t [<- Ht]].
        destruct (wf_type_parts t (proj1 (Wf _ HG t Ht))) as [_ [_ [_ [Hn _]]]]. split; auto.
        apply Forall_forall. intros p Hp. exists t. split; [apply (Wf _ HG t Ht)|]. split; auto.
        rewrite Forall_forall in HG. apply (HG t Ht).
    - (* INTERFACE *)
      apply itype_ext; try congruence; try (symmetry; exact Kyy);
        try (match goal with |- ?f y = ?f y' => destruct F1, F2, In1, In2, P1, P2, E1, E2; congruence end).
      pose proof (types_via md t_interfaces (merge_prefs md) n k
                    (fun a b c Ka Hm => ltac:(destruct (merge_types_shape _ _ _ _ Hm) as [_ [_ [_ [_ S]]]]; shape_pick S; exact S)) _ _ I1 H) as A1.
      pose proof (types_via md t_interfaces (merge_prefs md) n k
                    (fun a b c Ka Hm => ltac:(destruct (merge_types_shape _ _ _ _ Hm) as [_ [_ [_ [_ S]]]]; shape_pick S; exact S)) _ _ I2 H') as A2.
      set (Gp := fun p : pref => exists t, TU t /\ t_name t = n /\ In p (t_interfaces t)).
      refine (prefs_perm_inv md Gp _ _ _ _ _ _ (Permutation_map t_interfaces HP) A1 A2).
      + intros p q [t [Tt [Nt Ip]]] [u [Tu [Nu Iq]]] Hpq.
        destruct (TU_agree t u Tt Tu ltac:(congruence)) as [_ Hp]. apply (Hp p q Ip Iq Hpq).
      + apply Forall_forall. intros l Hl. apply in_map_iff in Hl as [t [<- Ht]].
        destruct (wf_type_parts t (proj1 (Wf _ HG t Ht))) as [_ [_ [_ [_ [_ Hn]]]]]. split; auto.
        apply Forall_forall. intros p Hp. exists t. split; [apply (Wf _ HG t Ht)|]. split; auto.
        rewrite Forall_forall in HG. apply (HG t Ht).
    - (* ENUM *)
      apply itype_ext; try congruence; try (symmetry; exact Kyy);
        try (match goal with |- ?f y = ?f y' => destruct F1, F2, In1, In2, P1, P2, J1, J2; congruence end).
      pose proof (types_via md t_enums (merge_enums md) n k
                    (fun a b c Ka Hm => ltac:(destruct (merge_types_shape _ _ _ _ Hm) as [_ [_ [_ [_ S]]]]; shape_pick S; exact S)) _ _ I1 H) as A1.
      pose proof (types_via md t_enums (merge_enums md) n k
                    (fun a b c Ka Hm => ltac:(destruct (merge_types_shape _ _ _ _ Hm) as [_ [_ [_ [_ S]]]]; shape_pick S; exact S)) _ _ I2 H') as A2.
      refine (enums_perm_inv md _ _ _ _ _ (Permutation_map t_enums HP) A1 A2).
      apply Forall_forall. intros l Hl. apply in_map_iff in Hl as [t [<- Ht]].
      destruct (wf_type_parts t (proj1 (Wf _ HG t Ht))) as [_ [_ [_ [_ [Hn _]]]]]. split; [rewrite map_id; exact Hn|].
      apply Forall_forall. auto.
    - (* SCALAR *)
      apply itype_ext; try congruence; try (symmetry; exact Kyy);
        match goal with |- ?f y = ?f y' => destruct F1, F2, In1, In2, P1, P2, E1, E2, J1, J2; congruence end.
  Qed.

  Definition GS : schema -> Prop := GL t_name Gt.

  Lemma schemas_perm_inv : perm_inv (merge_schemas md) GS.
  Proof.
    rewrite merge_schemas_mrg.
    apply (mrg_perm_inv t_name no_bad (merge_types md) md (merge_types_name md) Gt types_perm_inv).
  Qed.
End Types.

(** ** the theorem *)
Theorem merge_slice_perm : forall md l l' r r',
  (forall v, In v l -> wf_schema v = true) ->
  (forall a b, In a l -> In b l -> schemas_agree a b) ->
  Permutation l l' -> merge_slice md l = Some r -> merge_slice md l' = Some r' -> r = r'.
Proof.
  intros md l l' r r' W Hag HP H H'. rewrite merge_slice_oslice in H, H'.
  set (TU := fun x : itype => exists s, In s l /\ In x s).
  refine (schemas_perm_inv md TU _ l l' r r' _ HP H H').
  - intros x y [s [Hs Hx]] [u [Hu Hy]] Hn. apply (Hag s u Hs Hu x y Hx Hy Hn).
  - apply Forall_forall. intros s Hs. split; [apply wf_schema_names; auto|].
    apply Forall_forall. intros x Hx. split; [eapply wf_schema_type; eauto | exists s; auto].
Qed.
