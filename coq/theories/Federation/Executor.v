(** Executable model of federation/executor.go (extractKeys as repaired and as it was, runOnService's
    sub-query construction, stitching result i into target i, deleteKey), of a federated service answering a
    (normalised) sub-query, and the reference semantics of a query on one combined server.  Definitions only.

    All functions of the gateway side are structurally recursive (on the query, on the plan, on the path and
    the result tree); only the reference semantics [eval_ref], which re-groups selections by alias at every
    level, carries fuel. *)
From Coq Require Import List String Bool Arith ZArith.
From Thunder Require Import Lib.Json Federation.Merge Federation.Normalize Federation.Planner.
Import ListNotations.
Open Scope string_scope.
Open Scope list_scope.

(** * Data: every resolver is a function of (type, object id, field, canonical arguments) *)
Inductive aval : Type :=
| ANull
| AScalar (j : json)
| ARef (ty : string) (id : Z)       (* result of an object-typed field: an object of a catalogue type *)
| AURef (ty : string) (id : Z)      (* result of a union-typed field: the member type and the object *)
| AList (l : list aval)
| ALeaf (val : Z) (tag : string).   (* a plain (non-federated) object with fields val, tag *)

Record world := mk_world {
  w_value : string -> Z -> string -> string -> aval;
  w_org : string -> Z -> Z
}.

Definition leaf_obj (val : Z) (tag : string) (sels : list node) : json :=
  JObj (List.concat (map (fun n => match n with
                                   | NField al nm _ _ _ _ _ =>
                                       if String.eqb nm "val" then [(al, JNum val)]
                                       else if String.eqb nm "tag" then [(al, JStr tag)]
                                       else if String.eqb nm "__typename" then [(al, JStr "Leaf")]
                                       else []
                                   | _ => []
                                   end) sels)).

(** * A service (or the combined server) answering a normalised selection set *)
Section Eval.
  Variable w : world.
  Variable keyed : string -> bool.   (* objects registered with Key("id"): their results carry __key *)

  Definition key_kv (ty : string) (id : Z) : list (string * json) :=
    if keyed ty then [("__key", JNum id)] else [].

  (** The evaluation of one selection, with the recursive knot ([evn]) open, so that every piece has a name. *)
  Section Gen.
    Variable evn : node -> string -> Z -> list (string * json).

    Definition evs (l : list node) (t : string) (i : Z) : list (string * json) :=
      flat_map (fun x => evn x t i) l.

    Definition obj_gen (subs : list node) (t : string) (i : Z) : json := JObj (key_kv t i ++ evs subs t i).

    (** union-level field selections (__typename) that the member's fragment does not already answer *)
    Definition pushed (body all : list node) : list node :=
      filter (fun x => is_field x && negb (existsb (String.eqb (n_alias x)) (map n_alias body))) all.

    (** a value of union member [t]: the member's fragment, with the union-level field selections pushed into
        it as graphql.PrepareQuery does (graphql/batch_executor.go:392-438) *)
    Section Subs.
      Variable subs : list node.   (* the selection set of the field being evaluated *)

      Section Pick.
        Variables (t : string) (i : Z).
        Fixpoint pick_gen (l : list node) {struct l} : json :=
          match l with
          | [] =>
              (* no fragment for the member: the union-level field selections alone (resolveUnionBatch resolves the
                 member over the union-level selections and the fragments on it -- as repaired for C01/C14; before
                 that repair the value was null) *)
              JObj (key_kv t i ++
                    flat_map (fun x => if is_field x && negb (existsb (String.eqb (n_alias x)) (map n_alias (@nil node)))
                                       then evn x t i else []) subs ++
                    evs [] t i)
          | NFrag on _ body :: r =>
              if String.eqb on t then
                JObj (key_kv t i ++
                      flat_map (fun x => if is_field x && negb (existsb (String.eqb (n_alias x)) (map n_alias body))
                                         then evn x t i else []) subs ++
                      evs body t i)
              else pick_gen r
          | _ :: r => pick_gen r
          end.
      End Pick.

      Fixpoint render_gen (v : aval) {struct v} : json :=
        match v with
        | ANull => JNull
        | AScalar j => j
        | AList l => JArr (map render_gen l)
        | ALeaf val tag => leaf_obj val tag subs
        | ARef t i => obj_gen subs t i
        | AURef t i => pick_gen t i subs
        end.

      Definition fval_gen (ty : string) (id : Z) (nm ak : string) : json :=
        if String.eqb nm "__typename" then JStr ty
        else if String.eqb nm federation_field then obj_gen subs ty id
        else if String.eqb ty "Query" then render_gen (w_value w ty id nm ak)
        else if String.eqb nm "id" then JNum id
        else if String.eqb nm "org" then JNum (w_org w ty id)
        else render_gen (w_value w ty id nm ak).
    End Subs.
  End Gen.

  (** [ev n ty id]: the entry selection [n] contributes to the result object of object (ty, id). *)
  Fixpoint ev (n : node) (ty : string) (id : Z) {struct n} : list (string * json) :=
    match n with
    | NFrag _ _ _ => []
    | NField al nm _ ak _ _ subs => [(al, fval_gen ev subs ty id nm ak)]
    end.

  Definition eval_obj (ty : string) (id : Z) (sels : list node) : json :=
    JObj (key_kv ty id ++ flat_map (fun n => ev n ty id) sels).
End Eval.

(** * extractKeys (executor.go:268-328) and the stitching of executor.go:385-404 *)
Fixpoint extract_keys (repaired : bool) (path : list step) {struct path} : json -> option (list json) :=
  match path with
  | [] =>
      fix arr (node : json) : option (list json) :=
        match node with
        | JArr l => concat_opt (map arr l)
        | JNull => if repaired then Some [] else None
        | JObj kvs => match lookup federation_field kvs with Some k => Some [k] | None => None end
        | _ => None
        end
  | SField name :: rest =>
      fix arr (node : json) : option (list json) :=
        match node with
        | JArr l => concat_opt (map arr l)
        | JObj kvs =>
            match lookup name kvs with
            | None => None
            | Some next => extract_keys repaired rest next
            end
        | _ => Some []
        end
  | SType t :: rest =>
      fix arr (node : json) : option (list json) :=
        match node with
        | JArr l => concat_opt (map arr l)
        | JObj kvs =>
            match lookup "__typename" kvs with
            | Some (JStr s) => if String.eqb s t then extract_keys repaired rest node else Some []
            | _ => None
            end
        | _ => Some []
        end
  end.

(** merging one sub-result into its target object (executor.go:395-403) *)
Fixpoint merge_result (target : list (string * json)) (r : list (string * json)) : option (list (string * json)) :=
  match r with
  | [] => Some target
  | (k, v) :: t =>
      match lookup k target with
      | None => merge_result (target ++ [(k, v)]) t
      | Some v' => if String.eqb k "__key" && json_eqb v v' then merge_result target t else None
      end
  end.

Fixpoint set_key (k : string) (v : json) (l : list (string * json)) : list (string * json) :=
  match l with
  | [] => []
  | (k', v') :: t => if String.eqb k k' then (k, v) :: t else (k', v') :: set_key k v t
  end.

(** [graft]: walk exactly as extractKeys does and merge the next sub-result into each target met; returns the
    new tree and the unused results. *)
Section GraftList.
  Variable one : json -> list json -> option (json * list json).
  Fixpoint graft_list (l : list json) (rs : list json) {struct l} : option (list json * list json) :=
    match l with
    | [] => Some ([], rs)
    | e :: t =>
        match one e rs with
        | Some (e', rs') =>
            match graft_list t rs' with
            | Some (t', rs'') => Some (e' :: t', rs'')
            | None => None
            end
        | None => None
        end
    end.
End GraftList.

Fixpoint graft (path : list step) {struct path} : json -> list json -> option (json * list json) :=
  match path with
  | [] =>
      fix arr (node : json) (rs : list json) {struct node} : option (json * list json) :=
        match node with
        | JArr l =>
            match (fix go (l : list json) (rs : list json) {struct l} : option (list json * list json) :=
                     match l with
                     | [] => Some ([], rs)
                     | e :: t =>
                         match arr e rs with
                         | Some (e', rs') =>
                             match go t rs' with
                             | Some (t', rs'') => Some (e' :: t', rs'')
                             | None => None
                             end
                         | None => None
                         end
                     end) l rs with
            | Some (l', rs') => Some (JArr l', rs')
            | None => None
            end
        | JObj kvs =>
            match rs with
            | JObj r :: rs' =>
                match merge_result kvs r with
                | Some kvs' => Some (JObj kvs', rs')
                | None => None
                end
            | _ => None
            end
        | _ => Some (node, rs)
        end
  | SField name :: rest =>
      fix arr (node : json) (rs : list json) {struct node} : option (json * list json) :=
        match node with
        | JArr l =>
            match (fix go (l : list json) (rs : list json) {struct l} : option (list json * list json) :=
                     match l with
                     | [] => Some ([], rs)
                     | e :: t =>
                         match arr e rs with
                         | Some (e', rs') =>
                             match go t rs' with
                             | Some (t', rs'') => Some (e' :: t', rs'')
                             | None => None
                             end
                         | None => None
                         end
                     end) l rs with
            | Some (l', rs') => Some (JArr l', rs')
            | None => None
            end
        | JObj kvs =>
            match lookup name kvs with
            | None => None
            | Some next =>
                match graft rest next rs with
                | Some (next', rs') => Some (JObj (set_key name next' kvs), rs')
                | None => None
                end
            end
        | _ => Some (node, rs)
        end
  | SType t :: rest =>
      fix arr (node : json) (rs : list json) {struct node} : option (json * list json) :=
        match node with
        | JArr l =>
            match (fix go (l : list json) (rs : list json) {struct l} : option (list json * list json) :=
                     match l with
                     | [] => Some ([], rs)
                     | e :: t =>
                         match arr e rs with
                         | Some (e', rs') =>
                             match go t rs' with
                             | Some (t', rs'') => Some (e' :: t', rs'')
                             | None => None
                             end
                         | None => None
                         end
                     end) l rs with
            | Some (l', rs') => Some (JArr l', rs')
            | None => None
            end
        | JObj kvs =>
            match lookup "__typename" kvs with
            | Some (JStr s) => if String.eqb s t then graft rest node rs else Some (node, rs)
            | _ => None
            end
        | _ => Some (node, rs)
        end
  end.

(** deleteKey (executor.go:416-428) *)
Fixpoint delete_key (k : string) (j : json) : json :=
  match j with
  | JArr l => JArr (map (delete_key k) l)
  | JObj l => JObj ((fix go (l : list (string * json)) :=
                       match l with
                       | [] => []
                       | (k', v) :: t => if String.eqb k k' then go t else (k', delete_key k v) :: go t
                       end) l)
  | _ => j
  end.

Section Exec.
  Variable w : world.
  Variable g : gschema.
  Variable repaired : bool.   (* extractKeys with the nil check *)

  Definition keyed (ty : string) : bool := existsb (String.eqb ty) (g_keyed g).

  (** the key the gateway sends to [svc]: the federated keys of that service only (executor.go:181-203) *)
  Definition restrict_key (ty svc : string) (key : json) : json :=
    match key with
    | JObj kvs => JObj (filter (fun kv => negb (String.eqb (fst kv) "__key") &&
                                          existsb (String.eqb (fst kv)) (fkeys_of g ty svc)) kvs)
    | _ => key
    end.

  Definition key_id (key : json) : option Z :=
    match key with
    | JObj kvs => match lookup "id" kvs with Some (JNum z) => Some z | _ => None end
    | _ => None
    end.

  (** runOnService + the service's answer *)
  Definition run_on_service (svc ty : string) (sels : list node) (keys : option (list json)) : option (list json) :=
    match keys with
    | None => Some [eval_obj w keyed "Query" 0%Z sels]
    | Some ks =>
        mapo (fun k => match key_id (restrict_key ty svc k) with
                       | Some id => Some (eval_obj w keyed ty id sels)
                       | None => None
                       end) ks
    end.

  (** the coordinator's own result: __typename of the root object for the selections the planner left with
      it (everything else it holds, the _federation key selection, is never executed) *)
  Definition root_typenames (ty : string) (sels : list node) : list (string * json) :=
    flat_map (fun n => match n with
                       | NField al nm _ _ _ _ _ => if String.eqb nm "__typename" then [(al, JStr ty)] else []
                       | NFrag _ _ _ => []
                       end) sels.

  (** one sub-plan stitched into the current results (executor.go:356-406) *)
  Definition stitch (run_sub : option (list json) -> option (list json)) (is_coordinator : bool)
             (path : list step) (cur : list json) : option (list json) :=
    if is_coordinator then
      match cur, run_sub None with
      | [JObj target], Some [JObj r] =>
          match merge_result target r with Some t' => Some [JObj t'] | None => None end
      | _, _ => None
      end
    else
      let tree := JArr cur in
      match extract_keys repaired path tree with
      | None => None
      | Some ks =>
          match run_sub (Some ks) with
          | None => None
          | Some rs =>
              if negb (Nat.eqb (List.length rs) (List.length ks)) then None else
              match graft path tree rs with
              | Some (JArr cur', []) => Some cur'
              | _ => None
              end
          end
      end.

  (** Executor.execute (executor.go:330-414); sub-plans are stitched one after the other (they run in
      parallel in Go and write disjoint keys, or fail) *)
  Fixpoint exec_plan (p : plan) (keys : option (list json)) {struct p} : option (list json) :=
    match p with
    | Plan _ svc ty sels after =>
        let coord := String.eqb svc coordinator in
        let own := if coord then Some [JObj (root_typenames ty sels)] else run_on_service svc ty sels keys in
        match own with
        | None => None
        | Some res =>
            (fix go (l : list plan) (cur : list json) {struct l} : option (list json) :=
               match l with
               | [] => Some cur
               | sub :: t =>
                   match stitch (exec_plan sub) coord (p_path sub) cur with
                   | Some cur' => go t cur'
                   | None => None
                   end
               end) after res
        end
    end.
End Exec.

(** The kind of operation of the sub-query each step of a plan sends (planner.go: planObject / planUnion make
    every step with Kind = query; planRoot marks the steps directly below the root of a mutation as mutations;
    runOnService sends p.Kind).  [step_kinds root_kind depth p]: (depth, service, kind) for [p] and all steps
    below it; the root of the plan (the coordinator) has depth 0. *)
Definition kind_at (root_kind : string) (depth : nat) : string :=
  match depth with 1 => root_kind | _ => "query" end.

Fixpoint step_kinds (root_kind : string) (depth : nat) (p : plan) {struct p} : list (nat * string * string) :=
  match p with
  | Plan _ svc _ _ after =>
      (depth, svc, kind_at root_kind depth) ::
      (fix go (l : list plan) : list (nat * string * string) :=
         match l with [] => [] | x :: t => step_kinds root_kind (S depth) x ++ go t end) after
  end.

(** The whole gateway: normalise, plan, execute, delete the _federation keys (Executor.Execute).  Fuel is a
    device of the model only: the normaliser gets two units per nesting level of the query (and four to spare),
    the planner twice the normaliser's plus two -- enough for every query (PlannerTotal.plan_root_total_flatten). *)
Definition fed_exec_gen (prune : bool) (w : world) (g : gschema) (pick : list string -> option string)
           (dedupe repaired : bool) (q : list node) : option json :=
  let fuel := 2 * depth_list q + 4 in
  match flatten_gen prune fuel dedupe g (RObj "Query") (Some q) with
  | Some (Some flat) =>
      match plan_root g pick (2 * fuel + 2) flat with
      | Some p =>
          match exec_plan w g repaired p None with
          | Some [r] => Some (delete_key federation_field r)
          | _ => None
          end
      | None => None
      end
  | _ => None
  end.

(** the gateway as repaired ([fed_exec_gen false]: the flattener kept selections excluded by their own directives
    while it grouped by alias) *)
Definition fed_exec := fed_exec_gen true.

(** * Reference semantics: one combined server.
    GraphQL's CollectFields / ExecuteSelectionSet: collect the fields of the selection set that apply to the
    object (fragments inlined, @skip/@include honoured), group them by response key, concatenate the
    sub-selections of a group, execute the group once.  The result is an object, i.e. a map: the order in which
    fields are collected does not matter for it; [collect] visits a selection set's own fields before its
    fragments' (the order flattenFragments uses).  [tn = true] is the same semantics with __typename reported
    on every object reached through a union-typed field (what the gateway's answer always carries). *)
Fixpoint collect_frag (g : gschema) (obj : string) (n : node) {struct n} : list node :=
  match n with
  | NField _ _ _ _ _ _ _ => []
  | NFrag on dirs subs =>
      if should_include dirs then
        match applies g obj on with
        | Some true => filter incl_field subs ++ List.concat (map (collect_frag g obj) subs)
        | _ => []
        end
      else []
  end.

Definition collect_all (g : gschema) (obj : string) (l : list node) : list node :=
  filter incl_field l ++ List.concat (map (collect_frag g obj) l).

(** group by response key in order of first occurrence; sub-selections of one key are concatenated *)
Fixpoint group_alias (l : list node) : list (string * (node * list node)) :=
  match l with
  | [] => []
  | n :: t =>
      let rest := group_alias t in
      match lookup (n_alias n) rest with
      | Some (first, subs) =>
          (n_alias n, (n, n_subs n ++ subs)) :: remove_key (n_alias n) rest
      | None => (n_alias n, (n, n_subs n)) :: rest
      end
  end.

Section Ref.
  Variable w : world.
  Variable g : gschema.
  Variable tn : bool.

  (** fuel: one unit per object level, one more for the step from a union value to its member (mirrors the
      two levels [flatten] spends there); [None] only when the fuel runs out *)
  Fixpoint eval_ref (fuel : nat) (ty : string) (id : Z) (sels : list node) {struct fuel} : option json :=
    match fuel with
    | O => None
    | S fuel' =>
        let render :=
          fix render (v : aval) (subs : list node) {struct v} : option json :=
            match v with
            | ANull => Some JNull
            | AScalar j => Some j
            | AList l => option_map JArr (mapo (fun x => render x subs) l)
            | ALeaf val tag => Some (leaf_obj val tag (map (fun e => fst (snd e)) (group_alias (collect_all g "Leaf" subs))))
            | ARef t i => eval_ref fuel' t i subs
            | AURef t i =>
                match fuel' with
                | O => None
                | S fuel'' =>
                    match eval_ref fuel'' t i subs with
                    | Some (JObj kvs) =>
                        Some (JObj (if tn && negb (has_key "__typename" kvs) then kvs ++ [("__typename", JStr t)] else kvs))
                    | other => other
                    end
                end
            end in
        match mapo (fun e =>
                let '(al, (n, subs)) := e in
                match n with
                | NField _ nm _ ak _ _ _ =>
                    if String.eqb nm "__typename" then Some (al, JStr ty)
                    else if String.eqb ty "Query" then option_map (pair al) (render (w_value w ty id nm ak) subs)
                    else if String.eqb nm "id" then Some (al, JNum id)
                    else if String.eqb nm "org" then Some (al, JNum (w_org w ty id))
                    else option_map (pair al) (render (w_value w ty id nm ak) subs)
                | NFrag _ _ _ => None
                end) (group_alias (collect_all g ty sels)) with
        | Some kvs => Some (JObj (key_kv (keyed g) ty id ++ kvs))
        | None => None
        end
    end.
End Ref.
