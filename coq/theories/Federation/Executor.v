(** Executable model of federation/executor.go (extractKeys as repaired and as it was, runOnService's
    sub-query construction, stitching result i into target i, deleteKey), of a federated service answering a
    (normalised) sub-query, and the reference semantics of a query on one combined server.  Definitions only. *)
From Coq Require Import List String Bool Arith ZArith.
From Thunder Require Import Lib.Json Federation.Merge Federation.Normalize Federation.Planner.
Import ListNotations.
Open Scope string_scope.
Open Scope list_scope.

(** * Data: every resolver is a function of (type, object id, field, canonical arguments) *)
Inductive aval : Type :=
| ANull
| AScalar (j : json)
| ARef (ty : string) (id : Z)       (* an object of a catalogue type; for a union field: the member *)
| AList (l : list aval)
| ALeaf (val : Z) (tag : string).   (* a plain (non-federated) object with fields val, tag *)

Record world := mk_world {
  w_value : string -> Z -> string -> string -> aval;
  w_org : string -> Z -> Z
}.

(** * A service (or the monolith) answering a normalised selection set *)
Definition leaf_obj (val : Z) (tag : string) (sels : list node) : json :=
  JObj (List.concat (map (fun n => match n with
                                   | NField al nm _ _ _ _ _ =>
                                       if String.eqb nm "val" then [(al, JNum val)]
                                       else if String.eqb nm "tag" then [(al, JStr tag)]
                                       else if String.eqb nm "__typename" then [(al, JStr "Leaf")]
                                       else []
                                   | _ => []
                                   end) sels)).

Section Eval.
  Variable w : world.
  Variable g : gschema.

  Definition keyed (ty : string) : bool := existsb (String.eqb ty) (g_keyed g).

  (** [eval_obj fuel ty id sels]: fields only (an object level of a normalised query).
      Union values: the fragment of the member, with the union-level __typename selections pushed into it as
      graphql.PrepareQuery does (the executor then groups by alias, so an alias already in the fragment is kept
      once); no fragment for the member renders null (graphql/batch_executor.go:404-418). *)
  Fixpoint eval_obj (fuel : nat) (ty : string) (id : Z) (sels : list node) {struct fuel} : option json :=
    match fuel with
    | O => None
    | S fuel' =>
        let render :=
          fix render (v : aval) (rty : rtype) (subs : list node) {struct v} : option json :=
            match v with
            | ANull => Some JNull
            | AScalar j => Some j
            | AList l => option_map JArr (mapo (fun x => render x rty subs) l)
            | ALeaf val tag => Some (leaf_obj val tag subs)
            | ARef t i =>
                match rty with
                | RUnion _ =>
                    match find (fun n => match n with NFrag on _ _ => String.eqb on t | _ => false end) subs with
                    | Some (NFrag _ _ body) => eval_obj fuel' t i (dedupe_alias [] (body ++ fields_of subs))
                    | _ => Some JNull
                    end
                | _ => eval_obj fuel' t i subs
                end
            end in
        match mapo (fun n =>
                match n with
                | NField al nm _ ak _ _ subs =>
                    if String.eqb nm "__typename" then Some (al, JStr ty)
                    else if String.eqb nm federation_field then
                      option_map (pair al) (eval_obj fuel' ty id subs)
                    else if String.eqb ty "Query" then
                      match find_gfield g ty nm with
                      | Some (rty, _) => option_map (pair al) (render (w_value w ty id nm ak) rty subs)
                      | None => None
                      end
                    else if String.eqb nm "id" then Some (al, JNum id)
                    else if String.eqb nm "org" then Some (al, JNum (w_org w ty id))
                    else
                      match find_gfield g ty nm with
                      | Some (rty, _) => option_map (pair al) (render (w_value w ty id nm ak) rty subs)
                      | None => None
                      end
                | NFrag _ _ _ => None
                end) sels with
        | Some kvs => Some (JObj (if keyed ty then ("__key", JNum id) :: kvs else kvs))
        | None => None
        end
    end.
End Eval.

(** * extractKeys (executor.go:268-328) and the stitching of executor.go:385-404 *)
Fixpoint extract_keys (repaired : bool) (fuel : nat) (node : json) (path : list step) : option (list json) :=
  match fuel with
  | O => None
  | S fuel' =>
      match node with
      | JNull =>
          if repaired then Some []
          else match path with [] => None | _ => Some [] end
      | JArr l => concat_opt (map (fun e => extract_keys repaired fuel' e path) l)
      | JObj kvs =>
          match path with
          | [] => match lookup federation_field kvs with Some k => Some [k] | None => None end
          | SField name :: rest =>
              match lookup name kvs with
              | None => None
              | Some next => extract_keys repaired fuel' next rest
              end
          | SType t :: rest =>
              match lookup "__typename" kvs with
              | Some (JStr s) => if String.eqb s t then extract_keys repaired fuel' node rest else Some []
              | _ => None
              end
          end
      | _ => match path with [] => None | _ => Some [] end
      end
  end.

(** merging one sub-result into its target object (executor.go:395-403) *)
Fixpoint merge_result (target : list (string * json)) (r : list (string * json)) : option (list (string * json)) :=
  match r with
  | [] => Some target
  | (k, v) :: t =>
      match lookup k target with
      | None => merge_result (target ++ [(k, v)]) t
      | Some v' => if String.eqb k "__key" && json_eqb v v' then merge_result target t else None
      end
  end.

Fixpoint set_key (k : string) (v : json) (l : list (string * json)) : list (string * json) :=
  match l with
  | [] => []
  | (k', v') :: t => if String.eqb k k' then (k, v) :: t else (k', v') :: set_key k v t
  end.

(** [graft]: walk exactly as extractKeys does and merge the next sub-result into each target met; returns the
    new tree and the unused results. *)
Fixpoint graft (fuel : nat) (node : json) (path : list step) (rs : list json) : option (json * list json) :=
  match fuel with
  | O => None
  | S fuel' =>
      match node with
      | JNull => Some (JNull, rs)
      | JArr l =>
          match (fix go (l : list json) (rs : list json) {struct l} : option (list json * list json) :=
                   match l with
                   | [] => Some ([], rs)
                   | e :: t =>
                       match graft fuel' e path rs with
                       | Some (e', rs') =>
                           match go t rs' with
                           | Some (t', rs'') => Some (e' :: t', rs'')
                           | None => None
                           end
                       | None => None
                       end
                   end) l rs with
          | Some (l', rs') => Some (JArr l', rs')
          | None => None
          end
      | JObj kvs =>
          match path with
          | [] =>
              match rs with
              | JObj r :: rs' =>
                  match merge_result kvs r with
                  | Some kvs' => Some (JObj kvs', rs')
                  | None => None
                  end
              | _ => None
              end
          | SField name :: rest =>
              match lookup name kvs with
              | None => None
              | Some next =>
                  match graft fuel' next rest rs with
                  | Some (next', rs') => Some (JObj (set_key name next' kvs), rs')
                  | None => None
                  end
              end
          | SType t :: rest =>
              match lookup "__typename" kvs with
              | Some (JStr s) => if String.eqb s t then graft fuel' node rest rs else Some (node, rs)
              | _ => None
              end
          end
      | _ => Some (node, rs)
      end
  end.

(** deleteKey (executor.go:416-428) *)
Fixpoint delete_key (k : string) (j : json) : json :=
  match j with
  | JArr l => JArr (map (delete_key k) l)
  | JObj l => JObj ((fix go (l : list (string * json)) :=
                       match l with
                       | [] => []
                       | (k', v) :: t => if String.eqb k k' then go t else (k', delete_key k v) :: go t
                       end) l)
  | _ => j
  end.

Definition fuel_of (j : json) (path : list step) : nat := jsize j + List.length path + 1.

Section Exec.
  Variable w : world.
  Variable g : gschema.
  Variable repaired : bool.   (* extractKeys with the nil check *)

  (** the key the gateway sends to [svc]: the federated keys of that service only (executor.go:181-203) *)
  Definition restrict_key (ty svc : string) (key : json) : json :=
    match key with
    | JObj kvs => JObj (filter (fun kv => negb (String.eqb (fst kv) "__key") &&
                                          existsb (String.eqb (fst kv)) (fkeys_of g ty svc)) kvs)
    | _ => key
    end.

  Definition key_id (key : json) : option Z :=
    match key with
    | JObj kvs => match lookup "id" kvs with Some (JNum z) => Some z | _ => None end
    | _ => None
    end.

  (** runOnService + the service's answer *)
  Definition run_on_service (efuel : nat) (p : plan) (keys : option (list json)) : option (list json) :=
    match keys with
    | None => option_map (fun r => [r]) (eval_obj w g efuel "Query" 0%Z (p_sels p))
    | Some [] => Some []
    | Some ks =>
        mapo (fun k => match key_id (restrict_key (p_type p) (p_service p) k) with
                          | Some id => eval_obj w g efuel (p_type p) id (p_sels p)
                          | None => None
                          end) ks
    end.

  (** Executor.execute (executor.go:330-414); sub-plans are stitched one after the other (they run in
      parallel in Go and write disjoint keys, or fail) *)
  Fixpoint exec_plan (fuel efuel : nat) (p : plan) (keys : option (list json)) {struct fuel} : option (list json) :=
    match fuel with
    | O => None
    | S fuel' =>
        let own := if String.eqb (p_service p) coordinator then Some [JObj []] else run_on_service efuel p keys in
        match own with
        | None => None
        | Some res =>
            fold_left (fun acc sub =>
              match acc with
              | None => None
              | Some cur =>
                  if String.eqb (p_service p) coordinator then
                    match cur, exec_plan fuel' efuel sub None with
                    | [JObj target], Some [JObj r] =>
                        match merge_result target r with Some t' => Some [JObj t'] | None => None end
                    | _, _ => None
                    end
                  else
                    let tree := JArr cur in
                    match extract_keys repaired (fuel_of tree (p_path sub)) tree (p_path sub) with
                    | None => None
                    | Some ks =>
                        match exec_plan fuel' efuel sub (Some ks) with
                        | None => None
                        | Some rs =>
                            if negb (Nat.eqb (List.length rs) (List.length ks)) then None else
                            match graft (fuel_of tree (p_path sub)) tree (p_path sub) rs with
                            | Some (JArr cur', []) => Some cur'
                            | _ => None
                            end
                        end
                    end
              end) (p_after p) (Some res)
        end
    end.
End Exec.

Fixpoint plan_depth (p : plan) : nat :=
  S (fold_right (fun x d => Nat.max (plan_depth x) d) 0 (p_after p)).

(** The whole gateway: normalise, plan, execute, delete the _federation keys (Executor.Execute). *)
Definition fed_exec (w : world) (g : gschema) (pick : list string -> option string)
           (dedupe repaired : bool) (q : list node) : option json :=
  let fuel := 2 * depth_list q + 4 in
  match flatten fuel dedupe g (RObj "Query") (Some q) with
  | Some (Some flat) =>
      match plan_root g pick fuel flat with
      | Some p =>
          match exec_plan w g repaired (plan_depth p + 1) fuel p None with
          | Some [r] => Some (delete_key federation_field r)
          | _ => None
          end
      | None => None
      end
  | _ => None
  end.

(** * Reference semantics: one combined server (GraphQL CollectFields / ExecuteSelectionSet) *)
Fixpoint collect (g : gschema) (obj : string) (n : node) {struct n} : list node :=
  match n with
  | NField _ _ _ _ dirs _ _ => if should_include dirs then [n] else []
  | NFrag on dirs subs =>
      if should_include dirs then
        match applies g obj on with
        | Some true => List.concat (map (collect g obj) subs)
        | _ => []
        end
      else []
  end.
Definition collect_all (g : gschema) (obj : string) (l : list node) : list node :=
  List.concat (map (collect g obj) l).

(** group by alias in order of first occurrence; sub-selections of one alias are concatenated *)
Fixpoint group_alias (l : list node) : list (string * (node * list node)) :=
  match l with
  | [] => []
  | n :: t =>
      let rest := group_alias t in
      match lookup (n_alias n) rest with
      | Some (first, subs) =>
          (n_alias n, (n, n_subs n ++ subs)) :: remove_key (n_alias n) rest
      | None => (n_alias n, (n, n_subs n)) :: rest
      end
  end.

Section Ref.
  Variable w : world.
  Variable g : gschema.

  Fixpoint eval_ref (fuel : nat) (ty : string) (id : Z) (sels : list node) {struct fuel} : option json :=
    match fuel with
    | O => None
    | S fuel' =>
        let render :=
          fix render (v : aval) (subs : list node) {struct v} : option json :=
            match v with
            | ANull => Some JNull
            | AScalar j => Some j
            | AList l => option_map JArr (mapo (fun x => render x subs) l)
            | ALeaf val tag => Some (leaf_obj val tag (map (fun e => fst (snd e)) (group_alias (collect_all g "Leaf" subs))))
            | ARef t i => eval_ref fuel' t i subs
            end in
        match mapo (fun e =>
                let '(al, (n, subs)) := e in
                match n with
                | NField _ nm _ ak _ _ _ =>
                    if String.eqb nm "__typename" then Some (al, JStr ty)
                    else if String.eqb ty "Query" then option_map (pair al) (render (w_value w ty id nm ak) subs)
                    else if String.eqb nm "id" then Some (al, JNum id)
                    else if String.eqb nm "org" then Some (al, JNum (w_org w ty id))
                    else option_map (pair al) (render (w_value w ty id nm ak) subs)
                | NFrag _ _ _ => None
                end) (group_alias (collect_all g ty sels)) with
        | Some kvs => Some (JObj (if keyed g ty then ("__key", JNum id) :: kvs else kvs))
        | None => None
        end
    end.
End Ref.
