(** Totality of the planner: on a well-formed normalised query, over a federation in which every field has an
    owner and the ServiceSelector names owners, planObject / planUnion / planRoot never fail -- given fuel
    [pdl flat + 2], which the normalised form of a query always affords ([flatten_pd]). *)
From Coq Require Import List String Bool Arith ZArith Lia.
From Thunder Require Import Lib.Json Federation.Merge Federation.MergeProofsBase Federation.Normalize Federation.Planner
  Federation.Executor Federation.PlannerProofs Federation.NormalizeProofs Federation.FedBase Federation.Premises
  Federation.FedSem Federation.FedPlanSem.
Import ListNotations.
Open Scope string_scope.
Open Scope list_scope.

Lemma mapo_total : forall {A B} (f : A -> option B) l,
  (forall x, In x l -> exists y, f x = Some y) -> exists r, mapo f l = Some r.
Proof.
  intros A B f l H. induction l as [|x t IH]; [exists []; reflexivity|].
  destruct (H x (or_introl eq_refl)) as [y Hy]. destruct IH as [r Hr]; [intros z Hz; apply H; right; exact Hz|].
  exists (y :: r). simpl. rewrite Hy, Hr. reflexivity.
Qed.

Lemma pdl_cons : forall n l, pdl (n :: l) = Nat.max (pd n) (pdl l).
Proof. reflexivity. Qed.

Lemma pd_field : forall al nm args ak dirs hs subs, pd (NField al nm args ak dirs hs subs) = 2 + pdl subs.
Proof. reflexivity. Qed.

Lemma pd_frag : forall on dirs subs, pd (NFrag on dirs subs) = 1 + pdl subs.
Proof. reflexivity. Qed.

Lemma pdl_in : forall n l, In n l -> pd n <= pdl l.
Proof.
  intros n l. induction l as [|x t IH]; intros H; [contradiction|]. rewrite pdl_cons.
  destruct H as [->|H]; [lia | specialize (IH H); lia].
Qed.

Lemma pdl_incl : forall a b, (forall n, In n a -> In n b) -> pdl a <= pdl b.
Proof.
  induction a as [|x t IH]; intros b H; [unfold pdl; simpl; lia|]. rewrite pdl_cons.
  assert (H1 : pd x <= pdl b) by (apply pdl_in; apply H; left; reflexivity).
  assert (H2 : pdl t <= pdl b) by (apply IH; intros n Hn; apply H; right; exact Hn). lia.
Qed.

Lemma pdl_app : forall a b, pdl (a ++ b) = Nat.max (pdl a) (pdl b).
Proof. induction a as [|x t IH]; intros b; [reflexivity|]. simpl app. rewrite !pdl_cons, IH. lia. Qed.

(** ** the normalised form of a query affords the planner's fuel *)
Lemma flatten_pd : forall prune dedupe g fuel ty sub flat,
  flatten_gen prune fuel dedupe g ty sub = Some (Some flat) -> pdl flat <= 2 * fuel.
Proof.
  intros prune dedupe g. induction fuel as [|fuel IH]; intros ty sub flat H; [discriminate|].
  simpl in H. destruct ty as [|obj|u].
  - destruct sub; discriminate.
  - destruct sub as [l|]; [|discriminate].
    destruct (flatten_frags_gen prune g obj l) as [fl|]; [|discriminate].
    destruct (merge_same_alias dedupe fl) as [merged|]; [|discriminate].
    match type of H with match mapo ?f merged with _ => _ end = _ => destruct (mapo f merged) as [children|] eqn:Em; [|discriminate] end.
    inversion H; subst flat. clear H. apply mapo_Forall2 in Em.
    induction Em as [|n c merged children Hn _ IHm]; [unfold pdl; simpl; lia|].
    rewrite pdl_cons. assert (Hc : pd c <= 2 * S fuel); [|lia].
    destruct n as [al nm args ak dirs hs subs|]; [|discriminate].
    destruct (if String.eqb nm "__typename" then Some RScalar else option_map fst (find_gfield g obj nm)) as [t|]; [|discriminate].
    destruct (flatten_gen prune fuel dedupe g t (if hs then Some subs else None)) as [[s'|]|] eqn:Ef; [| |discriminate].
    + inversion Hn; subst c. rewrite pd_field. apply IH in Ef. lia.
    + inversion Hn; subst c. rewrite pd_field. unfold pdl. simpl. lia.
  - destruct sub as [l|]; [|discriminate]. destruct (union_members g u) as [ms|]; [|discriminate].
    match type of H with match mapo ?f ms with _ => _ end = _ => destruct (mapo f ms) as [frs|] eqn:Em; [|discriminate] end.
    inversion H; subst flat. clear H. apply mapo_Forall2 in Em.
    induction Em as [|m fr ms frs Hm _ IHm]; [unfold pdl; simpl; lia|].
    simpl List.concat. rewrite pdl_app. assert (Hc : pdl fr <= 2 * S fuel); [|lia].
    destruct (flatten_gen prune fuel dedupe g (RObj m) (Some l)) as [[[|b0 body]|]|] eqn:Ef; try discriminate.
    + inversion Hm; subst fr. unfold pdl; simpl; lia.
    + inversion Hm; subst fr. rewrite pdl_cons, pd_frag. apply IH in Ef. unfold pdl at 2. simpl fold_right. lia.
Qed.

(** ** planObject, re-assembled from its parts (the converse direction of [plan_obj_inv]) *)
Lemma plan_obj_eq : forall g pick fuel obj sels svc,
  plan_ty g pick (S fuel) (RObj obj) sels svc =
  match mapo (target_of g pick obj svc) (filter included sels) with
  | None => None
  | Some tagged =>
      match mapo (child_plan g pick fuel obj svc) (sels_for tagged svc) with
      | None => None
      | Some planned =>
          match mapo (other_plan g pick fuel obj tagged) (others_of svc tagged) with
          | None => None
          | Some oplans =>
              match others_of svc tagged with
              | [] => Some (map fst planned, List.concat (map snd planned))
              | _ =>
                  if existsb half_fed_sel (map fst planned) then None
                  else if existsb is_fed_sel (map fst planned) then Some (map fst planned, List.concat (map snd planned) ++ oplans)
                  else Some (map fst planned ++ [key_selection g obj (others_of svc tagged)], List.concat (map snd planned) ++ oplans)
              end
          end
      end
  end.
Proof. reflexivity. Qed.

Section Total.
  Variable g : gschema.
  Variable pick : list string -> option string.
  Hypothesis pick_sound : forall l s, pick l = Some s -> In s l.
  Hypothesis pick_total : forall l, l <> [] -> exists s, pick l = Some s.
  Hypothesis Hsel : sel_ok g = true.

  Lemma select_total : forall ty cur f rty owners,
    find_gfield g ty f = Some (rty, owners) -> exists s, select_service g pick ty cur f owners = Some s.
  Proof.
    intros ty cur f rty owners Hf. unfold sel_ok in Hsel. apply andb_prop in Hsel as [H1 H2].
    unfold select_service, selector_of.
    destruct (find (fun e : string * string * string => let '(t, n, _) := e in String.eqb t ty && String.eqb n f) (g_selector g))
      as [[[t n] s]|] eqn:Es.
    - apply find_some in Es as [Hin Hp]. apply andb_prop in Hp as [Ht Hn]. apply String.eqb_eq in Ht, Hn. subst t n.
      eapply forallb_forall in H2; [|exact Hin]. cbv beta iota zeta in H2. rewrite Hf in H2. rewrite H2. exists s. reflexivity.
    - destruct (existsb (String.eqb cur) owners); [exists cur; reflexivity|].
      apply pick_total. apply find_gfield_in in Hf. eapply forallb_forall in H1; [|exact Hf]. cbv beta iota zeta in H1.
      intros ->. discriminate.
  Qed.

  Lemma target_total : forall obj svc n, node_ok g (RObj obj) n = true -> exists p, target_of g pick obj svc n = Some p.
  Proof.
    intros obj svc n H. destruct n as [al nm args ak dirs hs subs|]; [|discriminate]. cbn [node_ok] in H.
    apply andb_prop in H as [_ H]. unfold target_of. destruct (String.eqb nm "__typename"); [eexists; reflexivity|].
    destruct (find_gfield g obj nm) as [[rty owners]|] eqn:Ef; [|discriminate].
    destruct (select_total obj svc nm rty owners Ef) as [s Hs]. rewrite Hs. eexists; reflexivity.
  Qed.

  (** the statements proved by induction on the fuel *)
  Definition P1 (fuel : nat) : Prop :=
    forall rty sels svc, rty <> RScalar ->
      (forall u, rty = RUnion u -> union_members g u <> None) ->
      nodup_str (map n_alias sels) = true -> forallb (node_ok g rty) sels = true ->
      pdl sels + 2 <= fuel -> exists r, plan_ty g pick fuel rty sels svc = Some r.

  Definition P2 (fuel : nat) : Prop :=
    forall obj sels svc, forallb (node_ok g (RObj obj)) sels = true -> local_all g pick svc obj sels ->
      pdl sels + 1 <= fuel -> exists r, plan_ty g pick fuel (RObj obj) sels svc = Some r.

  Lemma child_total : forall fuel, P1 fuel -> forall obj svc n,
    node_ok g (RObj obj) n = true -> pd n <= fuel -> exists p, child_plan g pick fuel obj svc n = Some p.
  Proof.
    intros fuel H1 obj svc n Hn Hpd. destruct n as [al nm args ak dirs hs subs|]; [|discriminate].
    cbn [node_ok] in Hn. apply andb_prop in Hn as [_ Hn]. rewrite pd_field in Hpd. cbn [child_plan].
    destruct hs; [|eexists; reflexivity].
    destruct (String.eqb nm "__typename"); [simpl in Hn; discriminate|].
    destruct (find_gfield g obj nm) as [[[|o|u] owners]|] eqn:Ef; try discriminate; cbn [option_map fst].
    - apply andb_prop in Hn as [Hx Hy]. apply andb_prop in Hx as [_ Hx].
      assert (Hex : exists r, plan_ty g pick fuel (RObj o) subs svc = Some r).
      { apply H1; [discriminate | intros u' Hu; discriminate | exact Hx | exact Hy | lia]. }
      destruct Hex as [[cs cafters] Hr]. rewrite Hr. eexists; reflexivity.
    - apply andb_prop in Hn as [Hx Hz]. apply andb_prop in Hx as [Hx Hne]. apply andb_prop in Hx as [Hx Hy]. apply andb_prop in Hx as [_ Hx].
      assert (Hex : exists r, plan_ty g pick fuel (RUnion u) subs svc = Some r).
      { apply H1; [discriminate | | exact Hx | exact Hy | lia].
        intros u' Hu. inversion Hu; subst u'. destruct (union_members g u); [discriminate|discriminate]. }
      destruct Hex as [[cs cafters] Hr]. rewrite Hr. eexists; reflexivity.
  Qed.

  Lemma child_not_half : forall fuel obj svc n p,
    node_ok g (RObj obj) n = true -> child_plan g pick fuel obj svc n = Some p -> half_fed_sel (fst p) = false.
  Proof.
    intros fuel obj svc n p Hn Hc. destruct n as [al nm args ak dirs hs subs|]; [|discriminate].
    cbn [node_ok] in Hn. apply andb_prop in Hn as [Hn _]. apply andb_prop in Hn as [Hal _].
    unfold alias_ok in Hal. apply andb_prop in Hal as [Hal _]. apply andb_prop in Hal as [Hal H3]. apply andb_prop in Hal as [H1 _].
    apply negb_true_iff in H1, H3.
    assert (Hp : exists hs' cs, fst p = NField al nm args ak [] hs' cs).
    { cbn [child_plan] in Hc. destruct hs; [|inversion Hc; subst; simpl; eauto].
      destruct (if String.eqb nm "__typename" then Some RScalar else option_map fst (find_gfield g obj nm)) as [t|]; [|discriminate].
      destruct (plan_ty g pick fuel t subs svc) as [[cs cafters]|]; [|discriminate]. inversion Hc; subst; simpl; eauto. }
    destruct Hp as [hs' [cs ->]]. cbn [half_fed_sel]. unfold federation_field in *. rewrite H1, H3. reflexivity.
  Qed.

  Lemma obj_total : forall fuel obj sels svc,
    forallb (node_ok g (RObj obj)) sels = true ->
    (forall n, In n sels -> exists p, child_plan g pick fuel obj svc n = Some p) ->
    (forall tagged o, mapo (target_of g pick obj svc) sels = Some tagged -> In o (others_of svc tagged) ->
                      exists p, other_plan g pick fuel obj tagged o = Some p) ->
    exists r, plan_ty g pick (S fuel) (RObj obj) sels svc = Some r.
  Proof.
    intros fuel obj sels svc Hok Hch Hoth. rewrite plan_obj_eq, (filter_included_all g obj sels Hok).
    destruct (mapo_total (target_of g pick obj svc) sels) as [tagged Ht].
    { intros n Hn. apply target_total. eapply forallb_forall in Hok; eauto. }
    rewrite Ht.
    destruct (mapo_total (child_plan g pick fuel obj svc) (sels_for tagged svc)) as [planned Hp].
    { intros n Hn. apply Hch. eapply sels_for_in; eauto. }
    rewrite Hp.
    destruct (mapo_total (other_plan g pick fuel obj tagged) (others_of svc tagged)) as [oplans Ho].
    { intros o Hin. apply (Hoth tagged o Ht Hin). }
    rewrite Ho. destruct (others_of svc tagged) as [|o1 orest]; [eexists; reflexivity|].
    assert (Hh : existsb half_fed_sel (map fst planned) = false).
    { apply mapo_Forall2 in Hp.
      assert (Hall : forall n, In n (sels_for tagged svc) -> node_ok g (RObj obj) n = true).
      { intros n Hn. eapply forallb_forall in Hok; eauto. eapply sels_for_in; eauto. }
      clear -Hp Hall. induction Hp as [|n p l r Hnp _ IH]; [reflexivity|]. simpl.
      rewrite (child_not_half _ _ _ _ _ (Hall n (or_introl eq_refl)) Hnp). simpl. apply IH. intros m Hm. apply Hall. right; exact Hm. }
    rewrite Hh. destruct (existsb is_fed_sel (map fst planned)); eexists; reflexivity.
  Qed.

  Lemma node_ok_union_frag : forall u n, node_ok g (RUnion u) n = true ->
    exists on body ms, n = NFrag on [] body /\ union_members g u = Some ms /\ existsb (String.eqb on) ms = true /\
                       nodup_str (map n_alias body) = true /\ forallb (node_ok g (RObj on)) body = true.
  Proof.
    intros u n H. destruct n as [|on dirs body]; [discriminate|]. cbn [node_ok] in H.
    apply andb_prop in H as [H H5]. apply andb_prop in H as [H H4]. apply andb_prop in H as [H H3]. apply andb_prop in H as [H1 H2].
    destruct dirs; [|discriminate]. destruct (union_members g u) as [ms|]; [|discriminate].
    exists on, body, ms. auto.
  Qed.

  Lemma union_total : forall fuel, P1 fuel -> forall u sels svc,
    union_members g u <> None -> nodup_str (map n_alias sels) = true -> forallb (node_ok g (RUnion u)) sels = true ->
    pdl sels + 1 <= fuel -> exists r, plan_ty g pick (S fuel) (RUnion u) sels svc = Some r.
  Proof.
    intros fuel H1 u sels svc Hu Hnd Hok Hpd.
    assert (Hf : all_frags sels) by (eapply all_frags_ok; eauto).
    destruct (all_frags_filters _ Hf) as [F1 F2]. simpl.
    destruct (union_members g u) as [ms|] eqn:Eu; [|congruence].
    assert (Hno : existsb (fun n => match n with NField _ nm _ _ _ _ _ => negb (String.eqb nm "__typename") | _ => false end) sels = false).
    { clear -Hf. induction Hf as [|n t Hn _ IH]; [reflexivity|]. simpl. destruct n; [discriminate|]. exact IH. }
    rewrite Hno, F1, F2, Hnd. cbn [negb].
    assert (Hms : forallb (fun n => existsb (String.eqb (n_alias n)) ms) sels = true).
    { apply forallb_forall. intros n Hn. eapply forallb_forall in Hok; [|exact Hn].
      destruct (node_ok_union_frag _ _ Hok) as [on [body [ms' [-> [Hm [He _]]]]]]. rewrite Eu in Hm. inversion Hm; subst ms'. exact He. }
    rewrite Hms. cbn [negb].
    match goal with |- exists r, match mapo ?f sels with _ => _ end = _ => destruct (mapo_total f sels) as [planned Hp] end.
    { intros n Hn. eapply forallb_forall in Hok; [|exact Hn].
      destruct (node_ok_union_frag _ _ Hok) as [on [body [ms' [-> [_ [_ [Hbn Hbo]]]]]]].
      assert (Hex : exists r, plan_ty g pick fuel (RObj on) body svc = Some r).
      { apply H1; [discriminate | intros u' Hu'; discriminate | exact Hbn | exact Hbo |].
        apply pdl_in in Hn. rewrite pd_frag in Hn. lia. }
      destruct Hex as [[cs cafters] Hr]. rewrite Hr. eexists; reflexivity. }
    rewrite Hp. eexists; reflexivity.
  Qed.

  Theorem plan_total : forall fuel, P1 fuel /\ P2 fuel.
  Proof.
    induction fuel as [|fuel [IH1 IH2]].
    - split; [intros rty sels svc _ _ _ _ H; lia | intros obj sels svc _ _ H; lia].
    - split.
      + intros rty sels svc Hrs Hu Hnd Hok Hpd. destruct rty as [|obj|u]; [congruence| |].
        * apply obj_total; auto.
          -- intros n Hn. apply child_total; auto; [eapply forallb_forall in Hok; eauto|]. apply pdl_in in Hn. lia.
          -- intros tagged o Ht Hin. unfold other_plan.
             destruct (IH2 obj (sels_for tagged o) o) as [[os oafters] Hr].
             ++ eapply forallb_sels_for; eauto.
             ++ eapply sels_for_local; eauto.
             ++ assert (pdl (sels_for tagged o) <= pdl sels); [|lia]. apply pdl_incl. intros n Hn. eapply sels_for_in; eauto.
             ++ rewrite Hr. eexists; reflexivity.
        * apply union_total; [exact IH1 | apply Hu; reflexivity | exact Hnd | exact Hok | lia].
      + intros obj sels svc Hok Hloc Hpd. apply obj_total; auto.
        * intros n Hn. apply child_total; auto; [eapply forallb_forall in Hok; eauto|]. apply pdl_in in Hn. lia.
        * intros tagged o Ht Hin. exfalso.
          destruct (local_all_split g pick pick_sound obj svc sels tagged Ht Hloc) as [Hnil _]. rewrite Hnil in Hin. exact Hin.
  Qed.

  (** planRoot never fails on a well-formed normalised query *)
  Theorem plan_root_total : forall fuel flat,
    flat_ok g "Query" flat = true -> pdl flat + 2 <= fuel -> exists p, plan_root g pick fuel flat = Some p.
  Proof.
    intros fuel flat Hflat Hpd. unfold flat_ok in Hflat. apply andb_prop in Hflat as [Hnd Hok].
    assert (Hex : exists r, plan_ty g pick fuel (RObj "Query") flat coordinator = Some r).
    { apply (proj1 (plan_total fuel)); [discriminate | intros u Hu; discriminate | exact Hnd | exact Hok | exact Hpd]. }
    destruct Hex as [[ss afters] Hr]. unfold plan_root. rewrite Hr. eexists; reflexivity.
  Qed.
End Total.

(** ... with the fuel [fed_exec] gives the planner: twice the normaliser's, plus two *)
Theorem plan_root_total_flatten : forall g pick prune dedupe fuel q flat,
  (forall l s, pick l = Some s -> In s l) -> (forall l, l <> [] -> exists s, pick l = Some s) ->
  sel_ok g = true ->
  flatten_gen prune fuel dedupe g (RObj "Query") (Some q) = Some (Some flat) -> flat_ok g "Query" flat = true ->
  exists p, plan_root g pick (2 * fuel + 2) flat = Some p.
Proof.
  intros g pick prune dedupe fuel q flat Hps Hpt Hsel Hfl Hok.
  apply plan_root_total; auto. apply flatten_pd in Hfl. lia.
Qed.
