(** The merge is commutative: byte order on strings is a strict total order, so the sorted list of distinct
    names is canonical, and every per-name pair merge is symmetric. *)
From Coq Require Import List String Bool Arith Ascii Lia Permutation.
From Thunder Require Import Lib.Json Federation.Merge Federation.MergeProofsBase Federation.MergeProofsTref
  Federation.MergeProofs.
Import ListNotations.
Open Scope string_scope.
Open Scope list_scope.

(** ** [str_ltb] is a strict total order *)
Lemma ltb_irrefl : forall s, str_ltb s s = false.
Proof. induction s as [|c s IH]; simpl; auto. rewrite Nat.ltb_irrefl. exact IH. Qed.

Lemma nat_of_ascii_inj : forall a b, nat_of_ascii a = nat_of_ascii b -> a = b.
Proof. intros a b H. rewrite <- (ascii_nat_embedding a), <- (ascii_nat_embedding b), H. reflexivity. Qed.

Lemma ltb_trans : forall a b c, str_ltb a b = true -> str_ltb b c = true -> str_ltb a c = true.
Proof.
  induction a as [|x a IH]; intros b c Hab Hbc; destruct b as [|y b]; destruct c as [|z c]; simpl in *; try discriminate; auto.
  destruct (Nat.ltb (nat_of_ascii x) (nat_of_ascii y)) eqn:Exy.
  - apply Nat.ltb_lt in Exy. destruct (Nat.ltb (nat_of_ascii y) (nat_of_ascii z)) eqn:Eyz.
    + apply Nat.ltb_lt in Eyz. assert (H : Nat.ltb (nat_of_ascii x) (nat_of_ascii z) = true) by (apply Nat.ltb_lt; lia).
      rewrite H. reflexivity.
    + destruct (Nat.ltb (nat_of_ascii z) (nat_of_ascii y)) eqn:Ezy; [discriminate|].
      apply Nat.ltb_ge in Eyz, Ezy. assert (H : Nat.ltb (nat_of_ascii x) (nat_of_ascii z) = true) by (apply Nat.ltb_lt; lia).
      rewrite H. reflexivity.
  - destruct (Nat.ltb (nat_of_ascii y) (nat_of_ascii x)) eqn:Eyx; [discriminate|].
    apply Nat.ltb_ge in Exy, Eyx. assert (Hxy : nat_of_ascii x = nat_of_ascii y) by lia. rewrite Hxy.
    destruct (Nat.ltb (nat_of_ascii y) (nat_of_ascii z)); auto.
    destruct (Nat.ltb (nat_of_ascii z) (nat_of_ascii y)); [discriminate|]. eapply IH; eauto.
Qed.

Lemma ltb_total : forall a b, str_ltb a b = false -> str_ltb b a = false -> a = b.
Proof.
  induction a as [|x a IH]; intros b Hab Hba; destruct b as [|y b]; simpl in *; try discriminate; auto.
  destruct (Nat.ltb (nat_of_ascii x) (nat_of_ascii y)) eqn:Exy; [discriminate|].
  destruct (Nat.ltb (nat_of_ascii y) (nat_of_ascii x)) eqn:Eyx; [discriminate|].
  apply Nat.ltb_ge in Exy, Eyx. assert (Hxy : nat_of_ascii x = nat_of_ascii y) by lia.
  apply nat_of_ascii_inj in Hxy. subst y. f_equal. apply IH; auto.
Qed.

Lemma ltb_asym : forall a b, str_ltb a b = true -> str_ltb b a = false.
Proof.
  intros a b H. destruct (str_ltb b a) eqn:E; auto.
  pose proof (ltb_trans _ _ _ H E) as Hc. rewrite ltb_irrefl in Hc. discriminate.
Qed.

(** ** strictly sorted lists are determined by their elements *)
Inductive ssorted : list string -> Prop :=
| ss_nil : ssorted []
| ss_cons : forall x l, (forall y, In y l -> str_ltb x y = true) -> ssorted l -> ssorted (x :: l).

Lemma insert_str_In : forall x y l, In y (insert_str x l) <-> y = x \/ In y l.
Proof.
  intros x y l. induction l as [|z t IH]; simpl; [intuition congruence|].
  destruct (str_ltb z x); simpl; [rewrite IH|]; intuition congruence.
Qed.

Lemma insert_sorted : forall x l, ssorted l -> ~ In x l -> ssorted (insert_str x l).
Proof.
  intros x l H. induction H as [|z t Hz Ht IH]; intros Hn; simpl.
  - constructor; [intros y []|constructor].
  - destruct (str_ltb z x) eqn:E.
    + constructor.
      * intros y Hy. apply insert_str_In in Hy as [->|Hy]; auto.
      * apply IH. intros Hin. apply Hn. right; exact Hin.
    + assert (Hxz : str_ltb x z = true).
      { destruct (str_ltb x z) eqn:E2; auto. exfalso. apply Hn. left. apply ltb_total; auto. }
      constructor; [|constructor; auto].
      intros y [->|Hy]; auto. eapply ltb_trans; [exact Hxz | apply Hz; exact Hy].
Qed.

Lemma sort_str_sorted : forall l, NoDup l -> ssorted (sort_str l).
Proof.
  intros l H. induction H as [|x t Hx Ht IH]; simpl; [constructor|].
  apply insert_sorted; auto. intros Hin. apply Hx.
  eapply Permutation_in; [apply sort_str_perm | exact Hin].
Qed.

Lemma ssorted_unique : forall l1 l2, ssorted l1 -> ssorted l2 -> (forall x, In x l1 <-> In x l2) -> l1 = l2.
Proof.
  intros l1 l2 H1. revert l2. induction H1 as [|x t Hx Ht IH]; intros l2 H2 Heq.
  - destruct l2 as [|y l2]; auto. exfalso. apply (proj2 (Heq y)). left; reflexivity.
  - destruct H2 as [|y u Hy Hu].
    + exfalso. apply (proj1 (Heq x)). left; reflexivity.
    + assert (x = y).
      { destruct (proj1 (Heq x) (or_introl eq_refl)) as [->|Hxu]; auto.
        destruct (proj2 (Heq y) (or_introl eq_refl)) as [->|Hyt]; auto.
        pose proof (Hy x Hxu) as A. pose proof (Hx y Hyt) as B. rewrite (ltb_asym _ _ A) in B. discriminate. }
      subst y. f_equal. apply IH; auto. intros z. split; intros Hz.
      * destruct (proj1 (Heq z) (or_intror Hz)) as [->|]; auto.
        pose proof (Hx z Hz) as A. rewrite ltb_irrefl in A. discriminate.
      * destruct (proj2 (Heq z) (or_intror Hz)) as [->|]; auto.
        pose proof (Hy z Hz) as A. rewrite ltb_irrefl in A. discriminate.
Qed.

Lemma sorted_names_canonical : forall l1 l2, (forall x, In x l1 <-> In x l2) -> sorted_names l1 = sorted_names l2.
Proof.
  intros l1 l2 H. unfold sorted_names. apply ssorted_unique.
  - apply sort_str_sorted, dedupe_NoDup.
  - apply sort_str_sorted, dedupe_NoDup.
  - intros x. pose proof (sorted_names_In x l1) as A. pose proof (sorted_names_In x l2) as B.
    unfold sorted_names in A, B. rewrite A, B. apply H.
Qed.

(** ** the by-name merge is commutative when the pair merge is *)
Section ByNameComm.
  Context {A : Type}.
  Variable name : A -> string.
  Variable single : A -> option (option A).
  Variable pair : A -> A -> option A.

  Lemma merge_names_ext : forall all1 all2 ns,
    (forall n, merge_one name single pair all1 n = merge_one name single pair all2 n) ->
    merge_names name single pair all1 ns = merge_names name single pair all2 ns.
  Proof. intros all1 all2 ns H. induction ns as [|n t IH]; simpl; auto. rewrite H, IH. reflexivity. Qed.

  Lemma merge_by_name_comm : forall a b, NoDup (map name a) -> NoDup (map name b) ->
    (forall x y, In x a -> In y b -> name x = name y -> pair x y = pair y x) ->
    merge_by_name name single pair a b = merge_by_name name single pair b a.
  Proof.
    intros a b Ha Hb Hp. unfold merge_by_name.
    rewrite (sorted_names_canonical (map name (a ++ b)) (map name (b ++ a))).
    2:{ intros x. rewrite !map_app, !in_app_iff. tauto. }
    apply merge_names_ext. intros n. rewrite !merge_one_spec by assumption.
    destruct (findn name n a) as [x|] eqn:Ex; destruct (findn name n b) as [y|] eqn:Ey; auto.
    apply findn_some in Ex as [Ix Nx]. apply findn_some in Ey as [Iy Ny].
    rewrite (Hp x y Ix Iy) by congruence. reflexivity.
  Qed.
End ByNameComm.

(** ** instances *)
Lemma merge_input_fields_comm : forall m a b, NoDup (map if_name a) -> NoDup (map if_name b) ->
  merge_input_fields m a b = merge_input_fields m b a.
Proof.
  intros m a b Ha Hb. rewrite !merge_input_fields_unfold. apply merge_by_name_comm; auto.
  intros x y _ _ Hn. unfold ifield_pair. rewrite Hn, merge_tref_comm. reflexivity.
Qed.

Lemma merge_fields_comm : forall m a b,
  NoDup (map f_name a) -> NoDup (map f_name b) ->
  (forall f, In f a -> NoDup (map if_name (f_args f))) -> (forall f, In f b -> NoDup (map if_name (f_args f))) ->
  merge_fields m a b = merge_fields m b a.
Proof.
  intros m a b Ha Hb Wa Wb. rewrite !merge_fields_unfold. apply merge_by_name_comm; auto.
  intros x y Ix Iy Hn. unfold field_pair.
  rewrite Hn, merge_tref_comm, (merge_input_fields_comm m (f_args x) (f_args y)) by auto. reflexivity.
Qed.

(** possibleTypes / interfaces entries carry the kind the schema gives that name: the same on both sides *)
Definition prefs_agree (a b : list pref) : Prop :=
  forall x y, In x a -> In y b -> fst x = fst y -> x = y.

Lemma merge_prefs_comm : forall m a b, NoDup (map fst a) -> NoDup (map fst b) -> prefs_agree a b ->
  merge_prefs m a b = merge_prefs m b a.
Proof.
  intros m a b Ha Hb Hag. unfold merge_prefs. apply merge_by_name_comm; auto.
  intros x y Ix Iy Hn. rewrite (Hag x y Ix Iy Hn). reflexivity.
Qed.

Lemma merge_enums_comm : forall m a b, NoDup a -> NoDup b -> merge_enums m a b = merge_enums m b a.
Proof.
  intros m a b Ha Hb. unfold merge_enums. apply merge_by_name_comm; try (rewrite map_id; assumption).
  intros x y _ _ Hn. simpl in Hn. subst. reflexivity.
Qed.

Definition types_agree (x y : itype) : Prop :=
  prefs_agree (t_possible x) (t_possible y) /\ prefs_agree (t_interfaces x) (t_interfaces y).

Lemma merge_types_comm : forall m x y, wf_type x = true -> wf_type y = true -> t_name x = t_name y ->
  types_agree x y -> merge_types m x y = merge_types m y x.
Proof.
  intros m x y Wx Wy Hn [Hp Hi].
  destruct (wf_type_parts x Wx) as [Fx [Ax [Ix [Px [Ex Jx]]]]].
  destruct (wf_type_parts y Wy) as [Fy [Ay [Iy [Py [Ey Jy]]]]].
  unfold merge_types. rewrite (String.eqb_sym (t_kind y) (t_kind x)).
  destruct (String.eqb (t_kind x) (t_kind y)) eqn:Ek; simpl; auto.
  apply String.eqb_eq in Ek. rewrite <- Ek, <- Hn.
  rewrite (merge_input_fields_comm m (t_inputs x) (t_inputs y)) by auto.
  rewrite (merge_fields_comm m (t_fields x) (t_fields y)) by auto.
  rewrite (merge_prefs_comm m (t_possible x) (t_possible y)) by auto.
  rewrite (merge_prefs_comm m (t_interfaces x) (t_interfaces y)) by auto.
  rewrite (merge_enums_comm m (t_enums x) (t_enums y)) by auto.
  reflexivity.
Qed.

Definition schemas_agree (a b : schema) : Prop :=
  forall x y, In x a -> In y b -> t_name x = t_name y -> types_agree x y.

(** mergeSchemas is commutative on well-formed schemas whose union-member / interface entries name the same
    kind on both sides (in an introspection result they are always OBJECT / INTERFACE). *)
Theorem merge_schemas_comm : forall m a b, wf_schema a = true -> wf_schema b = true -> schemas_agree a b ->
  merge_schemas m a b = merge_schemas m b a.
Proof.
  intros m a b Wa Wb Hag. unfold merge_schemas. apply merge_by_name_comm.
  - apply wf_schema_names; exact Wa.
  - apply wf_schema_names; exact Wb.
  - intros x y Ix Iy Hn. apply merge_types_comm; auto.
    + apply (wf_schema_type a x Wa Ix).
    + apply (wf_schema_type b y Wb Iy).
Qed.
