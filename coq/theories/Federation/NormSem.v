(** Normalisation against the reference semantics: the combined server's answer to the normalised query
    (with __typename asked on every union selection) is, as a map, the reference answer to the query as written. *)
From Coq Require Import List String Bool Arith ZArith Lia.
From Thunder Require Import Lib.Json Federation.Merge Federation.MergeProofsBase Federation.Normalize Federation.Planner
  Federation.Executor Federation.ExecutorProofs Federation.NormalizeProofs Federation.PlannerProofs Federation.FedBase
  Federation.FedSem Federation.FedPlanSem Federation.Premises.
Import ListNotations.
Open Scope string_scope.
Open Scope list_scope.

(** ** [jeq] is an equivalence on the values that occur *)
Lemma jeq_refl : forall a, jeq a a.
Proof.
  induction a using json_ind'; try constructor.
  - induction H as [|x t Hx _ IH]; constructor; auto.
  - intros k. induction H as [|[k' v] t Hx _ IH]; simpl; [constructor|].
    destruct (String.eqb k k'); [constructor; exact Hx | exact IH].
Qed.

Lemma jeq_trans : forall a b c, jeq a b -> jeq b c -> jeq a c.
Proof.
  induction a using json_ind'; intros y c Hab Hbc; inversion Hab; subst; inversion Hbc; subst; try constructor.
  - (* arrays *)
    clear Hab Hbc. revert l0 H2. induction H1 as [|x y' l l2 Hxy _ IH]; intros l0 F2; inversion F2; subst; constructor.
    + inversion H; subst. eauto.
    + inversion H; subst. eauto.
  - (* objects *)
    intros k. pose proof (H1 k) as A. pose proof (H2 k) as B.
    destruct (lookup k l) as [x|] eqn:E1; inversion A; subst.
    + match goal with Hs : Some _ = lookup k _ |- _ => rewrite <- Hs in B end. inversion B; subst. constructor.
      apply lookup_in in E1. rewrite Forall_forall in H. eapply (H _ E1); eassumption.
    + match goal with Hs : None = lookup k _ |- _ => rewrite <- Hs in B end. inversion B; subst. constructor.
Qed.

(** ** the head of an alias group and what mergeSameAlias / group_alias make of the group *)
Definition head_of (a : string) (l : list node) : option node := hd_error (filter (has_alias a) l).

Definition set_subs (n : node) (s : list node) : node :=
  match n with
  | NField al nm args ak dirs hs _ => NField al nm args ak dirs hs s
  | NFrag on dirs _ => NFrag on dirs s
  end.
Definition strip (n : node) : node := set_subs n [].

Lemma merge_into_strip : forall c x c', merge_into false c x = Some c' -> strip c' = strip c /\ n_alias c' = n_alias c.
Proof.
  intros c x c' H. destruct c as [al nm args ak dirs hs subs|]; destruct x as [al' nm' args' ak' dirs' hs' subs'|];
    simpl in H; try discriminate.
  destruct (negb (String.eqb nm nm')); [discriminate|].
  destruct (negb (args_eqb args args')); [discriminate|].
  destruct hs'.
  - destruct hs; [|discriminate]. inversion H; subst. auto.
  - inversion H; subst. auto.
Qed.

Definition ocons (c : option node) (l : list node) : list node := match c with Some x => x :: l | None => l end.

Lemma head_of_cons : forall a x l, head_of a (x :: l) = if has_alias a x then Some x else head_of a l.
Proof. intros. unfold head_of. simpl. destruct (has_alias a x); reflexivity. Qed.

Lemma merge_sorted_head : forall l cur r, merge_sorted false cur l = Some r ->
  forall a, option_map strip (head_of a r) = option_map strip (head_of a (ocons cur l)).
Proof.
  induction l as [|x t IH]; intros cur r H a; simpl in H.
  - inversion H; subst. destruct cur; reflexivity.
  - destruct cur as [c|].
    + destruct (String.eqb (n_alias c) (n_alias x)) eqn:E.
      * destruct (merge_into false c x) as [c'|] eqn:Em; [|discriminate].
        destruct (merge_into_strip _ _ _ Em) as [Hs Ha].
        rewrite (IH (Some c') r H a). simpl ocons. rewrite !head_of_cons.
        apply String.eqb_eq in E. unfold has_alias. rewrite Ha, <- E.
        destruct (String.eqb (n_alias c) a); [simpl; rewrite Hs; reflexivity | reflexivity].
      * destruct (merge_sorted false (Some x) t) as [r'|] eqn:Er; [|discriminate].
        inversion H; subst r. simpl ocons. rewrite (head_of_cons a c r'), (head_of_cons a c (x :: t)).
        destruct (has_alias a c); [reflexivity|]. apply (IH (Some x) r' Er a).
    + apply (IH (Some x) r H a).
Qed.

Lemma merge_head : forall l r, merge_same_alias false l = Some r ->
  forall a, option_map strip (head_of a r) = option_map strip (head_of a l).
Proof.
  intros l r H a. unfold merge_same_alias in H. rewrite (merge_sorted_head _ None r H a). simpl ocons.
  unfold head_of. rewrite sort_alias_filter. reflexivity.
Qed.

Lemma filter_unique : forall r c, NoDup (map n_alias r) -> In c r -> filter (has_alias (n_alias c)) r = [c].
Proof.
  induction r as [|x t IH]; intros c Hnd Hin; [contradiction|]. simpl in Hnd. inversion Hnd as [|? ? Hx Hnd']; subst.
  simpl. destruct Hin as [->|Hin].
  - unfold has_alias at 1. rewrite String.eqb_refl. f_equal.
    clear IH Hnd Hnd'. induction t as [|y t IH]; [reflexivity|]. simpl. unfold has_alias at 1.
    destruct (String.eqb (n_alias y) (n_alias c)) eqn:E.
    + exfalso. apply Hx. left. apply String.eqb_eq; exact E.
    + apply IH. intros Hi. apply Hx. right; exact Hi.
  - unfold has_alias at 1. destruct (String.eqb (n_alias x) (n_alias c)) eqn:E.
    + exfalso. apply Hx. apply String.eqb_eq in E. rewrite E. apply in_map; exact Hin.
    + apply IH; auto.
Qed.

(** every selection mergeSameAlias returns is the first selection of its alias, carrying all the
    sub-selections the alias was given *)
Lemma merged_node : forall l r c, Forall hs_ok l -> merge_same_alias false l = Some r ->
  NoDup (map n_alias r) -> In c r ->
  exists first, head_of (n_alias c) l = Some first /\ strip c = strip first /\ n_subs c = subs_of (n_alias c) l.
Proof.
  intros l r c Hok H Hnd Hin.
  pose proof (merge_head _ _ H (n_alias c)) as Hh. pose proof (merge_same_alias_keeps_subs _ _ Hok H (n_alias c)) as Hs.
  unfold head_of in Hh at 1. unfold subs_of in Hs at 1. rewrite (filter_unique _ _ Hnd Hin) in Hh, Hs. simpl in Hh, Hs.
  rewrite app_nil_r in Hs. destruct (head_of (n_alias c) l) as [first|]; [|discriminate].
  exists first. simpl in Hh. inversion Hh. auto.
Qed.

Lemma head_of_in : forall a l n, head_of a l = Some n -> In n l /\ n_alias n = a.
Proof.
  intros a l n H. unfold head_of in H. destruct (filter (has_alias a) l) as [|x t] eqn:E; [discriminate|].
  inversion H; subst x. assert (Hi : In n (filter (has_alias a) l)) by (rewrite E; left; reflexivity).
  apply filter_In in Hi as [Hi Ha]. split; [exact Hi | apply String.eqb_eq; exact Ha].
Qed.

Lemma head_of_none : forall a l, head_of a l = None -> ~ In a (map n_alias l).
Proof.
  intros a l H Hin. apply in_map_iff in Hin as [n [Ha Hn]].
  assert (Hi : In n (filter (has_alias a) l)) by (apply filter_In; split; [exact Hn | apply String.eqb_eq; exact Ha]).
  unfold head_of in H. destruct (filter (has_alias a) l); [contradiction | discriminate].
Qed.

Lemma merged_aliases : forall l r a, merge_same_alias false l = Some r ->
  (In a (map n_alias r) <-> In a (map n_alias l)).
Proof.
  intros l r a H. pose proof (merge_head _ _ H a) as Hh. split; intros Hin.
  - destruct (head_of a l) as [f|] eqn:E; [apply head_of_in in E as [E1 E2]; rewrite <- E2; apply in_map; exact E1|].
    destruct (head_of a r) as [f|] eqn:E2; [discriminate|]. exfalso. apply (head_of_none _ _ E2 Hin).
  - destruct (head_of a r) as [f|] eqn:E; [apply head_of_in in E as [E1 E2]; rewrite <- E2; apply in_map; exact E1|].
    destruct (head_of a l) as [f|] eqn:E2; [discriminate|]. exfalso. apply (head_of_none _ _ E2 Hin).
Qed.

Lemma lookup_remove_other : forall {A} k k' (l : list (string * A)), k <> k' -> lookup k (remove_key k' l) = lookup k l.
Proof.
  intros A k k' l Hne. induction l as [|[k2 v] t IH]; [reflexivity|]. simpl.
  destruct (String.eqb k' k2) eqn:E.
  - apply String.eqb_eq in E. subst k2. rewrite IH. apply String.eqb_neq in Hne. rewrite Hne. reflexivity.
  - simpl. rewrite IH. reflexivity.
Qed.

Lemma subs_of_none : forall a l, head_of a l = None -> subs_of a l = [].
Proof.
  intros a l H. unfold head_of in H. unfold subs_of. destruct (filter (has_alias a) l); [reflexivity | discriminate].
Qed.

Lemma group_spec : forall l a,
  lookup a (group_alias l) = option_map (fun f => (f, subs_of a l)) (head_of a l).
Proof.
  induction l as [|n t IH]; intros a; [reflexivity|].
  cbn [group_alias]. rewrite head_of_cons, subs_of_cons. unfold has_alias.
  destruct (lookup (n_alias n) (group_alias t)) as [[first subs]|] eqn:El.
  - cbn [lookup]. destruct (String.eqb a (n_alias n)) eqn:E.
    + apply String.eqb_eq in E. subst a. rewrite String.eqb_refl. simpl. rewrite IH in El.
      destruct (head_of (n_alias n) t); [|discriminate]. simpl in El. inversion El; subst. reflexivity.
    + rewrite String.eqb_sym, E. rewrite lookup_remove_other by (apply String.eqb_neq; exact E). apply IH.
  - cbn [lookup]. destruct (String.eqb a (n_alias n)) eqn:E.
    + apply String.eqb_eq in E. subst a. rewrite String.eqb_refl. simpl. rewrite IH in El.
      destruct (head_of (n_alias n) t) eqn:Eh; [discriminate|]. rewrite (subs_of_none _ _ Eh), app_nil_r. reflexivity.
    + rewrite String.eqb_sym, E. apply IH.
Qed.

Definition qwfP (n : node) : Prop := qwf n = true.

Lemma qwf_field : forall al nm args ak dirs hs subs, qwfP (NField al nm args ak dirs hs subs) ->
  (hs = false -> subs = []) /\ Forall qwfP subs.
Proof.
  intros al nm args ak dirs hs subs H. unfold qwfP in H. simpl in H.
  apply andb_prop in H as [H2 H3]. split.
  - intros ->. simpl in H2. destruct subs; [reflexivity | discriminate].
  - apply Forall_forall. intros x Hx. eapply forallb_forall in H3; eauto.
Qed.

Lemma qwf_subs : forall n, qwfP n -> Forall qwfP (n_subs n).
Proof.
  intros [al nm args ak dirs hs subs|on dirs subs] H.
  - apply (qwf_field _ _ _ _ _ _ _ H).
  - unfold qwfP in H. simpl in H. apply Forall_forall. intros x Hx. eapply forallb_forall in H; eauto.
Qed.

Lemma qwf_hs_ok : forall n, qwfP n -> hs_ok n.
Proof. intros [al nm args ak dirs hs subs|on dirs subs] H; simpl; auto. apply (qwf_field _ _ _ _ _ _ _ H). Qed.

Lemma Forall_concat : forall {A} (P : A -> Prop) (ls : list (list A)), Forall (Forall P) ls -> Forall P (List.concat ls).
Proof. intros A P ls H. induction H as [|x t Hx _ IH]; simpl; [constructor | apply Forall_app; auto]. Qed.

Lemma Forall_filter : forall {A} (P : A -> Prop) f (l : list A), Forall P l -> Forall P (filter f l).
Proof. intros A P f l H. induction H as [|x t Hx _ IH]; simpl; [constructor|]. destruct (f x); auto. Qed.

Definition fwf (n : node) : Prop := qwfP n /\ is_field n = true.

Lemma fields_of_fwf : forall l, Forall qwfP l -> Forall fwf (own_fields true l).
Proof.
  intros l H. unfold own_fields. induction H as [|x t Hx _ IH]; simpl; [constructor|].
  destruct (incl_field x) eqn:E; [|exact IH]. constructor; [|exact IH]. split; [assumption|].
  destruct x; [reflexivity | discriminate].
Qed.

Lemma frag_contrib_fwf : forall g obj n c, qwfP n -> frag_contrib g obj n = Some c -> Forall fwf c.
Proof.
  intros g obj. induction n using node_ind'; intros c Hq Hc; unfold frag_contrib in Hc; simpl in Hc.
  - inversion Hc; constructor.
  - destruct (should_include dirs); [|inversion Hc; constructor].
    destruct (applies g obj on) as [[|]|]; [| inversion Hc; constructor | discriminate].
    destruct (concat_opt (map (frag_contrib_gen true g obj) subs)) as [rest|] eqn:Er; [|discriminate].
    inversion Hc; subst c. pose proof (qwf_subs _ Hq) as Hs. simpl in Hs.
    apply Forall_app. split; [apply fields_of_fwf; exact Hs|].
    apply concat_opt_Forall2 in Er as [cs [F ->]]. apply Forall_concat.
    clear Hc Hq. revert cs F. induction H as [|x t Hx _ IH]; intros cs F; simpl in F; inversion F; subst; constructor.
    + inversion Hs; subst. apply Hx; auto.
    + inversion Hs; subst. apply IH; auto.
Qed.

Lemma flatten_frags_fwf : forall g obj l flat0, Forall qwfP l -> flatten_frags g obj l = Some flat0 -> Forall fwf flat0.
Proof.
  intros g obj l flat0 Hq H. unfold flatten_frags, flatten_frags_gen in H.
  destruct (concat_opt (map (frag_contrib_gen true g obj) l)) as [rest|] eqn:Er; [|discriminate].
  inversion H; subst flat0. apply Forall_app. split; [apply fields_of_fwf; exact Hq|].
  apply concat_opt_Forall2 in Er as [cs [F ->]]. apply Forall_concat.
  clear H. revert cs F. induction Hq as [|x t Hx _ IH]; intros cs F; simpl in F; inversion F; subst; constructor; auto.
  eapply frag_contrib_fwf; eauto.
Qed.

Lemma fwf_collect : forall g obj l flat0, flatten_frags g obj l = Some flat0 -> collect_all g obj l = flat0.
Proof. intros g obj l flat0 H. symmetry. apply flatten_frags_collects; exact H. Qed.

Lemma subs_of_qwf : forall a l, Forall fwf l -> Forall qwfP (subs_of a l).
Proof.
  intros a l H. unfold subs_of. apply Forall_concat. apply Forall_forall. intros s Hs.
  apply in_map_iff in Hs as [n [<- Hn]]. apply filter_In in Hn as [Hn _]. rewrite Forall_forall in H.
  apply qwf_subs. apply (H n Hn).
Qed.

(** ** inversion of [flatten] on an object type *)
Definition child_of (f : nat) (g : gschema) (ty : string) (c n' : node) : Prop :=
  match c with
  | NField al nm args ak dirs hs subs =>
      exists t, (if String.eqb nm "__typename" then Some RScalar else option_map fst (find_gfield g ty nm)) = Some t /\
        ((exists s', flatten f false g t (if hs then Some subs else None) = Some (Some s') /\
                     n' = NField al nm args ak dirs true s') \/
         (flatten f false g t (if hs then Some subs else None) = Some None /\ n' = NField al nm args ak dirs false []))
  | NFrag _ _ _ => False
  end.

Lemma flatten_obj_inv : forall f g ty l flat,
  flatten (S f) false g (RObj ty) (Some l) = Some (Some flat) ->
  exists flat0 merged, flatten_frags g ty l = Some flat0 /\ merge_same_alias false flat0 = Some merged /\
                       Forall2 (child_of f g ty) merged flat.
Proof.
  intros f g ty l flat H. unfold flatten in H. cbn [flatten_gen] in H. change (flatten_gen true) with flatten in H.
  change (flatten_frags_gen true) with flatten_frags in H.
  destruct (flatten_frags g ty l) as [flat0|] eqn:E0; [|discriminate].
  destruct (merge_same_alias false flat0) as [merged|] eqn:E1; [|discriminate].
  exists flat0, merged. split; [reflexivity|]. split; [exact E1|].
  match type of H with match mapo ?F merged with _ => _ end = _ => destruct (mapo F merged) as [children|] eqn:Em; [|discriminate] end.
  inversion H; subst flat. apply mapo_Forall2 in Em. clear H E1.
  induction Em as [|c n' merged children Hc _ IH]; constructor; auto.
  destruct c as [al nm args ak dirs hs subs|]; [|discriminate]. simpl.
  destruct (if String.eqb nm "__typename" then Some RScalar else option_map fst (find_gfield g ty nm)) as [t|]; [|discriminate].
  exists t. split; [reflexivity|].
  destruct (flatten f false g t (if hs then Some subs else None)) as [[s'|]|]; [left | right | discriminate]; inversion Hc; eauto.
Qed.

Lemma flatten_union_inv : forall f g u l s',
  flatten (S f) false g (RUnion u) (Some l) = Some (Some s') ->
  exists ms, union_members g u = Some ms /\
    forall x, In x s' -> exists body, x = NFrag (n_alias x) [] body /\
                                      flatten f false g (RObj (n_alias x)) (Some l) = Some (Some body).
Proof.
  intros f g u l s' H. unfold flatten in H. cbn [flatten_gen] in H. change (flatten_gen true) with flatten in H.
  destruct (union_members g u) as [ms|]; [|discriminate].
  exists ms. split; [reflexivity|].
  match type of H with match mapo ?F ms with _ => _ end = _ => destruct (mapo F ms) as [frs|] eqn:Em; [|discriminate] end.
  inversion H; subst s'. apply mapo_Forall2 in Em. clear H.
  induction Em as [|m fr ms frs Hm _ IH]; intros x Hin; [contradiction|].
  simpl in Hin. apply in_app_or in Hin as [Hin|Hin]; [|apply IH; exact Hin].
  destruct (flatten f false g (RObj m) (Some l)) as [[[|b0 bt]|]|] eqn:E; try discriminate.
  - inversion Hm; subst fr. contradiction.
  - inversion Hm; subst fr. destruct Hin as [<-|[]]. exists (b0 :: bt). simpl. split; [reflexivity | exact E].
Qed.

(** a member for which the normalised union selection has no fragment: its selection set normalises to nothing *)
Lemma flatten_union_member : forall f g u l s' ms t,
  flatten (S f) false g (RUnion u) (Some l) = Some (Some s') -> union_members g u = Some ms -> In t ms ->
  (forall x, In x s' -> n_alias x <> t) -> flatten f false g (RObj t) (Some l) = Some (Some []).
Proof.
  intros f g u l s' ms t H Hu Hin Hne. unfold flatten in H. cbn [flatten_gen] in H. change (flatten_gen true) with flatten in H.
  rewrite Hu in H.
  match type of H with match mapo ?F ms with _ => _ end = _ => destruct (mapo F ms) as [frs|] eqn:Em; [|discriminate] end.
  inversion H; subst s'. apply mapo_Forall2 in Em. clear H Hu.
  induction Em as [|m fr ms frs Hm _ IH]; [contradiction|].
  assert (Hne' : forall x, In x (List.concat frs) -> n_alias x <> t).
  { intros x Hx. apply Hne. simpl. apply in_or_app. right; exact Hx. }
  destruct Hin as [->|Hin]; [|apply IH; auto].
  destruct (flatten f false g (RObj t) (Some l)) as [[[|b0 bt]|]|] eqn:E; try discriminate; [reflexivity|].
  inversion Hm; subst fr. exfalso. apply (Hne (NFrag t [] (b0 :: bt))); [simpl; left; reflexivity | reflexivity].
Qed.

Lemma flatten_some_sub : forall f g t l, flatten f false g t (Some l) <> Some None.
Proof.
  intros [|f] g t l H; [discriminate|]. unfold flatten in H. destruct t as [|o|u]; cbn [flatten_gen] in H; [discriminate| |].
  - destruct (flatten_frags_gen true g o l); [|discriminate]. destruct (merge_same_alias false l0); [|discriminate].
    match type of H with match ?m with _ => _ end = _ => destruct m; discriminate end.
  - destruct (union_members g u); [|discriminate].
    match type of H with match ?m with _ => _ end = _ => destruct m; discriminate end.
Qed.

Lemma flatten_none_sub : forall f g t r, flatten f false g t None = Some r -> t = RScalar /\ r = None.
Proof.
  intros [|f] g t r H; [discriminate|]. unfold flatten in H. destruct t as [|o|u]; cbn [flatten_gen] in H; [inversion H; auto | discriminate | discriminate].
Qed.

(** ** values of scalar-typed fields *)
Fixpoint sval (v : aval) : Prop :=
  match v with
  | ANull => True
  | AScalar j => scalar_json j
  | AList l => (fix all (l : list aval) : Prop := match l with [] => True | x :: t => sval x /\ all t end) l
  | _ => False
  end.

(** ** the reference semantics, with its local rendering function named *)
Section RR.
  Variables (w : world) (g : gschema) (tn : bool) (fuel' : nat).

  Fixpoint rrender (v : aval) (subs : list node) {struct v} : option json :=
    match v with
    | ANull => Some JNull
    | AScalar j => Some j
    | AList l => option_map JArr (mapo (fun x => rrender x subs) l)
    | ALeaf val tag => Some (leaf_obj val tag (map (fun e => fst (snd e)) (group_alias (collect_all g "Leaf" subs))))
    | ARef t i => eval_ref w g tn fuel' t i subs
    | AURef t i =>
        match fuel' with
        | O => None
        | S fuel'' =>
            match eval_ref w g tn fuel'' t i subs with
            | Some (JObj kvs) =>
                Some (JObj (if tn && negb (has_key "__typename" kvs) then kvs ++ [("__typename", JStr t)] else kvs))
            | other => other
            end
        end
    end.

  Definition rfield (ty : string) (id : Z) (e : string * (node * list node)) : option (string * json) :=
    let '(al, (n, subs)) := e in
    match n with
    | NField _ nm _ ak _ _ _ =>
        if String.eqb nm "__typename" then Some (al, JStr ty)
        else if String.eqb ty "Query" then option_map (pair al) (rrender (w_value w ty id nm ak) subs)
        else if String.eqb nm "id" then Some (al, JNum id)
        else if String.eqb nm "org" then Some (al, JNum (w_org w ty id))
        else option_map (pair al) (rrender (w_value w ty id nm ak) subs)
    | NFrag _ _ _ => None
    end.
End RR.

Lemma eval_ref_S : forall w g tn f ty id sels,
  eval_ref w g tn (S f) ty id sels =
  match mapo (rfield w g tn f ty id) (group_alias (collect_all g ty sels)) with
  | Some kvs => Some (JObj (key_kv (keyed g) ty id ++ kvs))
  | None => None
  end.
Proof. reflexivity. Qed.

(** ** association lists built by [mapo] *)
Lemma mapo_all_some : forall {A B} (F : A -> option B) l, (forall e, In e l -> exists y, F e = Some y) -> exists r, mapo F l = Some r.
Proof.
  intros A B F l H. induction l as [|x t IH]; [exists []; reflexivity|].
  destruct (H x (or_introl eq_refl)) as [y Hy]. destruct IH as [r Hr]; [intros e He; apply H; right; exact He|].
  exists (y :: r). simpl. rewrite Hy, Hr. reflexivity.
Qed.

Lemma mapo_lookup_fst : forall {A} (F : string * A -> option (string * json)) G kvs,
  (forall e y, In e G -> F e = Some y -> fst y = fst e) -> mapo F G = Some kvs ->
  forall a, lookup a kvs = match lookup a G with Some x => option_map snd (F (a, x)) | None => None end.
Proof.
  intros A F G. induction G as [|[k x] t IH]; intros kvs Hk H a; simpl in H.
  - inversion H; reflexivity.
  - destruct (F (k, x)) as [[k' y]|] eqn:E; [|discriminate]. destruct (mapo F t) as [r|] eqn:Er; [|discriminate].
    inversion H; subst kvs. pose proof (Hk (k, x) (k', y) (or_introl eq_refl) E) as Hf. simpl in Hf. subst k'.
    cbn [lookup]. destruct (String.eqb a k) eqn:Ea.
    + apply String.eqb_eq in Ea. subst a. rewrite E. reflexivity.
    + apply (IH r); auto. intros e y' He. apply Hk. right; exact He.
Qed.

Lemma remove_key_keys : forall {A} k (l : list (string * A)) x, In x (map fst (remove_key k l)) -> In x (map fst l) /\ x <> k.
Proof.
  intros A k l x. induction l as [|[k2 v] t IH]; [intros []|]. simpl. destruct (String.eqb k k2) eqn:E.
  - intros H. destruct (IH H). auto.
  - simpl. intros [<-|H]; [split; [left; reflexivity | intros ->; rewrite String.eqb_refl in E; discriminate]|].
    destruct (IH H). auto.
Qed.

Lemma remove_key_nodup : forall {A} k (l : list (string * A)), NoDup (map fst l) -> NoDup (map fst (remove_key k l)).
Proof.
  intros A k l H. induction l as [|[k2 v] t IH]; [constructor|]. simpl in H. inversion H as [|? ? Hx Hnd]; subst.
  simpl. destruct (String.eqb k k2); [apply IH; exact Hnd|]. simpl. constructor; [|apply IH; exact Hnd].
  intros Hin. apply remove_key_keys in Hin as [Hin _]. contradiction.
Qed.

Lemma group_alias_nodup : forall l, NoDup (map fst (group_alias l)).
Proof.
  induction l as [|n t IH]; [constructor|]. cbn [group_alias].
  destruct (lookup (n_alias n) (group_alias t)) as [[first subs]|] eqn:El; simpl.
  - constructor; [|apply remove_key_nodup; exact IH]. intros Hin. apply remove_key_keys in Hin as [_ Hne]. congruence.
  - constructor; [|exact IH]. apply lookup_none_notin; exact El.
Qed.

Lemma in_lookup : forall {A} (l : list (string * A)) k v, NoDup (map fst l) -> In (k, v) l -> lookup k l = Some v.
Proof.
  intros A l k v Hnd Hin. induction l as [|[k2 v2] t IH]; [contradiction|]. simpl in Hnd. inversion Hnd as [|? ? Hx Hnd']; subst.
  simpl. destruct Hin as [Heq|Hin].
  - inversion Heq; subst. rewrite String.eqb_refl. reflexivity.
  - destruct (String.eqb k k2) eqn:E; [|apply IH; auto]. apply String.eqb_eq in E. subst k2. exfalso. apply Hx.
    apply (in_map fst _ _ Hin).
Qed.

Section Norm.
  Variable w : world.
  Variable g : gschema.
  Notation K := (keyed g).
  Notation EV := (ev w (keyed g)).
  Hypothesis Hw : world_ok w g.
  Hypothesis Hsv : forall ty id f ak owners, find_gfield g ty f = Some (RScalar, owners) -> sval (w_value w ty id f ak).

  (** the object level *)
  Definition N_stmt (f : nat) : Prop := forall ty id sels flat,
    flatten f false g (RObj ty) (Some sels) = Some (Some flat) -> Forall qwfP sels -> flat_ok g ty flat = true ->
    exists r, eval_ref w g true f ty id sels = Some r /\ jeq (eval_obj w K ty id (map annot flat)) r.

  (** the value level, for fields with a selection set *)
  Definition VN (f : nat) : Prop := forall rt subs s',
    flatten f false g rt (Some subs) = Some (Some s') -> Forall qwfP subs -> subs_ok g rt s' ->
    forall v, vok g rt v -> exists x, rrender w g true f v subs = Some x /\ jeq (render_gen K EV (asubs s') v) x.

  Lemma sval_render : forall f v subs s, sval v -> rrender w g true f v subs = Some (render_gen K EV s v).
  Proof.
    intros f v subs s. induction v using aval_ind'; intros Hs; simpl in Hs; try contradiction; try reflexivity.
    cbn [rrender render_gen].
    assert (Hm : mapo (fun x => rrender w g true f x subs) l = Some (map (render_gen K EV s) l)).
    { induction H as [|x t Hx _ IH]; [reflexivity|]. destruct Hs as [Hs1 Hs2]. simpl. rewrite (Hx Hs1), (IH Hs2). reflexivity. }
    rewrite Hm. reflexivity.
  Qed.

  Lemma flatten_scalar_some : forall f subs r, flatten f false g RScalar (Some subs) = Some r -> False.
  Proof. intros [|f] subs r H; discriminate. Qed.

  (** the plain object: both sides look the (first) selection of an alias up by that alias, and use its name only *)
  Definition leaf_entry (val : Z) (tag : string) (n : node) : list (string * json) :=
    match n with
    | NField al nm _ _ _ _ _ =>
        if String.eqb nm "val" then [(al, JNum val)]
        else if String.eqb nm "tag" then [(al, JStr tag)]
        else if String.eqb nm "__typename" then [(al, JStr "Leaf")]
        else []
    | _ => []
    end.

  Lemma leaf_obj_eq : forall val tag sels, leaf_obj val tag sels = JObj (flat_map (leaf_entry val tag) sels).
  Proof. intros. unfold leaf_obj. rewrite flat_map_concat_map. reflexivity. Qed.

  Lemma leaf_entry_fst : forall val tag n kv, In kv (leaf_entry val tag n) -> fst kv = n_alias n.
  Proof.
    intros val tag n kv H. destruct n as [al nm ? ? ? ? ?|]; [|contradiction]. simpl in H.
    destruct (String.eqb nm "val"); [destruct H as [<-|[]]; reflexivity|].
    destruct (String.eqb nm "tag"); [destruct H as [<-|[]]; reflexivity|].
    destruct (String.eqb nm "__typename"); [destruct H as [<-|[]]; reflexivity | contradiction].
  Qed.

  (** with distinct aliases, the entry of alias [k] is the entry of the selection that carries [k] *)
  Lemma leaf_lookup : forall val tag sels k, NoDup (map n_alias sels) ->
    lookup k (flat_map (leaf_entry val tag) sels) =
    match find (fun n => String.eqb (n_alias n) k) sels with
    | Some n => lookup k (leaf_entry val tag n)
    | None => None
    end.
  Proof.
    intros val tag sels k. induction sels as [|x t IH]; intros Hnd; [reflexivity|].
    simpl in Hnd. inversion Hnd as [|? ? Hx Hnd']; subst. cbn [flat_map find]. rewrite lookup_app.
    destruct (String.eqb (n_alias x) k) eqn:E.
    - apply String.eqb_eq in E. subst k. destruct (lookup (n_alias x) (leaf_entry val tag x)) eqn:El; [reflexivity|].
      apply lookup_none_notin. intros Hin. apply in_map_iff in Hin as [kv [Hk Hin]]. apply in_flat_map in Hin as [n [Hn Hin]].
      apply leaf_entry_fst in Hin. apply Hx. rewrite <- Hk, Hin. apply in_map; exact Hn.
    - assert (Hn : lookup k (leaf_entry val tag x) = None).
      { apply lookup_none_notin. intros Hin. apply in_map_iff in Hin as [kv [Hk Hin]]. apply leaf_entry_fst in Hin.
        rewrite Hk in Hin. rewrite Hin, String.eqb_refl in E. discriminate. }
      rewrite Hn. apply IH; exact Hnd'.
  Qed.

  Lemma find_alias_spec : forall sels k n, NoDup (map n_alias sels) -> In n sels -> n_alias n = k ->
    find (fun n => String.eqb (n_alias n) k) sels = Some n.
  Proof.
    induction sels as [|x t IH]; intros k n Hnd Hin Hk; [contradiction|]. simpl in Hnd. inversion Hnd as [|? ? Hx Hnd']; subst.
    cbn [find]. destruct Hin as [->|Hin]; [rewrite String.eqb_refl; reflexivity|].
    destruct (String.eqb (n_alias x) (n_alias n)) eqn:E; [|apply IH; auto].
    apply String.eqb_eq in E. exfalso. apply Hx. rewrite E. apply in_map; exact Hin.
  Qed.

  Lemma find_alias_none : forall sels k, ~ In k (map n_alias sels) -> find (fun n => String.eqb (n_alias n) k) sels = None.
  Proof.
    induction sels as [|x t IH]; intros k H; [reflexivity|]. cbn [find]. destruct (String.eqb (n_alias x) k) eqn:E.
    - apply String.eqb_eq in E. exfalso. apply H. left; exact E.
    - apply IH. intros Hin. apply H. right; exact Hin.
  Qed.

  Lemma leaf_norm : forall f subs s' val tag,
    flatten (S f) false g (RObj "Leaf") (Some subs) = Some (Some s') -> Forall qwfP subs ->
    nodup_str (map n_alias s') = true ->
    jeq (leaf_obj val tag (map annot s'))
        (leaf_obj val tag (map (fun e => fst (snd e)) (group_alias (collect_all g "Leaf" subs)))).
  Proof.
    intros f subs s' val tag Hfl Hq Hnd0.
    destruct (flatten_obj_inv f g "Leaf" subs s' Hfl) as [flat0 [merged [E0 [E1 F2]]]].
    pose proof (flatten_frags_fwf _ _ _ _ Hq E0) as Hfw.
    rewrite (fwf_collect _ _ _ _ E0).
    assert (Hnd : NoDup (map n_alias s')) by (apply nodup_str_NoDup; exact Hnd0).
    assert (Hal : map n_alias merged = map n_alias s').
    { clear -F2. induction F2 as [|c n' merged flat Hc _ IH]; [reflexivity|]. simpl. rewrite IH. f_equal.
      destruct c as [al nm args ak dirs hs ss|]; [|contradiction]. destruct Hc as [t [_ [[x [_ ->]]|[_ ->]]]]; reflexivity. }
    assert (Hndm : NoDup (map n_alias merged)) by (rewrite Hal; exact Hnd).
    assert (Hhs : Forall hs_ok flat0).
    { eapply Forall_impl; [|exact Hfw]. intros n [Hn _]. apply qwf_hs_ok; exact Hn. }
    set (G := group_alias flat0).
    set (firsts := map (fun e : string * (node * list node) => fst (snd e)) G).
    assert (HGal : map n_alias firsts = map fst G).
    { unfold firsts. rewrite map_map. apply map_ext_in. intros [al [n ss]] Hin. simpl.
      pose proof (in_lookup G al (n, ss) (group_alias_nodup flat0) Hin) as Hl. unfold G in Hl. rewrite group_spec in Hl.
      destruct (head_of al flat0) as [first|] eqn:Eh; [|discriminate]. simpl in Hl. inversion Hl; subst.
      apply (head_of_in _ _ _ Eh). }
    assert (Hndf : NoDup (map n_alias firsts)) by (rewrite HGal; apply group_alias_nodup).
    rewrite !leaf_obj_eq. constructor. intros k.
    rewrite (leaf_lookup val tag (map annot s') k) by (rewrite map_annot_aliases; exact Hnd).
    rewrite (leaf_lookup val tag firsts k Hndf).
    destruct (head_of k flat0) as [first|] eqn:Eh.
    - destruct (head_of_in _ _ _ Eh) as [Hfin Hfa].
      assert (Hinm : In k (map n_alias merged)).
      { apply (merged_aliases _ _ k E1). rewrite <- Hfa. apply in_map; exact Hfin. }
      apply in_map_iff in Hinm as [c [Hca Hc]].
      destruct (merged_node _ _ c Hhs E1 Hndm Hc) as [first' [Hf1 [Hstrip _]]].
      rewrite Hca, Eh in Hf1. inversion Hf1; subst first'. clear Hf1.
      assert (Hch : exists n', In n' s' /\ child_of f g "Leaf" c n').
      { clear -F2 Hc. induction F2 as [|c0 n0 merged flat H0 _ IH]; [contradiction|]. destruct Hc as [->|Hc].
        - exists n0. split; [left; reflexivity | exact H0].
        - destruct (IH Hc) as [n' [A B]]. exists n'. split; [right; exact A | exact B]. }
      destruct Hch as [n' [Hn' Hchild]].
      assert (HinG : In (k, (first, subs_of k flat0)) G).
      { apply lookup_in. unfold G. rewrite group_spec, Eh. reflexivity. }
      assert (Hff : In first firsts).
      { unfold firsts. apply in_map_iff. exists (k, (first, subs_of k flat0)). split; [reflexivity | exact HinG]. }
      rewrite (find_alias_spec firsts k first Hndf Hff Hfa).
      destruct c as [alc nmc argsc akc dirsc hsc subsc|]; [|contradiction].
      destruct first as [al0 nm0 args0 ak0 dirs0 hs0 subs0|]; [|rewrite Forall_forall in Hfw; destruct (Hfw _ Hfin) as [_ Hx]; discriminate].
      unfold strip in Hstrip. simpl in Hstrip. inversion Hstrip; subst alc nmc argsc akc dirsc hsc.
      simpl in Hfa. subst al0.
      assert (Hn'eq : exists hs2 ss2, n' = NField k nm0 args0 ak0 dirs0 hs2 ss2).
      { destruct Hchild as [t [_ [[x [_ ->]]|[_ ->]]]]; eauto. }
      destruct Hn'eq as [hs2 [ss2 ->]].
      rewrite (find_alias_spec (map annot s') k (annot (NField k nm0 args0 ak0 dirs0 hs2 ss2))).
      + simpl. destruct (lookup k _); constructor. apply jeq_refl.
      + rewrite map_annot_aliases; exact Hnd.
      + apply in_map; exact Hn'.
      + reflexivity.
    - assert (Hnin : ~ In k (map n_alias s')).
      { rewrite <- Hal. intros Hin. apply (merged_aliases _ _ k E1) in Hin. apply (head_of_none _ _ Eh Hin). }
      rewrite find_alias_none by (rewrite map_annot_aliases; exact Hnin).
      rewrite find_alias_none; [constructor|].
      rewrite HGal. intros Hin. apply in_map_iff in Hin as [[al [n ss]] [Hk Hin]]. simpl in Hk. subst al.
      pose proof (in_lookup G k (n, ss) (group_alias_nodup flat0) Hin) as Hl. unfold G in Hl. rewrite group_spec, Eh in Hl. discriminate.
  Qed.

  Lemma VN_from : forall f, N_stmt f -> (forall f', f = S f' -> N_stmt f') -> VN f.
  Proof.
    intros f HN HN' rt subs s' Hfl Hq Hsub v. induction v using aval_ind'; intros Hv.
    - exists JNull. split; [reflexivity | constructor].
    - exfalso. destruct rt; simpl in Hv; try contradiction. apply (flatten_scalar_some _ _ _ Hfl).
    - (* an object *)
      destruct rt as [|o|u]; simpl in Hv; try contradiction; [exfalso; apply (flatten_scalar_some _ _ _ Hfl)|]. destruct Hv as [-> _].
      destruct Hsub as [Hnd [Hok' _]].
      assert (Hflat : flat_ok g o s' = true) by (unfold flat_ok; rewrite Hnd, Hok'; reflexivity).
      destruct (HN o i subs s' Hfl Hq Hflat) as [r [Hr Hj]].
      exists r. split; [exact Hr|]. unfold asubs. rewrite (has_frag_fields _ (all_fields_ok g _ _ Hok')). exact Hj.
    - (* a union member *)
      destruct rt as [|o|u]; simpl in Hv; try contradiction; [exfalso; apply (flatten_scalar_some _ _ _ Hfl)|].
      destruct Hv as [ms [Hu Hin]]. destruct f as [|f']; [discriminate|].
      destruct (flatten_union_inv f' g u subs s' Hfl) as [ms' [Hu' Hx]]. rewrite Hu in Hu'. inversion Hu'; subst ms'. clear Hu'.
      destruct Hsub as [Hnd [Hok' [ms2 [Hu2 Hsne]]]]. rewrite Hu in Hu2. inversion Hu2; subst ms2. clear Hu2.
      destruct (existsb (fun x => String.eqb (n_alias x) t) s') eqn:Hcov.
      2:{ (* no fragment for member t: the union-level __typename alone, on both sides *)
        assert (Hne : forall n, In n s' -> n_alias n <> t).
        { intros n Hn He. assert (existsb (fun x => String.eqb (n_alias x) t) s' = true); [|congruence].
          apply existsb_exists. exists n. split; [exact Hn | apply String.eqb_eq; exact He]. }
        pose proof (flatten_union_member f' g u subs s' ms t Hfl Hu Hin Hne) as Hft.
        destruct (HN' f' eq_refl t i subs [] Hft Hq eq_refl) as [r [Hr Hj]].
        pose proof (all_frags_ok _ _ _ Hok') as Hfr. unfold all_frags in Hfr.
        assert (Hhf : has_frag s' = true).
        { destruct s' as [|x0 rest]; [congruence|]. rewrite Forall_forall in Hfr.
          unfold has_frag. apply existsb_exists. exists x0. split; [left; reflexivity | rewrite (Hfr x0 (or_introl eq_refl)); reflexivity]. }
        unfold asubs. rewrite Hhf. cbn [render_gen rrender].
        rewrite (pick_gen_uncovered w g (map annot s') t i).
        2:{ apply Forall_forall. intros n Hn. apply in_map_iff in Hn as [m [<- Hm]]. rewrite annot_is_field.
            rewrite Forall_forall in Hfr. apply Hfr; exact Hm. }
        2:{ intros n Hn. apply in_map_iff in Hn as [m [<- Hm]]. rewrite annot_alias. apply Hne; exact Hm. }
        rewrite Hr. rewrite eval_obj_eq in Hj. cbn [map] in Hj. unfold evs in Hj. cbn [flat_map] in Hj. rewrite app_nil_r in Hj.
        inversion Hj as [| | | | |la lb Hlk]; subst. clear Hj.
        assert (Hk0 : lookup "__typename" (key_kv K t i) = None) by (unfold key_kv; destruct (K t); reflexivity).
        assert (Hn2 : lookup "__typename" lb = None).
        { pose proof (Hlk "__typename") as A. rewrite Hk0 in A. inversion A. reflexivity. }
        eexists. split; [reflexivity|]. constructor. cbn [andb]. unfold has_key. rewrite Hn2. cbn [negb].
        intros k. destruct (String.eqb k "__typename") eqn:Ek.
        - apply String.eqb_eq in Ek. subst k. rewrite !lookup_app, Hk0, Hn2. cbn [lookup]. rewrite String.eqb_refl. constructor. constructor.
        - pose proof (Hlk k) as A. rewrite !lookup_app. cbn [lookup]. rewrite Ek.
          destruct (lookup k (key_kv K t i)); destruct (lookup k lb); exact A. }
      apply existsb_exists in Hcov as [x [Hxin Hxt]]. apply String.eqb_eq in Hxt.
      destruct (Hx x Hxin) as [body [Hxe Hfb]]. rewrite Hxt in Hxe, Hfb. subst x.
      eapply forallb_forall in Hok' as Hxok; [|exact Hxin]. cbn [node_ok] in Hxok. rewrite Hu in Hxok.
      apply andb_prop in Hxok as [Hxok Hbok]. apply andb_prop in Hxok as [Hxok Hbnd].
      assert (Hflat : flat_ok g t body = true) by (unfold flat_ok; rewrite Hbnd, Hbok; reflexivity).
      destruct (HN' f' eq_refl t i subs body Hfb Hq Hflat) as [r [Hr Hj]].
      pose proof (all_frags_ok _ _ _ Hok') as Hfr. unfold all_frags in Hfr. rewrite Forall_forall in Hfr.
      assert (Hhf : has_frag s' = true).
      { unfold has_frag. apply existsb_exists. exists (NFrag t [] body). split; [exact Hxin | reflexivity]. }
      unfold asubs. rewrite Hhf. cbn [render_gen rrender].
      apply in_split in Hxin as [l1 [l2 Hsplit]]. subst s'.
      assert (Hnd' : NoDup (map n_alias (l1 ++ NFrag t [] body :: l2))) by (apply nodup_str_NoDup; exact Hnd).
      rewrite map_app in Hnd'. simpl in Hnd'.
      assert (Hne1 : forall n, In n l1 -> n_alias n <> t).
      { intros n Hn He. apply NoDup_remove_2 in Hnd'. apply Hnd'. apply in_or_app. left. rewrite <- He. apply in_map; exact Hn. }
      set (pushed := if existsb (String.eqb "__typename") (map n_alias body) then [] else [("__typename", JStr t)]).
      assert (Hlhs : pick_gen K EV (tn_sel :: map annot (l1 ++ NFrag t [] body :: l2)) t i
                       (tn_sel :: map annot (l1 ++ NFrag t [] body :: l2)) =
                     JObj ((key_kv K t i ++ pushed) ++ evs EV (map annot body) t i)).
      { set (all := tn_sel :: map annot (l1 ++ NFrag t [] body :: l2)).
        assert (Hall : all = (tn_sel :: map annot l1) ++ (NFrag t [] (map annot body) :: map annot l2)) by (unfold all; rewrite map_app; reflexivity).
        rewrite Hall at 2. rewrite pick_gen_skip.
        - cbn [pick_gen]. rewrite String.eqb_refl. unfold all. rewrite pushed_eval.
          + rewrite map_annot_aliases. unfold pushed. rewrite <- app_assoc. reflexivity.
          + apply Forall_forall. intros n Hn. apply in_map_iff in Hn as [m [<- Hm]]. rewrite annot_is_field. apply Hfr. exact Hm.
        - intros n [<-|Hn]; [exact I|]. apply in_map_iff in Hn as [m [<- Hm]]. pose proof (Hne1 m Hm) as Hne.
          destruct m as [|on' d' b']; [exact I|]. simpl. exact Hne. }
      rewrite Hlhs, Hr. rewrite eval_obj_eq in Hj. inversion Hj as [| | | | |la lb Hlk]; subst. clear Hj.
      eexists. split; [reflexivity|]. constructor. cbn [andb].
      assert (Hk0 : lookup "__typename" (key_kv K t i) = None) by (unfold key_kv; destruct (K t); reflexivity).
      assert (Hbf : all_fields (map annot body)) by (apply all_fields_annot; apply (all_fields_ok g t); exact Hbok).
      unfold pushed. destruct (existsb (String.eqb "__typename") (map n_alias body)) eqn:E.
      + (* the fragment asks __typename itself *)
        assert (Hhk : has_key "__typename" lb = true).
        { pose proof (Hlk "__typename") as A. rewrite lookup_app, Hk0 in A.
          destruct (lookup "__typename" (evs EV (map annot body) t i)) eqn:El.
          - inversion A; subst. unfold has_key. match goal with Hs : Some _ = lookup _ lb |- _ => rewrite <- Hs end. reflexivity.
          - exfalso. apply lookup_none_notin in El. apply El. rewrite (evs_keys w g _ _ _ Hbf), map_annot_aliases.
            apply existsb_eqb_In; exact E. }
        rewrite Hhk. cbn [negb]. rewrite app_nil_r. exact Hlk.
      + assert (Hn1 : lookup "__typename" (key_kv K t i ++ evs EV (map annot body) t i) = None).
        { rewrite lookup_app, Hk0. apply lookup_none_notin. rewrite (evs_keys w g _ _ _ Hbf), map_annot_aliases.
          intros Hi. apply (proj2 (existsb_eqb_In _ _)) in Hi. congruence. }
        assert (Hn2 : lookup "__typename" lb = None).
        { pose proof (Hlk "__typename") as A. rewrite Hn1 in A. inversion A. reflexivity. }
        unfold has_key. rewrite Hn2. cbn [negb]. intros k. destruct (String.eqb k "__typename") eqn:Ek.
        * apply String.eqb_eq in Ek. subst k. rewrite !lookup_app, Hk0, Hn2. cbn [lookup]. rewrite String.eqb_refl. constructor. constructor.
        * pose proof (Hlk k) as A. rewrite !lookup_app in *. cbn [lookup]. rewrite Ek.
          destruct (lookup k (key_kv K t i)); destruct (lookup k lb); exact A.
    - (* a list *)
      assert (Hvl : Forall (vok g rt) l).
      { clear -Hv. simpl in Hv. induction l as [|x r IH]; constructor; [apply Hv | apply IH; apply Hv]. }
      assert (Hex : exists ys, mapo (fun x => rrender w g true f x subs) l = Some ys /\
                               Forall2 jeq (map (render_gen K EV (asubs s')) l) ys).
      { clear Hv. induction l as [|x r IH]; [exists []; split; [reflexivity | constructor]|].
        inversion H; subst. inversion Hvl; subst.
        destruct (IH H3 H5) as [ys [A B]]. destruct (H2 H4) as [y [Hy Hs]].
        exists (y :: ys). split; [simpl; rewrite Hy, A; reflexivity | constructor; auto]. }
      destruct Hex as [ys [A B]]. cbn [render_gen rrender]. rewrite A. exists (JArr ys). split; [reflexivity | constructor; exact B].
    - (* the plain object *)
      destruct rt as [|o|u]; simpl in Hv; try contradiction; [exfalso; apply (flatten_scalar_some _ _ _ Hfl)|]. subst o.
      destruct Hsub as [Hnd [Hok' _]]. cbn [rrender render_gen]. eexists. split; [reflexivity|].
      unfold asubs. rewrite (has_frag_fields _ (all_fields_ok g _ _ Hok')).
      destruct f as [|f']; [discriminate|].
      apply (leaf_norm f' subs s' v t Hfl Hq Hnd).
  Qed.

  Lemma rfield_fst : forall f ty id e y, rfield w g true f ty id e = Some y -> fst y = fst e.
  Proof.
    intros f ty id [al [n subs]] y H. destruct n as [al0 nm args ak dirs hs subs0|]; [|discriminate]. cbn [rfield] in H.
    destruct (String.eqb nm "__typename"); [inversion H; reflexivity|].
    destruct (String.eqb ty "Query").
    - destruct (rrender w g true f (w_value w ty id nm ak) subs); inversion H; reflexivity.
    - destruct (String.eqb nm "id"); [inversion H; reflexivity|]. destruct (String.eqb nm "org"); [inversion H; reflexivity|].
      destruct (rrender w g true f (w_value w ty id nm ak) subs); inversion H; reflexivity.
  Qed.

  (** the same dispatch on the field name on both sides *)
  Lemma dispatch : forall f ty id al nm args ak dirs hs0 subs0 hsn sn subs x,
    String.eqb nm "__typename" = false -> String.eqb nm federation_field = false ->
    rrender w g true f (w_value w ty id nm ak) subs = Some x ->
    jeq (render_gen K EV (asubs sn) (w_value w ty id nm ak)) x ->
    exists y, rfield w g true f ty id (al, (NField al nm args ak dirs hs0 subs0, subs)) = Some (al, y) /\
              jeq (nval w g (annot (NField al nm args ak dirs hsn sn)) ty id) y.
  Proof.
    intros f ty id al nm args ak dirs hs0 subs0 hsn sn subs x Etn Efed Hx Hj.
    rewrite nval_annot. unfold fval_gen. cbn [rfield]. rewrite Etn, Efed.
    destruct (String.eqb ty "Query").
    - rewrite Hx. exists x. split; [reflexivity | exact Hj].
    - destruct (String.eqb nm "id"); [eexists; split; [reflexivity | constructor]|].
      destruct (String.eqb nm "org"); [eexists; split; [reflexivity | constructor]|].
      rewrite Hx. exists x. split; [reflexivity | exact Hj].
  Qed.

  Lemma N_step : forall f, VN f -> N_stmt (S f).
  Proof.
    intros f HV ty id sels flat Hfl Hq Hflat.
    destruct (flatten_obj_inv f g ty sels flat Hfl) as [flat0 [merged [E0 [E1 F2]]]].
    pose proof (flatten_frags_fwf _ _ _ _ Hq E0) as Hfw.
    rewrite eval_ref_S, (fwf_collect _ _ _ _ E0).
    unfold flat_ok in Hflat. apply andb_prop in Hflat as [Hnd0 Hnok].
    assert (Hnd : NoDup (map n_alias flat)) by (apply nodup_str_NoDup; exact Hnd0).
    assert (Hal : map n_alias merged = map n_alias flat).
    { clear -F2. induction F2 as [|c n' merged flat Hc _ IH]; [reflexivity|]. simpl. rewrite IH. f_equal.
      destruct c as [al nm args ak dirs hs subs|]; [|contradiction]. destruct Hc as [t [_ [[s' [_ ->]]|[_ ->]]]]; reflexivity. }
    assert (Hndm : NoDup (map n_alias merged)) by (rewrite Hal; exact Hnd).
    assert (Hhs : Forall hs_ok flat0).
    { eapply Forall_impl; [|exact Hfw]. intros n [Hn _]. apply qwf_hs_ok; exact Hn. }
    set (G := group_alias flat0).
    assert (Entry : forall al n subs, lookup al G = Some (n, subs) ->
              exists n' x, In n' flat /\ n_alias n' = al /\ rfield w g true f ty id (al, (n, subs)) = Some (al, x) /\
                           jeq (nval w g (annot n') ty id) x).
    { intros al n subs Hl. unfold G in Hl. rewrite group_spec in Hl.
      destruct (head_of al flat0) as [first|] eqn:Eh; [|discriminate]. simpl in Hl. inversion Hl; subst first subs. clear Hl.
      destruct (head_of_in _ _ _ Eh) as [Hnin Hna].
      assert (Hinm : In al (map n_alias merged)).
      { apply (merged_aliases _ _ al E1). rewrite <- Hna. apply in_map; exact Hnin. }
      apply in_map_iff in Hinm as [c [Hca Hc]].
      destruct (merged_node _ _ c Hhs E1 Hndm Hc) as [first [Hf1 [Hstrip Hsubs]]].
      rewrite Hca, Eh in Hf1. inversion Hf1; subst first. clear Hf1. rewrite Hca in Hsubs.
      assert (Hch : exists n', In n' flat /\ child_of f g ty c n').
      { clear -F2 Hc. induction F2 as [|c0 n0 merged flat H0 _ IH]; [contradiction|]. destruct Hc as [->|Hc].
        - exists n0. split; [left; reflexivity | exact H0].
        - destruct (IH Hc) as [n' [A B]]. exists n'. split; [right; exact A | exact B]. }
      destruct Hch as [n' [Hn' Hchild]].
      rewrite Forall_forall in Hfw. destruct (Hfw n Hnin) as [Hnq Hnf].
      destruct n as [al0 nm args ak dirs hs0 subs0|]; [|discriminate]. simpl in Hna. subst al0.
      destruct c as [alc nmc argsc akc dirsc hsc subsc|]; [|contradiction].
      unfold strip in Hstrip. simpl in Hstrip. inversion Hstrip; subst alc nmc argsc akc dirsc hsc. simpl in Hsubs. subst subsc.
      destruct Hchild as [t [Ht Hcase]].
      eapply forallb_forall in Hnok as Hno; [|exact Hn'].
      exists n'.
      destruct (String.eqb nm "__typename") eqn:Etn.
      - exists (JStr ty). split; [exact Hn'|]. split; [destruct Hcase as [[s' [_ ->]]|[_ ->]]; reflexivity|].
        split; [cbn [rfield]; rewrite Etn; reflexivity|].
        destruct Hcase as [[s' [_ ->]]|[_ ->]]; rewrite nval_annot; unfold fval_gen; rewrite Etn; constructor.
      - destruct (find_gfield g ty nm) as [[t0 owners]|] eqn:Ef; [|discriminate]. simpl in Ht. inversion Ht; subst t0. clear Ht.
        pose proof (Hw ty id nm ak t owners Ef) as Hvok.
        destruct Hcase as [[s' [Hfs ->]]|[Hfs ->]]; cbn [node_ok] in Hno; rewrite Etn, Ef in Hno;
          apply andb_prop in Hno as [Hno Hno3]; apply andb_prop in Hno as [Halok _];
          destruct (alias_ok_parts _ _ Halok) as [_ [_ [Hfed _]]].
        + (* a selection set *)
          destruct hs0; [|apply flatten_none_sub in Hfs as [_ Hx]; discriminate].
          assert (Hsub : subs_ok g t s').
          { destruct t as [|o|u]; [discriminate| |].
            - apply andb_prop in Hno3 as [Hno3 H3]. apply andb_prop in Hno3 as [_ H2]. split; [exact H2 | split; [exact H3 | exact I]].
            - apply andb_prop in Hno3 as [Hno3 H4]. apply andb_prop in Hno3 as [Hno3 H5]. apply andb_prop in Hno3 as [Hno3 H3]. apply andb_prop in Hno3 as [_ H2].
              split; [exact H2 | split; [exact H3|]]. destruct (union_members g u) as [ms|]; [|discriminate]. exists ms. split; [reflexivity|].
              intros ->. discriminate. }
          assert (Hqs : Forall qwfP (subs_of al flat0)) by (apply subs_of_qwf; apply Forall_forall; exact Hfw).
          destruct (HV t (subs_of al flat0) s' Hfs Hqs Hsub _ Hvok) as [x [Hx Hj]].
          destruct (dispatch f ty id al nm args ak dirs true subs0 true s' _ x Etn Hfed Hx Hj) as [y [Hy1 Hy2]].
          exists y. auto.
        + (* a leaf *)
          destruct hs0; [exfalso; apply (flatten_some_sub _ _ _ _ Hfs)|].
          apply flatten_none_sub in Hfs as [-> _].
          pose proof (Hsv ty id nm ak owners Ef) as Hs.
          pose proof (sval_render f _ (subs_of al flat0) (asubs []) Hs) as Hx.
          destruct (dispatch f ty id al nm args ak dirs false subs0 false [] _ _ Etn Hfed Hx (jeq_refl _)) as [y [Hy1 Hy2]].
          exists y. auto. }
    assert (Hsucc : exists kvs, mapo (rfield w g true f ty id) G = Some kvs).
    { apply mapo_all_some. intros [al [n subs]] He.
      pose proof (in_lookup G al (n, subs) (group_alias_nodup flat0) He) as Hl.
      destruct (Entry al n subs Hl) as [n' [x [_ [_ [Hr _]]]]]. exists (al, x). exact Hr. }
    destruct Hsucc as [kvs Hkvs]. rewrite Hkvs. eexists. split; [reflexivity|].
    rewrite eval_obj_eq. constructor. intros k. rewrite !lookup_app.
    destruct (lookup k (key_kv K ty id)) as [v|]; [constructor; apply jeq_refl|].
    rewrite (mapo_lookup_fst _ G kvs (fun e y _ H => rfield_fst f ty id e y H) Hkvs k).
    pose proof (all_fields_annot _ (all_fields_ok g ty _ Hnok)) as Haf.
    destruct (lookup k G) as [[n subs]|] eqn:El.
    - destruct (Entry k n subs El) as [n' [x [Hn' [Ha [Hr Hj]]]]]. rewrite Hr. simpl. subst k.
      rewrite <- (annot_alias n'). rewrite (lookup_evs w g (map annot flat) ty id (annot n') Haf).
      + constructor. exact Hj.
      + rewrite map_annot_aliases; exact Hnd.
      + apply in_map; exact Hn'.
    - unfold G in El. rewrite group_spec in El. destruct (head_of k flat0) eqn:Eh; [discriminate|].
      assert (Hnin : ~ In k (map n_alias flat)).
      { rewrite <- Hal. intros Hin. apply (merged_aliases _ _ k E1) in Hin. apply (head_of_none _ _ Eh Hin). }
      assert (H1 : lookup k (evs EV (map annot flat) ty id) = None).
      { apply lookup_none_notin. rewrite (evs_keys w g _ _ _ Haf), map_annot_aliases. exact Hnin. }
      rewrite H1. constructor.
  Qed.

  (** normalisation preserves the meaning of the query *)
  Theorem norm_sem : forall f, N_stmt f.
  Proof.
    assert (H : forall f, N_stmt f /\ N_stmt (S f)).
    { induction f as [|f [I1 I2]].
      - assert (H0 : N_stmt 0) by (intros ty id sels flat H; discriminate). split; [exact H0|].
        apply N_step. apply VN_from; [exact H0 | intros f' Hf; discriminate].
      - split; [exact I2|]. apply N_step. apply VN_from; [exact I2 | intros f' Hf; inversion Hf; subst; exact I1]. }
    intros f. apply H.
  Qed.
End Norm.
