(** Closure: merging two closed, well-formed schemas gives a closed schema -- every type referenced from a
    surviving field, argument, input field or union member survives, with the kind the reference names. *)
From Coq Require Import List String Bool Arith Lia.
From Thunder Require Import Lib.Json Federation.Merge Federation.MergeProofsBase Federation.MergeProofsTref
  Federation.MergeProofs Federation.MergeProofsValid.
Import ListNotations.
Open Scope string_scope.
Open Scope list_scope.

Definition root_ok (s : schema) (r : string * string) : bool :=
  match find_type s (snd r) with Some ty => String.eqb (t_kind ty) (fst r) | None => false end.

Lemma ref_ok_root : forall s t, ref_ok s t = root_ok s (root_tref t).
Proof. intros s t. unfold ref_ok, root_ok. destruct (root_tref t) as [k n]. reflexivity. Qed.

Section Closed.
  Variables (md : mode) (a b m : schema).
  Hypothesis Wa : wf_schema a = true.
  Hypothesis Wb : wf_schema b = true.
  Hypothesis Hm : merge_schemas md a b = Some m.

  Let Na := wf_schema_names a Wa.
  Let Nb := wf_schema_names b Wb.
  Let Wm := merge_schemas_wf _ _ _ _ Wa Wb Hm.
  Let Nm := wf_schema_names m Wm.

  Lemma survive_both : forall n ta tb, find_type a n = Some ta -> find_type b n = Some tb ->
    exists tm, find_type m n = Some tm /\ t_kind tm = t_kind ta /\ t_kind tm = t_kind tb.
  Proof.
    intros n ta tb Ea Eb. unfold merge_schemas in Hm.
    destruct (merged_both t_name (keep_if_union md) (merge_types md) (merge_types_name md) a b m Na Nb Hm n ta tb Ea Eb)
      as [z [Hp [Hz Hn]]].
    exists z. split; [rewrite find_type_findn; apply findn_in; auto|].
    destruct (merge_types_inv _ _ _ _ Hp) as [Kab [Kz _]]. split; congruence.
  Qed.

  Lemma survive_left_union : md = Union -> forall n ta, find_type a n = Some ta ->
    exists tm, find_type m n = Some tm /\ t_kind tm = t_kind ta.
  Proof.
    intros Hmd n ta Ea. destruct (find_type b n) as [tb|] eqn:Eb.
    - destruct (survive_both n ta tb Ea Eb) as [tm [H1 [H2 _]]]. eauto.
    - unfold merge_schemas in Hm.
      destruct (merged_left_only t_name (keep_if_union md) (merge_types md) (keep_if_union_name t_name md) a b m Na Nb Hm n ta Ea Eb)
        as [Hs|[z [Hs [Hz Hn]]]]; subst md; simpl in Hs; [discriminate|].
      inversion Hs; subst z. exists ta. split; auto. rewrite find_type_findn. apply findn_in; auto.
  Qed.

  Lemma survive_right_union : md = Union -> forall n tb, find_type b n = Some tb ->
    exists tm, find_type m n = Some tm /\ t_kind tm = t_kind tb.
  Proof.
    intros Hmd n tb Eb. destruct (find_type a n) as [ta|] eqn:Ea.
    - destruct (survive_both n ta tb Ea Eb) as [tm [H1 [_ H3]]]. eauto.
    - unfold merge_schemas in Hm.
      destruct (merged_right_only t_name (keep_if_union md) (merge_types md) (keep_if_union_name t_name md) a b m Na Nb Hm n tb Ea Eb)
        as [Hs|[z [Hs [Hz Hn]]]]; subst md; simpl in Hs; [discriminate|].
      inversion Hs; subst z. exists tb. split; auto. rewrite find_type_findn. apply findn_in; auto.
  Qed.

  (** a reference good on both sides is good in the merge (either mode) *)
  Lemma root_both : forall r, root_ok a r = true -> root_ok b r = true -> root_ok m r = true.
  Proof.
    intros [k n] Ha Hb. unfold root_ok in *. simpl in *.
    destruct (find_type a n) as [ta|] eqn:Ea; [|discriminate].
    destruct (find_type b n) as [tb|] eqn:Eb; [|discriminate].
    destruct (survive_both n ta tb Ea Eb) as [tm [H1 [H2 _]]]. rewrite H1, H2. exact Ha.
  Qed.

  Lemma root_left_union : md = Union -> forall r, root_ok a r = true -> root_ok m r = true.
  Proof.
    intros Hmd [k n] Ha. unfold root_ok in *. simpl in *.
    destruct (find_type a n) as [ta|] eqn:Ea; [|discriminate].
    destruct (survive_left_union Hmd n ta Ea) as [tm [H1 H2]]. rewrite H1, H2. exact Ha.
  Qed.

  Lemma root_right_union : md = Union -> forall r, root_ok b r = true -> root_ok m r = true.
  Proof.
    intros Hmd [k n] Hb. unfold root_ok in *. simpl in *.
    destruct (find_type b n) as [tb|] eqn:Eb; [|discriminate].
    destruct (survive_right_union Hmd n tb Eb) as [tm [H1 H2]]. rewrite H1, H2. exact Hb.
  Qed.

  Lemma keep_union_inv : forall {A} (x z : A), keep_if_union md x = Some (Some z) -> md = Union /\ z = x.
  Proof. intros A x z H. destruct md; simpl in H; inversion H; auto. Qed.

  (** input fields (arguments or input-object fields) *)
  Lemma inputs_closed : forall xa xb r, NoDup (map if_name xa) -> NoDup (map if_name xb) ->
    merge_input_fields md xa xb = Some r ->
    forallb (fun i => ref_ok a (if_type i)) xa = true -> forallb (fun i => ref_ok b (if_type i)) xb = true ->
    forallb (fun i => ref_ok m (if_type i)) r = true.
  Proof.
    intros xa xb r Ha Hb Hr Ca Cb. rewrite merge_input_fields_unfold in Hr.
    apply forallb_forall. intros z Hz.
    destruct (merged_origin if_name (ifield_single md) ifield_pair (ifield_single_name md) ifield_pair_name xa xb r Ha Hb Hr z Hz)
      as [[x [y [Hx [Hy Hp]]]]|[[x [Hx [_ Hs]]]|[y [_ [Hy Hs]]]]].
    - apply findn_some in Hx as [Ix _]. apply findn_some in Hy as [Iy _].
      eapply forallb_forall in Ca; [|exact Ix]. eapply forallb_forall in Cb; [|exact Iy].
      unfold ifield_pair in Hp. destruct (merge_tref true (if_type x) (if_type y)) as [t|] eqn:Et; [|discriminate].
      inversion Hp; subst z. simpl. destruct (merge_tref_root _ _ _ _ Et) as [R1 R2].
      rewrite ref_ok_root in *. rewrite R1. apply root_both; [exact Ca | rewrite <- R1, R2; exact Cb].
    - apply findn_some in Hx as [Ix _]. eapply forallb_forall in Ca; [|exact Ix].
      unfold ifield_single in Hs. destruct (is_nonnull (if_type x)); [discriminate|].
      apply keep_union_inv in Hs as [Hmd ->]. rewrite ref_ok_root in *. apply root_left_union; auto.
    - apply findn_some in Hy as [Iy _]. eapply forallb_forall in Cb; [|exact Iy].
      unfold ifield_single in Hs. destruct (is_nonnull (if_type y)); [discriminate|].
      apply keep_union_inv in Hs as [Hmd ->]. rewrite ref_ok_root in *. apply root_right_union; auto.
  Qed.

  Definition field_closed (s : schema) (f : field) : bool :=
    ref_ok s (f_type f) && forallb (fun i => ref_ok s (if_type i)) (f_args f).

  Lemma fields_closed : forall xa xb r,
    NoDup (map f_name xa) -> NoDup (map f_name xb) ->
    (forall f, In f xa -> NoDup (map if_name (f_args f))) -> (forall f, In f xb -> NoDup (map if_name (f_args f))) ->
    merge_fields md xa xb = Some r ->
    forallb (field_closed a) xa = true -> forallb (field_closed b) xb = true ->
    forallb (field_closed m) r = true.
  Proof.
    intros xa xb r Ha Hb Aa Ab Hr Ca Cb. rewrite merge_fields_unfold in Hr.
    apply forallb_forall. intros z Hz.
    destruct (merged_origin f_name (keep_if_union md) (field_pair md) (keep_if_union_name f_name md) (field_pair_name md)
                xa xb r Ha Hb Hr z Hz) as [[x [y [Hx [Hy Hp]]]]|[[x [Hx [_ Hs]]]|[y [_ [Hy Hs]]]]].
    - apply findn_some in Hx as [Ix _]. apply findn_some in Hy as [Iy _].
      eapply forallb_forall in Ca; [|exact Ix]. eapply forallb_forall in Cb; [|exact Iy].
      unfold field_closed in Ca, Cb. apply andb_prop in Ca as [Ca1 Ca2]. apply andb_prop in Cb as [Cb1 Cb2].
      unfold field_pair in Hp. destruct (merge_tref false (f_type x) (f_type y)) as [t|] eqn:Et; [|discriminate].
      destruct (merge_input_fields md (f_args x) (f_args y)) as [args|] eqn:Eargs; [|discriminate].
      inversion Hp; subst z. unfold field_closed; simpl. destruct (merge_tref_root _ _ _ _ Et) as [R1 R2].
      rewrite (inputs_closed _ _ _ (Aa x Ix) (Ab y Iy) Eargs Ca2 Cb2), andb_true_r.
      rewrite ref_ok_root in *. rewrite R1. apply root_both; [exact Ca1 | rewrite <- R1, R2; exact Cb1].
    - apply findn_some in Hx as [Ix _]. eapply forallb_forall in Ca; [|exact Ix].
      apply keep_union_inv in Hs as [Hmd ->]. unfold field_closed in *. apply andb_prop in Ca as [Ca1 Ca2].
      rewrite ref_ok_root in *. rewrite (root_left_union Hmd _ Ca1). simpl.
      eapply forallb_impl_in; [|exact Ca2]. intros i _ Hi. cbv beta in Hi. rewrite ref_ok_root in *. apply root_left_union; auto.
    - apply findn_some in Hy as [Iy _]. eapply forallb_forall in Cb; [|exact Iy].
      apply keep_union_inv in Hs as [Hmd ->]. unfold field_closed in *. apply andb_prop in Cb as [Cb1 Cb2].
      rewrite ref_ok_root in *. rewrite (root_right_union Hmd _ Cb1). simpl.
      eapply forallb_impl_in; [|exact Cb2]. intros i _ Hi. cbv beta in Hi. rewrite ref_ok_root in *. apply root_right_union; auto.
  Qed.

  Definition pref_closed (s : schema) (p : pref) : bool := root_ok s (snd p, fst p).

  Lemma prefs_closed : forall xa xb r, NoDup (map fst xa) -> NoDup (map fst xb) ->
    merge_prefs md xa xb = Some r ->
    forallb (pref_closed a) xa = true -> forallb (pref_closed b) xb = true ->
    (* the two sides name the same kind for a member they share *)
    (forall x y, In x xa -> In y xb -> fst x = fst y -> snd x = snd y) ->
    forallb (pref_closed m) r = true.
  Proof.
    intros xa xb r Ha Hb Hr Ca Cb Hag. unfold merge_prefs in Hr.
    apply forallb_forall. intros z Hz.
    assert (Hpn : forall x y z0 : pref, (fun x _ : pref => Some x) x y = Some z0 -> fst z0 = fst x)
      by (intros x y z0 H; inversion H; reflexivity).
    destruct (merged_origin fst (keep_if_union md) (fun x _ => Some x) (keep_if_union_name fst md) Hpn
                xa xb r Ha Hb Hr z Hz) as [[x [y [Hx [Hy Hp]]]]|[[x [Hx [_ Hs]]]|[y [_ [Hy Hs]]]]].
    - inversion Hp; subst z. apply findn_some in Hx as [Ix Nx]. apply findn_some in Hy as [Iy Ny].
      eapply forallb_forall in Ca; [|exact Ix]. eapply forallb_forall in Cb; [|exact Iy].
      unfold pref_closed in *. apply root_both; auto.
      assert (fst x = fst y) by congruence. rewrite (Hag x y Ix Iy H), H. exact Cb.
    - apply findn_some in Hx as [Ix _]. eapply forallb_forall in Ca; [|exact Ix].
      apply keep_union_inv in Hs as [Hmd ->]. apply root_left_union; auto.
    - apply findn_some in Hy as [Iy _]. eapply forallb_forall in Cb; [|exact Iy].
      apply keep_union_inv in Hs as [Hmd ->]. apply root_right_union; auto.
  Qed.
End Closed.

Lemma closed_type_eq : forall s t, closed_type s t =
  forallb (field_closed s) (t_fields t) && forallb (fun i => ref_ok s (if_type i)) (t_inputs t) &&
  forallb (pref_closed s) (t_possible t).
Proof. reflexivity. Qed.

(** Closure of the merge (either mode). *)
Theorem merge_schemas_closed : forall md a b m,
  wf_schema a = true -> wf_schema b = true -> closed a = true -> closed b = true ->
  (forall x y p q, In x a -> In y b -> t_name x = t_name y -> In p (t_possible x) -> In q (t_possible y) ->
     fst p = fst q -> snd p = snd q) ->
  merge_schemas md a b = Some m -> closed m = true.
Proof.
  intros md a b m Wa Wb Ca Cb Hag Hm.
  pose proof (wf_schema_names a Wa) as Na. pose proof (wf_schema_names b Wb) as Nb.
  unfold closed. apply forallb_forall. intros z Hz.
  pose proof Hm as Hm'. unfold merge_schemas in Hm'.
  destruct (merged_origin t_name (keep_if_union md) (merge_types md) (keep_if_union_name t_name md) (merge_types_name md)
              a b m Na Nb Hm' z Hz) as [[x [y [Hx [Hy Hp]]]]|[[x [Hx [_ Hs]]]|[y [_ [Hy Hs]]]]].
  - apply findn_some in Hx as [Ix Nx]. apply findn_some in Hy as [Iy Ny].
    unfold closed in Ca, Cb. eapply forallb_forall in Ca; [|exact Ix]. eapply forallb_forall in Cb; [|exact Iy].
    rewrite closed_type_eq in Ca, Cb. apply andb_prop in Ca as [Ca' Ca3]. apply andb_prop in Ca' as [Ca1 Ca2].
    apply andb_prop in Cb as [Cb' Cb3]. apply andb_prop in Cb' as [Cb1 Cb2].
    destruct (wf_type_parts x (wf_schema_type a x Wa Ix)) as [Fx [Ax [Inx [Px _]]]].
    destruct (wf_type_parts y (wf_schema_type b y Wb Iy)) as [Fy [Ay [Iny [Py _]]]].
    rewrite closed_type_eq.
    (* the merged type has only the list of its kind *)
    unfold merge_types in Hp. destruct (negb (String.eqb (t_kind x) (t_kind y))); [discriminate|].
    destruct (String.eqb (t_kind x) "INPUT_OBJECT").
    { destruct (merge_input_fields md (t_inputs x) (t_inputs y)) as [r|] eqn:E; simpl in Hp; inversion Hp; subst z; simpl.
      rewrite (inputs_closed md a b m Wa Wb Hm _ _ _ Inx Iny E Ca2 Cb2). reflexivity. }
    destruct (String.eqb (t_kind x) "OBJECT").
    { destruct (merge_fields md (t_fields x) (t_fields y)) as [r|] eqn:E; simpl in Hp; inversion Hp; subst z; simpl.
      rewrite (fields_closed md a b m Wa Wb Hm _ _ _ Fx Fy Ax Ay E Ca1 Cb1). reflexivity. }
    destruct (String.eqb (t_kind x) "UNION").
    { destruct (merge_prefs md (t_possible x) (t_possible y)) as [r|] eqn:E; simpl in Hp; inversion Hp; subst z; simpl.
      rewrite (prefs_closed md a b m Wa Wb Hm _ _ _ Px Py E Ca3 Cb3); [reflexivity|].
      intros p q Hp' Hq' Hpq. eapply (Hag x y p q); eauto; congruence. }
    destruct (String.eqb (t_kind x) "INTERFACE").
    { destruct (merge_prefs md (t_interfaces x) (t_interfaces y)); simpl in Hp; inversion Hp; subst z; reflexivity. }
    destruct (String.eqb (t_kind x) "ENUM").
    { destruct (merge_enums md (t_enums x) (t_enums y)); simpl in Hp; inversion Hp; subst z; reflexivity. }
    destruct (String.eqb (t_kind x) "SCALAR"); [|discriminate]. inversion Hp; subst z; reflexivity.
  - (* a type only [a] has, kept by the union *)
    apply findn_some in Hx as [Ix _]. destruct md; simpl in Hs; inversion Hs; subst z.
    unfold closed in Ca. eapply forallb_forall in Ca; [|exact Ix].
    rewrite closed_type_eq in *. apply andb_prop in Ca as [Ca' Ca3]. apply andb_prop in Ca' as [Ca1 Ca2].
    assert (R : forall r, root_ok a r = true -> root_ok m r = true) by (apply (root_left_union Union a b m Wa Wb Hm eq_refl)).
    apply andb_true_intro. split; [apply andb_true_intro; split|].
    + eapply forallb_impl_in; [|exact Ca1]. intros f _ Hf. cbv beta in Hf. unfold field_closed in *. apply andb_prop in Hf as [H1 H2].
      rewrite ref_ok_root in *. rewrite (R _ H1). simpl.
      eapply forallb_impl_in; [|exact H2]. intros i _ Hi. cbv beta in Hi. rewrite ref_ok_root in *. auto.
    + eapply forallb_impl_in; [|exact Ca2]. intros i _ Hi. cbv beta in Hi. rewrite ref_ok_root in *. auto.
    + eapply forallb_impl_in; [|exact Ca3]. intros p _ Hp. cbv beta in Hp. unfold pref_closed in *. auto.
  - apply findn_some in Hy as [Iy _]. destruct md; simpl in Hs; inversion Hs; subst z.
    unfold closed in Cb. eapply forallb_forall in Cb; [|exact Iy].
    rewrite closed_type_eq in *. apply andb_prop in Cb as [Cb' Cb3]. apply andb_prop in Cb' as [Cb1 Cb2].
    assert (R : forall r, root_ok b r = true -> root_ok m r = true) by (apply (root_right_union Union a b m Wa Wb Hm eq_refl)).
    apply andb_true_intro. split; [apply andb_true_intro; split|].
    + eapply forallb_impl_in; [|exact Cb1]. intros f _ Hf. cbv beta in Hf. unfold field_closed in *. apply andb_prop in Hf as [H1 H2].
      rewrite ref_ok_root in *. rewrite (R _ H1). simpl.
      eapply forallb_impl_in; [|exact H2]. intros i _ Hi. cbv beta in Hi. rewrite ref_ok_root in *. auto.
    + eapply forallb_impl_in; [|exact Cb2]. intros i _ Hi. cbv beta in Hi. rewrite ref_ok_root in *. auto.
    + eapply forallb_impl_in; [|exact Cb3]. intros p _ Hp. cbv beta in Hp. unfold pref_closed in *. auto.
Qed.
