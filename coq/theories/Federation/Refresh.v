(** The gateway between and during requests, with schema refreshes as labels.  Definitions only.

    federation/executor.go: the executor holds ONE installed planner (Syncer.planner, with the merged schema it
    was built from) behind plannerMu.  Executor.poll (executor.go:124-139) fetches a new (planner, schema) on a
    ticker and replaces the installed one atomically under the write lock (setPlanner, executor.go:66-73).
    Executor.Execute (executor.go:448-470) reads the installed planner ONCE, under the read lock (getPlanner,
    executor.go:60-64), plans with it, and hands that same planner down to execute and to every runOnService
    (the [planner] parameter, executor.go:330, 340, 374, 140), where the hop sub-queries take the federated keys
    of a service from planner.schema (executor.go:166-203).

    State: the installed snapshot [gw_cur] (a [gschema] stands for the pair (schema, planner)), the requests in
    flight (each with the snapshot it captured, its query and how far its execution has got) and the answers
    delivered.  Labels, one per critical section / atomic operation:
      [LRefresh g']   poll: FetchPlannerAndSchema + setPlanner -- the installed snapshot is replaced;
      [LBegin rid q]  Execute: getPlanner (captures the installed snapshot), flatten + planRoot with the
                      captured planner, the coordinator's own root object;
      [LStep rid]     one sub-plan directly below the root is run (its root sub-query and every hop below it)
                      and stitched into the request's result -- one iteration of the loop over p.After at the
                      root level of Executor.execute (Go runs them in parallel; they write disjoint keys or
                      fail, so the model runs them one after the other, like [exec_plan]);
      [LEnd rid]      the answer is delivered (deleteKey on the one result), or the error.
    [reread = false] is the code as it is: every step uses the snapshot the request captured.
    [reread = true] is the BAD variant in which execution re-reads the installed planner (runOnService calling
    e.getPlanner() instead of using its [planner] parameter): the federated keys sent to a service -- and in
    this model the whole [gschema] the step runs with -- come from [gw_cur] at the time of the step.
    The re-read happens once per [LStep], coarser than "once per runOnService"; it is enough to refute the
    variant (RefreshProofs.reread_refuted).

    The world of data [w] is a parameter, fixed over a trace: what a request sees when the DATA changes while it
    runs is property C04's business (reactive re-evaluation), not this one's.

    NOT modelled: the Executors map (the set of service clients is fixed for the life of an Executor;
    setPlanner swaps only the entry of the introspection client, which queries for data never reach) and the
    Go data race on that map (setPlanner writes it under plannerMu while runOnService reads it without any
    lock, executor.go:72 / 142; the harness counts runtime aborts it provokes and does not claim them). *)
From Coq Require Import List String Bool Arith ZArith.
From Thunder Require Import Lib.Json Federation.Normalize Federation.Planner Federation.Executor.
Import ListNotations.
Open Scope string_scope.
Open Scope list_scope.

(** association lists keyed by request id *)
Fixpoint nlookup {A} (k : nat) (l : list (nat * A)) : option A :=
  match l with
  | [] => None
  | (k', v) :: t => if Nat.eqb k k' then Some v else nlookup k t
  end.

Fixpoint nremove {A} (k : nat) (l : list (nat * A)) : list (nat * A) :=
  match l with
  | [] => []
  | (k', v) :: t => if Nat.eqb k k' then nremove k t else (k', v) :: nremove k t
  end.

Definition nset {A} (k : nat) (v : A) (l : list (nat * A)) : list (nat * A) := (k, v) :: nremove k l.

Inductive label :=
| LRefresh (g' : gschema)
| LBegin (rid : nat) (q : list node)
| LStep (rid : nat)
| LEnd (rid : nat).

(** how far a request has got: failed (planning or a sub-plan), or running with the sub-plans below the root
    still to do and the results so far (what Executor.execute holds in [res]) *)
Inductive phase :=
| PFailed
| PRunning (coord : bool) (todo : list plan) (cur : list json).

Record request := mk_request {
  rq_snap : gschema;          (* the planner Execute captured *)
  rq_query : list node;
  rq_phase : phase
}.

Record gateway := mk_gateway {
  gw_cur : gschema;                       (* Syncer.planner *)
  gw_reqs : list (nat * request);         (* requests in flight *)
  gw_out : list (nat * option json)       (* answers delivered (None: an error) *)
}.

Definition gw_init (g0 : gschema) : gateway := mk_gateway g0 [] [].

(** fuel of the normaliser / of the planner, as in [fed_exec_gen] *)
Definition norm_fuel (q : list node) : nat := 2 * depth_list q + 4.
Definition plan_fuel (q : list node) : nat := 2 * norm_fuel q + 2.

Section Gateway.
  Variable w : world.
  Variable pick : list string -> option string.
  Variable reread : bool.

  (** flatten + planRoot with planner [g] *)
  Definition plan_phase (g : gschema) (q : list node) : option plan :=
    match flatten_gen true (norm_fuel q) false g (RObj "Query") (Some q) with
    | Some (Some flat) => plan_root g pick (plan_fuel q) flat
    | _ => None
    end.

  (** Execute up to the loop over the root's sub-plans: the plan, and the root's own result *)
  Definition begin_phase (g : gschema) (q : list node) : phase :=
    match plan_phase g q with
    | None => PFailed
    | Some (Plan _ svc ty sels after) =>
        let coord := String.eqb svc coordinator in
        match (if coord then Some [JObj (root_typenames ty sels)] else run_on_service w g svc ty sels None) with
        | None => PFailed
        | Some res => PRunning coord after res
        end
    end.

  (** one sub-plan below the root run with planner [g] and stitched in *)
  Definition step_phase (g : gschema) (ph : phase) : phase :=
    match ph with
    | PRunning coord (sub :: t) cur =>
        match stitch true (exec_plan w g true sub) coord (p_path sub) cur with
        | Some cur' => PRunning coord t cur'
        | None => PFailed
        end
    | _ => ph
    end.

  (** what Execute returns once nothing is left to do ([None]: not finished yet) *)
  Definition answer_phase (ph : phase) : option (option json) :=
    match ph with
    | PFailed => Some None
    | PRunning _ [] [r] => Some (Some (delete_key federation_field r))
    | PRunning _ [] _ => Some None
    | PRunning _ (_ :: _) _ => None
    end.

  (** a label that is not enabled (unknown or reused request id, [LEnd] before the end) leaves the state as
      it is; request ids are not reused *)
  Definition gw_step (s : gateway) (l : label) : gateway :=
    match l with
    | LRefresh g' => mk_gateway g' (gw_reqs s) (gw_out s)
    | LBegin rid q =>
        match nlookup rid (gw_reqs s), nlookup rid (gw_out s) with
        | None, None =>
            mk_gateway (gw_cur s)
                       (nset rid (mk_request (gw_cur s) q (begin_phase (gw_cur s) q)) (gw_reqs s))
                       (gw_out s)
        | _, _ => s
        end
    | LStep rid =>
        match nlookup rid (gw_reqs s) with
        | Some r =>
            let g := if reread then gw_cur s else rq_snap r in
            mk_gateway (gw_cur s)
                       (nset rid (mk_request (rq_snap r) (rq_query r) (step_phase g (rq_phase r))) (gw_reqs s))
                       (gw_out s)
        | None => s
        end
    | LEnd rid =>
        match nlookup rid (gw_reqs s) with
        | Some r =>
            match answer_phase (rq_phase r) with
            | Some a => mk_gateway (gw_cur s) (nremove rid (gw_reqs s)) (nset rid a (gw_out s))
            | None => s
            end
        | None => s
        end
    end.

  Definition gw_run (ls : list label) (s : gateway) : gateway := fold_left gw_step ls s.

  Definition delivered (rid : nat) (s : gateway) : option (option json) := nlookup rid (gw_out s).
End Gateway.

(** * Reading a trace *)
(** the snapshot installed after [ls], from [g0] *)
Fixpoint installed (g0 : gschema) (ls : list label) : gschema :=
  match ls with
  | [] => g0
  | LRefresh g' :: t => installed g' t
  | _ :: t => installed g0 t
  end.

Definition concerns (rid : nat) (l : label) : bool :=
  match l with
  | LRefresh _ => false
  | LBegin r _ | LStep r | LEnd r => Nat.eqb r rid
  end.

(** the labels of request [rid] *)
Definition proj (rid : nat) (ls : list label) : list label := filter (concerns rid) ls.

Definition is_refresh (l : label) : bool := match l with LRefresh _ => true | _ => false end.
Definition without_refreshes (ls : list label) : list label := filter (fun l => negb (is_refresh l)) ls.

(** [rid] has not begun in [ls] *)
Definition fresh (rid : nat) (ls : list label) : bool :=
  forallb (fun l => match l with LBegin r _ => negb (Nat.eqb r rid) | _ => true end) ls.

(** * A concrete federation for the examples: s1 serves Query.self : A and A.p, s2 serves A.q; a query
    { self { p q } } needs a hop from s1 to s2 *)
Definition rg (keys2 : list string) : gschema :=
  mk_gschema ["A"; "Query"] []
    [("A", "id", RScalar, ["s1"; "s2"]); ("A", "_federation", RObj "A", ["s1"; "s2"]);
     ("A", "p", RScalar, ["s1"]); ("A", "q", RScalar, ["s2"]);
     ("Query", "self", RObj "A", ["s1"]); ("Query", "other", RObj "A", ["s2"]);
     ("Query", "_federation", RObj "Federation", ["s1"; "s2"])]
    [("A", "s1", ["id"]); ("A", "s2", keys2)] [] [].

Definition rg0 : gschema := rg ["id"].        (* s2 identifies an A by id *)
Definition rg1 : gschema := rg ["org"].       (* another version of s2: by org; the captured plan fetched id only *)

Definition rw : world :=
  mk_world (fun ty id f _ =>
              if String.eqb f "self" then ARef "A" 7%Z
              else if String.eqb f "other" then ARef "A" 8%Z
              else if String.eqb f "p" then AScalar (JNum (10 + id)%Z)
              else if String.eqb f "q" then AScalar (JNum (20 + id)%Z)
              else ANull)
           (fun _ _ => 0%Z).

Definition rfld (n : string) (subs : list node) : node :=
  NField n n (JObj []) "" [] (match subs with [] => false | _ => true end) subs.

Definition rpick (l : list string) : option string := match l with x :: _ => Some x | [] => None end.

Definition rq1 : list node := [rfld "self" [rfld "p" []; rfld "q" []]].
Definition rq2 : list node := [rfld "other" [rfld "q" []; rfld "p" []]; rfld "self" [rfld "q" []]].

(** * Correspondence: the transition system evaluated on a trace the implementation just ran.
    The harness (cmd/c06/gate.go, refresh_trace.go) holds a request after planning, with every root sub-query
    parked inside a service client, installs the planner of another version set through setPlanner, releases the
    request and records its answer.  As labels: Begin, Refresh to the other snapshot, one Step per root sub-plan
    of the plan the gateway made, End.  The answer the model delivers for that trace must be the recorded one. *)
Record refresh_case := mk_refresh_case {
  rc_g : gschema;                (* installed at the begin of the request *)
  rc_world : world;
  rc_query : list node;
  rc_other : gschema;            (* installed by the refresh that lands mid-request *)
  rc_steps : nat;                (* root sub-plans of the gateway's plan *)
  rc_answer : option json        (* the gateway's answer to the request (None: an error) *)
}.

Definition refresh_trace (c : refresh_case) : list label :=
  LBegin 0 (rc_query c) :: LRefresh (rc_other c) :: repeat (LStep 0) (rc_steps c) ++ [LEnd 0].

(** component codes continue those of Check06.check_case: 7 = the answer delivered by the model over the trace
    differs from the gateway's, 8 = the model's request is not finished after the gateway's number of steps *)
Definition check_refresh_case (c : refresh_case) : list nat :=
  match delivered 0 (gw_run (rc_world c) rpick false (refresh_trace c) (gw_init (rc_g c))) with
  | None => [8]                                  (* the model's request is not finished after that many steps *)
  | Some a =>
      match option_map norm a, rc_answer c with
      | Some x, Some y => if json_eqb x y then [] else [7]
      | None, None => []
      | _, _ => [7]
      end
  end.

Fixpoint refresh_mismatches (_ : nat) (cs : list (nat * refresh_case)) : list (nat * list nat) :=
  match cs with
  | [] => []
  | (i, c) :: t => match check_refresh_case c with
                   | [] => refresh_mismatches 0 t
                   | l => (i, l) :: refresh_mismatches 0 t
                   end
  end.
